#!/bin/bash
# usage: ./check.sh <property-id> [quick|thorough]
# Decides the static clauses of one property on /repo's *current* working tree.
# Exit 0 = held (KNOWN-FINDING lines for recorded defects), 1 = VIOLATION line printed.
set -u
cd "$(dirname "$0")"
export GOFLAGS=-mod=mod GOPROXY=off GOSUMDB=off GOTOOLCHAIN=local GOWORK=off
PROP="$1"; TIER="${2:-${VERIF_TIER:-quick}}"
REPO="${RR_REPO:-/repo}"
if [ ! -x bin/rrcheck ] || [ -n "$(find checker -name '*.go' -newer bin/rrcheck 2>/dev/null | head -1)" ]; then
  ./setup.sh >/dev/null 2>&1 || { echo "setup failed"; ./setup.sh; exit 2; }
fi
if [ "$TIER" = thorough ]; then
  exec python3 tools/thorough.py "$PROP" "$REPO"
fi
exec bin/rrcheck -prop "$PROP" -tier quick -repo "$REPO" -verif "$(pwd)"
