package service

// F27 (C07): the recovery byte of a native transaction's signature has two
// accepted encodings. secp256k1.checkSignature maps 27..30 onto 0..3 in place
// ("为了跟以太坊保持一致"), so a transaction signed with v = 0/1 is equally accepted
// with v = 27/28 (and vice versa): changing the signature of an accepted
// transaction does not make it rejected.
// Throw-away demo: copy into src/service of a scratch worktree and run
//   go test -vet=off -count=1 -run TestF27 ./src/service/
// It FAILS on the unchanged tree.

import (
	"os"
	"testing"

	"com.tuntun.rangers/node/src/common"
	"com.tuntun.rangers/node/src/middleware/log"
	"com.tuntun.rangers/node/src/middleware/types"
)

func TestF27RecoveryByteHasTwoEncodings(t *testing.T) {
	common.Init(0, "f27.ini", "dev")
	txPoolLogger = log.GetLoggerByIndex(log.TxPoolLogConfig, "0")
	defer func() {
		log.Close()
		os.RemoveAll("f27.ini")
		os.RemoveAll("logs")
	}()
	const height = 100
	pool := &TxPool{}
	sk := common.GenerateKey("")
	tx := &types.Transaction{
		Source: sk.GetPubKey().GetAddress().GetHexString(), Target: "0x2f4f09b722a6e5b77be17c9a99c785fa7035a09f",
		Type: types.TransactionTypeOperatorEvent, Time: "2024-01-01 00:00:00", Data: `{"transfer":"1"}`, Nonce: 7, ChainId: common.ChainId(height),
	}
	tx.Hash = tx.GenHash()
	sign := sk.Sign(tx.Hash.Bytes())
	tx.Sign = &sign
	if err := pool.VerifyTransaction(tx, height); err != nil {
		t.Fatalf("honest transaction rejected: %v", err)
	}
	raw := sign.Bytes()
	alt := append([]byte(nil), raw...)
	if alt[64] < 27 {
		alt[64] += 27
	} else {
		alt[64] -= 27
	}
	m := *tx
	m.Sign = common.BytesToSign(alt)
	if err := pool.VerifyTransaction(&m, height); err == nil {
		t.Errorf("transaction still accepted after changing the last signature byte 0x%02x -> 0x%02x: the signature of an accepted transaction can be altered without invalidating it", raw[64], alt[64])
	}
}
