package vm

import (
	"math/big"
	"os"
	"strconv"
	"testing"

	"com.tuntun.rangers/node/src/common"
	"com.tuntun.rangers/node/src/middleware/db"
	"com.tuntun.rangers/node/src/middleware/types"
	"com.tuntun.rangers/node/src/service"
	"com.tuntun.rangers/node/src/storage/account"
	"com.tuntun.rangers/node/src/utility"
)

func TestF21UnstakeFraction(t *testing.T) {
	common.Init(0, "1.ini", "dev")
	common.SetBlockHeight(100)
	service.InitService()
	service.InitRefundManager(nil, nil)
	service.InitRewardCalculator(nil, nil, nil)
	InitVM()
	defer func() { os.RemoveAll("logs"); os.RemoveAll("storage0"); os.Remove("1.ini") }()
	mem, _ := db.NewMemDatabase()
	state, _ := account.NewAccountDB(common.Hash{}, account.NewDatabase(mem))
	a := common.HexToAddress("0x00000000000000000000000000000000000bb001")
	origin := common.HexToAddress("0x00000000000000000000000000000000000cc001")
	miner := &types.Miner{Id: common.FromHex("0x" + "11" + "00000000000000000000000000000000000000000000000000000000000031"[2:]), Type: common.MinerTypeProposer, Stake: 5000, Account: a.Bytes(), Status: common.MinerStatusNormal, PublicKey: []byte{1}, VrfPublicKey: []byte{1}}
	if service.MinerManagerImpl.InsertMiner(miner, state) != 1 {
		t.Fatal("insert")
	}
	state.IntermediateRoot(true) // flush so that lookup by account sees it
	val, _ := utility.StrToBigInt("0.9")
	code := []byte{byte(PUSH20)}
	code = append(code, a.Bytes()...)
	code = append(code, byte(PUSH32))
	code = append(code, append(make([]byte, 32-len(val.Bytes())), val.Bytes()...)...)
	code = append(code, byte(UNSTAKE), byte(STOP))
	state.SetCode(a, code)
	cfg := &testConfig{State: state, GasLimit: 100000000, BlockNumber: big.NewInt(100), Origin: origin}
	before := service.MinerManagerImpl.GetMiner(miner.Id, state).Stake
	if _, _, err := mockCall(a, nil, cfg); err != nil {
		t.Fatal(err)
	}
	after := service.MinerManagerImpl.GetMiner(miner.Id, state).Stake
	refundAddr := common.BytesToAddress(common.Sha256(utility.StrToBytes("refund" + strconv.FormatUint(100+36000, 10))))
	_ = refundAddr
	var found *big.Int
	for h := uint64(0); h < 200000 && found == nil; h++ {
		for _, pfx := range []string{"refund", "r", "refund_", ""} {
			ad := common.BytesToAddress(common.Sha256(utility.StrToBytes(pfx + strconv.FormatUint(h, 10))))
			if m := state.GetAllRefund(ad); len(m) > 0 {
				for k, v := range m {
					t.Logf("height %d prefix %q: refund scheduled to %s: %s", h, pfx, k.String(), v.String())
					found = v
				}
			}
		}
	}
	t.Logf("stake before %d after %d", before, after)
	if found != nil && before == after && found.Sign() > 0 {
		t.Fatalf("UNSTAKE of 0.9 RPG left the stake at %d but scheduled a refund of %s: tokens created", after, found.String())
	}
}
