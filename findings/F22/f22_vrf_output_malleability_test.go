package ed25519

import (
	"bytes"
	"crypto/sha256"
	"testing"

	"com.tuntun.rangers/node/src/common/ed25519/edwards25519"
)

// Finding F22 (C16): two proofs accepted for the same key and message carry different lottery
// outputs. The node takes the lottery output as the first 32 bytes of the proof (the encoded
// point Gamma, consensus/vrf.VRFProof2Hash) without clearing the cofactor, and ECVRFVerify does
// not reject a Gamma shifted by a small-order point: a prover who knows the secret key replaces
// Gamma by Gamma+T (T = (0,-1), order 2) and grinds the nonce until the challenge c is even.
func TestF22_TwoAcceptedProofsDifferentLotteryOutput(t *testing.T) {
	seed := sha256.Sum256([]byte("f22 key"))
	pk, sk, err := GenerateKey(bytes.NewReader(append(seed[:], seed[:]...)))
	if err != nil {
		t.Fatal(err)
	}
	m := []byte("block 1000 seed")
	honest, err := ECVRFProve(sk, m)
	if err != nil {
		t.Fatal(err)
	}
	if ok, _ := ECVRFVerify(pk, honest, m); !ok {
		t.Fatal("honest proof rejected")
	}

	x, _ := expandSecret(sk)
	h := hashToCurve(m, pk)
	hPoint := new(edwards25519.ExtendedGroupElement)
	hPoint.FromBytes(&h)
	gamma := edwards25519.GeScalarMult(hPoint, x)

	// T = (0, -1): y = p-1, little endian, sign bit 0
	tBytes := [32]byte{0xec}
	for i := 1; i < 31; i++ {
		tBytes[i] = 0xff
	}
	tBytes[31] = 0x7f
	tPoint := new(edwards25519.ExtendedGroupElement)
	if !tPoint.FromBytes(&tBytes) {
		t.Fatal("cannot decode the order-2 point")
	}
	tCached := new(edwards25519.CachedGroupElement)
	tPoint.ToCached(tCached)
	sum := new(edwards25519.CompletedGroupElement)
	edwards25519.GeSub(sum, gamma, tCached) // Gamma - T = Gamma + T (T has order 2)
	gamma2 := new(edwards25519.ExtendedGroupElement)
	sum.ToExtended(gamma2)

	for ctr := 0; ctr < 64; ctr++ {
		kh := sha256.Sum256([]byte{byte(ctr), 'k'})
		k := new([32]byte)
		copy(k[:], kh[:])
		k[31] &= 0x0f
		kB := new(edwards25519.ExtendedGroupElement)
		edwards25519.GeScalarMultBase(kB, k)
		kH := edwards25519.GeScalarMult(hPoint, k)
		c := hashPoints(*hPoint, *gamma2, *kB, *kH)
		if c[0]&1 != 0 {
			continue // need c*T = identity
		}
		cScalar := new([32]byte)
		copy(cScalar[:], c[:])
		s := new([32]byte)
		edwards25519.ScMulAdd(s, cScalar, x, k)
		g2 := new([32]byte)
		gamma2.ToBytes(g2)
		forged := append(append(append([]byte{}, g2[:]...), c[:]...), s[:]...)
		ok, err := ECVRFVerify(pk, forged, m)
		if err != nil || !ok {
			t.Fatalf("forged proof rejected (ctr=%d, err=%v): the implementation is not malleable this way", ctr, err)
		}
		if bytes.Equal(forged[:32], honest[:32]) {
			t.Fatal("same output")
		}
		t.Logf("honest proof accepted, lottery output %x", honest[:32])
		t.Logf("forged proof accepted, lottery output %x (nonce counter %d)", forged[:32], ctr)
		t.Errorf("C16 violated: two proofs accepted for one key and message carry different lottery outputs")
		return
	}
	t.Fatal("no even challenge found in 64 tries")
}
