package vm

// F28 (C11): the BLOBHASH handler (opBlobHash, installed by doProposal022)
// calls index.SetBytes32([]byte{}); uint256's SetBytes32 reads in[31], so the
// three-byte program PUSH1 0; BLOBHASH panics with "index out of range [31]
// with length 0" and the panic unwinds through EVM.Call into the caller
// instead of the frame ending as an ordinary (failed or successful) call.
// Throw-away demo: copy into src/vm of a scratch worktree and run
//   go test -vet=off -count=1 -run TestF28 ./src/vm/
// It FAILS on the tree before the fix.

import (
	"math/big"
	"os"
	"testing"

	"com.tuntun.rangers/node/src/common"
	"com.tuntun.rangers/node/src/middleware/db"
	"com.tuntun.rangers/node/src/storage/account"
)

func TestF28BlobHashDoesNotCrashTheHost(t *testing.T) {
	mockInit()
	defer func() {
		os.RemoveAll("logs")
		os.RemoveAll("storage0")
		os.Remove("1.ini")
	}()
	h := common.LocalChainConfig.Proposal022Block
	common.SetBlockHeight(h)

	mem, _ := db.NewMemDatabase()
	state, _ := account.NewAccountDB(common.Hash{}, account.NewDatabase(mem))
	address := common.HexToAddress("0x0f28")
	state.CreateAccount(address)
	// PUSH1 0; BLOBHASH; PUSH1 0; MSTORE; PUSH1 32; PUSH1 0; RETURN
	state.SetCode(address, []byte{byte(PUSH1), 0, 0x49, byte(PUSH1), 0, byte(MSTORE), byte(PUSH1), 32, byte(PUSH1), 0, byte(RETURN)})

	cfg := &testConfig{State: state, GasLimit: 1000000, BlockNumber: new(big.Int).SetUint64(h)}
	setDefaults(cfg)
	evm := mockEVM(cfg)

	defer func() {
		if r := recover(); r != nil {
			t.Fatalf("BLOBHASH crashed the host: %v", r)
		}
	}()
	ret, _, _, err := evm.Call(mockContractRef{cfg.Origin}, address, nil, 1000000, new(big.Int))
	if err != nil {
		t.Fatalf("BLOBHASH of a transaction without blobs should push zero, got error %v", err)
	}
	if len(ret) != 32 || new(big.Int).SetBytes(ret).Sign() != 0 {
		t.Fatalf("BLOBHASH(0) without blobs must be zero, got %x", ret)
	}
}
