package bn256

// F26 (C14): the pairing is not bilinear at a negated affine G2 point.
// twistPoint.Neg sets the cached z² (field t) to zero, and MakeAffine returns at
// once for a point whose z is already 1, so a G2 point that was parsed from
// bytes (affine) and then negated enters the Miller loop with z = 1, t = 0.
// Throw-away demo: copy into src/consensus/groupsig/bn256 of a scratch worktree,
//   go test -vet=off -count=1 -run TestF26 ./src/consensus/groupsig/bn256/
// It FAILS on the unchanged tree.

import (
	"math/big"
	"testing"
)

func TestF26PairingAtNegatedAffineG2(t *testing.T) {
	p := new(G1).ScalarBaseMult(big.NewInt(7))
	q0 := new(G2).ScalarBaseMult(big.NewInt(11))
	// make Q affine the way every key that arrives over the wire is: parse it from bytes
	q := new(G2)
	if _, err := q.Unmarshal(q0.Marshal()); err != nil {
		t.Fatal(err)
	}
	negQ := new(G2).Neg(q)
	lhs := new(GT).Add(Pair(p, q), Pair(p, negQ)) // e(P,Q)·e(P,−Q)
	one := Pair(p, new(G2).ScalarBaseMult(big.NewInt(0)))
	if string(lhs.Marshal()) != string(one.Marshal()) {
		t.Errorf("e(P,Q)·e(P,−Q) != 1 for an affine Q: the pairing is not bilinear at a negated G2 point")
	}
	// the same −Q obtained by scalar multiplication (Jacobian, normalised inside the pairing) behaves
	order := Order
	negQ2 := new(G2).ScalarMult(q, new(big.Int).Sub(order, big.NewInt(1)))
	lhs2 := new(GT).Add(Pair(p, q), Pair(p, negQ2))
	if string(lhs2.Marshal()) != string(one.Marshal()) {
		t.Errorf("control failed: e(P,Q)·e(P,(r−1)Q) != 1")
	}
	if string(Pair(p, negQ).Marshal()) != string(Pair(p, negQ2).Marshal()) {
		t.Errorf("Pair(P, Neg(Q)) != Pair(P, (r−1)·Q) although both second operands are the same group element")
	}
}
