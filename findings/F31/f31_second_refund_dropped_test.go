package executor

// F31 (C20): two miner-refund transactions of different accounts in one block
// whose refunds mature at the same height: minerRefundExecutor.Execute reads
// the height's RefundInfoList out of the context map BY VALUE, appends the
// second account's refund to that copy and never stores the copy back, so the
// second refund is lost: the miner's stake is reduced (or the record removed)
// but nothing is put in escrow — locked + escrow + liquid shrinks.
//
// Throw-away demo: copy into src/executor of a scratch worktree and run
//   go test -vet=off -count=1 -run TestF31 ./src/executor/
// It FAILS on the unchanged tree.

import (
	"encoding/json"
	"fmt"
	"math/big"
	"testing"

	"com.tuntun.rangers/node/src/common"
	"com.tuntun.rangers/node/src/middleware/types"
	"com.tuntun.rangers/node/src/service"
	"com.tuntun.rangers/node/src/storage/account"
	"com.tuntun.rangers/node/src/utility"
)

func f31Reopen(t *testing.T, db *account.AccountDB) *account.AccountDB {
	root, err := db.Commit(true)
	if err != nil {
		t.Fatalf("commit: %v", err)
	}
	if err = triedb.TrieDB().Commit(root, false); err != nil {
		t.Fatalf("trie commit: %v", err)
	}
	next, err := account.NewAccountDB(root, triedb)
	if err != nil {
		t.Fatalf("reopen: %v", err)
	}
	return next
}

// one block: all its transactions share one context, as in core.VMExecutor
func f31Block(t *testing.T, db *account.AccountDB, height uint64, txs ...*types.Transaction) {
	context := map[string]interface{}{"refund": make(map[uint64]types.RefundInfoList), "situation": "casting"}
	header := &types.BlockHeader{Height: height}
	for _, tx := range txs {
		snapshot := db.Snapshot()
		ok, msg := GetTxExecutor(tx.Type).Execute(tx, header, db, context)
		if !ok {
			db.RevertToSnapshot(snapshot)
			t.Fatalf("height %d: transaction rejected: %s", height, msg)
		}
	}
	service.RefundManagerImpl.Add(types.GetRefundInfo(context), db)
	service.RefundManagerImpl.CheckAndMove(height, db)
	db.IntermediateRoot(true)
}

func TestF31TwoRefundsMaturingAtTheSameHeight(t *testing.T) {
	setup("f31")
	defer teardown("f31")
	InitExecutors()

	db := getTestAccountDB()
	owners := []string{"0x00000000000000000000000000000000000000a1", "0x00000000000000000000000000000000000000a2"}
	ids := [][]byte{
		common.FromHex("0x1111111111111111111111111111111111111111111111111111111111111111"),
		common.FromHex("0x2222222222222222222222222222222222222222222222222222222222222222"),
	}
	initial, _ := utility.StrToBigInt("10000")
	for _, o := range owners {
		db.SetBalance(common.HexToAddress(o), initial)
	}
	db = f31Reopen(t, db)

	stake := common.ValidatorStake * 3
	for i, o := range owners {
		payload, _ := json.Marshal(&types.Miner{Id: ids[i], Type: common.MinerTypeValidator, Stake: stake, PublicKey: []byte{1, 2, 3, byte(i)}, VrfPublicKey: []byte{5, 6, 7, byte(i)}})
		f31Block(t, db, uint64(100+i), &types.Transaction{Type: types.TransactionTypeMinerApply, Source: o, Data: string(payload)})
		db = f31Reopen(t, db)
	}

	liquid := func() *big.Int {
		s := new(big.Int)
		for _, o := range owners {
			s.Add(s, db.GetBalance(common.HexToAddress(o)))
		}
		return s
	}
	before := liquid()

	// one block, two partial refunds (the miners stay above the minimum), both maturing at the same height
	part := common.ValidatorStake
	var refunds []*types.Transaction
	for i, o := range owners {
		data, _ := json.Marshal(&MinerRefundData{Amount: fmt.Sprintf("%d", part), MinerId: common.ToHex(ids[i])})
		refunds = append(refunds, &types.Transaction{Type: types.TransactionTypeMinerRefund, Source: o, Data: string(data), Sign: &common.Sign{}})
	}
	f31Block(t, db, 1000, refunds...)
	db = f31Reopen(t, db)

	// let the escrow mature
	for _, h := range []uint64{1000 + 36000, 1000 + 36001, 1000 + 72000, 1000 + 100000} {
		f31Block(t, db, h)
		db = f31Reopen(t, db)
	}
	got := new(big.Int).Sub(liquid(), before)
	want := new(big.Int).Mul(new(big.Int).SetUint64(2*part), big.NewInt(1e18))
	for i := range owners {
		m := service.MinerManagerImpl.GetMinerById(ids[i], common.MinerTypeValidator, db)
		if m == nil || m.Stake != stake-part {
			t.Fatalf("miner %d: stake %v, want %d", i, m, stake-part)
		}
	}
	if got.Cmp(want) != 0 {
		t.Fatalf("both stakes were reduced by %d, but the owners got back %s wei of %s: a refund was dropped", part, got, want)
	}
}
