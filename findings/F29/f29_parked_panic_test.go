package logical

// F29 (C15): one verify message whose signer id is 33 bytes long, parked while
// the party waits in round 0, makes round1.Start panic in the replay loop
// (ID.Serialize panics for an id wider than 32 bytes; the first thing
// round1.Update does is log the signer's hex id). baseParty.Update recovers
// the panic, but the replay loop is gone: the honest pieces that the map
// iteration had not reached yet stay in futureMessages for ever — Start is
// not run again, and CanAccept refuses a re-sent copy because its id is
// already filed. With exactly threshold honest pieces parked, the block does
// not finalise whenever the forged message is not iterated last.
//
// Throw-away demo: copy this file and c15_harness_test.go (the in-package
// harness a sub-agent wrote for seeds C15-17/-18) into src/consensus/logical
// of a scratch worktree and run, with the NTP overlay,
//   go test -vet=off -count=1 -run TestF29 ./src/consensus/logical/
// It FAILS on the unchanged tree.

import (
	"testing"

	"com.tuntun.rangers/node/src/consensus/model"
	"com.tuntun.rangers/node/src/consensus/net"
	"com.tuntun.rangers/node/src/middleware/pb"
	"github.com/gogo/protobuf/proto"
)

// f29Forged returns nil when the node's own decoder refuses the message (by an error, or by a panic that the
// network handler's recover turns into a dropped message).
func f29Forged(t *testing.T, env *c15Env) (out model.ConsensusMessage) {
	defer func() {
		if rec := recover(); rec != nil {
			out = nil
		}
	}()
	wide := make([]byte, 33)
	for i := range wide {
		wide[i] = 0xA5
	}
	h := env.honest(4)
	version := int32(1)
	m := &middleware_pb.ConsensusVerifyMessage{
		BlockHash:  env.bh.Hash.Bytes(),
		RandomSign: h.RandomSign.Serialize(),
		Sign: &middleware_pb.SignData{
			DataHash:   env.bh.Hash.Bytes(),
			DataSign:   h.SignInfo.GetSignature().Serialize(),
			SignMember: wide,
			Version:    &version,
		},
	}
	body, err := proto.Marshal(m)
	if err != nil {
		t.Fatalf("marshal: %v", err)
	}
	cvm, err := net.UnMarshalConsensusVerifyMessage(body)
	if err != nil {
		return nil
	}
	return cvm
}

// startLikeParty runs Start the way baseParty.Update does: a panic is recovered and logged.
func f29StartLikeParty(r *round1) (panicked bool) {
	defer func() {
		if rec := recover(); rec != nil {
			panicked = true
		}
	}()
	r.Start()
	return
}

func f29Trial(t *testing.T, withForged bool) (finalised, panicked bool) {
	env := c15NewEnv(t, 5)
	k := model.Param.GetGroupK(5) // 3
	// a round 1 that has not started yet, sharing the party's parked messages
	br := &baseRound{
		processed:      make(map[string]byte),
		futureMessages: env.party.futureMessages,
		number:         1,
		errChan:        env.party.Err,
		done:           env.party.Done,
		logger:         c15NopLogger{},
		partyId:        env.party.id,
	}
	r0 := &round0{baseRound: br, mi: env.members[0].id, blockchain: env.chain, preBH: env.preBH, bh: env.bh, group: env.group}
	r1 := &round1{round0: r0}
	env.party.rnd = r1
	env.r1 = r1
	// parked during the round-0 wait: exactly threshold honest pieces, and the forged one
	var sent []*model.ConsensusVerifyMessage
	for i := 1; i <= k; i++ {
		m := env.honest(i)
		sent = append(sent, m)
		env.party.StoreMessage(m)
	}
	if withForged {
		if forged := f29Forged(t, env); forged != nil {
			env.party.StoreMessage(forged)
		}
	}
	panicked = f29StartLikeParty(r1)
	// a member repeats its piece (same wire bytes, same id): it is refused as already filed or processed, and
	// the party's loop gets its chance to move on to round 2 if round 1 has what it needs
	for _, m := range sent {
		env.party.Update(m)
	}
	ok, _ := env.outcome()
	return ok, panicked
}

func TestF29ParkedForgedIdDoesNotBlockFinalisation(t *testing.T) {
	const trials = 12
	for i := 0; i < 3; i++ {
		if ok, _ := f29Trial(t, false); !ok {
			t.Fatalf("control: %d honest parked pieces alone did not finalise the block", model.Param.GetGroupK(5))
		}
	}
	lost := 0
	for i := 0; i < trials; i++ {
		ok, panicked := f29Trial(t, true)
		if !ok {
			lost++
			t.Logf("trial %d: block NOT finalised (replay loop panicked: %v)", i, panicked)
		}
	}
	if lost > 0 {
		t.Fatalf("%d of %d trials: one parked message with a 33-byte signer id kept a block with threshold honest pieces from finalising", lost, trials)
	}
}
