package logical

// F30 (C15): a share from a non-member is counted. OnMessageSignPK stores any
// self-signed (signer id, group id, share public key) announcement: it checks
// neither that the signer belongs to the group nor that the key is the
// signer's dealt public share. round1.Update then looks the key up by
// (group, signer) and never asks whether the signer is a member. An outsider X
// announces a key of its own for this block's group and sends a verify message
// signed with it: the share passes every check of round1.Update and enters the
// block-signature and the beacon recovery sets under X's id. With threshold-1
// honest shares the sets "recover" a signature that fails under the group key,
// SignRecovered() latches, and the honest shares that follow are answered
// "already had the piece" — the valid block never finalises.
//
// Throw-away demo: copy this file and c15_harness_test.go into
// src/consensus/logical of a scratch worktree and run, with the NTP overlay,
//   go test -vet=off -count=1 -run TestF30 ./src/consensus/logical/
// It FAILS on the unchanged tree.

import (
	"math/big"
	"testing"

	"com.tuntun.rangers/node/src/common"
	"com.tuntun.rangers/node/src/consensus/base"
	"com.tuntun.rangers/node/src/consensus/groupsig"
	"com.tuntun.rangers/node/src/consensus/logical/group_create"
	"com.tuntun.rangers/node/src/consensus/model"
)

func TestF30ShareOfANonMemberIsIgnored(t *testing.T) {
	env := c15NewEnv(t, 5)
	k := model.Param.GetGroupK(5) // 3

	// the outsider: an id that is not among the group's members, with a key pair of its own
	var xid groupsig.ID
	xid.SetBigInt(new(big.Int).SetBytes(common.Sha256([]byte("outsider"))))
	if env.group.MemExist(xid) {
		t.Fatalf("test bug: the outsider is a member")
	}
	xsk := *groupsig.NewSeckeyFromRand(base.NewRand())
	xpk := *groupsig.GeneratePubkey(xsk)

	// 1. it announces that key for this group (self-signed, as the handler demands)
	ann := &model.SignPubKeyMessage{GroupID: env.gid, SignPK: xpk}
	si, ok := model.NewSignInfo(xsk, xid, ann)
	if !ok {
		t.Fatalf("NewSignInfo failed")
	}
	ann.SignInfo = si
	func() {
		// the harness' joined-group storage has no database behind it: persisting the accepted key panics
		// after the key was put into the group's in-memory record, which is all the signing path reads
		defer func() { recover() }()
		group_create.GroupCreateProcessor.OnMessageSignPK(ann)
	}()
	if _, stored := group_create.GroupCreateProcessor.GetMemberSignPubKey(env.gid, xid); !stored {
		t.Logf("the announcement of a non-member was refused")
	}

	// 2. it sends a verify message for the proposed block, signed with that key
	cvm := &model.ConsensusVerifyMessage{BlockHash: env.bh.Hash}
	si2, _ := model.NewSignInfo(xsk, xid, cvm)
	cvm.SignInfo = si2
	cvm.GenRandomSign(xsk, env.preBH.Random)
	cvm.Id = "outsider-piece"
	env.party.Update(cvm)
	if _, counted := env.shareSet()[xid.GetHexString()]; counted {
		t.Errorf("the share of a non-member was added to the block-signature recovery set")
	}
	if _, counted := env.beaconSet()[xid.GetHexString()]; counted {
		t.Errorf("the beacon share of a non-member was added to the beacon recovery set")
	}

	// 3. the honest members answer: threshold of them must finalise the block
	for i := 1; i <= k; i++ {
		env.party.Update(env.honest(i))
	}
	if fin, err := env.outcome(); !fin {
		t.Errorf("block not finalised although %d honest members sent valid shares (err=%v)", k, err)
	}
}
