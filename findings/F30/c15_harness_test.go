package logical

// Shared harness for the C15 demonstrations: builds a real threshold group
// (Shamir shares of a group secret over the member ids), registers the
// members' share public keys where round1 looks them up, and drives a signing
// party that already sits in round 1 through baseParty.Update with crafted
// ConsensusVerifyMessage values.

import (
	"math/big"
	"reflect"
	"sync"
	"testing"
	"time"
	"unsafe"

	"com.tuntun.rangers/node/src/common"
	"com.tuntun.rangers/node/src/consensus/access"
	"com.tuntun.rangers/node/src/consensus/base"
	"com.tuntun.rangers/node/src/consensus/groupsig"
	"com.tuntun.rangers/node/src/consensus/logical/group_create"
	"com.tuntun.rangers/node/src/consensus/model"
	"com.tuntun.rangers/node/src/core"
	"com.tuntun.rangers/node/src/middleware/types"
)

type c15NopLogger struct{}

func (c15NopLogger) Tracef(format string, params ...interface{})       {}
func (c15NopLogger) Debugf(format string, params ...interface{})       {}
func (c15NopLogger) Infof(format string, params ...interface{})        {}
func (c15NopLogger) Warnf(format string, params ...interface{}) error  { return nil }
func (c15NopLogger) Errorf(format string, params ...interface{}) error { return nil }
func (c15NopLogger) Debug(v ...interface{})                            {}
func (c15NopLogger) Info(v ...interface{})                             {}
func (c15NopLogger) Warn(v ...interface{}) error                       { return nil }
func (c15NopLogger) Error(v ...interface{}) error                      { return nil }

// c15Chain is the chain seen by the signing rounds: the proposed block is not
// on chain yet, GenerateBlock/AddBlockOnChain succeed and record the block.
type c15Chain struct {
	core.BlockChain
	mu    sync.Mutex
	added []*types.Block
}

func (c *c15Chain) HasBlockByHash(hash common.Hash) bool { return false }
func (c *c15Chain) GenerateBlock(bh types.BlockHeader) *types.Block {
	return &types.Block{Header: &bh}
}
func (c *c15Chain) AddBlockOnChain(b *types.Block) types.AddBlockResult {
	c.mu.Lock()
	defer c.mu.Unlock()
	c.added = append(c.added, b)
	return types.AddBlockSucc
}

type c15Member struct {
	id groupsig.ID
	sk groupsig.Seckey // share of the group secret
	pk groupsig.Pubkey // share public key, what round1 verifies against
}

type c15Env struct {
	t       *testing.T
	gid     groupsig.ID
	gpk     groupsig.Pubkey
	members []c15Member
	group   *model.GroupInfo
	preBH   *types.BlockHeader
	bh      *types.BlockHeader
	chain   *c15Chain
	party   *SignParty
	r1      *round1
}

func c15SetUnexported(target interface{}, field string, value interface{}) {
	f := reflect.ValueOf(target).Elem().FieldByName(field)
	reflect.NewAt(f.Type(), unsafe.Pointer(f.UnsafeAddr())).Elem().Set(reflect.ValueOf(value))
}

// c15NewEnv creates a group of n members (threshold = GetGroupK(n)) and a
// signing party in round 1 for a freshly proposed block.
func c15NewEnv(t *testing.T, n int) *c15Env {
	if common.DefaultLogger == nil {
		common.DefaultLogger = c15NopLogger{}
	}
	if model.Param.SSSSThreshold == 0 {
		model.Param.SSSSThreshold = model.SSSS_THRESHOLD
	}
	env := &c15Env{t: t}
	k := model.Param.GetGroupK(n)

	// polynomial f of degree k-1, f(0) = group secret
	coeffs := make([]groupsig.Seckey, k)
	for i := range coeffs {
		coeffs[i] = *groupsig.NewSeckeyFromRand(base.NewRand())
	}
	env.gpk = *groupsig.GeneratePubkey(coeffs[0])
	env.gid = *groupsig.NewIDFromPubkey(env.gpk)

	ids := make([]groupsig.ID, n)
	for i := 0; i < n; i++ {
		var id groupsig.ID
		id.SetBigInt(new(big.Int).SetBytes(common.Sha256([]byte{byte(i), 'm', 'e', 'm'})))
		ids[i] = id
		sk := *groupsig.ShareSeckey(coeffs, id)
		env.members = append(env.members, c15Member{id: id, sk: sk, pk: *groupsig.GeneratePubkey(sk)})
	}

	gh := &types.GroupHeader{}
	env.group = model.NewGroupInfo(env.gid, env.gpk, &model.GroupInitInfo{GroupHeader: gh, GroupMembers: ids})

	// the local node is member 0; it knows every member's share public key
	jg := model.NewJoindGroupInfo(env.members[0].sk, env.gpk, common.Hash{})
	for _, m := range env.members {
		jg.AddMemberSignPK(m.id, m.pk)
	}
	storage := access.NewJoinedGroupStorage()
	cache := common.CreateLRUCache(30)
	cache.Add(jg.GroupID.GetHexString(), jg)
	c15SetUnexported(storage, "cache", cache)
	c15SetUnexported(&group_create.GroupCreateProcessor, "joinedGroupStorage", storage)
	c15SetUnexported(&group_create.GroupCreateProcessor, "minerInfo", model.SelfMinerInfo{MinerInfo: model.MinerInfo{ID: env.members[0].id}})

	env.preBH = &types.BlockHeader{Height: 9, Hash: common.BytesToHash(common.Sha256([]byte("pre"))), Random: common.Sha256([]byte("previous beacon"))}
	env.bh = &types.BlockHeader{Height: 10, PreHash: env.preBH.Hash, Hash: common.BytesToHash(common.Sha256([]byte("proposed block"))), GroupId: env.gid.Serialize()}

	env.chain = &c15Chain{}
	env.party = &SignParty{
		baseParty: baseParty{
			logger:         c15NopLogger{},
			futureMessages: make(map[string]model.ConsensusMessage),
			Done:           make(chan byte, 1),
			Err:            make(chan error, 1),
			id:             env.bh.Hash.String(),
		},
		blockchain: env.chain,
		mi:         env.members[0].id,
	}
	br := &baseRound{
		processed:      make(map[string]byte),
		futureMessages: env.party.futureMessages,
		number:         1,
		errChan:        env.party.Err,
		done:           env.party.Done,
		logger:         c15NopLogger{},
		partyId:        env.party.id,
	}
	r0 := &round0{baseRound: br, mi: env.members[0].id, blockchain: env.chain, preBH: env.preBH, bh: env.bh, group: env.group}
	env.r1 = &round1{round0: r0}
	if err := env.r1.Start(); err != nil {
		t.Fatalf("round1 start: %v", err)
	}
	env.party.rnd = env.r1
	env.party.started = true
	return env
}

var c15MsgSeq int

// honest builds the verify message member i sends for the proposed block.
func (env *c15Env) honest(i int) *model.ConsensusVerifyMessage {
	m := env.members[i]
	cvm := &model.ConsensusVerifyMessage{BlockHash: env.bh.Hash}
	si, ok := model.NewSignInfo(m.sk, m.id, cvm)
	if !ok {
		env.t.Fatalf("NewSignInfo failed for member %d", i)
	}
	cvm.SignInfo = si
	cvm.GenRandomSign(m.sk, env.preBH.Random)
	c15MsgSeq++
	cvm.Id = common.ToHex(common.Sha256([]byte{byte(c15MsgSeq), byte(c15MsgSeq >> 8), 'i', 'd'}))
	return cvm
}

// shareSet returns the signer ids (hex) currently in the block-signature share set.
func (env *c15Env) shareSet() map[string]groupsig.Signature {
	return env.r1.gSignGenerator.witnessSignMap
}

func (env *c15Env) beaconSet() map[string]groupsig.Signature {
	return env.r1.rSignGenerator.witnessSignMap
}

// checkShareSets asserts the C15 invariant on the collected share sets: every
// entry is the named member's valid share for the block hash / previous beacon.
func (env *c15Env) checkShareSets() {
	pks := make(map[string]groupsig.Pubkey)
	for _, m := range env.members {
		pks[m.id.GetHexString()] = m.pk
	}
	for id, s := range env.shareSet() {
		pk, ok := pks[id]
		if !ok {
			env.t.Errorf("block share set holds a share of non-member %s", id)
			continue
		}
		if !groupsig.VerifySig(pk, env.bh.Hash.Bytes(), s) {
			env.t.Errorf("block share set holds a share of %s that is NOT a valid share for the block hash", id)
		}
	}
	for id, s := range env.beaconSet() {
		pk, ok := pks[id]
		if !ok {
			env.t.Errorf("beacon share set holds a share of non-member %s", id)
			continue
		}
		if !groupsig.VerifySig(pk, env.preBH.Random, s) {
			env.t.Errorf("beacon share set holds a share of %s that is NOT a valid share for the previous beacon", id)
		}
	}
}

// outcome waits for the party to finish and reports whether the block was finalised.
func (env *c15Env) outcome() (finalised bool, err error) {
	select {
	case <-env.party.Done:
		return true, nil
	case e := <-env.party.Err:
		return false, e
	case <-time.After(3 * time.Second):
		return false, nil
	}
}

// Sanity check of the harness itself: honest shares alone finalise the block
// and the recovered signatures verify under the group public key.
func TestC15HarnessHonestOnly(t *testing.T) {
	env := c15NewEnv(t, 5)
	k := model.Param.GetGroupK(5)
	for i := 1; i <= k; i++ {
		env.party.Update(env.honest(i))
	}
	env.checkShareSets()
	ok, err := env.outcome()
	if !ok {
		t.Fatalf("honest-only run did not finalise: %v", err)
	}
	if !groupsig.VerifySig(env.gpk, env.bh.Hash.Bytes(), *groupsig.DeserializeSign(env.bh.Signature)) {
		t.Fatalf("recovered block signature does not verify under the group key")
	}
	if !groupsig.VerifySig(env.gpk, env.preBH.Random, *groupsig.DeserializeSign(env.bh.Random)) {
		t.Fatalf("recovered beacon does not verify under the group key")
	}
}
