package service

// F25 (C07): a wrapped Ethereum transaction that is NOT signed under EIP-155
// (legacy "unprotected" form, V = 27/28, valid on every chain) is admitted by
// TxPool.VerifyTransaction, with the wrapper declaring chain id "0".
// Throw-away demo: copy into src/service of a scratch worktree and run
//   go test -vet=off -count=1 -run TestF25 ./src/service/
// It FAILS on the unchanged tree (the transaction is accepted).

import (
	"math/big"
	"os"
	"testing"

	"com.tuntun.rangers/node/src/common"
	crypto "com.tuntun.rangers/node/src/eth_crypto"
	"com.tuntun.rangers/node/src/eth_tx"
	"com.tuntun.rangers/node/src/middleware/log"
	"com.tuntun.rangers/node/src/storage/rlp"
)

func TestF25UnprotectedEthTxIsAdmitted(t *testing.T) {
	common.Init(0, "0.ini", "dev")
	txPoolLogger = log.GetLoggerByIndex(log.TxPoolLogConfig, "0")
	defer func() {
		log.Close()
		os.RemoveAll("0.ini")
		os.RemoveAll("logs")
		os.RemoveAll("storage0")
	}()
	pool := &TxPool{}
	height := uint64(100)
	key, _ := crypto.GenerateKey()
	to := common.HexToAddress("0x1111111111111111111111111111111111111111")
	raw := eth_tx.NewTransaction(5, to, big.NewInt(1000), 21000, big.NewInt(1000000000), []byte{1, 2, 3})
	// pre-EIP-155 signature: no chain id in the signed hash, V = 27/28
	signed, err := eth_tx.SignTx(raw, eth_tx.HomesteadSigner{}, key)
	if err != nil {
		t.Fatal(err)
	}
	if signed.Protected() {
		t.Fatal("expected an unprotected transaction")
	}
	enc, _ := rlp.EncodeToBytes(signed)
	sender, err := eth_tx.Sender(eth_tx.HomesteadSigner{}, signed)
	if err != nil {
		t.Fatal(err)
	}
	wrapped := eth_tx.ConvertTx(signed, sender, enc)
	t.Logf("chain id of this chain at height %d: %s; chain id the wrapper declares: %q", height, common.ChainId(height), wrapped.ChainId)
	if err := pool.VerifyTransaction(wrapped, height); err == nil {
		t.Errorf("ACCEPTED a wrapped Ethereum transaction that is not signed under EIP-155 for this chain (declared chain id %q, chain's id %s): the same signed bytes are valid on every chain", wrapped.ChainId, common.ChainId(height))
	}
}
