package eng

import (
	"go/constant"
	"go/token"
	"sort"
	"strconv"
	"strings"

	"golang.org/x/tools/go/ssa"
)

// Incoming returns the value of result idx of a return edge (phi resolved by
// the predecessor).
func (e RetEdge) Incoming(idx int) ssa.Value {
	if idx >= len(e.Ret.Results) {
		return nil
	}
	v := Unspill(e.Ret, e.Ret.Results[idx])
	if phi, ok := v.(*ssa.Phi); ok && phi.Block() == e.Ret.Block() && e.Pred != nil {
		for i, p := range e.Ret.Block().Preds {
			if p == e.Pred {
				return phi.Edges[i]
			}
		}
	}
	return v
}

// edgeFact describes what the edge a→b says about value v when a ends in an
// If comparing v: "nil" (v == nil on this edge), "nonnil", "eq:<global>"
// (v == that package-level sentinel), "ne:<global>", or "".
func edgeFact(a, b *ssa.BasicBlock, v ssa.Value) string {
	if len(a.Instrs) == 0 || len(a.Succs) != 2 {
		return ""
	}
	iff, ok := a.Instrs[len(a.Instrs)-1].(*ssa.If)
	if !ok || a.Succs[0] == a.Succs[1] {
		return ""
	}
	bo, ok := iff.Cond.(*ssa.BinOp)
	if !ok || (bo.Op != token.EQL && bo.Op != token.NEQ) {
		return ""
	}
	var other ssa.Value
	switch {
	case sameVal(bo.X, v):
		other = bo.Y
	case sameVal(bo.Y, v):
		other = bo.X
	default:
		return ""
	}
	eq := (bo.Op == token.EQL) == (b == a.Succs[0])
	if IsNilConst(other) {
		if eq {
			return "nil"
		}
		return "nonnil"
	}
	if g := sentinelName(other); g != "" {
		if eq {
			return "eq:" + g
		}
		return "ne:" + g
	}
	return ""
}

func sameVal(a, b ssa.Value) bool {
	if a == b {
		return true
	}
	// interface conversions of the same underlying value
	ua, ub := Unwrap(a), Unwrap(b)
	return ua == ub && ua != nil
}

// sentinelName returns the name of a package-level error variable loaded by v.
func sentinelName(v ssa.Value) string {
	v2 := v
	if mi, ok := v2.(*ssa.MakeInterface); ok {
		v2 = mi.X
	}
	if u, ok := v2.(*ssa.UnOp); ok && u.Op == token.MUL {
		if g, ok := u.X.(*ssa.Global); ok {
			return g.Name()
		}
	}
	return ""
}

// Escape is one way a function can return a possibly non-nil error (result
// errIdx) after `from` without executing a barrier instruction.
type Escape struct {
	Edge      RetEdge
	Path      []int
	Sentinels []string // error sentinels the returned value is known to equal on this path
	ErrDesc   string
}

// Key renders the sentinel class for use in a construct key.
func (e Escape) Key() string {
	if len(e.Sentinels) == 0 {
		return "any-error"
	}
	return "err==" + strings.Join(e.Sentinels, ",")
}

// NonNilEscapes enumerates, per sentinel class, the paths from `from` to a
// return whose result errIdx is not known to be nil, that avoid every barrier.
func NonNilEscapes(fn *ssa.Function, from ssa.Instruction, errIdx int, barrier func(ssa.Instruction) bool) []Escape {
	var out []Escape
	seenClass := map[string]bool{}
	for _, re := range Returns(fn) {
		v := re.Incoming(errIdx)
		if v == nil || IsNilConst(v) {
			continue
		}
		excluded := map[string]bool{}
		for iter := 0; iter < 6; iter++ {
			edgeOK := func(a, b *ssa.BasicBlock) bool {
				f := edgeFact(a, b, v)
				if f == "nil" {
					return false
				}
				if strings.HasPrefix(f, "eq:") && excluded[f[3:]] {
					return false
				}
				return true
			}
			ok, path := ReachAvoidingX(fn, from, re, barrier, edgeOK)
			if !ok {
				break
			}
			// collect sentinel equalities along the path
			var sents []string
			byIdx := map[int]*ssa.BasicBlock{}
			for _, b := range fn.Blocks {
				byIdx[b.Index] = b
			}
			for i := 0; i+1 < len(path); i++ {
				f := edgeFact(byIdx[path[i]], byIdx[path[i+1]], v)
				if strings.HasPrefix(f, "eq:") {
					sents = append(sents, f[3:])
				}
			}
			// a constant sentinel being returned directly
			if g := sentinelName(v); g != "" && len(sents) == 0 {
				sents = []string{g}
			}
			sort.Strings(sents)
			esc := Escape{Edge: re, Path: path, Sentinels: sents, ErrDesc: Desc(v)}
			if !seenClass[esc.Key()] {
				seenClass[esc.Key()] = true
				out = append(out, esc)
			}
			if len(sents) == 0 || sentinelName(v) != "" {
				break
			}
			for _, s := range sents {
				excluded[s] = true
			}
		}
	}
	return out
}

// Reaches reports whether control can flow from instruction a to instruction b
// (b strictly after a in the same block, or b's block reachable from a's).
func Reaches(a, b ssa.Instruction) bool {
	if a.Block() == b.Block() && InstrIndex(a) < InstrIndex(b) {
		return true
	}
	seen := map[*ssa.BasicBlock]bool{}
	queue := append([]*ssa.BasicBlock(nil), a.Block().Succs...)
	for len(queue) > 0 {
		x := queue[0]
		queue = queue[1:]
		if seen[x] {
			continue
		}
		seen[x] = true
		if x == b.Block() {
			return true
		}
		queue = append(queue, x.Succs...)
	}
	return false
}

// Unspill undoes the "defer-spilled result" lowering of go/ssa: when named
// results are captured by a deferred closure they live in an Alloc and the
// return reads `*alloc` after `rundefers`. If v is such a load, the value most
// recently stored to the alloc in the same block (before `at`) is returned;
// otherwise v itself.
func Unspill(at ssa.Instruction, v ssa.Value) ssa.Value {
	u, ok := v.(*ssa.UnOp)
	if !ok || u.Op != token.MUL {
		return v
	}
	al, ok := u.X.(*ssa.Alloc)
	if !ok {
		return v
	}
	b := u.Block()
	idx := InstrIndex(u)
	for i := idx - 1; i >= 0; i-- {
		if st, ok := b.Instrs[i].(*ssa.Store); ok && st.Addr == ssa.Value(al) {
			return st.Val
		}
	}
	return v
}

// RetValue is result idx of ret with spilled named results resolved.
func RetValue(ret *ssa.Return, idx int) ssa.Value {
	if idx >= len(ret.Results) {
		return nil
	}
	return Unspill(ret, ret.Results[idx])
}

// MustPassBefore reports whether every path from the function entry to target
// executes at least one of the barrier instructions first.
func MustPassBefore(fn *ssa.Function, target ssa.Instruction, barriers []ssa.Instruction) bool {
	isB := map[ssa.Instruction]bool{}
	for _, b := range barriers {
		isB[b] = true
	}
	// walk blocks from entry; a block is cut at its first barrier
	seen := map[*ssa.BasicBlock]bool{}
	queue := []*ssa.BasicBlock{fn.Blocks[0]}
	for len(queue) > 0 {
		b := queue[0]
		queue = queue[1:]
		if seen[b] {
			continue
		}
		seen[b] = true
		cut := false
		for _, in := range b.Instrs {
			if in == target {
				return false
			}
			if isB[in] {
				cut = true
				break
			}
		}
		if !cut {
			queue = append(queue, b.Succs...)
		}
	}
	return true
}

// ResolveLocal looks through a load of an address-taken local variable: when v
// is `*alloc` and exactly one value is ever stored to that alloc, that value is
// returned (the `if err := f(); err != nil { p = &err }` shape); otherwise v.
func ResolveLocal(v ssa.Value) ssa.Value {
	u, ok := v.(*ssa.UnOp)
	if !ok || u.Op != token.MUL {
		return v
	}
	al, ok := u.X.(*ssa.Alloc)
	if !ok {
		return v
	}
	var stored ssa.Value
	n := 0
	for _, ref := range *al.Referrers() {
		if st, isS := ref.(*ssa.Store); isS && st.Addr == ssa.Value(al) {
			stored = st.Val
			n++
		}
	}
	if n == 1 {
		return stored
	}
	return v
}

// PathToAvoiding reports whether control can flow from the function entry to
// the instruction target without executing a barrier instruction and without
// crossing a CFG edge for which cut(a, i) is true (i the successor index of a).
// Used for rules of the form "every path to X first establishes G", where G can
// be established by any of several branch outcomes (short-circuit conditions
// have no single dominating edge).
func PathToAvoiding(fn *ssa.Function, target ssa.Instruction, barrier func(ssa.Instruction) bool, cut func(a *ssa.BasicBlock, succ int) bool) bool {
	// The search knows the value of a boolean phi when the block was entered over an edge that carries a
	// constant (the lowered form of `a || b`, `a && b`): an If on such a phi is followed only on the matching side.
	type state struct {
		b     *ssa.BasicBlock
		known map[*ssa.Phi]bool
	}
	keyOf := func(st state) string {
		var parts []string
		for p, v := range st.known {
			parts = append(parts, p.Name()+"="+map[bool]string{true: "1", false: "0"}[v])
		}
		sort.Strings(parts)
		return strconv.Itoa(st.b.Index) + "|" + strings.Join(parts, ",")
	}
	constBool := func(v ssa.Value, known map[*ssa.Phi]bool) (bool, bool) {
		if k, ok := v.(*ssa.Const); ok && k.Value != nil && k.Value.Kind() == constant.Bool {
			return constant.BoolVal(k.Value), true
		}
		if p, ok := v.(*ssa.Phi); ok {
			if val, has := known[p]; has {
				return val, true
			}
		}
		return false, false
	}
	seen := map[string]bool{}
	queue := []state{{fn.Blocks[0], map[*ssa.Phi]bool{}}}
	steps := 0
	for len(queue) > 0 {
		st := queue[0]
		queue = queue[1:]
		k := keyOf(st)
		if seen[k] {
			continue
		}
		seen[k] = true
		steps++
		if steps > 200000 {
			return true // give up conservatively
		}
		b := st.b
		stop := false
		for _, in := range b.Instrs {
			if in == target {
				return true
			}
			if barrier != nil && barrier(in) {
				stop = true
				break
			}
		}
		if stop {
			continue
		}
		var iff *ssa.If
		if n := len(b.Instrs); n > 0 {
			iff, _ = b.Instrs[n-1].(*ssa.If)
		}
		for i, s := range b.Succs {
			if cut != nil && cut(b, i) {
				continue
			}
			if iff != nil {
				if val, ok := constBool(iff.Cond, st.known); ok && val != (i == 0) {
					continue // infeasible on this path
				}
			}
			// phi values on entering s from b
			nk := map[*ssa.Phi]bool{}
			for p, v := range st.known {
				nk[p] = v
			}
			pi := -1
			for j, p := range s.Preds {
				if p == b {
					pi = j
				}
			}
			for _, in := range s.Instrs {
				phi, ok := in.(*ssa.Phi)
				if !ok {
					break
				}
				delete(nk, phi)
				if pi >= 0 && pi < len(phi.Edges) {
					if val, ok := constBool(phi.Edges[pi], st.known); ok {
						nk[phi] = val
					}
				}
			}
			queue = append(queue, state{s, nk})
		}
	}
	return false
}
