package eng

import (
	"go/ast"
	"go/constant"
	"go/token"
	"go/types"
	"sort"

	"golang.org/x/tools/go/ssa"
)

// OpRow is one row of the EVM jump table as written in the source: a keyed
// element of a JumpTable composite literal or an `x[OP] = &operation{…}`
// assignment, with later `x[OP].field = v` patches applied in source order.
type OpRow struct {
	Name    string // opcode constant name ("SSTORE")
	Code    int64
	Where   string // function that defines the row
	Pos     token.Pos
	Exec    *ssa.Function
	DynGas  *ssa.Function
	MemSize *ssa.Function
	// arguments of minStack(pops, push) / maxStack(pops, push); -1 when not of that shape
	MinPops, MinPush, MaxPops, MaxPush int64
	Flags                              map[string]bool // halts jumps writes reverts returns
	ConstGas                           ast.Expr
	MakerArgs                          []int64 // constant arguments of a makePush/makeDup/… handler factory
	MinStackVal, MaxStackVal           int64   // evaluated minStack/maxStack expressions; -1 when not evaluable
	Superseded                         bool    // a later row for the same opcode replaces it when all proposals are active
}

// JumpTable extracts every row of the vm package's jump tables. Unresolvable
// shapes are returned in problems (callers fail on them: undecided ≠ held).
func (c *Ctx) JumpTable() (rows []*OpRow, problems []string) {
	p := c.TPkg("vm")
	sp := c.Pkg("vm")
	if p == nil || sp == nil {
		return nil, []string{"package vm not loaded"}
	}
	info := p.TypesInfo
	isJT := func(t types.Type) bool {
		if pt, ok := t.(*types.Pointer); ok {
			t = pt.Elem()
		}
		n, ok := t.(*types.Named)
		return ok && n.Obj().Name() == "JumpTable" && n.Obj().Pkg() == p.Types
	}
	// package-level `var gasX = f` / `= makeF(k)` aliases
	varInit := map[types.Object]ast.Expr{}
	for _, f := range p.Syntax {
		for _, d := range f.Decls {
			gd, ok := d.(*ast.GenDecl)
			if !ok || gd.Tok != token.VAR {
				continue
			}
			for _, sp := range gd.Specs {
				vs := sp.(*ast.ValueSpec)
				if len(vs.Values) == len(vs.Names) {
					for i, nm := range vs.Names {
						varInit[info.Defs[nm]] = vs.Values[i]
					}
				}
			}
		}
	}
	var fnOf func(e ast.Expr) *ssa.Function
	fnOf = func(e ast.Expr) *ssa.Function {
		if id, ok := e.(*ast.Ident); ok {
			if v, ok := info.Uses[id].(*types.Var); ok {
				if init, ok := varInit[v]; ok {
					return fnOf(init)
				}
				return nil
			}
		}
		// makeX(args…) returning a closure: the handler is the maker's single anonymous function
		if call, ok := e.(*ast.CallExpr); ok {
			if id, ok := call.Fun.(*ast.Ident); ok {
				if f, ok := info.Uses[id].(*types.Func); ok {
					if mk := c.Prog.FuncValue(f); mk != nil && len(mk.AnonFuncs) == 1 {
						return mk.AnonFuncs[0]
					}
				}
			}
			return nil
		}
		id, ok := e.(*ast.Ident)
		if !ok {
			return nil
		}
		f, ok := info.Uses[id].(*types.Func)
		if !ok {
			return nil
		}
		return c.Prog.FuncValue(f)
	}
	constOf := func(e ast.Expr) (string, int64, bool) {
		tv, ok := info.Types[e]
		if !ok || tv.Value == nil {
			return "", 0, false
		}
		v, ok := constant.Int64Val(constant.ToInt(tv.Value))
		name := types.ExprString(e)
		return name, v, ok
	}
	stackArgs := func(e ast.Expr, fname string) (int64, int64) {
		call, ok := e.(*ast.CallExpr)
		if !ok || len(call.Args) != 2 {
			return -1, -1
		}
		id, ok := call.Fun.(*ast.Ident)
		if !ok || id.Name != fname {
			return -1, -1
		}
		_, a, ok1 := constOf(call.Args[0])
		_, b, ok2 := constOf(call.Args[1])
		if !ok1 || !ok2 {
			return -1, -1
		}
		return a, b
	}
	// evalInt evaluates an integer expression built from constants, + - *,
	// integer conversions and calls of single-return-statement functions of the
	// vm package (minStack, maxDupStack, …).
	funcDecl := map[*types.Func]*ast.FuncDecl{}
	for _, f := range p.Syntax {
		for _, d := range f.Decls {
			if fd, ok := d.(*ast.FuncDecl); ok && fd.Recv == nil {
				if o, ok := info.Defs[fd.Name].(*types.Func); ok {
					funcDecl[o] = fd
				}
			}
		}
	}
	var evalInt func(e ast.Expr, env map[types.Object]int64, depth int) (int64, bool)
	evalInt = func(e ast.Expr, env map[types.Object]int64, depth int) (int64, bool) {
		if depth > 6 {
			return 0, false
		}
		if tv, ok := info.Types[e]; ok && tv.Value != nil {
			v, ok := constant.Int64Val(constant.ToInt(tv.Value))
			return v, ok
		}
		switch x := e.(type) {
		case *ast.ParenExpr:
			return evalInt(x.X, env, depth)
		case *ast.Ident:
			if v, ok := env[info.Uses[x]]; ok {
				return v, true
			}
		case *ast.BinaryExpr:
			a, ok1 := evalInt(x.X, env, depth)
			b, ok2 := evalInt(x.Y, env, depth)
			if !ok1 || !ok2 {
				return 0, false
			}
			switch x.Op {
			case token.ADD:
				return a + b, true
			case token.SUB:
				return a - b, true
			case token.MUL:
				return a * b, true
			}
		case *ast.CallExpr:
			if tv, ok := info.Types[x.Fun]; ok && tv.IsType() && len(x.Args) == 1 {
				return evalInt(x.Args[0], env, depth)
			}
			id, ok := x.Fun.(*ast.Ident)
			if !ok {
				return 0, false
			}
			fo, ok := info.Uses[id].(*types.Func)
			if !ok {
				return 0, false
			}
			fd := funcDecl[fo]
			if fd == nil || fd.Body == nil || len(fd.Body.List) != 1 {
				return 0, false
			}
			ret, ok := fd.Body.List[0].(*ast.ReturnStmt)
			if !ok || len(ret.Results) != 1 {
				return 0, false
			}
			nenv := map[types.Object]int64{}
			i := 0
			for _, fl := range fd.Type.Params.List {
				for _, nm := range fl.Names {
					if i >= len(x.Args) {
						return 0, false
					}
					v, ok := evalInt(x.Args[i], env, depth+1)
					if !ok {
						return 0, false
					}
					nenv[info.Defs[nm]] = v
					i++
				}
			}
			return evalInt(ret.Results[0], nenv, depth+1)
		}
		return 0, false
	}
	applyField := func(r *OpRow, field string, val ast.Expr, where string) {
		switch field {
		case "execute":
			r.Exec = fnOf(val)
			if call, ok := val.(*ast.CallExpr); ok {
				for _, a := range call.Args {
					if _, v, ok := constOf(a); ok {
						r.MakerArgs = append(r.MakerArgs, v)
					}
				}
			}
			if r.Exec == nil {
				problems = append(problems, where+": execute of "+r.Name+" is not a named function")
			}
		case "dynamicGas":
			r.DynGas = fnOf(val)
		case "memorySize":
			r.MemSize = fnOf(val)
		case "minStack":
			r.MinPops, r.MinPush = stackArgs(val, "minStack")
			if v, ok := evalInt(val, nil, 0); ok {
				r.MinStackVal = v
			} else {
				problems = append(problems, where+": minStack of "+r.Name+" is not statically evaluable")
			}
		case "maxStack":
			r.MaxPops, r.MaxPush = stackArgs(val, "maxStack")
			if v, ok := evalInt(val, nil, 0); ok {
				r.MaxStackVal = v
			} else {
				problems = append(problems, where+": maxStack of "+r.Name+" is not statically evaluable")
			}
		case "constantGas":
			r.ConstGas = val
		case "halts", "jumps", "writes", "reverts", "returns":
			tv := info.Types[val]
			if tv.Value != nil && tv.Value.Kind() == constant.Bool {
				r.Flags[field] = constant.BoolVal(tv.Value)
			} else {
				problems = append(problems, where+": flag "+field+" of "+r.Name+" is not a boolean constant")
			}
		}
	}
	fromLit := func(key ast.Expr, lit *ast.CompositeLit, where string) *OpRow {
		name, code, ok := constOf(key)
		if !ok {
			problems = append(problems, where+": row key is not an opcode constant: "+types.ExprString(key))
			return nil
		}
		r := &OpRow{Name: name, Code: code, Where: where, Pos: lit.Pos(), Flags: map[string]bool{}, MinPops: -1, MinPush: -1, MaxPops: -1, MaxPush: -1, MinStackVal: -1, MaxStackVal: -1}
		for _, el := range lit.Elts {
			kv, ok := el.(*ast.KeyValueExpr)
			if !ok {
				problems = append(problems, where+": positional operation literal for "+name)
				continue
			}
			applyField(r, kv.Key.(*ast.Ident).Name, kv.Value, where)
		}
		return r
	}
	latest := map[int64]*OpRow{}
	add := func(r *OpRow) {
		if r == nil {
			return
		}
		if old := latest[r.Code]; old != nil {
			old.Superseded = true
		}
		latest[r.Code] = r
		rows = append(rows, r)
	}
	// deterministic file order: jump_table.go first (base set), then the rest by name
	type fileT struct {
		name string
		f    *ast.File
	}
	var files []fileT
	for i, f := range p.Syntax {
		files = append(files, fileT{p.CompiledGoFiles[i], f})
	}
	sort.Slice(files, func(i, j int) bool {
		bi := len(files[i].name) >= 13 && files[i].name[len(files[i].name)-13:] == "jump_table.go"
		bj := len(files[j].name) >= 13 && files[j].name[len(files[j].name)-13:] == "jump_table.go"
		if bi != bj {
			return bi
		}
		return files[i].name < files[j].name
	})
	for _, ft := range files {
		for _, d := range ft.f.Decls {
			fd, ok := d.(*ast.FuncDecl)
			if !ok || fd.Body == nil {
				continue
			}
			where := "vm." + fd.Name.Name
			ast.Inspect(fd.Body, func(n ast.Node) bool {
				switch x := n.(type) {
				case *ast.CompositeLit:
					tv, ok := info.Types[x]
					if ok && isJT(tv.Type) {
						for _, el := range x.Elts {
							kv, ok := el.(*ast.KeyValueExpr)
							if !ok {
								problems = append(problems, where+": unkeyed JumpTable element")
								continue
							}
							lit, ok := kv.Value.(*ast.CompositeLit)
							if !ok {
								if u, ok2 := kv.Value.(*ast.UnaryExpr); ok2 {
									lit, ok = u.X.(*ast.CompositeLit)
								}
							}
							if lit == nil {
								problems = append(problems, where+": JumpTable element is not an operation literal: "+types.ExprString(kv.Key))
								continue
							}
							add(fromLit(kv.Key, lit, where))
						}
						return false
					}
				case *ast.AssignStmt:
					if len(x.Lhs) != 1 || len(x.Rhs) != 1 {
						return true
					}
					// x[OP] = &operation{…}
					if ix, ok := x.Lhs[0].(*ast.IndexExpr); ok {
						if tv, ok := info.Types[ix.X]; ok && isJT(tv.Type) {
							var lit *ast.CompositeLit
							if u, ok := x.Rhs[0].(*ast.UnaryExpr); ok && u.Op == token.AND {
								lit, _ = u.X.(*ast.CompositeLit)
							}
							if lit == nil {
								problems = append(problems, where+": JumpTable row assigned from a non-literal: "+types.ExprString(ix.Index))
								return true
							}
							add(fromLit(ix.Index, lit, where))
							return false
						}
					}
					// x[OP].field = v
					if sel, ok := x.Lhs[0].(*ast.SelectorExpr); ok {
						if ix, ok := sel.X.(*ast.IndexExpr); ok {
							if tv, ok := info.Types[ix.X]; ok && isJT(tv.Type) {
								_, code, ok := constOf(ix.Index)
								if !ok || latest[code] == nil {
									problems = append(problems, where+": field patch on unknown row "+types.ExprString(ix.Index))
									return true
								}
								applyField(latest[code], sel.Sel.Name, x.Rhs[0], where)
							}
						}
					}
				}
				return true
			})
		}
	}
	return rows, problems
}
