package eng

import (
	"go/token"
	"go/types"
	"sort"
	"strings"

	"golang.org/x/tools/go/ssa"
)

// NDHit is one potential source of replica-local nondeterminism inside a function.
type NDHit struct {
	Kind   string // map-range, clock, go, select, chan, syncmap-range, rand, global-store, env, reflect-map
	Fn     *ssa.Function
	Instr  ssa.Instruction
	Pos    token.Pos
	Detail string
	Seq    int    // ordinal of this kind within the function (construct key = kind + fn + seq)
	Recv   string // for kind "cache": the struct field (or global) holding the cache
}

// ScanNondeterminism lists the hits in fn.
func ScanNondeterminism(fn *ssa.Function) []NDHit {
	var out []NDHit
	seq := map[string]int{}
	add := func(kind string, in ssa.Instruction, detail string) {
		out = append(out, NDHit{Kind: kind, Fn: fn, Instr: in, Pos: in.Pos(), Detail: detail, Seq: seq[kind]})
		seq[kind]++
	}
	for _, b := range fn.Blocks {
		for _, in := range b.Instrs {
			switch x := in.(type) {
			case *ssa.Range:
				if _, ok := x.X.Type().Underlying().(*types.Map); ok {
					add("map-range", in, "range over "+Desc(x.X)+" ("+shortType(x.X.Type())+")")
				}
			case *ssa.Go:
				add("go", in, "go "+CallName(x.Common()))
			case *ssa.Select:
				add("select", in, "select")
			case *ssa.Send:
				add("chan", in, "channel send")
			case *ssa.UnOp:
				if x.Op == token.ARROW {
					add("chan", in, "channel receive")
				}
			case *ssa.Store:
				if g := globalRoot(x.Addr); g != nil {
					add("global-store", in, "store to package variable "+g.Pkg.Pkg.Name()+"."+g.Name())
				}
			case *ssa.MapUpdate:
				if g := globalRoot(x.Map); g != nil {
					add("global-store", in, "write to package-level map "+g.Pkg.Pkg.Name()+"."+g.Name())
				}
			case *ssa.Call, *ssa.Defer:
				// deferred calls are scanned like ordinary ones (a `defer pool.Put(x)` touches the pool all the same)
				cc := in.(ssa.CallInstruction).Common()
				cv := &callView{Call: *cc}
				n := CallName(&cv.Call)
				switch {
				case (n == "builtin:append" || n == "builtin:copy") && len(cv.Call.Args) > 0 && sliceOfGlobal(cv.Call.Args[0], 0) != nil:
					// append/copy into a (re-sliced) package-level slice writes its backing array in place
					g := sliceOfGlobal(cv.Call.Args[0], 0)
					add("global-store", in, n[len("builtin:"):]+" into the backing array of package variable "+g.Pkg.Pkg.Name()+"."+g.Name())
				case mutatesSharedNumber(n, &cv.Call) != nil:
					g := mutatesSharedNumber(n, &cv.Call)
					add("global-store", in, n+" with the object held in package variable "+g.Pkg.Pkg.Name()+"."+g.Name()+" as its receiver (the shared value itself is rewritten in place)")
				case n == "time.Now" || n == "time.Since" || n == "time.Until" || strings.HasSuffix(n, "utility.GetTime"):
					add("clock", in, n)
				case strings.HasPrefix(n, "math/rand.") || strings.HasPrefix(n, "(*math/rand.") || strings.HasPrefix(n, "crypto/rand."):
					add("rand", in, n)
				case n == "(*sync.Map).Range":
					add("syncmap-range", in, n)
				case strings.HasPrefix(n, "(*github.com/hashicorp/golang-lru.") || strings.HasPrefix(n, "(*github.com/VictoriaMetrics/fastcache.") || strings.HasPrefix(n, "(*sync.Map).") ||
					strings.HasPrefix(n, "(*github.com/hashicorp/golang-lru/simplelru."):
					recv := "?"
					if len(cv.Call.Args) > 0 {
						v := cv.Call.Args[0]
						if u, ok := v.(*ssa.UnOp); ok && u.Op == token.MUL {
							v = u.X
						}
						if t, f := FieldOf(v); t != "" {
							recv = t + "." + f
						} else if g, ok := v.(*ssa.Global); ok {
							recv = "global:" + g.Pkg.Pkg.Name() + "." + g.Name()
						} else {
							recv = Desc(cv.Call.Args[0])
						}
					}
					out = append(out, NDHit{Kind: "cache", Fn: fn, Instr: in, Pos: in.Pos(), Detail: n + " on " + recv, Seq: -1, Recv: recv})
				case sharedObjectCommon(&cv.Call) != nil:
					g := sharedObjectCommon(&cv.Call)
					out = append(out, NDHit{Kind: "shared-object", Fn: fn, Instr: in, Pos: in.Pos(), Detail: n + " on package variable " + g.Pkg.Pkg.Name() + "." + g.Name(), Seq: -1, Recv: "global:" + g.Pkg.Pkg.Name() + "." + g.Name()})
				case n == "os.Getenv" || n == "os.LookupEnv" || n == "os.Hostname" || n == "os.Getpid":
					add("env", in, n)
				case n == "(reflect.Value).MapKeys" || n == "(reflect.Value).MapRange":
					add("reflect-map", in, n)
				}
			}
		}
	}
	return out
}

// RangeLoop describes the natural loop of a map range.
type RangeLoop struct {
	Header     *ssa.BasicBlock
	Body       map[*ssa.BasicBlock]bool
	EarlyExits []*ssa.BasicBlock // body blocks (other than the header) with an edge leaving the loop
	Appends    []ssa.Value       // slices appended to inside the loop
	StrConcat  bool
}

// CarriedCond returns a description of a branch inside the loop whose condition
// depends on state written by earlier iterations of the same loop (a map or a
// local cell updated in the loop, or a loop-header phi): with a map range such
// a branch makes the outcome depend on iteration order. "" when none.
func (lp *RangeLoop) CarriedCond() string {
	written := map[ssa.Value]bool{} // maps / cells written in the loop
	for b := range lp.Body {
		for _, in := range b.Instrs {
			switch x := in.(type) {
			case *ssa.MapUpdate:
				written[x.Map] = true
			case *ssa.Store:
				written[x.Addr] = true
			}
		}
	}
	// objects living across iterations (defined outside the loop) that an iteration modifies in place
	// through a pointer-receiver mutator (big.Int arithmetic and the like)
	mutated := map[ssa.Value]bool{}
	for b := range lp.Body {
		for _, in := range b.Instrs {
			call, ok := in.(*ssa.Call)
			if !ok || len(call.Call.Args) == 0 {
				continue
			}
			f := call.Call.StaticCallee()
			if f == nil || f.Signature.Recv() == nil {
				continue
			}
			if !strings.HasPrefix(CallName(&call.Call), "(*math/big.") {
				continue
			}
			switch f.Name() {
			case "Set", "SetInt64", "SetUint64", "SetBytes", "SetString", "Add", "Sub", "Mul", "Div", "Mod", "Quo", "Rem", "Neg", "Abs", "Exp", "Lsh", "Rsh", "And", "Or", "Xor", "Not", "SetBit", "DivMod", "QuoRem", "ModInverse", "Sqrt", "SetFloat64", "SetInt", "SetPrec", "SetMode":
				recv := call.Call.Args[0]
				if ri, isI := recv.(ssa.Instruction); isI && lp.Body[ri.Block()] {
					continue // created inside this iteration
				}
				mutated[recv] = true
			}
		}
	}
	var dep func(v ssa.Value, depth int) string
	dep = func(v ssa.Value, depth int) string {
		if depth > 6 || v == nil {
			return ""
		}
		if mutated[v] {
			return "an object that iterations modify in place (" + Desc(v) + ")"
		}
		switch x := v.(type) {
		case *ssa.Phi:
			if x.Block() == lp.Header {
				return "loop-carried variable " + x.Comment
			}
			for _, e := range x.Edges {
				if m := dep(e, depth+1); m != "" {
					return m
				}
			}
		case *ssa.Lookup:
			if written[x.X] {
				return "lookup in a map updated inside the loop (" + Desc(x.X) + ")"
			}
			return dep(x.Index, depth+1)
		case *ssa.UnOp:
			if x.Op == token.MUL && written[x.X] {
				if _, isAlloc := x.X.(*ssa.Alloc); isAlloc {
					return "variable assigned inside the loop (" + Desc(x.X) + ")"
				}
			}
			return dep(x.X, depth+1)
		case *ssa.BinOp:
			if m := dep(x.X, depth+1); m != "" {
				return m
			}
			return dep(x.Y, depth+1)
		case *ssa.Extract:
			return dep(x.Tuple, depth+1)
		case *ssa.Convert:
			return dep(x.X, depth+1)
		case *ssa.ChangeType:
			return dep(x.X, depth+1)
		case *ssa.Call:
			if bi, ok := x.Call.Value.(*ssa.Builtin); ok && bi.Name() == "len" {
				return dep(x.Call.Args[0], depth+1)
			}
			// a comparison/accessor call on an object modified in place by earlier iterations
			for _, a := range x.Call.Args {
				if mutated[a] {
					return "an object that iterations modify in place (" + Desc(a) + ")"
				}
			}
		}
		return ""
	}
	var blocks []*ssa.BasicBlock
	for b := range lp.Body {
		blocks = append(blocks, b)
	}
	sort.Slice(blocks, func(i, j int) bool { return blocks[i].Index < blocks[j].Index })
	for _, b := range blocks {
		if b == lp.Header || len(b.Instrs) == 0 {
			continue
		}
		iff, ok := b.Instrs[len(b.Instrs)-1].(*ssa.If)
		if !ok {
			continue
		}
		// inner loops' own induction tests are fine: skip conditions whose phi lives in an inner header
		if m := dep(iff.Cond, 0); m != "" {
			return "branch on " + m
		}
	}
	return ""
}

// LoopOfRange computes the loop driven by the Next() of a Range instruction.
func LoopOfRange(rg *ssa.Range) *RangeLoop {
	var next *ssa.Next
	for _, ref := range *rg.Referrers() {
		if n, ok := ref.(*ssa.Next); ok {
			next = n
		}
	}
	if next == nil {
		return nil
	}
	h := next.Block()
	lp := &RangeLoop{Header: h, Body: map[*ssa.BasicBlock]bool{h: true}}
	// natural loop: blocks dominated by h that can reach h
	var stack []*ssa.BasicBlock
	for _, p := range h.Preds {
		if h.Dominates(p) && p != h {
			stack = append(stack, p)
		}
	}
	for len(stack) > 0 {
		b := stack[len(stack)-1]
		stack = stack[:len(stack)-1]
		if lp.Body[b] {
			continue
		}
		lp.Body[b] = true
		for _, p := range b.Preds {
			if !lp.Body[p] && h.Dominates(p) {
				stack = append(stack, p)
			}
		}
	}
	var blocks []*ssa.BasicBlock
	for b := range lp.Body {
		blocks = append(blocks, b)
	}
	sort.Slice(blocks, func(i, j int) bool { return blocks[i].Index < blocks[j].Index })
	for _, b := range blocks {
		for _, s := range b.Succs {
			if !lp.Body[s] && b != h {
				// blocks ending in panic are not exits
				lp.EarlyExits = append(lp.EarlyExits, b)
			}
		}
		if len(b.Succs) == 0 && b != h {
			if _, isPanic := b.Instrs[len(b.Instrs)-1].(*ssa.Panic); !isPanic {
				lp.EarlyExits = append(lp.EarlyExits, b)
			}
		}
		for _, in := range b.Instrs {
			switch x := in.(type) {
			case *ssa.Call:
				if bi, ok := x.Call.Value.(*ssa.Builtin); ok && bi.Name() == "append" {
					lp.Appends = append(lp.Appends, x)
				}
			case *ssa.BinOp:
				if x.Op == token.ADD {
					if bt, ok := x.Type().Underlying().(*types.Basic); ok && bt.Info()&types.IsString != 0 {
						lp.StrConcat = true
					}
				}
			}
		}
	}
	// returns inside the loop body that are in blocks *not* reaching the header are
	// outside the natural loop; detect them as successors of body blocks that are dominated by h
	// and end in Return.
	for _, b := range blocks {
		for _, s := range b.Succs {
			if lp.Body[s] {
				continue
			}
			if b == h {
				continue
			}
			_ = s
		}
	}
	return lp
}

// globalRoot returns the package variable an address or container value is
// rooted at: the variable itself, a field/element of it, or a field/element
// reached through the pointer/map/slice it holds.
// sliceOfGlobal: v is a package-level slice or a re-slice of one (possibly
// through the phi of an append loop that started from such a re-slice).
func sliceOfGlobal(v ssa.Value, depth int) *ssa.Global {
	if depth > 6 {
		return nil
	}
	switch x := v.(type) {
	case *ssa.Slice:
		return sliceOfGlobal(x.X, depth+1)
	case *ssa.UnOp:
		if x.Op == token.MUL {
			if g, ok := x.X.(*ssa.Global); ok {
				return g
			}
		}
	case *ssa.Phi:
		for _, e := range x.Edges {
			if e == v {
				continue
			}
			if g := sliceOfGlobal(e, depth+1); g != nil {
				return g
			}
		}
	}
	return nil
}

func globalRoot(v ssa.Value) *ssa.Global {
	for i := 0; i < 8; i++ {
		switch x := v.(type) {
		case *ssa.Global:
			return x
		case *ssa.FieldAddr:
			v = x.X
		case *ssa.IndexAddr:
			v = x.X
		case *ssa.UnOp:
			if x.Op != token.MUL {
				return nil
			}
			v = x.X
		default:
			return nil
		}
	}
	return nil
}

// sharedObjectCall: a method call (pointer receiver or interface) on an object
// held directly in a package-level variable. Such an object is shared by every
// state and every goroutine of the process; if the method mutates it, what one
// execution observes depends on what else ran. Loggers and locks are not
// reported (they carry no value that reaches state).
// callView lets the scanner treat Call and Defer alike.
type callView struct{ Call ssa.CallCommon }

// HitCommon returns the call operands of a call-shaped hit (Call or Defer).
func HitCommon(h NDHit) *ssa.CallCommon {
	if ci, ok := h.Instr.(ssa.CallInstruction); ok {
		return ci.Common()
	}
	return nil
}

func sharedObjectCommon(cc *ssa.CallCommon) *ssa.Global {
	var recv ssa.Value
	if cc.IsInvoke() {
		recv = cc.Value
	} else if f := cc.StaticCallee(); f != nil && f.Signature.Recv() != nil && len(cc.Args) > 0 {
		if _, isPtr := f.Signature.Recv().Type().Underlying().(*types.Pointer); !isPtr {
			return nil // value receiver: the object is copied
		}
		recv = cc.Args[0]
	} else {
		return nil
	}
	for i := 0; i < 3; i++ {
		switch x := recv.(type) {
		case *ssa.UnOp:
			if x.Op != token.MUL {
				return nil
			}
			if g, ok := x.X.(*ssa.Global); ok {
				t := shortType(g.Type())
				if strings.Contains(t, "log.Logger") || strings.Contains(t, "sync.Mutex") || strings.Contains(t, "sync.RWMutex") || strings.Contains(t, "sync.Once") {
					return nil
				}
				return g
			}
			return nil
		case *ssa.ChangeInterface:
			recv = x.X
		case *ssa.TypeAssert:
			recv = x.X
		case *ssa.Call:
			// singleton getter: func GetX() T { return xInstance }
			g := getterGlobal(x)
			if g == nil {
				return nil
			}
			return g
		case *ssa.Global:
			t := shortType(x.Type())
			if strings.Contains(t, "sync.Mutex") || strings.Contains(t, "sync.RWMutex") || strings.Contains(t, "sync.Once") || strings.Contains(t, "sync.WaitGroup") || strings.Contains(t, "sync.Map") || strings.Contains(t, "log.Logger") {
				return nil // locks carry no value; sync.Map is reported by the cache clause
			}
			return x // &global used as receiver (includes sync.Pool: recycled objects carry earlier contents)
		default:
			return nil
		}
	}
	return nil
}

// getterGlobal: call is to a parameterless function whose every return is the
// load of one package-level variable (the repo's singleton accessors).
func getterGlobal(call *ssa.Call) *ssa.Global {
	f := call.Call.StaticCallee()
	if f == nil || f.Blocks == nil || len(f.Params) != 0 || f.Signature.Results().Len() != 1 {
		return nil
	}
	var g *ssa.Global
	for _, b := range f.Blocks {
		for _, in := range b.Instrs {
			ret, ok := in.(*ssa.Return)
			if !ok {
				continue
			}
			v := ret.Results[0]
			for {
				if ci, isCI := v.(*ssa.ChangeInterface); isCI {
					v = ci.X
					continue
				}
				if mi, isMI := v.(*ssa.MakeInterface); isMI {
					v = mi.X
					continue
				}
				break
			}
			u, isU := v.(*ssa.UnOp)
			if !isU || u.Op != token.MUL {
				return nil
			}
			gg, isG := u.X.(*ssa.Global)
			if !isG || (g != nil && g != gg) {
				return nil
			}
			g = gg
		}
	}
	if g == nil {
		return nil
	}
	t := shortType(g.Type())
	if strings.Contains(t, "log.Logger") {
		return nil
	}
	return g
}

var numberMutators = map[string]bool{"Add": true, "Sub": true, "Mul": true, "Div": true, "Quo": true, "Mod": true, "Rem": true, "Set": true, "SetBytes": true, "SetUint64": true, "SetInt64": true, "SetString": true, "Neg": true, "Abs": true, "Exp": true, "Lsh": true, "Rsh": true, "And": true, "Or": true, "Xor": true, "Not": true, "Sqrt": true, "QuoRem": true, "DivMod": true, "SetBit": true, "SetBits": true, "Clear": true, "SetOne": true, "AddMod": true, "MulMod": true, "SDiv": true, "SMod": true, "SetFromBig": true, "SetInt": true, "SetFloat64": true, "SetFrac": true, "Inv": true}

// mutatesSharedNumber: a mutating method of big.Int/big.Float/big.Rat/uint256.Int whose receiver is (possibly, through a
// phi) the object a package-level pointer variable holds.
func mutatesSharedNumber(name string, cc *ssa.CallCommon) *ssa.Global {
	var m string
	for _, pre := range []string{"(*math/big.Int).", "(*math/big.Float).", "(*math/big.Rat).", "(*github.com/holiman/uint256.Int)."} {
		if strings.HasPrefix(name, pre) {
			m = strings.TrimPrefix(name, pre)
		}
	}
	if m == "" || !numberMutators[m] || len(cc.Args) == 0 {
		return nil
	}
	seen := map[ssa.Value]bool{}
	var find func(v ssa.Value, d int) *ssa.Global
	find = func(v ssa.Value, d int) *ssa.Global {
		if v == nil || seen[v] || d > 6 {
			return nil
		}
		seen[v] = true
		switch x := v.(type) {
		case *ssa.UnOp:
			if x.Op == token.MUL {
				if g, ok := x.X.(*ssa.Global); ok {
					if _, isPtr := g.Type().(*types.Pointer).Elem().Underlying().(*types.Pointer); isPtr {
						return g
					}
				}
			}
		case *ssa.Phi:
			for _, e := range x.Edges {
				if g := find(e, d+1); g != nil {
					return g
				}
			}
		}
		return nil
	}
	return find(cc.Args[0], 0)
}
