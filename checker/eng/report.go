package eng

import (
	"encoding/json"
	"fmt"
	"os"
	"path/filepath"
	"sort"
	"strings"
	"time"
)

// Obligation is one decided instance of one rule.
type Obligation struct {
	Rule    string `json:"rule"`      // "R12.1"
	Key     string `json:"construct"` // stable construct key (function / row / field), never a line number
	Pos     string `json:"pos,omitempty"`
	Verdict string `json:"verdict"` // "held", "violated", "known-finding", "info"
	Msg     string `json:"detail,omitempty"`
}

// Report collects the obligations of one property run.
type Report struct {
	Prop    string
	Tier    string
	Level   string
	Obls    []Obligation
	Notes   []string
	Explain string
	Assume  []string
	Trusted []string
	mins    map[string]int
	Extra   map[string]interface{}
	start   time.Time
}

func NewReport(prop, tier string) *Report {
	return &Report{Prop: prop, Tier: tier, Level: "other", mins: map[string]int{}, Extra: map[string]interface{}{}, start: time.Now()}
}

func (r *Report) Pass(rule, key, pos, msg string) {
	r.Obls = append(r.Obls, Obligation{rule, key, pos, "held", msg})
}
func (r *Report) Fail(rule, key, pos, msg string) {
	r.Obls = append(r.Obls, Obligation{rule, key, pos, "violated", msg})
}

// Check records Pass or Fail according to ok.
func (r *Report) Check(ok bool, rule, key, pos, okMsg, failMsg string) bool {
	if ok {
		r.Pass(rule, key, pos, okMsg)
	} else {
		r.Fail(rule, key, pos, failMsg)
	}
	return ok
}

// Info records an observation that is never a verdict.
func (r *Report) Info(rule, key, pos, msg string) {
	r.Obls = append(r.Obls, Obligation{rule, key, pos, "info", msg})
}
func (r *Report) Note(format string, a ...interface{}) {
	r.Notes = append(r.Notes, fmt.Sprintf(format, a...))
}

// Anchor fails the run loudly when a construct named in a rule table no longer
// resolves: silent loss of coverage is worse than a loud failure.
func (r *Report) Anchor(ok bool, rule, what string) bool {
	if !ok {
		r.Fail(rule, "anchor:"+what, "", "anchor does not resolve in the current tree: "+what+" (rule cannot be decided; undecided is never reported as held)")
	}
	return ok
}

// Min declares the number of instances confirmed by hand for a rule; a run that
// decides fewer fails (a rule matching nothing passes vacuously forever).
func (r *Report) Min(rule string, n int) { r.mins[rule] = n }

// KnownFinding is one entry of /verif/known_findings.json.
type KnownFinding struct {
	Property string `json:"property"`
	Rule     string `json:"rule"`
	Key      string `json:"construct"`
	Status   string `json:"status"` // "open" | "fixed"
	What     string `json:"what"`
	Commit   string `json:"commit,omitempty"`
	ID       string `json:"id,omitempty"`
}

type knownFile struct {
	Findings []KnownFinding `json:"findings"`
}

func LoadKnown(path string) ([]KnownFinding, error) {
	b, err := os.ReadFile(path)
	if err != nil {
		if os.IsNotExist(err) {
			return nil, nil
		}
		return nil, err
	}
	var k knownFile
	if err := json.Unmarshal(b, &k); err != nil {
		return nil, err
	}
	return k.Findings, nil
}

// Finish applies min-instance rules and the known-findings file, writes the
// evidence, prints the contract lines, and returns the process exit code.
func (r *Report) Finish(verifDir string, ctx *Ctx, loadErr error) int {
	evDir := filepath.Join(verifDir, "evidence")
	os.MkdirAll(evDir, 0o755)
	evPath := filepath.Join(evDir, r.Prop+".json")
	violPath := filepath.Join(evDir, r.Prop+".violations.json")
	os.Remove(violPath)

	if loadErr != nil {
		r.Fail("loader", "load", "", loadErr.Error())
	}
	// min-instances
	counts := map[string]int{}
	for _, o := range r.Obls {
		if o.Verdict != "info" && !strings.HasPrefix(o.Key, "anchor:") {
			counts[o.Rule]++
		}
	}
	var rules []string
	for rule := range r.mins {
		rules = append(rules, rule)
	}
	sort.Strings(rules)
	for _, rule := range rules {
		if counts[rule] < r.mins[rule] {
			r.Fail(rule, "min-instances", "", fmt.Sprintf("rule decided %d instances, fewer than the %d confirmed by hand: the rule has lost sight of code it is meant to cover", counts[rule], r.mins[rule]))
		}
	}
	known, kerr := LoadKnown(filepath.Join(verifDir, "known_findings.json"))
	if kerr != nil {
		r.Fail("loader", "known_findings.json", "", kerr.Error())
	}
	open := map[string]*KnownFinding{}
	for i := range known {
		k := &known[i]
		if k.Property == r.Prop && k.Status == "open" {
			open[k.Rule+"|"+k.Key] = k
		}
	}
	var viol []Obligation
	nHeld, nKnown, nInfo := 0, 0, 0
	seenKnown := map[string]bool{}
	for i := range r.Obls {
		o := &r.Obls[i]
		switch o.Verdict {
		case "held":
			nHeld++
		case "info":
			nInfo++
			if os.Getenv("RR_DUMP_INFO") != "" {
				fmt.Printf("  info %s %s at %s: %s\n", o.Rule, o.Key, o.Pos, o.Msg)
			}
		case "violated":
			if k, ok := open[o.Rule+"|"+o.Key]; ok {
				o.Verdict = "known-finding"
				nKnown++
				if !seenKnown[o.Rule+"|"+o.Key] {
					seenKnown[o.Rule+"|"+o.Key] = true
					fmt.Printf("KNOWN-FINDING: property=%s %s %s [%s]: %s\n", r.Prop, o.Rule, o.Key, k.ID, k.What)
				}
			} else {
				viol = append(viol, *o)
			}
		}
	}
	for key, k := range open {
		if !seenKnown[key] {
			r.Note("known finding %s (%s) is listed open but did not reproduce on this tree (repaired or construct gone); nothing suppressed", k.ID, key)
		}
	}
	nObl := nHeld + nKnown + len(viol)
	if r.Trusted == nil {
		r.Trusted = []string{"go/parser + go/types (type-checked program)", "golang.org/x/tools v0.29.0 go/ssa lowering and VTA call graph", "the reviewed instance tables in /verif/checker/rules (each entry carries its reason)"}
	}
	if r.Assume == nil {
		r.Assume = []string{}
	}
	if r.Notes == nil {
		r.Notes = []string{}
	}

	// samples: first obligations of each rule, violations first
	var samples []Obligation
	samples = append(samples, viol...)
	perRule := map[string]int{}
	for _, o := range r.Obls {
		if o.Verdict == "violated" {
			continue
		}
		if perRule[o.Rule+o.Verdict] < 4 {
			perRule[o.Rule+o.Verdict]++
			samples = append(samples, o)
		}
	}
	if len(samples) > 120 {
		samples = samples[:120]
	}
	byRule := map[string]map[string]int{}
	for _, o := range r.Obls {
		if byRule[o.Rule] == nil {
			byRule[o.Rule] = map[string]int{}
		}
		byRule[o.Rule][o.Verdict]++
	}
	distinct := map[string]bool{}
	for _, o := range r.Obls {
		if o.Verdict != "info" {
			distinct[o.Rule+"|"+o.Key] = true
		}
	}
	cov := map[string]interface{}{
		"explanation":         r.Explain,
		"obligations":         nObl,
		"discharged":          nHeld,
		"known_findings":      nKnown,
		"evaluations":         nObl,
		"distinct_nontrivial": len(distinct),
		"rule":                "one obligation per (rule, construct) instance found in the current source: a call site, a function, a table row, a struct field or a CFG path class; distinct = distinct (rule, construct) keys; every instance of the finite syntactic space named by the rule is enumerated, nothing is sampled",
		"samples":             samples,
		"per_rule":            byRule,
		"exhaustive":          true,
		"checker_cmd":         "bin/rrcheck -prop " + r.Prop + " -tier " + r.Tier,
		"trusted_base":        r.Trusted,
		"notes":               r.Notes,
	}
	if ctx != nil {
		cov["packages_loaded"] = ctx.NumPkgs
		cov["module_packages"] = ctx.NumModPkgs
		cov["functions_in_program"] = ctx.NumFuncs
	}
	for k, v := range r.Extra {
		cov[k] = v
	}
	seed := 0
	fmt.Sscanf(os.Getenv("VERIF_SEED"), "%d", &seed)
	ev := map[string]interface{}{
		"property_id": r.Prop,
		"tier":        r.Tier,
		"seed":        seed,
		"level":       r.Level,
		"coverage":    cov,
		"assumptions": r.Assume,
		"wall_s":      time.Since(r.start).Seconds(),
		"violations":  len(viol),
	}
	b, _ := json.MarshalIndent(ev, "", " ")
	if err := os.WriteFile(evPath, b, 0o644); err != nil {
		fmt.Fprintln(os.Stderr, "cannot write evidence:", err)
		return 2
	}
	fmt.Printf("rrcheck %s tier=%s: %d obligations, %d held, %d known-finding, %d violated, %d info (%.1fs)\n",
		r.Prop, r.Tier, nObl, nHeld, nKnown, len(viol), nInfo, time.Since(r.start).Seconds())
	var rs []string
	for rule := range byRule {
		rs = append(rs, rule)
	}
	sort.Strings(rs)
	for _, rule := range rs {
		m := byRule[rule]
		fmt.Printf("  %-8s held=%d known=%d violated=%d info=%d\n", rule, m["held"], m["known-finding"], m["violated"], m["info"])
	}
	if len(viol) > 0 {
		vb, _ := json.MarshalIndent(map[string]interface{}{"property": r.Prop, "violations": viol}, "", " ")
		os.WriteFile(violPath, vb, 0o644)
		for _, o := range viol {
			fmt.Printf("  violated %s %s at %s: %s\n", o.Rule, o.Key, o.Pos, o.Msg)
		}
		fmt.Printf("VIOLATION property=%s replay=%s\n", r.Prop, violPath)
		return 1
	}
	return 0
}
