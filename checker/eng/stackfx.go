package eng

import (
	"fmt"
	"go/constant"
	"go/token"
	"go/types"
	"sort"
	"strings"

	"golang.org/x/tools/go/ssa"
)

// This file is the EVM-handler abstract interpreter (DESIGN.md P6/P11): it
// walks the SSA of a jump-table handler with a symbolic operand stack and
// constant propagation (so `for i < size` loops of handler factories unroll),
// and reports per exit the stack effect, and globally every Memory access with
// its (offset, size) operands expressed as entry stack slots.

// Operand is a memory offset/size argument: entry stack slot + constant, or a
// constant, or unknown.
type Operand struct {
	Slot    int // entry slot (0 = top of stack at handler entry); -1 none
	Add     int64
	Const   bool
	Unknown string // non-empty: could not be resolved (description)
}

func (o Operand) String() string {
	switch {
	case o.Unknown != "":
		return "?" + o.Unknown
	case o.Const:
		return fmt.Sprint(o.Add)
	case o.Add != 0:
		return fmt.Sprintf("slot%d+%d", o.Slot, o.Add)
	}
	return fmt.Sprintf("slot%d", o.Slot)
}

// MemAccess is one call of a vm.Memory method inside a handler.
type MemAccess struct {
	Method    string
	Off, Size Operand
	Pos       token.Pos
	Fn        *ssa.Function
	Instr     ssa.Instruction
}

// ExitFx is the stack effect observed at one kind of handler exit.
type ExitFx struct {
	Delta    int  // height at exit relative to entry
	Need     int  // entry items the handler touched (deepest slot + 1)
	MaxDelta int  // highest transient height relative to entry
	ErrExit  bool // the error result is definitely non-nil
	Pos      token.Pos
}

// HandlerFx is the result for one handler.
type HandlerFx struct {
	Exits     []ExitFx
	Mem       []MemAccess
	Undecided []string
	// Binding records, for the 2-operand word operations, which uint256 method
	// was applied to which slots (P11), in program order.
	Ops []WordOp
	// Shuffles lists dup/swap operations with the entry slots involved, e.g.
	// "dup(slot2)", "swap(slot0,slot3)".
	Shuffles []string
	// PcAdds lists the constants added to *pc by the handler (PUSHn skip widths).
	PcAdds []int64
}

// WordOp is a call of a uint256.Int method whose receiver/arguments are stack slots.
type WordOp struct {
	Method string
	Recv   string   // "slotK" / "new" / "?"
	Args   []string // same vocabulary, constants as decimal
	Pos    token.Pos
}

type sym struct {
	entry int // >=0: entry slot; -1: value created in the handler
	id    int
}

func (s sym) String() string {
	if s.entry >= 0 {
		return fmt.Sprintf("slot%d", s.entry)
	}
	return "new"
}

type fxState struct {
	below  int   // entry slots popped so far
	pushed []sym // items above the remaining entry stack
	need   int
	maxD   int
}

func (s *fxState) clone() *fxState {
	c := *s
	c.pushed = append([]sym(nil), s.pushed...)
	return &c
}
func (s *fxState) delta() int { return len(s.pushed) - s.below }
func (s *fxState) touch(entryIdx int) {
	if entryIdx+1 > s.need {
		s.need = entryIdx + 1
	}
}
func (s *fxState) back(n int) sym {
	if n < len(s.pushed) {
		return s.pushed[len(s.pushed)-1-n]
	}
	e := s.below + n - len(s.pushed)
	s.touch(e)
	return sym{entry: e}
}
func (s *fxState) pop() sym {
	if len(s.pushed) > 0 {
		x := s.pushed[len(s.pushed)-1]
		s.pushed = s.pushed[:len(s.pushed)-1]
		return x
	}
	e := s.below
	s.touch(e)
	s.below++
	return sym{entry: e}
}
func (s *fxState) push(x sym) {
	s.pushed = append(s.pushed, x)
	if d := s.delta(); d > s.maxD {
		s.maxD = d
	}
}
func (s *fxState) key() string {
	var b strings.Builder
	fmt.Fprintf(&b, "%d|%d|%d|", s.below, s.need, s.maxD)
	for _, p := range s.pushed {
		fmt.Fprintf(&b, "%d,", p.entry)
	}
	return b.String()
}

type fxInterp struct {
	c       *Ctx
	res     *HandlerFx
	bind    map[ssa.Value]sym   // value (pop result / peek pointer / alloc cell) → symbol
	consts  map[ssa.Value]int64 // constant environment (free vars, phis, arithmetic)
	cells   map[ssa.Value]int64 // alloc cells holding constants (by-reference free vars)
	params  map[*ssa.Parameter]Operand
	memSeen map[string]bool
	opSeen  map[string]bool
	steps   int
	depth   int
}

// HandlerStackFx analyses handler fn. makerArgs are the constant arguments of
// the factory call when fn is a closure returned by makeX(args…).
func (c *Ctx) HandlerStackFx(fn *ssa.Function, makerArgs []int64) *HandlerFx {
	it := &fxInterp{c: c, res: &HandlerFx{}, bind: map[ssa.Value]sym{}, consts: map[ssa.Value]int64{}, cells: map[ssa.Value]int64{},
		params: map[*ssa.Parameter]Operand{}, memSeen: map[string]bool{}, opSeen: map[string]bool{}}
	if fn.Parent() != nil && len(fn.FreeVars) > 0 {
		it.bindFreeVars(fn, makerArgs)
	}
	st := &fxState{}
	exits := map[string]ExitFx{}
	it.run(fn, st, func(s *fxState, ret *ssa.Return) {
		e := ExitFx{Delta: s.delta(), Need: s.need, MaxDelta: s.maxD, Pos: ret.Pos()}
		if n := len(ret.Results); n > 0 {
			ev := RetValue(ret, n-1)
			e.ErrExit = definitelyNonNilErr(ev)
			if !e.ErrExit {
				// `if err != nil { return nil, err }`
				for _, cd := range CondsAt(ret) {
					if m, ok := cd.Cmp(); ok && m.Op == token.NEQ && ((m.X == ev && IsNilConst(m.Y)) || (m.Y == ev && IsNilConst(m.X))) {
						e.ErrExit = true
					}
				}
			}
		}
		k := fmt.Sprint(e.Delta, e.Need, e.MaxDelta, e.ErrExit)
		if _, ok := exits[k]; !ok {
			exits[k] = e
		}
	})
	var ks []string
	for k := range exits {
		ks = append(ks, k)
	}
	sort.Strings(ks)
	for _, k := range ks {
		it.res.Exits = append(it.res.Exits, exits[k])
	}
	return it.res
}

// bindFreeVars evaluates the (straight-line) factory to learn the constant
// captured by each free variable of the returned closure.
func (it *fxInterp) bindFreeVars(fn *ssa.Function, args []int64) {
	mk := fn.Parent()
	env := map[ssa.Value]int64{}
	cells := map[ssa.Value]int64{}
	for i, p := range mk.Params {
		if i < len(args) {
			env[p] = args[i]
		}
	}
	if len(mk.Blocks) == 0 {
		return
	}
	for _, in := range mk.Blocks[0].Instrs {
		switch x := in.(type) {
		case *ssa.Store:
			if v, ok := evalConst(x.Val, env); ok {
				cells[x.Addr] = v
			}
		case *ssa.UnOp:
			if x.Op == token.MUL {
				if v, ok := cells[x.X]; ok {
					env[x] = v
				}
			}
		case *ssa.BinOp, *ssa.Convert:
			if v, ok := evalConst(x.(ssa.Value), env); ok {
				env[x.(ssa.Value)] = v
			}
		case *ssa.MakeClosure:
			if x.Fn != ssa.Value(fn) {
				continue
			}
			for i, b := range x.Bindings {
				if i >= len(fn.FreeVars) {
					break
				}
				fv := fn.FreeVars[i]
				if v, ok := cells[b]; ok { // captured by reference
					it.cells[fv] = v
				} else if v, ok := evalConst(b, env); ok {
					it.consts[fv] = v
				}
			}
		}
	}
}

func evalConst(v ssa.Value, env map[ssa.Value]int64) (int64, bool) {
	if k, ok := env[v]; ok {
		return k, true
	}
	switch x := v.(type) {
	case *ssa.Const:
		if x.Value == nil || x.Value.Kind() != constant.Int {
			return 0, false
		}
		i, ok := constant.Int64Val(x.Value)
		return i, ok
	case *ssa.Convert:
		if b, ok := x.Type().Underlying().(*types.Basic); ok && b.Info()&types.IsInteger != 0 {
			return evalConst(x.X, env)
		}
	case *ssa.ChangeType:
		return evalConst(x.X, env)
	case *ssa.BinOp:
		a, ok1 := evalConst(x.X, env)
		b, ok2 := evalConst(x.Y, env)
		if !ok1 || !ok2 {
			return 0, false
		}
		switch x.Op {
		case token.ADD:
			return a + b, true
		case token.SUB:
			return a - b, true
		case token.MUL:
			return a * b, true
		}
	}
	return 0, false
}

func evalCond(v ssa.Value, env map[ssa.Value]int64) (bool, bool) {
	bo, ok := v.(*ssa.BinOp)
	if !ok {
		return false, false
	}
	a, ok1 := evalConst(bo.X, env)
	b, ok2 := evalConst(bo.Y, env)
	if !ok1 || !ok2 {
		return false, false
	}
	switch bo.Op {
	case token.LSS:
		return a < b, true
	case token.LEQ:
		return a <= b, true
	case token.GTR:
		return a > b, true
	case token.GEQ:
		return a >= b, true
	case token.EQL:
		return a == b, true
	case token.NEQ:
		return a != b, true
	}
	return false, false
}

func definitelyNonNilErr(v ssa.Value) bool {
	switch x := v.(type) {
	case *ssa.MakeInterface:
		return true
	case *ssa.Call:
		n := CallName(&x.Call)
		return n == "fmt.Errorf" || n == "errors.New"
	case *ssa.UnOp:
		if x.Op == token.MUL {
			if g, ok := x.X.(*ssa.Global); ok && strings.HasPrefix(g.Name(), "Err") || ok && strings.HasPrefix(g.Name(), "err") {
				return true
			}
		}
	}
	return false
}

func isVM(fn *ssa.Function) bool { return fn != nil && FuncPkgPath(fn) == Mod+"/src/vm" }

// run interprets fn from its entry with state st; onRet is called per return.
func (it *fxInterp) run(fn *ssa.Function, st *fxState, onRet func(*fxState, *ssa.Return)) {
	if len(fn.Blocks) == 0 {
		return
	}
	visited := map[string]int{}
	var walk func(b, pred *ssa.BasicBlock, s *fxState)
	walk = func(b, pred *ssa.BasicBlock, s *fxState) {
		it.steps++
		if it.steps > 300000 {
			it.undecided("step limit exceeded in " + FuncName(fn))
			return
		}
		// phis first (constant environment and symbol merging)
		phiSig := ""
		for _, in := range b.Instrs {
			phi, ok := in.(*ssa.Phi)
			if !ok {
				break
			}
			if pred != nil {
				for i, p := range b.Preds {
					if p == pred {
						if k, ok := evalConst(phi.Edges[i], it.consts); ok {
							it.consts[phi] = k
							phiSig += fmt.Sprintf("%s=%d;", phi.Name(), k)
						} else {
							delete(it.consts, phi)
						}
						if sy, ok := it.bind[phi.Edges[i]]; ok {
							it.bind[phi] = sy
						} else {
							delete(it.bind, phi)
						}
					}
				}
			}
		}
		key := fmt.Sprintf("%d#%s#%s", b.Index, s.key(), phiSig)
		if visited[key] > 0 {
			return
		}
		visited[key]++
		for _, in := range b.Instrs {
			switch x := in.(type) {
			case *ssa.Phi:
				continue
			case *ssa.Store:
				// memory.store[i] = b: a one-byte write that bypasses the Memory methods
				if ia, isIA := x.Addr.(*ssa.IndexAddr); isIA {
					if ld, isLd := ia.X.(*ssa.UnOp); isLd && ld.Op == token.MUL {
						if t, f := FieldOf(ld.X); f == "store" && strings.HasSuffix(t, "vm.Memory") {
							m := MemAccess{Method: "store[]", Off: it.operand(ia.Index), Size: Operand{Slot: -1, Add: 1, Const: true}, Pos: x.Pos(), Fn: fn, Instr: x}
							k := fmt.Sprint(m.Method, m.Off, m.Size, x.Pos())
							if !it.memSeen[k] {
								it.memSeen[k] = true
								it.res.Mem = append(it.res.Mem, m)
							}
						}
					}
				}
				if p, ok := x.Addr.(*ssa.Parameter); ok && len(fn.Params) > 0 && p == fn.Params[0] && it.depth == 0 {
					if bo, ok := x.Val.(*ssa.BinOp); ok && bo.Op == token.ADD {
						if k, ok := evalConst(bo.Y, it.consts); ok {
							it.res.PcAdds = append(it.res.PcAdds, k)
						}
					}
				}
				if sy, ok := it.bind[x.Val]; ok {
					it.bind[x.Addr] = sy
				} else {
					delete(it.bind, x.Addr)
				}
				if k, ok := evalConst(x.Val, it.consts); ok {
					it.cells[x.Addr] = k
				} else {
					delete(it.cells, x.Addr)
				}
			case *ssa.UnOp:
				if x.Op == token.MUL {
					delete(it.consts, x)
					if k, ok := it.cells[x.X]; ok {
						it.consts[x] = k
					}
					if sy, ok := it.bind[x.X]; ok {
						// load of a cell holding a popped word, or of a **Stack slot pointer
						it.bind[x] = sy
					}
				}
			case *ssa.BinOp, *ssa.Convert:
				delete(it.consts, x.(ssa.Value)) // recompute: a cached value from an earlier loop iteration is stale
				if k, ok := evalConst(x.(ssa.Value), it.consts); ok {
					it.consts[x.(ssa.Value)] = k
				}
			case *ssa.Call:
				it.call(fn, x, s)
			case *ssa.Defer, *ssa.Go:
				// no handler defers stack operations; flag if one ever does
				cc := x.(ssa.CallInstruction).Common()
				if f := cc.StaticCallee(); f != nil && isVM(f) && touchesStack(f) {
					it.undecided("deferred/async stack operation in " + FuncName(fn))
				}
			case *ssa.Return:
				onRet(s, x)
				return
			case *ssa.Panic:
				return
			case *ssa.If:
				if t, ok := evalCond(x.Cond, it.consts); ok {
					if t {
						walk(b.Succs[0], b, s)
					} else {
						walk(b.Succs[1], b, s)
					}
					return
				}
				s2 := s.clone()
				walk(b.Succs[0], b, s)
				walk(b.Succs[1], b, s2)
				return
			case *ssa.Jump:
				walk(b.Succs[0], b, s)
				return
			}
		}
	}
	walk(fn.Blocks[0], nil, st)
}

func (it *fxInterp) shuffle(sig string) {
	for _, u := range it.res.Shuffles {
		if u == sig {
			return
		}
	}
	it.res.Shuffles = append(it.res.Shuffles, sig)
}

func (it *fxInterp) undecided(msg string) {
	for _, u := range it.res.Undecided {
		if u == msg {
			return
		}
	}
	it.res.Undecided = append(it.res.Undecided, msg)
}

func touchesStack(f *ssa.Function) bool {
	for _, p := range f.Params {
		t := p.Type().String()
		if strings.HasSuffix(t, "vm.Stack") || strings.HasSuffix(t, "vm.callCtx") {
			return true
		}
	}
	return false
}

func (it *fxInterp) constArg(v ssa.Value) (int64, bool) { return evalConst(v, it.consts) }

func (it *fxInterp) call(fn *ssa.Function, call *ssa.Call, s *fxState) {
	callee := call.Call.StaticCallee()
	if callee == nil {
		return
	}
	name := FuncName(callee)
	args := call.Call.Args
	switch name {
	case "(*vm.Stack).pop":
		it.bind[call] = s.pop()
		return
	case "(*vm.Stack).peek":
		it.bind[call] = s.back(0)
		return
	case "(*vm.Stack).Back":
		if n, ok := it.constArg(args[1]); ok {
			it.bind[call] = s.back(int(n))
		} else {
			it.undecided("Stack.Back with non-constant index in " + FuncName(fn))
		}
		return
	case "(*vm.Stack).push":
		s.push(sym{entry: -1})
		return
	case "(*vm.Stack).pushN":
		it.undecided("Stack.pushN used in " + FuncName(fn))
		return
	case "(*vm.Stack).dup":
		if n, ok := it.constArg(args[1]); ok && n >= 1 {
			x := s.back(int(n) - 1)
			s.push(x)
			it.shuffle("dup(" + x.String() + ")")
		} else {
			it.undecided("Stack.dup with non-constant index in " + FuncName(fn))
		}
		return
	case "(*vm.Stack).swap":
		if n, ok := it.constArg(args[1]); ok && n >= 1 {
			a, b := s.back(0), s.back(int(n)-1)
			it.shuffle("swap(" + a.String() + "," + b.String() + ")")
		} else {
			it.undecided("Stack.swap with non-constant index in " + FuncName(fn))
		}
		return
	case "(*vm.Stack).len", "(*vm.Stack).Data", "(*vm.Stack).Print":
		return
	}
	if strings.HasPrefix(name, "(*vm.Memory).") {
		it.memCall(fn, call, strings.TrimPrefix(name, "(*vm.Memory)."))
		return
	}
	if strings.HasPrefix(name, "(*github.com/holiman/uint256.Int).") {
		it.wordOp(call, strings.TrimPrefix(name, "(*github.com/holiman/uint256.Int)."))
		return
	}
	// helpers of the vm package that receive the call context or the stack are inlined
	if isVM(callee) && touchesStack(callee) && callee.Blocks != nil {
		if it.depth > 4 {
			it.undecided("helper nesting too deep at " + name)
			return
		}
		saved := map[*ssa.Parameter]Operand{}
		for i, p := range callee.Params {
			if i < len(args) {
				saved[p] = it.params[p]
				it.params[p] = it.operand(args[i])
				if k, ok := it.constArg(args[i]); ok {
					it.consts[p] = k
				}
			}
		}
		it.depth++
		// the helper's returns continue in the caller with the state reached; helpers with
		// several returns of different effect would need forking, which none has — checked.
		var outs []*fxState
		var rets []*ssa.Return
		it.run(callee, s.clone(), func(rs *fxState, r *ssa.Return) { outs = append(outs, rs.clone()); rets = append(rets, r) })
		it.depth--
		for p, o := range saved {
			it.params[p] = o
		}
		if len(outs) == 0 {
			return
		}
		first := outs[0]
		for _, o := range outs[1:] {
			if o.below != first.below || len(o.pushed) != len(first.pushed) {
				it.undecided("helper " + name + " has exits with different stack effects")
			}
			if o.need > first.need {
				first.need = o.need
			}
			if o.maxD > first.maxD {
				first.maxD = o.maxD
			}
		}
		*s = *first
		// result of a popping helper (popUint256/popAddress/…): bind to the popped symbol when
		// the helper popped exactly one entry and returns a value derived from it
		if len(rets) == 1 && len(rets[0].Results) >= 1 {
			if sy, ok := it.bind[rets[0].Results[0]]; ok {
				it.bind[call] = sy
			}
		}
	}
}

// operand resolves a memory offset/size argument.
func (it *fxInterp) operand(v ssa.Value) Operand {
	if k, ok := evalConst(v, it.consts); ok {
		return Operand{Slot: -1, Add: k, Const: true}
	}
	switch x := v.(type) {
	case *ssa.Parameter:
		if o, ok := it.params[x]; ok {
			return o
		}
	case *ssa.Convert:
		return it.operand(x.X)
	case *ssa.ChangeType:
		return it.operand(x.X)
	case *ssa.BinOp:
		if x.Op == token.ADD {
			a, b := it.operand(x.X), it.operand(x.Y)
			if a.Unknown == "" && b.Const {
				a.Add += b.Add
				return a
			}
			if b.Unknown == "" && a.Const {
				b.Add += a.Add
				return b
			}
		}
	case *ssa.Call:
		n := CallName(&x.Call)
		if n == "(*github.com/holiman/uint256.Int).Uint64" && len(x.Call.Args) == 1 {
			if sy, ok := it.bind[x.Call.Args[0]]; ok && sy.entry >= 0 {
				return Operand{Slot: sy.entry}
			}
			return Operand{Slot: -1, Unknown: "Uint64(" + Desc(x.Call.Args[0]) + ")"}
		}
	case *ssa.Extract:
		if c, ok := x.Tuple.(*ssa.Call); ok && x.Index == 0 {
			n := CallName(&c.Call)
			if n == "(*github.com/holiman/uint256.Int).Uint64WithOverflow" {
				if sy, ok := it.bind[c.Call.Args[0]]; ok && sy.entry >= 0 {
					return Operand{Slot: sy.entry}
				}
			}
		}
	}
	return Operand{Slot: -1, Unknown: Desc(v)}
}

func (it *fxInterp) memCall(fn *ssa.Function, call *ssa.Call, method string) {
	a := call.Call.Args
	add := func(off, size Operand) {
		m := MemAccess{Method: method, Off: off, Size: size, Pos: call.Pos(), Fn: fn, Instr: call}
		k := fmt.Sprint(method, off, size, call.Pos())
		if !it.memSeen[k] {
			it.memSeen[k] = true
			it.res.Mem = append(it.res.Mem, m)
		}
	}
	switch method {
	case "GetPtr", "GetCopy", "Set":
		add(it.operand(a[1]), it.operand(a[2]))
	case "Set32":
		add(it.operand(a[1]), Operand{Slot: -1, Add: 32, Const: true})
	case "Copy":
		add(it.operand(a[1]), it.operand(a[3]))
		add(it.operand(a[2]), it.operand(a[3]))
	}
}

func (it *fxInterp) wordOp(call *ssa.Call, method string) {
	role := func(v ssa.Value) string {
		if sy, ok := it.bind[v]; ok {
			return sy.String()
		}
		if k, ok := evalConst(v, it.consts); ok {
			return fmt.Sprint(k)
		}
		// uint(x.Uint64()) style shift amounts
		if cv, ok := v.(*ssa.Convert); ok {
			if c, ok := cv.X.(*ssa.Call); ok && CallName(&c.Call) == "(*github.com/holiman/uint256.Int).Uint64" {
				if sy, ok := it.bind[c.Call.Args[0]]; ok {
					return "u64(" + sy.String() + ")"
				}
			}
		}
		return "?"
	}
	a := call.Call.Args
	op := WordOp{Method: method, Recv: role(a[0]), Pos: call.Pos()}
	for _, x := range a[1:] {
		op.Args = append(op.Args, role(x))
	}
	k := fmt.Sprint(op.Method, op.Recv, op.Args, op.Pos)
	if !it.opSeen[k] {
		it.opSeen[k] = true
		it.res.Ops = append(it.res.Ops, op)
	}
}

// ---------------------------------------------------------------- memorySize functions

// MemRegion is one calcMemSize64(off, len) term of a memorySize function.
type MemRegion struct {
	OffSlots []int // alternatives when the offset is a phi of Back() results (max of several)
	LenSlot  int   // -1 when the length is a constant
	LenConst int64
}

// MemSizeRegions extracts the regions a memorySize function accounts for.
func (c *Ctx) MemSizeRegions(fn *ssa.Function) (regs []MemRegion, problems []string) {
	var slotsOf func(v ssa.Value, depth int) []int
	slotsOf = func(v ssa.Value, depth int) []int {
		if depth > 4 {
			return nil
		}
		switch x := v.(type) {
		case *ssa.Call:
			if CallName(&x.Call) == "(*vm.Stack).Back" {
				if k, ok := ConstInt(x.Call.Args[1]); ok {
					return []int{int(k)}
				}
			}
		case *ssa.Phi:
			var out []int
			for _, e := range x.Edges {
				s := slotsOf(e, depth+1)
				if s == nil {
					return nil
				}
				out = append(out, s...)
			}
			return out
		}
		return nil
	}
	for _, s := range Sites(fn) {
		switch s.Name() {
		case "vm.calcMemSize64":
			a := s.Common().Args
			off, ln := slotsOf(a[0], 0), slotsOf(a[1], 0)
			if off == nil || len(ln) != 1 {
				problems = append(problems, "calcMemSize64 with operands that are not Stack.Back(k): "+Desc(a[0])+", "+Desc(a[1]))
				continue
			}
			regs = append(regs, MemRegion{OffSlots: off, LenSlot: ln[0]})
		case "vm.calcMemSize64WithUint":
			a := s.Common().Args
			off := slotsOf(a[0], 0)
			k, ok := ConstInt(a[1])
			if off == nil || !ok {
				problems = append(problems, "calcMemSize64WithUint with unrecognised operands: "+Desc(a[0])+", "+Desc(a[1]))
				continue
			}
			regs = append(regs, MemRegion{OffSlots: off, LenSlot: -1, LenConst: k})
		}
	}
	return regs, problems
}
