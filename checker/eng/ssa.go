package eng

import (
	"fmt"
	"go/constant"
	"go/token"
	"go/types"
	"sort"
	"strings"

	"golang.org/x/tools/go/callgraph"
	"golang.org/x/tools/go/ssa"
)

// ---------------------------------------------------------------- calls

// Site is one call instruction (call, go or defer) inside a function.
type Site struct {
	Fn    *ssa.Function
	Instr ssa.CallInstruction
}

func (s Site) Common() *ssa.CallCommon { return s.Instr.Common() }
func (s Site) Pos() token.Pos {
	if p := s.Instr.Pos(); p.IsValid() {
		return p
	}
	return s.Instr.Common().Pos()
}

// Static returns the statically resolved callee (nil for dynamic calls).
func (s Site) Static() *ssa.Function { return s.Common().StaticCallee() }

// Name is the short name of what is called: "vm.(*EVM).Call" for a static
// callee, "iface:vm.StateDB.Snapshot" for an interface method, "dyn" otherwise,
// "builtin:append" for builtins.
func (s Site) Name() string { return CallName(s.Common()) }

func CallName(cc *ssa.CallCommon) string {
	if cc.IsInvoke() {
		recv := cc.Value.Type()
		return "iface:" + shortType(recv) + "." + cc.Method.Name()
	}
	if f := cc.StaticCallee(); f != nil {
		return FuncName(f)
	}
	if b, ok := cc.Value.(*ssa.Builtin); ok {
		return "builtin:" + b.Name()
	}
	return "dyn"
}

func shortType(t types.Type) string {
	s := types.TypeString(t, func(p *types.Package) string {
		return strings.TrimPrefix(p.Path(), Mod+"/src/")
	})
	return s
}

// ShortType is the exported form.
func ShortType(t types.Type) string { return shortType(t) }

// Sites lists every call/go/defer instruction in fn, in block order.
func Sites(fn *ssa.Function) []Site {
	var out []Site
	for _, b := range fn.Blocks {
		for _, in := range b.Instrs {
			if ci, ok := in.(ssa.CallInstruction); ok {
				out = append(out, Site{fn, ci})
			}
		}
	}
	return out
}

// SitesNamed returns the call sites in fn whose Name() satisfies match.
func SitesNamed(fn *ssa.Function, match func(string) bool) []Site {
	var out []Site
	for _, s := range Sites(fn) {
		if match(s.Name()) {
			out = append(out, s)
		}
	}
	return out
}

// NameIs builds a matcher for exact names.
func NameIs(names ...string) func(string) bool {
	m := map[string]bool{}
	for _, n := range names {
		m[n] = true
	}
	return func(s string) bool { return m[s] }
}

// NameHasSuffix builds a matcher on suffixes (".Snapshot").
func NameHasSuffix(sfx ...string) func(string) bool {
	return func(s string) bool {
		for _, x := range sfx {
			if strings.HasSuffix(s, x) {
				return true
			}
		}
		return false
	}
}

// ---------------------------------------------------------------- dominance

// InstrIndex returns the index of in inside its block.
func InstrIndex(in ssa.Instruction) int {
	for i, x := range in.Block().Instrs {
		if x == in {
			return i
		}
	}
	return -1
}

// Dominates reports whether instruction a is executed before b on every path
// reaching b (a strictly precedes b in the same block, or a's block dominates b's).
func Dominates(a, b ssa.Instruction) bool {
	if a.Block() == b.Block() {
		return InstrIndex(a) < InstrIndex(b)
	}
	return a.Block().Dominates(b.Block())
}

// Cond is one branch condition known to hold at a program point.
type Cond struct {
	V    ssa.Value // the boolean tested by the If
	True bool      // which edge was taken
	If   *ssa.If
}

// EdgeConds returns the branch conditions that necessarily hold whenever block
// b executes: for every dominating If whose true (false) successor is entered
// only through that edge and dominates b.
func EdgeConds(b *ssa.BasicBlock) []Cond {
	var out []Cond
	for d := b.Idom(); d != nil; d = d.Idom() {
		if len(d.Instrs) == 0 {
			continue
		}
		iff, ok := d.Instrs[len(d.Instrs)-1].(*ssa.If)
		if !ok {
			continue
		}
		t, f := d.Succs[0], d.Succs[1]
		if t == f {
			continue
		}
		if onlyEnteredVia(t, d) && (t == b || t.Dominates(b)) {
			out = append(out, Conjuncts(iff.Cond, true, iff)...)
		} else if onlyEnteredVia(f, d) && (f == b || f.Dominates(b)) {
			out = append(out, Conjuncts(iff.Cond, false, iff)...)
		}
	}
	return out
}

// Conjuncts returns the atomic facts implied by "v evaluates to pol": v itself
// (normalised) and, when v is the phi of a short-circuit `a && b` taken true or
// `a || b` taken false, the facts of both operands.
func Conjuncts(v ssa.Value, pol bool, iff *ssa.If) []Cond {
	v, pol = normBool(v, pol)
	out := []Cond{{v, pol, iff}}
	phi, ok := v.(*ssa.Phi)
	if !ok || len(phi.Edges) < 2 {
		return out
	}
	// `&&`: all constant edges are false and we are on the true side; `||`: all constant edges true, false side
	var rest []int
	for i, e := range phi.Edges {
		if k, isK := e.(*ssa.Const); isK && k.Value != nil && k.Value.Kind() == constant.Bool {
			if constant.BoolVal(k.Value) == pol {
				return out // a constant edge already yields pol: nothing is implied
			}
			continue
		}
		rest = append(rest, i)
	}
	if len(rest) != 1 {
		return out
	}
	i := rest[0]
	out = append(out, Conjuncts(phi.Edges[i], pol, iff)...)
	// the operand block is reached only when the earlier operands had the same outcome
	pred := phi.Block().Preds[i]
	for _, cd := range EdgeConds(pred) {
		if cd.If != nil && phi.Block().Idom() != nil && (cd.If.Block() == phi.Block().Idom() || phi.Block().Idom().Dominates(cd.If.Block())) {
			out = append(out, cd)
		}
	}
	return out
}

// normBool strips `!x`, `x == true/false`, `x != true/false` wrappers so that
// equivalent spellings of one test yield the same (value, polarity).
func normBool(v ssa.Value, pol bool) (ssa.Value, bool) {
	for i := 0; i < 4; i++ {
		switch x := v.(type) {
		case *ssa.UnOp:
			if x.Op == token.NOT {
				v, pol = x.X, !pol
				continue
			}
		case *ssa.BinOp:
			if x.Op == token.EQL || x.Op == token.NEQ {
				for _, pr := range [][2]ssa.Value{{x.X, x.Y}, {x.Y, x.X}} {
					if k, ok := pr[1].(*ssa.Const); ok && k.Value != nil && k.Value.Kind() == constant.Bool {
						same := constant.BoolVal(k.Value) == (x.Op == token.EQL)
						v = pr[0]
						if !same {
							pol = !pol
						}
						goto next
					}
				}
			}
		}
		return v, pol
	next:
	}
	return v, pol
}

// onlyEnteredVia: every predecessor of s other than d is dominated by s itself
// (loop back edges), so the first entry into s always comes over d→s.
func onlyEnteredVia(s, d *ssa.BasicBlock) bool {
	n := 0
	for _, p := range s.Preds {
		if p == d {
			n++
			continue
		}
		if !(p == s || s.Dominates(p)) {
			return false
		}
	}
	return n == 1
}

// CondsAt is EdgeConds for an instruction.
func CondsAt(in ssa.Instruction) []Cond { return EdgeConds(in.Block()) }

// ---------------------------------------------------------------- value description

// Desc renders the origin of a value as a canonical expression over parameters,
// field paths, calls and constants. It is used to compare operand *roles*
// ("the same address value", "tx.Hash") without reference to source text.
func Desc(v ssa.Value) string { return desc(v, 0) }

func desc(v ssa.Value, depth int) string {
	if v == nil {
		return "<nil>"
	}
	if depth > 8 {
		return "…"
	}
	switch x := v.(type) {
	case *ssa.Parameter:
		return x.Name()
	case *ssa.FreeVar:
		return "free:" + x.Name()
	case *ssa.Const:
		if x.Value == nil {
			return "nil"
		}
		return x.Value.ExactString()
	case *ssa.Global:
		return "global:" + x.Name()
	case *ssa.Function:
		return "func:" + FuncName(x)
	case *ssa.FieldAddr:
		return desc(x.X, depth+1) + "." + fieldName(x.X.Type(), x.Field)
	case *ssa.Field:
		return desc(x.X, depth+1) + "." + fieldName(x.X.Type(), x.Field)
	case *ssa.UnOp:
		if x.Op == token.MUL {
			return desc(x.X, depth+1)
		}
		return x.Op.String() + desc(x.X, depth+1)
	case *ssa.BinOp:
		return "(" + desc(x.X, depth+1) + " " + x.Op.String() + " " + desc(x.Y, depth+1) + ")"
	case *ssa.Call:
		var args []string
		for _, a := range x.Call.Args {
			args = append(args, desc(a, depth+1))
		}
		if x.Call.IsInvoke() {
			return desc(x.Call.Value, depth+1) + "." + x.Call.Method.Name() + "(" + strings.Join(args, ",") + ")"
		}
		return CallName(&x.Call) + "(" + strings.Join(args, ",") + ")"
	case *ssa.Extract:
		return desc(x.Tuple, depth+1) + "#" + fmt.Sprint(x.Index)
	case *ssa.Alloc:
		if x.Comment != "" {
			return "local:" + x.Comment
		}
		return "alloc"
	case *ssa.Phi:
		var es []string
		for _, e := range x.Edges {
			es = append(es, desc(e, depth+2))
		}
		sort.Strings(es)
		return "phi(" + strings.Join(es, "|") + ")"
	case *ssa.ChangeType:
		return desc(x.X, depth+1)
	case *ssa.Convert:
		return "conv:" + shortType(x.Type()) + "(" + desc(x.X, depth+1) + ")"
	case *ssa.ChangeInterface:
		return desc(x.X, depth+1)
	case *ssa.MakeInterface:
		return desc(x.X, depth+1)
	case *ssa.TypeAssert:
		return desc(x.X, depth+1) + ".(" + shortType(x.AssertedType) + ")"
	case *ssa.IndexAddr:
		return desc(x.X, depth+1) + "[" + desc(x.Index, depth+1) + "]"
	case *ssa.Index:
		return desc(x.X, depth+1) + "[" + desc(x.Index, depth+1) + "]"
	case *ssa.Lookup:
		return desc(x.X, depth+1) + "[" + desc(x.Index, depth+1) + "]"
	case *ssa.Slice:
		return desc(x.X, depth+1) + "[" + desc(x.Low, depth+1) + ":" + desc(x.High, depth+1) + "]"
	case *ssa.MakeClosure:
		return "closure:" + FuncName(x.Fn.(*ssa.Function))
	case *ssa.Builtin:
		return "builtin:" + x.Name()
	}
	return fmt.Sprintf("%T", v)
}

func fieldName(t types.Type, i int) string {
	if p, ok := t.Underlying().(*types.Pointer); ok {
		t = p.Elem()
	}
	if s, ok := t.Underlying().(*types.Struct); ok && i < s.NumFields() {
		return s.Field(i).Name()
	}
	return fmt.Sprint("#", i)
}

// FieldOf returns (struct named type short name, field name) when v is a
// FieldAddr/Field, else "", "".
func FieldOf(v ssa.Value) (string, string) {
	var xt types.Type
	var idx int
	switch x := v.(type) {
	case *ssa.FieldAddr:
		xt, idx = x.X.Type(), x.Field
	case *ssa.Field:
		xt, idx = x.X.Type(), x.Field
	default:
		return "", ""
	}
	if p, ok := xt.Underlying().(*types.Pointer); ok {
		xt = p.Elem()
	}
	name := shortType(xt)
	return name, fieldName(xt, idx)
}

// Unwrap strips loads, conversions and interface boxing.
func Unwrap(v ssa.Value) ssa.Value {
	for {
		switch x := v.(type) {
		case *ssa.UnOp:
			if x.Op == token.MUL {
				v = x.X
				continue
			}
		case *ssa.ChangeType:
			v = x.X
			continue
		case *ssa.MakeInterface:
			v = x.X
			continue
		case *ssa.ChangeInterface:
			v = x.X
			continue
		}
		return v
	}
}

// ConstInt returns the integer value of a constant operand.
func ConstInt(v ssa.Value) (int64, bool) {
	c, ok := v.(*ssa.Const)
	if !ok || c.Value == nil {
		if cv, ok2 := v.(*ssa.Convert); ok2 {
			return ConstInt(cv.X)
		}
		return 0, false
	}
	if c.Value.Kind() != constant.Int {
		return 0, false
	}
	i, ok := constant.Int64Val(c.Value)
	return i, ok
}

// IsNilConst reports whether v is the nil constant.
func IsNilConst(v ssa.Value) bool {
	c, ok := v.(*ssa.Const)
	return ok && c.Value == nil
}

// ---------------------------------------------------------------- returns and paths

// RetClass classifies result idx of ret when the return block was entered from
// pred (pred may be nil): "nil", "true", "false", "const:<v>", or "dyn:<desc>".
func RetClass(ret *ssa.Return, idx int, pred *ssa.BasicBlock) string {
	if idx >= len(ret.Results) {
		return "none"
	}
	v := Unspill(ret, ret.Results[idx])
	return valClass(v, ret.Block(), pred, 0)
}

func valClass(v ssa.Value, blk, pred *ssa.BasicBlock, depth int) string {
	if phi, ok := v.(*ssa.Phi); ok && phi.Block() == blk && pred != nil {
		for i, p := range blk.Preds {
			if p == pred {
				return valClass(phi.Edges[i], nil, nil, depth+1)
			}
		}
	}
	switch x := v.(type) {
	case *ssa.Const:
		if x.Value == nil {
			return "nil"
		}
		if x.Value.Kind() == constant.Bool {
			if constant.BoolVal(x.Value) {
				return "true"
			}
			return "false"
		}
		return "const:" + x.Value.ExactString()
	case *ssa.MakeInterface:
		return "dyn:" + Desc(x.X)
	case *ssa.ChangeInterface:
		return valClass(x.X, blk, pred, depth+1)
	}
	return "dyn:" + Desc(v)
}

// RetEdge is one way of leaving a function through a Return: the return
// instruction and the predecessor edge over which its block was entered
// (nil when the block has no phi-relevant predecessor distinction).
type RetEdge struct {
	Ret  *ssa.Return
	Pred *ssa.BasicBlock
}

// Returns lists the return edges of fn; a Return block whose results are phis
// contributes one edge per predecessor so that classes can differ per path.
func Returns(fn *ssa.Function) []RetEdge {
	var out []RetEdge
	for _, b := range fn.Blocks {
		if len(b.Instrs) == 0 {
			continue
		}
		ret, ok := b.Instrs[len(b.Instrs)-1].(*ssa.Return)
		if !ok {
			continue
		}
		hasPhi := false
		for _, r := range ret.Results {
			if phi, ok := r.(*ssa.Phi); ok && phi.Block() == b {
				hasPhi = true
			}
		}
		if hasPhi && len(b.Preds) > 0 {
			for _, p := range b.Preds {
				out = append(out, RetEdge{ret, p})
			}
		} else {
			out = append(out, RetEdge{ret, nil})
		}
	}
	return out
}

// ReachAvoiding reports whether control can flow from just after instruction
// `from` (or from function entry when from == nil) to the return edge `to`
// without executing any instruction for which barrier returns true. It returns
// the block path witnessing the flow. Panicking blocks are never return edges,
// so panic exits are ignored by construction.
func ReachAvoiding(fn *ssa.Function, from ssa.Instruction, to RetEdge, barrier func(ssa.Instruction) bool) (bool, []int) {
	return ReachAvoidingX(fn, from, to, barrier, nil)
}

// ReachAvoidingX additionally takes an edge filter: edgeOK(a, b) == false
// removes the CFG edge a→b (used to drop edges on which a tracked value is
// known to be nil, which gives the path search the value-sensitivity it needs
// for the `if err != nil { revert }; return err` idiom).
func ReachAvoidingX(fn *ssa.Function, from ssa.Instruction, to RetEdge, barrier func(ssa.Instruction) bool, edgeOK func(a, b *ssa.BasicBlock) bool) (bool, []int) {
	startB := fn.Blocks[0]
	startI := 0
	if from != nil {
		startB = from.Block()
		startI = InstrIndex(from) + 1
	}
	passable := func(b *ssa.BasicBlock, start int) bool {
		for i := start; i < len(b.Instrs); i++ {
			if barrier(b.Instrs[i]) {
				return false
			}
		}
		return true
	}
	target := to.Ret.Block()
	if !passable(startB, startI) {
		return false, nil
	}
	if startB == target {
		return true, []int{startB.Index}
	}
	// Branch consistency: a boolean SSA value tested by more than one If cannot
	// be true on one of them and false on another along the same acyclic path
	// (`if a || x {revert}; if a && y {…}`). Only such shared conditions are
	// tracked, which keeps the search space small.
	uses := map[ssa.Value]int{}
	for _, b := range fn.Blocks {
		if n := len(b.Instrs); n > 0 {
			if iff, ok := b.Instrs[n-1].(*ssa.If); ok {
				uses[iff.Cond]++
			}
		}
	}
	type dec struct {
		v ssa.Value
		t bool
	}
	visited := map[string]bool{}
	states := 0
	var path []int
	var dfs func(b *ssa.BasicBlock, decs []dec) bool
	keyOf := func(b *ssa.BasicBlock, decs []dec) string {
		var parts []string
		for _, d := range decs {
			parts = append(parts, fmt.Sprintf("%p%v", d.v, d.t))
		}
		sort.Strings(parts)
		return fmt.Sprint(b.Index, "|", strings.Join(parts, ","))
	}
	dfs = func(b *ssa.BasicBlock, decs []dec) bool {
		states++
		if states > 400000 {
			return true // give up conservatively: report as reachable
		}
		path = append(path, b.Index)
		var iff *ssa.If
		if n := len(b.Instrs); n > 0 {
			iff, _ = b.Instrs[n-1].(*ssa.If)
		}
		for i, s := range b.Succs {
			if edgeOK != nil && !edgeOK(b, s) {
				continue
			}
			nd := decs
			if iff != nil && uses[iff.Cond] > 1 && b.Succs[0] != b.Succs[1] {
				pol := i == 0
				conflict, have := false, false
				for _, d := range decs {
					if d.v == iff.Cond {
						have = true
						if d.t != pol {
							conflict = true
						}
					}
				}
				if conflict {
					continue
				}
				if !have {
					nd = append(append([]dec(nil), decs...), dec{iff.Cond, pol})
				}
			}
			if s == target {
				if to.Pred != nil && b != to.Pred {
					continue
				}
				if passable(s, 0) {
					path = append(path, s.Index)
					return true
				}
				continue
			}
			if !passable(s, 0) {
				continue
			}
			k := keyOf(s, nd)
			if visited[k] {
				continue
			}
			visited[k] = true
			if dfs(s, nd) {
				return true
			}
		}
		path = path[:len(path)-1]
		return false
	}
	if dfs(startB, nil) {
		return true, append([]int(nil), path...)
	}
	return false, nil
}

// ---------------------------------------------------------------- reachability (cones)

// Cone is the set of functions reachable from entries over the call graph.
type Cone struct {
	Set    map[*ssa.Function]bool
	Parent map[*ssa.Function]*ssa.Function
}

// ConeOf computes the functions reachable from entries. descend(fn) == false
// makes fn a boundary: it is included but its callees are not followed.
func (c *Ctx) ConeOf(entries []*ssa.Function, descend func(*ssa.Function) bool) *Cone {
	return c.ConeOfX(entries, descend, nil)
}

// ConeOfX is ConeOf with an edge filter: skipEdge(caller, site, callee) == true
// removes that call edge (used for reviewed call sites such as the zero-value
// "touch" AddBalance(addr, big0)).
func (c *Ctx) ConeOfX(entries []*ssa.Function, descend func(*ssa.Function) bool, skipEdge func(*ssa.Function, ssa.CallInstruction, *ssa.Function) bool) *Cone {
	cg := c.CG()
	cone := &Cone{Set: map[*ssa.Function]bool{}, Parent: map[*ssa.Function]*ssa.Function{}}
	var queue []*ssa.Function
	for _, e := range entries {
		if e != nil && !cone.Set[e] {
			cone.Set[e] = true
			queue = append(queue, e)
		}
	}
	for len(queue) > 0 {
		fn := queue[0]
		queue = queue[1:]
		if descend != nil && !descend(fn) {
			continue
		}
		n := cg.Nodes[fn]
		if n == nil {
			continue
		}
		outs := append([]*callgraph.Edge(nil), n.Out...)
		sort.Slice(outs, func(i, j int) bool { return outs[i].Callee.Func.String() < outs[j].Callee.Func.String() })
		for _, e := range outs {
			cal := e.Callee.Func
			if cal == nil || cone.Set[cal] {
				continue
			}
			if skipEdge != nil && skipEdge(fn, e.Site, cal) {
				continue
			}
			cone.Set[cal] = true
			cone.Parent[cal] = fn
			queue = append(queue, cal)
		}
		// anonymous functions defined inside fn are reachable when fn is (they are
		// created there; VTA links calls, but a closure stored and called elsewhere
		// would otherwise be lost).
		for _, an := range fn.AnonFuncs {
			if !cone.Set[an] {
				cone.Set[an] = true
				cone.Parent[an] = fn
				queue = append(queue, an)
			}
		}
	}
	return cone
}

// PathTo renders the call chain from an entry to fn.
func (k *Cone) PathTo(fn *ssa.Function) string {
	var parts []string
	for f := fn; f != nil; f = k.Parent[f] {
		parts = append([]string{FuncName(f)}, parts...)
		if len(parts) > 12 {
			parts = append([]string{"…"}, parts...)
			break
		}
	}
	return strings.Join(parts, " → ")
}

// Sorted returns the cone's functions in deterministic order.
func (k *Cone) Sorted() []*ssa.Function {
	var out []*ssa.Function
	for f := range k.Set {
		out = append(out, f)
	}
	sort.Slice(out, func(i, j int) bool { return out[i].String() < out[j].String() })
	return out
}

// StdBoundary is the usual cone boundary: stay inside the module, do not
// descend into logging, the mysql log index, or RPC/network plumbing.
func StdBoundary(fn *ssa.Function) bool {
	p := FuncPkgPath(fn)
	if !strings.HasPrefix(p, Mod) {
		return false
	}
	for _, b := range []string{"/src/middleware/log", "/src/middleware/mysql", "/src/middleware/notify"} {
		if strings.HasPrefix(p, Mod+b) {
			return false
		}
	}
	return true
}

// Callees returns the possible callees of a call site: the static callee, or
// the VTA targets for dynamic calls.
func (c *Ctx) Callees(s Site) []*ssa.Function {
	if f := s.Static(); f != nil {
		return []*ssa.Function{f}
	}
	n := c.CG().Nodes[s.Fn]
	if n == nil {
		return nil
	}
	var out []*ssa.Function
	for _, e := range n.Out {
		if e.Site == s.Instr {
			out = append(out, e.Callee.Func)
		}
	}
	sort.Slice(out, func(i, j int) bool { return out[i].String() < out[j].String() })
	return out
}

// Callers returns the production call sites of fn (tests excluded).
func (c *Ctx) Callers(fn *ssa.Function) []Site {
	n := c.CG().Nodes[fn]
	if n == nil {
		return nil
	}
	var out []Site
	seen := map[ssa.CallInstruction]bool{}
	for _, e := range n.In {
		if e.Site == nil || seen[e.Site] {
			continue
		}
		caller := e.Caller.Func
		if c.IsTestFunc(caller) {
			continue
		}
		seen[e.Site] = true
		out = append(out, Site{caller, e.Site})
	}
	sort.Slice(out, func(i, j int) bool {
		if out[i].Fn.String() != out[j].Fn.String() {
			return out[i].Fn.String() < out[j].Fn.String()
		}
		return out[i].Pos() < out[j].Pos()
	})
	return out
}

// ---------------------------------------------------------------- stores

// FieldStores lists the Store instructions in fn whose address is a field
// (FieldAddr) of a struct named tname (short, e.g. "vm.Contract") field fname.
// Map-typed fields additionally count MapUpdate on the loaded field, and
// `delete`/append through the field are reported by FieldMapWrites.
func FieldStores(fn *ssa.Function, tname, fname string) []ssa.Instruction {
	if !strings.Contains(tname, ".") {
		panic("FieldStores: type name must be package-qualified (\"vm.Contract\"), got " + tname)
	}
	var out []ssa.Instruction
	for _, b := range fn.Blocks {
		for _, in := range b.Instrs {
			if st, ok := in.(*ssa.Store); ok {
				t, f := FieldOf(st.Addr)
				if t == tname && f == fname {
					out = append(out, in)
				}
			}
		}
	}
	return out
}

// FieldMapWrites lists MapUpdate and delete() instructions in fn applied to the
// map held in field tname.fname.
func FieldMapWrites(fn *ssa.Function, tname, fname string) []ssa.Instruction {
	if !strings.Contains(tname, ".") {
		panic("FieldMapWrites: type name must be package-qualified, got " + tname)
	}
	isField := func(v ssa.Value) bool {
		u, ok := v.(*ssa.UnOp)
		if !ok || u.Op != token.MUL {
			return false
		}
		t, f := FieldOf(u.X)
		return t == tname && f == fname
	}
	var out []ssa.Instruction
	for _, b := range fn.Blocks {
		for _, in := range b.Instrs {
			switch x := in.(type) {
			case *ssa.MapUpdate:
				if isField(x.Map) {
					out = append(out, in)
				}
			case *ssa.Call:
				if bi, ok := x.Call.Value.(*ssa.Builtin); ok && bi.Name() == "delete" && len(x.Call.Args) > 0 && isField(x.Call.Args[0]) {
					out = append(out, in)
				}
			}
		}
	}
	return out
}

// HasFloat reports whether any value in fn has a floating-point type.
func HasFloat(fn *ssa.Function) (bool, token.Pos) {
	isF := func(t types.Type) bool {
		b, ok := t.Underlying().(*types.Basic)
		return ok && b.Info()&types.IsFloat != 0
	}
	for _, b := range fn.Blocks {
		for _, in := range b.Instrs {
			if v, ok := in.(ssa.Value); ok && isF(v.Type()) {
				return true, in.Pos()
			}
		}
	}
	return false, token.NoPos
}

// CmpInfo decodes a boolean value that is a comparison: either a BinOp with a
// relational operator, or `x.Cmp(y) op k` (big.Int / uint256 style), or
// bytes.Compare/bytes.Equal. It returns the operator (as it reads with X on the
// left), the two operands, and ok.
type Cmp struct {
	Op   token.Token
	X, Y ssa.Value
	Via  string // "", "Cmp", "bytes.Compare", "bytes.Equal", "Sign"
}

func DecodeCmp(v ssa.Value) (Cmp, bool) {
	switch x := v.(type) {
	case *ssa.UnOp:
		if x.Op == token.NOT {
			c, ok := DecodeCmp(x.X)
			if !ok {
				return c, false
			}
			c.Op = negate(c.Op)
			return c, true
		}
	case *ssa.BinOp:
		switch x.Op {
		case token.LSS, token.LEQ, token.GTR, token.GEQ, token.EQL, token.NEQ:
		default:
			return Cmp{}, false
		}
		// x.Cmp(y) op 0
		if call, ok := x.X.(*ssa.Call); ok {
			if k, isK := ConstInt(x.Y); isK {
				name := CallName(&call.Call)
				if strings.HasSuffix(name, ".Cmp") && len(call.Call.Args) == 2 && k == 0 {
					return Cmp{x.Op, call.Call.Args[0], call.Call.Args[1], "Cmp"}, true
				}
				if strings.HasSuffix(name, ".Cmp") && len(call.Call.Args) == 2 && (k == 1 || k == -1) {
					// Cmp == 1  ≡ >, Cmp == -1 ≡ <, Cmp != -1 ≡ >=, Cmp != 1 ≡ <=
					op := token.ILLEGAL
					switch {
					case x.Op == token.EQL && k == 1:
						op = token.GTR
					case x.Op == token.EQL && k == -1:
						op = token.LSS
					case x.Op == token.NEQ && k == 1:
						op = token.LEQ
					case x.Op == token.NEQ && k == -1:
						op = token.GEQ
					case x.Op == token.LSS && k == 1: // Cmp < 1 ≡ <=
						op = token.LEQ
					case x.Op == token.GTR && k == -1:
						op = token.GEQ
					}
					if op != token.ILLEGAL {
						return Cmp{op, call.Call.Args[0], call.Call.Args[1], "Cmp"}, true
					}
				}
				if name == "bytes.Compare" && k == 0 && len(call.Call.Args) == 2 {
					return Cmp{x.Op, call.Call.Args[0], call.Call.Args[1], "bytes.Compare"}, true
				}
			}
		}
		return Cmp{x.Op, x.X, x.Y, ""}, true
	case *ssa.Call:
		name := CallName(&x.Call)
		if name == "bytes.Equal" && len(x.Call.Args) == 2 {
			return Cmp{token.EQL, x.Call.Args[0], x.Call.Args[1], "bytes.Equal"}, true
		}
	}
	return Cmp{}, false
}

func negate(op token.Token) token.Token {
	switch op {
	case token.LSS:
		return token.GEQ
	case token.LEQ:
		return token.GTR
	case token.GTR:
		return token.LEQ
	case token.GEQ:
		return token.LSS
	case token.EQL:
		return token.NEQ
	case token.NEQ:
		return token.EQL
	}
	return op
}

// Flip mirrors a relational operator (a<b ≡ b>a).
func Flip(op token.Token) token.Token {
	switch op {
	case token.LSS:
		return token.GTR
	case token.LEQ:
		return token.GEQ
	case token.GTR:
		return token.LSS
	case token.GEQ:
		return token.LEQ
	}
	return op
}

// Holds returns the comparison that is known to hold given a Cond (operator
// negated on the false edge).
func (c Cond) Cmp() (Cmp, bool) {
	m, ok := DecodeCmp(c.V)
	if !ok {
		return m, false
	}
	if !c.True {
		m.Op = negate(m.Op)
	}
	return m, true
}
