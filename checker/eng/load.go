// Package eng is the shared engine of the go-rangers static checker: it loads
// /repo's current working tree with go/packages, builds SSA and (lazily) a VTA
// call graph, and offers the rule primitives described in DESIGN.md §2.
package eng

import (
	"fmt"
	"go/ast"
	"go/token"
	"go/types"
	"os"
	"sort"
	"strings"
	"sync"

	"golang.org/x/tools/go/callgraph"
	"golang.org/x/tools/go/callgraph/cha"
	"golang.org/x/tools/go/callgraph/vta"
	"golang.org/x/tools/go/packages"
	"golang.org/x/tools/go/ssa"
	"golang.org/x/tools/go/ssa/ssautil"
)

// Mod is the module path of go-rangers.
const Mod = "com.tuntun.rangers/node"

// Ctx is one loaded view of the repository.
type Ctx struct {
	Repo    string
	Fset    *token.FileSet
	Pkgs    []*packages.Package          // root packages (./src/...)
	All     map[string]*packages.Package // every package by path
	Prog    *ssa.Program
	SSA     map[string]*ssa.Package // module packages by path
	Overlay map[string][]byte

	cgOnce sync.Once
	cg     *callgraph.Graph

	allFuncs map[*ssa.Function]bool

	NumPkgs, NumModPkgs, NumFuncs int
}

// LoadOpts tunes the loader.
type LoadOpts struct {
	Repo    string
	Env     []string          // extra KEY=VAL (GOARCH=…, CGO_ENABLED=…)
	Overlay map[string][]byte // absolute path → content (canary mutants)
	Tests   bool
}

// Load parses, type-checks and SSA-builds ./src/... of the repository. Any type
// error inside the module is fatal: an undecidable tree is never "held".
func Load(o LoadOpts) (*Ctx, error) {
	env := append(os.Environ(),
		"GOFLAGS=-mod=mod", "GOPROXY=off", "GOSUMDB=off", "GOTOOLCHAIN=local", "GOWORK=off")
	env = append(env, o.Env...)
	fset := token.NewFileSet()
	cfg := &packages.Config{
		Mode:    packages.LoadAllSyntax,
		Dir:     o.Repo,
		Env:     env,
		Fset:    fset,
		Overlay: o.Overlay,
		Tests:   o.Tests,
	}
	pkgs, err := packages.Load(cfg, "./src/...")
	if err != nil {
		return nil, fmt.Errorf("packages.Load: %w", err)
	}
	if len(pkgs) == 0 {
		return nil, fmt.Errorf("loader: zero packages matched ./src/... in %s", o.Repo)
	}
	c := &Ctx{Repo: o.Repo, Fset: fset, Pkgs: pkgs, All: map[string]*packages.Package{}, SSA: map[string]*ssa.Package{}, Overlay: o.Overlay}
	var terrs []string
	packages.Visit(pkgs, nil, func(p *packages.Package) {
		c.All[p.PkgPath] = p
		c.NumPkgs++
		if strings.HasPrefix(p.PkgPath, Mod) {
			c.NumModPkgs++
			for _, e := range p.Errors {
				terrs = append(terrs, e.Error())
			}
		}
	})
	if len(terrs) > 0 {
		sort.Strings(terrs)
		if len(terrs) > 8 {
			terrs = terrs[:8]
		}
		return nil, fmt.Errorf("loader: type/parse errors in module packages:\n  %s", strings.Join(terrs, "\n  "))
	}
	prog, spkgs := ssautil.AllPackages(pkgs, ssa.InstantiateGenerics)
	prog.Build()
	c.Prog = prog
	for i, sp := range spkgs {
		if sp != nil && strings.HasPrefix(pkgs[i].PkgPath, Mod) {
			c.SSA[pkgs[i].PkgPath] = sp
		}
	}
	// non-root module packages (none expected, but be complete)
	for _, sp := range prog.AllPackages() {
		if strings.HasPrefix(sp.Pkg.Path(), Mod) {
			if _, ok := c.SSA[sp.Pkg.Path()]; !ok {
				c.SSA[sp.Pkg.Path()] = sp
			}
		}
	}
	c.allFuncs = ssautil.AllFunctions(prog)
	c.NumFuncs = len(c.allFuncs)
	return c, nil
}

// CG returns the VTA call graph (seeded with CHA), built on first use.
func (c *Ctx) CG() *callgraph.Graph {
	c.cgOnce.Do(func() {
		c.cg = vta.CallGraph(c.allFuncs, cha.CallGraph(c.Prog))
	})
	return c.cg
}

// AllFuncs is every function of the program (including synthetic wrappers).
func (c *Ctx) AllFuncs() map[*ssa.Function]bool { return c.allFuncs }

// InMod reports whether fn belongs to a package of go-rangers.
func InMod(fn *ssa.Function) bool {
	p := FuncPkgPath(fn)
	return strings.HasPrefix(p, Mod)
}

// FuncPkgPath returns the package path of fn ("" for shared synthetic ones).
func FuncPkgPath(fn *ssa.Function) string {
	if fn == nil {
		return ""
	}
	if fn.Pkg != nil {
		return fn.Pkg.Pkg.Path()
	}
	if o := fn.Object(); o != nil && o.Pkg() != nil {
		return o.Pkg().Path()
	}
	if fn.Parent() != nil {
		return FuncPkgPath(fn.Parent())
	}
	if fn.Origin() != nil {
		return FuncPkgPath(fn.Origin())
	}
	return ""
}

// ModFuncs returns the source functions (with bodies) of the module, including
// anonymous functions, sorted by name for determinism.
func (c *Ctx) ModFuncs() []*ssa.Function {
	var out []*ssa.Function
	for fn := range c.allFuncs {
		if fn.Blocks == nil || fn.Synthetic != "" && fn.Syntax() == nil {
			continue
		}
		if InMod(fn) && !c.IsTestFunc(fn) {
			out = append(out, fn)
		}
	}
	sort.Slice(out, func(i, j int) bool {
		if out[i].String() != out[j].String() {
			return out[i].String() < out[j].String()
		}
		return out[i].Pos() < out[j].Pos()
	})
	return out
}

// IsTestFunc reports whether fn is declared in a _test.go file.
func (c *Ctx) IsTestFunc(fn *ssa.Function) bool {
	p := fn.Pos()
	if !p.IsValid() && fn.Parent() != nil {
		return c.IsTestFunc(fn.Parent())
	}
	if !p.IsValid() {
		return false
	}
	return strings.HasSuffix(c.Fset.Position(p).Filename, "_test.go")
}

// PkgFuncs returns the source functions of one module package (short path
// relative to src/, e.g. "vm" or "storage/trie").
func (c *Ctx) PkgFuncs(short string) []*ssa.Function {
	full := Mod + "/src/" + short
	var out []*ssa.Function
	for _, fn := range c.ModFuncs() {
		if FuncPkgPath(fn) == full {
			out = append(out, fn)
		}
	}
	return out
}

// Pkg returns the SSA package for a short path; nil if absent.
func (c *Ctx) Pkg(short string) *ssa.Package { return c.SSA[Mod+"/src/"+short] }

// TPkg returns the go/packages package for a short path.
func (c *Ctx) TPkg(short string) *packages.Package { return c.All[Mod+"/src/"+short] }

// Func resolves an anchor "F", "T.M" or "(*T).M" in a package given by short
// path. It returns nil when the anchor does not resolve (callers turn that into
// a failed "anchor" obligation — never a silent pass).
func (c *Ctx) Func(short, name string) *ssa.Function {
	sp := c.Pkg(short)
	if sp == nil {
		return nil
	}
	name = strings.TrimSpace(name)
	if strings.HasPrefix(name, "(*") {
		i := strings.Index(name, ").")
		if i < 0 {
			return nil
		}
		return c.method(sp, name[2:i], name[i+2:], true)
	}
	if i := strings.Index(name, "."); i >= 0 {
		if f := c.method(sp, name[:i], name[i+1:], false); f != nil {
			return f
		}
		return c.method(sp, name[:i], name[i+1:], true)
	}
	return sp.Func(name)
}

func (c *Ctx) method(sp *ssa.Package, tname, mname string, ptr bool) *ssa.Function {
	m := sp.Members[tname]
	t, ok := m.(*ssa.Type)
	if !ok {
		return nil
	}
	var T types.Type = t.Type()
	if ptr {
		T = types.NewPointer(T)
	}
	sel := c.Prog.MethodSets.MethodSet(T).Lookup(sp.Pkg, mname)
	if sel == nil {
		return nil
	}
	fn := c.Prog.MethodValue(sel)
	// unwrap promoted-method wrappers to the declared method when trivially so
	return fn
}

// Named resolves a named type of a module package.
func (c *Ctx) Named(short, tname string) *types.Named {
	p := c.TPkg(short)
	if p == nil || p.Types == nil {
		return nil
	}
	o := p.Types.Scope().Lookup(tname)
	if o == nil {
		return nil
	}
	n, _ := o.Type().(*types.Named)
	return n
}

// Struct returns the underlying struct of a named type (nil if not a struct).
func (c *Ctx) Struct(short, tname string) *types.Struct {
	n := c.Named(short, tname)
	if n == nil {
		return nil
	}
	s, _ := n.Underlying().(*types.Struct)
	return s
}

// Obj looks up a package-level object.
func (c *Ctx) Obj(short, name string) types.Object {
	p := c.TPkg(short)
	if p == nil || p.Types == nil {
		return nil
	}
	return p.Types.Scope().Lookup(name)
}

// Pos renders a position relative to the repository root.
func (c *Ctx) Pos(p token.Pos) string {
	if !p.IsValid() {
		return "?"
	}
	pp := c.Fset.Position(p)
	f := strings.TrimPrefix(pp.Filename, c.Repo+"/")
	return fmt.Sprintf("%s:%d", f, pp.Line)
}

// FileOf returns the repo-relative file of a position.
func (c *Ctx) FileOf(p token.Pos) string {
	if !p.IsValid() {
		return ""
	}
	return strings.TrimPrefix(c.Fset.Position(p).Filename, c.Repo+"/")
}

// FuncName is a stable, short, human-readable name: "vm.(*EVM).create",
// "core.(*blockChain).insertBlock$1".
func FuncName(fn *ssa.Function) string {
	if fn == nil {
		return "<nil>"
	}
	s := fn.String()
	s = strings.ReplaceAll(s, Mod+"/src/", "")
	return s
}

// FileAST returns the parsed file (and its package) with the given repo-relative name.
func (c *Ctx) FileAST(rel string) (*ast.File, *packages.Package) {
	for _, p := range c.All {
		if !strings.HasPrefix(p.PkgPath, Mod) {
			continue
		}
		for i, f := range p.CompiledGoFiles {
			if strings.TrimPrefix(f, c.Repo+"/") == rel && i < len(p.Syntax) {
				return p.Syntax[i], p
			}
		}
	}
	return nil, nil
}
