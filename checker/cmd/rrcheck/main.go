// rrcheck decides the static clauses of one go-rangers property (DESIGN.md).
package main

import (
	"flag"
	"fmt"
	"os"
	"path/filepath"
	"runtime/debug"
	"strings"

	"verif/checker/eng"
	"verif/checker/rules"
)

func main() {
	prop := flag.String("prop", "", "property id (C01..C20)")
	tier := flag.String("tier", "quick", "quick|thorough")
	repo := flag.String("repo", "/repo", "repository root")
	verif := flag.String("verif", "", "verif dir (default: parent of the binary's dir)")
	dump := flag.String("dump", "", "debug: dump SSA of pkg:func")
	var overlays multi
	flag.Var(&overlays, "overlay", "repo-relative-file=replacement-file (in-memory canary mutant; repeatable)")
	flag.Parse()
	overlay := map[string][]byte{}
	for _, o := range overlays {
		i := strings.Index(o, "=")
		if i < 0 {
			fmt.Fprintln(os.Stderr, "bad -overlay", o)
			os.Exit(2)
		}
		b, err := os.ReadFile(o[i+1:])
		if err != nil {
			fmt.Fprintln(os.Stderr, err)
			os.Exit(2)
		}
		overlay[filepath.Join(*repo, o[:i])] = b
	}
	if t := os.Getenv("VERIF_TIER"); t != "" && !isFlagSet("tier") {
		*tier = t
	}
	if *verif == "" {
		exe, _ := os.Executable()
		*verif = filepath.Dir(filepath.Dir(exe))
	}
	var env []string
	if e := os.Getenv("RR_ENV"); e != "" {
		env = strings.Split(e, ",")
	}
	if *dump != "" {
		ctx, err := eng.Load(eng.LoadOpts{Repo: *repo, Env: env, Overlay: overlay})
		if err != nil {
			fmt.Println(err)
			os.Exit(2)
		}
		parts := strings.SplitN(*dump, ":", 2)
		fn := ctx.Func(parts[0], parts[1])
		if fn == nil {
			fmt.Println("unresolved")
			os.Exit(2)
		}
		fn.WriteTo(os.Stdout)
		for _, a := range fn.AnonFuncs {
			a.WriteTo(os.Stdout)
		}
		return
	}
	rule, ok := rules.Registry[*prop]
	if !ok {
		fmt.Fprintf(os.Stderr, "unknown property %q\n", *prop)
		os.Exit(2)
	}
	rep := eng.NewReport(*prop, *tier)
	ctx, err := eng.Load(eng.LoadOpts{Repo: *repo, Env: env, Overlay: overlay})
	if err == nil {
		func() {
			defer func() {
				if r := recover(); r != nil {
					rep.Fail("engine", "panic", "", fmt.Sprintf("rule panicked: %v\n%s", r, debug.Stack()))
				}
			}()
			rule(ctx, rep)
		}()
	}
	os.Exit(rep.Finish(*verif, ctx, err))
}

type multi []string

func (m *multi) String() string     { return strings.Join(*m, ",") }
func (m *multi) Set(v string) error { *m = append(*m, v); return nil }

func isFlagSet(name string) bool {
	set := false
	flag.Visit(func(f *flag.Flag) {
		if f.Name == name {
			set = true
		}
	})
	return set
}
