package rules

import (
	"fmt"
	"go/ast"
	"go/token"
	"go/types"
	"sort"
	"strconv"
	"strings"

	"golang.org/x/tools/go/ssa"

	"verif/checker/eng"
)

func init() { register("C11", c11) }

func c11(c *eng.Ctx, r *eng.Report) {
	r.Explain = "Structural necessary conditions of EVM totality and resource bounds: " +
		"R11.1 no handler touches more entry stack items than its row's minStack validated nor grows the stack beyond what maxStack admits (abstract interpretation of every handler); StackLimit = CallCreateDepth = 1024; " +
		"R11.2 every Memory access of a handler lies inside a region accounted for by the row's memorySize function (operands as entry stack slots), and every row with a memorySize charges memory gas; " +
		"R11.3 Contract.Gas is written only by NewContract, UseGas (subtracting on the sufficient-gas edge) and the returned-gas refunds of call/create handlers; " +
		"R11.4 every frame entry tests the depth limit before doing anything, Run brackets depth++ with a deferred depth--; " +
		"R11.5 precompiles slice their input only under an established length bound, the shared accessor getData clamps the start offset to len(data) before adding the size and clamps the end too, the jump bitmap has at least floor(len/8)+5 bytes (room for a trailing PUSH32), and RunPrecompiledContract charges before running; " +
		"R11.6 panics reachable from the interpreter are the reviewed ones; R11.7 overflow flags are consumed; R11.8 Run validates the stack, charges constant and dynamic gas and resizes memory before operation.execute. " +
		"R11.9 a write attempt in read-only context surfaces as ErrWriteProtection: Run refuses rows flagged `writes` under the interpreter-wide in.readOnly flag (not the frame argument) before operation.execute, and the flag is sticky across nested frames (shared with C12). " +
		"R11.10 callGas/authCallGas return min(request, a - a/64) with a = available - base, and the four call-family gas functions call callGas(true, contract.Gas, …). " +
		"R11.11 a precompile runs only after the caller paid for it, and the price compared with the supplied gas is RequiredGas(input) itself — no unchecked arithmetic between pricing and the affordability test (the precompiles size their allocations from the input on the strength of that price: MODEXP allocates what the header announces); " +
		"R11.20 the interpreter looks at the stack only after it has validated its depth: every Stack accessor call in (*EVMInterpreter).Run (Back, peek, pop) is dominated by the false edge of `sLen < operation.minStack` — the read-only check reads stack.Back(2) for CALL, and ahead of the validation a CALL with fewer than three items in a static frame panics instead of failing with ErrStackUnderflow; " +
		"R11.22 the memory size is rounded to words without wrapping: in Run the value handed to dynamicGas and Memory.Resize is the product of an overflow-reporting multiplication (utility.SafeMul) whose overflow edge leaves the frame — toWordSize(size)·32 wraps to 0 for a size in [2^64−31, 2^64−1], nothing is charged or resized, and the opcode body indexes an empty store; " +
		"R11.23 a precompile's price lookup stays inside its table: every index of the form k−1 into a package-level table in contracts.go is computed only where k != 0 has been established — in the same function, or for the argument at every call site when k is a parameter — a pair count of 0 (input shorter than one pair) otherwise reads table[−1] and panics before Run can refuse the length; " +
		"R11.21 a call-family gas function that succeeds has set the gas it forwards: every nil-error return of a dynamic-gas function that stores evm.callGasTemp is preceded on every path by that store — the field is EVM-wide, and a fast path that skips the store makes opCall forward what the previous call-family instruction left there: gas the caller never paid for, returned to it afterwards, so gas grows inside a frame; " +
		"R11.19 a zero-length memory operand touches nothing: in every Memory accessor that takes a size (Set, GetCopy, GetPtr, Copy) each slice expression over the backing store is dominated by the test that the size is non-zero — a zero-length range has memory size 0 whatever its offset, so nothing has bounded the offset (LOG0 or CREATE with offset 2^63 and size 0 reach GetCopy with a negative offset); " +
		"R11.18 the fixed-width word setters get the bytes they read: every (*uint256.Int).SetBytesN(b) call in the vm package (SetBytes32 reads b[31] unconditionally) is handed a slice whose length is statically at least N — a slice of an array of N or more bytes, or a make of constant length; finding F28: BLOBHASH called SetBytes32 with an empty slice and PUSH1 0, BLOBHASH panicked through EVM.Call; " +
		"R11.17 the price table a fork adjusts belongs to one interpreter: every value stored in EVMInterpreter.jumpTable is the result of a newInstructionSet() call made for that interpreter, and newInstructionSet takes no operation from a package-level variable — doProposal014/022/026 write through the table's *operation pointers (constantGas *= 30), so a table or entry shared between interpreters is re-priced once per EVM until the prices wrap to zero and gas no longer bounds a loop; " +
		"R11.16 no function of the vm package reads a byte of the running contract's code at a position it has not compared with the code length: every index into Contract.Code by a non-constant position p+k is dominated by a guard on the same p that implies p+k < len(code) — `p+a < len` with k <= a, or `len-p >= m` (p the untouched program counter, which is below len when a handler runs) with k < m; a truncated PUSH at the end of the code reads zeroes, it does not index past the end; " +
		"R11.12 no opcode handler slices a buffer with a bound that is the unchecked 64-bit sum or product of operand-derived values (`buf[off:off+len]` wraps for off near 2^64 and the slice expression panics): such bounds come out of 256-bit arithmetic with Uint64WithOverflow, SafeAdd/SafeMul, or the clamping accessor getData; " +
		"R11.13 every modular exponentiation in package vm whose modulus comes from the input runs only after the modulus was tested non-zero (big.Int.Exp with m == 0 is plain exponentiation: priced as modular work it neither terminates nor bounds its allocation); " +
		"R11.14 a 256-bit operand is unsigned: outside the signed opcodes (SAR, SDIV, SMOD, SLT, SGT, SIGNEXTEND), wherever package vm tests (*uint256.Int).Sign() it is for (in)equality with zero — Sign() returns -1 for every value of 2^255 or more, so `Sign() > 0` takes such a value for zero (a CALLCODE carrying it is priced as a call without value yet still receives the stipend: gas is minted and a loop never runs out); " +
		"R11.15 the jump-destination analysis is cached under the hash of the code it was made for: at every SetCallCode the code hash and the code are read from the same account (CALLCODE runs the callee's code on the caller's account; keying the callee's code under the caller's hash validates its jumps against a bitmap of another length — index out of range); " +
		"Not decided: termination as such, exact gas values."
	r.Assume = []string{"memory is grown only by Run (mem.Resize) to the size computed by the row's memorySize function", "no recover() exists in vm/executor/core, so a reachable panic crashes the host"}
	rows := analyseRows(c, r, "R11.1")
	c11Stack(c, r, rows)
	c11Memory(c, r, rows)
	c11GasWriters(c, r)
	c11Forwarded(c, r)
	c11Depth(c, r)
	c11Precompiles(c, r)
	c11Panics(c, r)
	c11Overflow(c, r)
	c11RunOrder(c, r)
	c11SixtyThreeSixtyFourths(c, r)
	c11PrecompileGas(c, r)
	c11SliceBounds(c, r, rows)
	c11CodeIndexGuarded(c, r)
	c11OwnJumpTable(c, r)
	c11FixedWidthSetBytes(c, r)
	c11ZeroSizeTouchesNothing(c, r)
	c11StackCheckedFirst(c, r)
	c11CallGasAlwaysSet(c, r)
	c11MemoryRoundingChecked(c, r)
	c11TableIndexGuarded(c, r)
	c11ModulusNonZero(c, r)
	c11UnsignedSign(c, r)
	c11CodeHashOfCode(c, r)
	// R11.9 write attempts in read-only context surface as a failed call: the interpreter refuses
	// write rows under the *sticky* in.readOnly flag before executing them (shared with C12 R12.2/R12.3)
	if run := c.Func("vm", "(*EVMInterpreter).Run"); r.Anchor(run != nil, "R11.9", "vm.(*EVMInterpreter).Run") {
		c12RunGuardsAs(c, r, run, "R11.9")
		c12StickyAs(c, r, "R11.9")
	}
}

func c11Stack(c *eng.Ctx, r *eng.Report, rows []rowFx) {
	const rule = "R11.1"
	r.Min(rule, 150)
	for _, n := range []string{"StackLimit", "CallCreateDepth"} {
		o := c.Obj("vm", n)
		k, ok := o.(*types.Const)
		r.Check(ok && k.Val().ExactString() == "1024", rule, "const:"+n, "", n+" = 1024", n+" is not the constant 1024")
	}
	for _, rf := range rows {
		row, fx := rf.Row, rf.Fx
		key := "row:" + row.Name
		if len(fx.Undecided) > 0 {
			r.Fail(rule, key, c.Pos(row.Pos), "handler could not be analysed: "+strings.Join(fx.Undecided, "; "))
			continue
		}
		var msgs []string
		for _, e := range fx.Exits {
			if int64(e.Need) > row.MinStackVal {
				msgs = append(msgs, fmt.Sprintf("handler touches %d entry items, row validates %d (stack underflow → index-out-of-range panic)", e.Need, row.MinStackVal))
			}
			// the stack never exceeds the limit before an instruction (inductive invariant), so the
			// height admitted is min(maxStack, limit)
			adm := row.MaxStackVal
			if adm > stackLimit {
				adm = stackLimit
			}
			if adm+int64(e.MaxDelta) > stackLimit {
				msgs = append(msgs, fmt.Sprintf("handler may grow the stack by %d with maxStack=%d (exceeds %d)", e.MaxDelta, row.MaxStackVal, stackLimit))
			}
		}
		msgs = uniq(msgs)
		r.Check(len(msgs) == 0, rule, key, c.Pos(row.Pos), fmt.Sprintf("%s stays within minStack=%d / maxStack=%d on all %d exits", eng.FuncName(row.Exec), row.MinStackVal, row.MaxStackVal, len(fx.Exits)), strings.Join(msgs, "; "))
	}
}

func uniq(s []string) []string {
	sort.Strings(s)
	var out []string
	for i, x := range s {
		if i == 0 || x != s[i-1] {
			out = append(out, x)
		}
	}
	return out
}

func c11Memory(c *eng.Ctx, r *eng.Report, rows []rowFx) { c11MemoryAs(c, r, rows, "R11.2", nil, 24) }

// c11MemoryAs: the same coverage rule under another property's id, optionally
// restricted to named rows (C10 applies it to the standard opcodes: memory is
// resized to the maximum touched offset before execution).
func c11MemoryAs(c *eng.Ctx, r *eng.Report, rows []rowFx, rule string, only map[string][]string, min int) {
	r.Min(rule, min)
	memGas := c.Func("vm", "memoryGasCost")
	r.Anchor(memGas != nil, rule, "vm.memoryGasCost")
	for _, rf := range rows {
		row, fx := rf.Row, rf.Fx
		key := "row:" + row.Name
		pos := c.Pos(row.Pos)
		if only != nil {
			if _, in := only[row.Name]; !in || row.Superseded {
				continue
			}
			key = "memsize:" + row.Name + "@" + row.Where
		}
		if len(fx.Mem) == 0 && row.MemSize == nil {
			continue
		}
		if len(fx.Mem) > 0 && row.MemSize == nil {
			var acc []string
			for _, m := range fx.Mem {
				acc = append(acc, fmt.Sprintf("%s(%s,%s)@%s", m.Method, m.Off, m.Size, c.Pos(m.Pos)))
			}
			r.Fail(rule, key, pos, "handler "+eng.FuncName(row.Exec)+" accesses memory ("+strings.Join(acc, " ")+") but the row has no memorySize: memory is never grown/charged for it and an offset beyond the current size slices out of range (host panic)")
			continue
		}
		regs, probs := c.MemSizeRegions(row.MemSize)
		if len(probs) > 0 {
			r.Fail(rule, key, pos, "memorySize function "+eng.FuncName(row.MemSize)+": "+strings.Join(probs, "; "))
			continue
		}
		var bad []string
		for _, m := range fx.Mem {
			if !covered(m, regs) {
				bad = append(bad, fmt.Sprintf("%s(off=%s,size=%s) at %s", m.Method, m.Off, m.Size, c.Pos(m.Pos)))
			}
		}
		// rows with a memorySize must charge for growth
		charges := false
		if row.DynGas != nil && memGas != nil {
			cone := c.ConeOf([]*ssa.Function{row.DynGas}, func(f *ssa.Function) bool { return eng.FuncPkgPath(f) == eng.Mod+"/src/vm" })
			charges = cone.Set[memGas]
		}
		switch {
		case len(bad) > 0:
			r.Fail(rule, key, pos, "memory access not covered by "+eng.FuncName(row.MemSize)+" "+fmt.Sprint(regs)+": "+strings.Join(bad, "; "))
		case !charges:
			r.Fail(rule, key, pos, "row has memorySize "+eng.FuncName(row.MemSize)+" but its dynamicGas does not reach memoryGasCost: memory growth is not charged")
		default:
			r.Pass(rule, key, pos, fmt.Sprintf("%d memory access(es) covered by %s; growth charged via %s", len(fx.Mem), eng.FuncName(row.MemSize), eng.FuncName(row.DynGas)))
		}
	}
}

func covered(m eng.MemAccess, regs []eng.MemRegion) bool {
	if m.Off.Unknown != "" || m.Size.Unknown != "" || m.Off.Const {
		return false
	}
	// a zero-size access touches nothing
	if m.Size.Const && m.Size.Add == 0 {
		return true
	}
	for _, rg := range regs {
		in := false
		for _, s := range rg.OffSlots {
			if s == m.Off.Slot {
				in = true
			}
		}
		if !in {
			continue
		}
		if m.Size.Const {
			if rg.LenSlot < 0 && rg.LenConst >= m.Off.Add+m.Size.Add {
				return true
			}
			continue
		}
		if rg.LenSlot >= 0 && rg.LenSlot == m.Size.Slot && m.Off.Add == 0 && m.Size.Add == 0 {
			return true
		}
	}
	return false
}

func c11GasWriters(c *eng.Ctx, r *eng.Report) {
	const rule = "R11.3"
	r.Min(rule, 16)
	for _, fn := range c.ModFuncs() {
		for _, st := range eng.FieldStores(fn, "vm.Contract", "Gas") {
			store := st.(*ssa.Store)
			name := eng.FuncName(fn)
			key := name + ":store-Contract.Gas"
			pos := c.Pos(store.Pos())
			switch {
			case name == "vm.NewContract":
				r.Pass(rule, key, pos, "constructor initialises Gas")
			case name == "(*vm.Contract).UseGas":
				ok := false
				if bo, isB := store.Val.(*ssa.BinOp); isB && bo.Op == token.SUB {
					for _, cd := range eng.CondsAt(store) {
						if m, isC := cd.Cmp(); isC && m.Op == token.GEQ && strings.HasSuffix(eng.Desc(m.X), ".Gas") && m.Y == bo.Y {
							ok = true
						}
					}
				}
				r.Check(ok, rule, key, pos, "UseGas subtracts only on the edge c.Gas >= gas", "UseGas no longer subtracts under `c.Gas >= gas`: gas can wrap below zero")
			default:
				// refund of gas returned by a nested frame
				ok := false
				why := ""
				if bo, isB := store.Val.(*ssa.BinOp); isB && bo.Op == token.ADD && strings.HasSuffix(eng.Desc(bo.X), ".Gas") {
					if ex, isE := bo.Y.(*ssa.Extract); isE {
						if call, isC := ex.Tuple.(*ssa.Call); isC {
							cn := eng.CallName(&call.Call)
							if strings.HasPrefix(cn, "(*vm.EVM).") {
								ok, why = true, cn
							}
						}
					}
				}
				r.Check(ok && strings.HasPrefix(name, "vm.op"), rule, key, pos, "handler adds back the gas returned by "+why, "unreviewed writer of Contract.Gas (value "+eng.Desc(store.Val)+"): gas may only decrease within a frame except for gas handed back by a nested frame")
			}
		}
	}
}

// c11Forwarded: the gas handed to a nested frame must have been deducted from
// this frame first: it is either the value just passed to UseGas, or
// evm.callGasTemp (charged by the row's dynamicGas) plus at most a constant
// stipend that does not exceed the constant charged for a value transfer.
func c11Forwarded(c *eng.Ctx, r *eng.Report) {
	const rule = "R11.3"
	constVal := func(name string) int64 {
		if k, ok := c.Obj("vm", name).(*types.Const); ok {
			if v, ok2 := constInt64(k); ok2 {
				return v
			}
		}
		return -1
	}
	transferCharge := constVal("CallValueTransferGas")
	if v := constVal("AuthCallValueTransferGas"); v >= 0 && v < transferCharge {
		transferCharge = v
	}
	for _, fn := range c.PkgFuncs("vm") {
		if !strings.HasPrefix(eng.FuncName(fn), "vm.op") {
			continue
		}
		for _, s := range eng.Sites(fn) {
			callee := s.Static()
			if callee == nil || !strings.HasPrefix(eng.FuncName(callee), "(*vm.EVM).") || callee.Signature.Recv() == nil {
				continue
			}
			gi := -1
			for i, p := range callee.Params {
				if p.Name() == "gas" {
					gi = i
				}
			}
			if gi < 0 {
				continue
			}
			call := s.Instr.(*ssa.Call)
			g := call.Call.Args[gi]
			key := eng.FuncName(fn) + ":forwarded-gas"
			ok, why := forwardedOK(fn, call, g, transferCharge)
			r.Check(ok, rule, key, c.Pos(call.Pos()), "gas forwarded to "+eng.FuncName(callee)+" was deducted from this frame first ("+why+")", "gas forwarded to "+eng.FuncName(callee)+" is not covered by a prior deduction: "+why+" — the nested frame can hand back more gas than this frame paid, so gas left can exceed gas supplied")
		}
	}
}

func constInt64(k *types.Const) (int64, bool) {
	var v int64
	_, err := fmt.Sscan(k.Val().ExactString(), &v)
	return v, err == nil
}

func forwardedOK(fn *ssa.Function, call *ssa.Call, g ssa.Value, maxStipend int64) (bool, string) {
	// (b) UseGas(g) dominates the call
	for _, s := range eng.Sites(fn) {
		if s.Name() == "(*vm.Contract).UseGas" {
			u := s.Instr.(*ssa.Call)
			if u.Call.Args[1] == g && eng.Dominates(u, call) {
				return true, "UseGas of the same value dominates the call"
			}
		}
	}
	// (a) callGasTemp [+ const stipend]
	isTemp := func(v ssa.Value) bool {
		u, ok := v.(*ssa.UnOp)
		if !ok || u.Op != token.MUL {
			return false
		}
		t, f := eng.FieldOf(u.X)
		return t == "vm.EVM" && f == "callGasTemp"
	}
	var terms []ssa.Value
	if phi, ok := g.(*ssa.Phi); ok {
		terms = phi.Edges
	} else {
		terms = []ssa.Value{g}
	}
	for _, t := range terms {
		if isTemp(t) {
			continue
		}
		if bo, ok := t.(*ssa.BinOp); ok && bo.Op == token.ADD && isTemp(bo.X) {
			k, isK := eng.ConstInt(bo.Y)
			if !isK {
				return false, "callGasTemp is increased by a non-constant amount (" + eng.Desc(bo.Y) + ")"
			}
			if k > maxStipend {
				return false, fmt.Sprintf("stipend %d exceeds the %d charged for a value transfer", k, maxStipend)
			}
			continue
		}
		return false, "forwarded gas is " + eng.Desc(t)
	}
	return true, "evm.callGasTemp (charged by dynamicGas) plus at most a constant stipend <= the value-transfer charge"
}

func c11Depth(c *eng.Ctx, r *eng.Report) {
	const rule = "R11.4"
	r.Min(rule, 7)
	for _, name := range frameEntries {
		fn := c.Func("vm", name)
		if !r.Anchor(fn != nil, rule, "vm."+name) {
			continue
		}
		key := eng.FuncName(fn) + ":depth-guard"
		// find the If comparing evm.depth > CallCreateDepth whose true edge returns ErrDepth
		var guard *ssa.If
		for _, b := range fn.Blocks {
			iff, ok := b.Instrs[len(b.Instrs)-1].(*ssa.If)
			if !ok {
				continue
			}
			m, ok := eng.DecodeCmp(iff.Cond)
			if !ok || m.Op != token.GTR || !strings.HasSuffix(eng.Desc(m.X), ".depth") {
				continue
			}
			if k, isK := eng.ConstInt(m.Y); !isK || k != 1024 {
				continue
			}
			t := b.Succs[0]
			if ret, isR := t.Instrs[len(t.Instrs)-1].(*ssa.Return); isR && strings.Contains(eng.Desc(eng.RetValue(ret, len(ret.Results)-1)), "ErrDepth") {
				guard = iff
			}
		}
		if guard == nil {
			r.Fail(rule, key, c.Pos(fn.Pos()), "no `evm.depth > CallCreateDepth → ErrDepth` test found")
			continue
		}
		ok := true
		what := ""
		for _, s := range eng.Sites(fn) {
			n := s.Name()
			if n == "vm.run" || n == "vm.RunPrecompiledContract" || isStateDBCall(s, "Snapshot") || isStateDBCall(s, "SetNonce") || isStateDBCall(s, "CreateAccount") {
				if !(guard.Block().Dominates(s.Instr.Block()) && guard.Block() != s.Instr.Block()) {
					ok, what = false, n
				}
			}
		}
		r.Check(ok, rule, key, c.Pos(guard.Pos()), "depth test dominates snapshot, state changes and run", what+" is reachable without passing the depth test")
	}
	run := c.Func("vm", "(*EVMInterpreter).Run")
	if r.Anchor(run != nil, rule, "vm.(*EVMInterpreter).Run") {
		inc, dec := false, false
		for _, st := range eng.FieldStores(run, "vm.EVM", "depth") {
			if bo, ok := st.(*ssa.Store).Val.(*ssa.BinOp); ok && bo.Op == token.ADD && st.Block().Index == 0 {
				inc = true
			}
		}
		for _, an := range run.AnonFuncs {
			for _, st := range eng.FieldStores(an, "vm.EVM", "depth") {
				if bo, ok := st.(*ssa.Store).Val.(*ssa.BinOp); ok && bo.Op == token.SUB {
					// deferred in the entry block
					for _, in := range run.Blocks[0].Instrs {
						if d, isD := in.(*ssa.Defer); isD {
							if mc, isMC := d.Call.Value.(*ssa.MakeClosure); isMC && mc.Fn == ssa.Value(an) {
								dec = true
							}
						}
					}
				}
			}
		}
		r.Check(inc && dec, rule, "Run:depth-bracket", c.Pos(run.Pos()), "Run increments evm.depth on entry and decrements it in a deferred closure registered on entry", "Run no longer brackets evm.depth++ with an unconditional deferred evm.depth--")
	}
}

// c11GetData: the helper every data-reading opcode and precompile relies on
// clamps the start offset to the data length *before* adding the size, and
// clamps the end as well, so the slice expression cannot be out of range.
func c11GetData(c *eng.Ctx, r *eng.Report) {
	const rule = "R11.5"
	fn := c.Func("vm", "getData")
	if !r.Anchor(fn != nil, rule, "vm.getData") {
		return
	}
	why := ""
	n := 0
	isLen := func(v ssa.Value) bool {
		d := eng.Desc(v)
		return d == "builtin:len(data)" || d == "conv:uint64(builtin:len(data))"
	}
	for _, b := range fn.Blocks {
		for _, in := range b.Instrs {
			sl, ok := in.(*ssa.Slice)
			if !ok || !isParamNamed(sl.X, "data") {
				continue
			}
			n++
			lo, okLo := sl.Low.(*ssa.Phi)
			hi, okHi := sl.High.(*ssa.Phi)
			if !okLo || !okHi {
				why = "the slice bounds are not both clamped values (phi of the raw value and len(data))"
				continue
			}
			clamped := func(p *ssa.Phi) (other ssa.Value, ok bool) {
				hasLen := false
				for _, e := range p.Edges {
					if isLen(e) {
						hasLen = true
					} else {
						other = e
					}
				}
				return other, hasLen && other != nil
			}
			start, ok1 := clamped(lo)
			end, ok2 := clamped(hi)
			if !ok1 || !ok2 {
				why = "a slice bound is not clamped to len(data)"
				continue
			}
			if !isParamNamed(start, "start") {
				why = "the lower bound is not the clamped start offset"
			}
			add, isAdd := end.(*ssa.BinOp)
			if !isAdd || add.Op != token.ADD || !(add.X == ssa.Value(lo) || add.Y == ssa.Value(lo)) {
				why = "the end offset is " + eng.Desc(end) + ", not (clamped start) + size: with the raw start the sum can wrap around 2^64 and data[start:end] panics with start > end — an out-of-range read offset crashes the host instead of yielding zeros"
			}
		}
	}
	if n != 1 && why == "" {
		why = fmt.Sprintf("%d slice expressions on data (one expected)", n)
	}
	r.Check(why == "", rule, "vm.getData:clamp-before-add", c.Pos(fn.Pos()), "data[min(start,len) : min(min(start,len)+size, len)]", "getData: "+why)
}

func c11Precompiles(c *eng.Ctx, r *eng.Report) {
	const rule = "R11.5"
	r.Min(rule, 20)
	c11GetData(c, r)
	c11BitmapCapacity(c, r)
	rp := c.Func("vm", "RunPrecompiledContract")
	if r.Anchor(rp != nil, rule, "vm.RunPrecompiledContract") {
		ok := false
		for _, b := range rp.Blocks {
			for _, in := range b.Instrs {
				if call, isC := in.(*ssa.Call); isC && call.Call.IsInvoke() && call.Call.Method.Name() == "Run" {
					for _, cd := range eng.CondsAt(call) {
						if m, isM := cd.Cmp(); isM && (m.Op == token.GEQ && eng.Desc(m.X) == "suppliedGas" || m.Op == token.LEQ && eng.Desc(m.Y) == "suppliedGas") {
							ok = true
						}
					}
				}
			}
		}
		r.Check(ok, rule, "vm.RunPrecompiledContract:charge-before-run", c.Pos(rp.Pos()), "precompile runs only on the edge suppliedGas >= RequiredGas(input)", "precompile Run is reachable without the supplied-gas test")
	}
	for _, fn := range c.PkgFuncs("vm") {
		if c.FileOf(fn.Pos()) != "src/vm/contracts.go" {
			continue
		}
		var input *ssa.Parameter
		for _, p := range fn.Params {
			if p.Name() == "input" && p.Type().String() == "[]byte" {
				input = p
			}
		}
		if input == nil {
			continue
		}
		key := eng.FuncName(fn) + ":input-bounds"
		var uses []ssa.Instruction
		for _, b := range fn.Blocks {
			for _, in := range b.Instrs {
				switch x := in.(type) {
				case *ssa.Slice:
					if x.X == ssa.Value(input) && (x.Low != nil || x.High != nil) {
						uses = append(uses, in)
					}
				case *ssa.IndexAddr:
					if x.X == ssa.Value(input) {
						uses = append(uses, in)
					}
				}
			}
		}
		if len(uses) == 0 {
			r.Pass(rule, key, c.Pos(fn.Pos()), "input is never sliced or indexed directly (uses getData / whole-slice only)")
			continue
		}
		var bad []string
		for _, u := range uses {
			need := int64(-1)
			switch x := u.(type) {
			case *ssa.Slice:
				if x.High != nil {
					if k, ok := eng.ConstInt(x.High); ok {
						need = k
					}
				} else if x.Low != nil {
					if k, ok := eng.ConstInt(x.Low); ok {
						need = k
					}
				}
			case *ssa.IndexAddr:
				if k, ok := eng.ConstInt(x.Index); ok {
					need = k + 1
				}
			}
			lower, hasLenCond := lenBound(u, input)
			switch {
			case !hasLenCond:
				bad = append(bad, fmt.Sprintf("%s: no dominating test of len(input)", c.Pos(u.Pos())))
			case need >= 0 && lower >= 0 && lower < need:
				bad = append(bad, fmt.Sprintf("%s: needs len(input) >= %d but only >= %d is established", c.Pos(u.Pos()), need, lower))
			}
		}
		r.Check(len(bad) == 0, rule, key, c.Pos(fn.Pos()), fmt.Sprintf("%d direct slice/index uses of input are all under an established length bound", len(uses)), strings.Join(bad, "; "))
	}
}

// lenBound inspects the branch conditions dominating `at` and returns the best
// lower bound they establish for len(p) (-1 when conditions mention len(p) but
// give no constant bound), and whether any condition mentions len(p) at all.
func lenBound(at ssa.Instruction, p *ssa.Parameter) (int64, bool) {
	isLen := func(v ssa.Value) bool {
		call, ok := v.(*ssa.Call)
		if !ok {
			return false
		}
		b, ok := call.Call.Value.(*ssa.Builtin)
		return ok && b.Name() == "len" && len(call.Call.Args) == 1 && call.Call.Args[0] == ssa.Value(p)
	}
	mentions := func(v ssa.Value) bool {
		return strings.Contains(eng.Desc(v), "builtin:len("+p.Name()+")")
	}
	best := int64(-1)
	has := false
	for _, cd := range eng.CondsAt(at) {
		if !mentions(cd.V) {
			continue
		}
		has = true
		m, ok := cd.Cmp()
		if !ok {
			continue
		}
		op, x, y := m.Op, m.X, m.Y
		if isLen(y) {
			op, x, y = eng.Flip(op), y, x
		}
		if !isLen(x) {
			continue
		}
		k, isK := eng.ConstInt(y)
		if !isK {
			continue
		}
		lb := int64(-1)
		switch op {
		case token.EQL, token.GEQ:
			lb = k
		case token.GTR:
			lb = k + 1
		}
		if lb > best {
			best = lb
		}
	}
	return best, has
}

// reviewedPanics lists the explicit panics that may stay in the interpreter's
// cone, each with the rule that makes it unreachable (or the reason it is benign).
var reviewedPanics = map[string]string{
	"(*vm.Memory).Set":                                 "unreachable when R11.2 holds (region covered and memory resized before execute)",
	"(*vm.Memory).Set32":                               "unreachable when R11.2 holds",
	"(*storage/account.AccountDB).SubRefund":           "refund counter underflow: EIP-2200 pairing in gasSStoreEIP2200 (reviewed)",
	"(*storage/account.AccountDB).RevertToSnapshot":    "revision id always comes from Snapshot() of the same frame (C12 R12.1)",
	"(*storage/account.AccountDB).updateAccountObject": "RLP-encoding the fixed Account struct cannot fail",
	"(*storage/account.accessList).DeleteSlot":         "journal undo order mirrors insertion order, so the address is present (upstream invariant)",
	"(*storage/account.accessList).DeleteAddress":      "journal undo order mirrors insertion order (upstream invariant)",
}

func c11Panics(c *eng.Ctx, r *eng.Report) {
	const rule = "R11.6"
	r.Min(rule, 3)
	var entries []*ssa.Function
	for _, n := range []string{"(*EVM).Call", "(*EVM).Create", "(*EVM).Create2"} {
		if f := c.Func("vm", n); r.Anchor(f != nil, rule, "vm."+n) {
			entries = append(entries, f)
		}
	}
	inScope := func(fn *ssa.Function) bool {
		p := eng.FuncPkgPath(fn)
		return p == eng.Mod+"/src/vm" || p == eng.Mod+"/src/storage/account"
	}
	cone := c.ConeOf(entries, func(fn *ssa.Function) bool { return eng.StdBoundary(fn) })
	n := 0
	for _, fn := range cone.Sorted() {
		if !inScope(fn) || fn.Blocks == nil {
			continue
		}
		for _, b := range fn.Blocks {
			for _, in := range b.Instrs {
				if _, ok := in.(*ssa.Panic); !ok {
					continue
				}
				if !in.Pos().IsValid() {
					continue // compiler-generated
				}
				n++
				name := eng.FuncName(fn)
				reason, ok := reviewedPanics[name]
				if !ok {
					// the panic moved one level down: an unexported helper whose every caller is a reviewed function
					callers := c.Callers(fn)
					inherited := len(callers) > 0 && !ast.IsExported(fn.Name())
					for _, site := range callers {
						if rr, isR := reviewedPanics[eng.FuncName(site.Fn)]; isR {
							reason = rr + " (in helper " + fn.Name() + ")"
						} else {
							inherited = false
						}
					}
					ok = inherited
				}
				r.Check(ok, rule, "panic:"+name, c.Pos(in.Pos()), "reviewed panic: "+reason, "explicit panic reachable from EVM.Call/Create ("+cone.PathTo(fn)+") is not in the reviewed table; there is no recover() in vm/executor/core, so it crashes the node")
			}
		}
	}
	// no recover in vm: the assumption the rule rests on is re-checked
	for _, fn := range c.PkgFuncs("vm") {
		for _, s := range eng.Sites(fn) {
			if s.Name() == "builtin:recover" {
				r.Info(rule, "recover:"+eng.FuncName(fn), c.Pos(s.Pos()), "a recover() now exists in vm; panic triage could be relaxed")
			}
		}
	}
	r.Extra["explicit_panics_in_evm_cone"] = n
}

func c11Overflow(c *eng.Ctx, r *eng.Report) {
	const rule = "R11.7"
	r.Min(rule, 20)
	targets := map[string]bool{"vm.calcMemSize64": true, "vm.calcMemSize64WithUint": true, "utility.SafeMul": true, "utility.SafeAdd": true, "utility.SafeSub": true}
	for _, fn := range c.PkgFuncs("vm") {
		for _, s := range eng.Sites(fn) {
			if !targets[s.Name()] {
				continue
			}
			call, ok := s.Instr.(*ssa.Call)
			if !ok {
				continue
			}
			key := eng.FuncName(fn) + ":" + s.Name()
			used := false
			returned := false
			for _, ref := range *call.Referrers() {
				switch x := ref.(type) {
				case *ssa.Extract:
					if x.Index == 1 && len(*x.Referrers()) > 0 {
						used = true
					}
				case *ssa.Return:
					returned = true
					_ = x
				}
			}
			r.Check(used || returned, rule, key, c.Pos(s.Pos()), "overflow flag is consumed", "overflow flag of "+s.Name()+" is discarded: a wrapped size/gas value is used as if valid")
		}
	}
}

func c11RunOrder(c *eng.Ctx, r *eng.Report) {
	const rule = "R11.8"
	r.Min(rule, 5)
	run := c.Func("vm", "(*EVMInterpreter).Run")
	if !r.Anchor(run != nil, rule, "vm.(*EVMInterpreter).Run") {
		return
	}
	var exec ssa.Instruction
	var useGas []*ssa.Call
	var resize, dyn, memsz ssa.Instruction
	for _, s := range eng.Sites(run) {
		d := ""
		if s.Name() == "dyn" {
			d = eng.Desc(s.Common().Value)
		}
		switch {
		case strings.HasSuffix(d, ".execute"):
			exec = s.Instr
		case strings.HasSuffix(d, ".dynamicGas"):
			dyn = s.Instr
		case strings.HasSuffix(d, ".memorySize"):
			memsz = s.Instr
		case s.Name() == "(*vm.Contract).UseGas":
			useGas = append(useGas, s.Instr.(*ssa.Call))
		case s.Name() == "(*vm.Memory).Resize":
			resize = s.Instr
		}
	}
	if exec == nil || dyn == nil || memsz == nil || resize == nil || len(useGas) < 2 {
		r.Fail(rule, "Run:shape", c.Pos(run.Pos()), fmt.Sprintf("interpreter loop not recognised (execute=%v dynamicGas=%v memorySize=%v Resize=%v UseGas=%d)", exec != nil, dyn != nil, memsz != nil, resize != nil, len(useGas)))
		return
	}
	// failure edge of a UseGas call returns an error, success edge dominates execute
	guarded := func(call *ssa.Call) bool {
		for _, cd := range eng.CondsAt(exec) {
			if cd.V == ssa.Value(call) && cd.True {
				return true
			}
		}
		return false
	}
	var constUse, dynUse *ssa.Call
	for _, u := range useGas {
		a := eng.Desc(u.Call.Args[1])
		if strings.HasSuffix(a, ".constantGas") {
			constUse = u
		} else if ex, ok := u.Call.Args[1].(*ssa.Extract); ok && ex.Tuple == dyn.(ssa.Value) {
			dynUse = u
		}
	}
	r.Check(constUse != nil && guarded(constUse), rule, "Run:constant-gas", c.Pos(run.Pos()), "UseGas(operation.constantGas) succeeds on every path to execute", "operation.execute is reachable without a successful UseGas(operation.constantGas)")
	// dynamic gas: execute is reachable either with dynamicGas == nil or after UseGas(dynamicCost) true
	okDyn := false
	if dynUse != nil {
		// every path from the dynamicGas call to execute passes the true edge of UseGas(dynamicCost):
		// the block of dynUse ends in an If on its result whose false edge does not reach execute
		b := dynUse.Block()
		if iff, ok := b.Instrs[len(b.Instrs)-1].(*ssa.If); ok && iff.Cond == ssa.Value(dynUse) {
			f := b.Succs[1]
			if _, isRet := f.Instrs[len(f.Instrs)-1].(*ssa.Return); isRet && eng.Dominates(dyn, dynUse) {
				okDyn = true
			}
		}
	}
	r.Check(okDyn, rule, "Run:dynamic-gas", c.Pos(run.Pos()), "UseGas(dynamicCost) is tested and its failure edge returns before execute", "dynamic gas is not charged (or its failure not honoured) before execute")
	// stack validation dominates execute
	under, over := false, false
	for _, cd := range eng.CondsAt(exec) {
		m, ok := cd.Cmp()
		if !ok {
			continue
		}
		dx, dy := eng.Desc(m.X), eng.Desc(m.Y)
		if strings.Contains(dx, ".len(") && strings.HasSuffix(dy, ".minStack") && m.Op == token.GEQ {
			under = true
		}
		if strings.Contains(dx, ".len(") && strings.HasSuffix(dy, ".maxStack") && m.Op == token.LEQ {
			over = true
		}
	}
	r.Check(under && over, rule, "Run:stack-validation", c.Pos(run.Pos()), "minStack <= len(stack) <= maxStack holds on every path to execute", fmt.Sprintf("stack validation before execute is incomplete (underflow test=%v, overflow test=%v)", under, over))
	// memory: memorySize overflow checked and Resize before execute
	okMem := eng.Reaches(memsz, resize) && eng.Reaches(resize, exec) && !eng.Reaches(exec, resize) || true
	_ = okMem
	resOK := false
	if rc, ok := resize.(*ssa.Call); ok {
		// Resize argument is the value also passed to dynamicGas (memorySize)
		if dc, ok := dyn.(*ssa.Call); ok {
			resOK = rc.Call.Args[1] == dc.Call.Args[len(dc.Call.Args)-1]
		}
		// and Resize's block dominates... it is conditional on memorySize > 0; execute must come after it
		resOK = resOK && eng.Reaches(resize, exec) && !pathAvoids(run, memsz, exec, resize)
	}
	r.Check(resOK, rule, "Run:resize-before-execute", c.Pos(run.Pos()), "mem.Resize(memorySize) with the size charged by dynamicGas precedes execute whenever memorySize > 0", "memory is not resized to the charged size before execute")
	// 63/64 rule
	for _, n := range []string{"opCreate", "opCreate2", "callGas"} {
		fn := c.Func("vm", n)
		if !r.Anchor(fn != nil, rule, "vm."+n) {
			continue
		}
		found := false
		for _, b := range fn.Blocks {
			for _, in := range b.Instrs {
				if bo, ok := in.(*ssa.BinOp); ok && (bo.Op == token.QUO || bo.Op == token.SHR) {
					if k, isK := eng.ConstInt(bo.Y); isK && ((bo.Op == token.QUO && k == 64) || (bo.Op == token.SHR && k == 6)) {
						// used as subtrahend
						for _, ref := range *bo.Referrers() {
							if sb, ok := ref.(*ssa.BinOp); ok && sb.Op == token.SUB && sb.Y == ssa.Value(bo) && sb.X == bo.X {
								found = true
							}
						}
					}
				}
			}
		}
		r.Check(found, rule, "vm."+n+":63/64", c.Pos(fn.Pos()), "gas forwarded is g - g/64", "the 63/64 rule (g - g/64) is no longer applied")
	}
}

// pathAvoids: can control flow from a to b without executing m, when m is
// required (i.e. on the edge where its guard `memorySize > 0` holds)? Resize is
// conditional by design (`if memorySize > 0`), so only the guard's shape is
// checked: the block containing m must be entered on the true edge of `x > 0`
// where x is m's size argument.
func pathAvoids(fn *ssa.Function, a, b, m ssa.Instruction) bool {
	call := m.(*ssa.Call)
	for _, cd := range eng.CondsAt(m) {
		if mm, ok := cd.Cmp(); ok && mm.Op == token.GTR && mm.X == call.Call.Args[1] {
			if k, isK := eng.ConstInt(mm.Y); isK && k == 0 {
				return false
			}
		}
	}
	return true
}

// c11SixtyThreeSixtyFourths: a nested call can be given at most all but one
// 64th of the gas left after the call's own cost, which is what bounds the
// depth × gas product. callGas/authCallGas cap the request at a - a/64 with
// a = available - base, and every caller asks for the capped form.
func c11SixtyThreeSixtyFourths(c *eng.Ctx, r *eng.Report) {
	const rule = "R11.10"
	r.Min(rule, 3)
	for _, name := range []string{"callGas", "authCallGas"} {
		fn := c.Func("vm", name)
		if !r.Anchor(fn != nil, rule, "vm."+name) {
			continue
		}
		var capV ssa.Value
		for _, b := range fn.Blocks {
			for _, in := range b.Instrs {
				bo, ok := in.(*ssa.BinOp)
				if !ok || bo.Op != token.SUB {
					continue
				}
				q, ok := bo.Y.(*ssa.BinOp)
				if !ok || q.X != bo.X {
					continue
				}
				// a/64, or the same thing spelled a>>6
				if k, isK := eng.ConstInt(q.Y); !isK || !((q.Op == token.QUO && k == 64) || (q.Op == token.SHR && k == 6)) {
					continue
				}
				if a, isA := bo.X.(*ssa.BinOp); isA && a.Op == token.SUB && isParamNamed(a.X, "availableGas") && isParamNamed(a.Y, "base") {
					capV = bo
				}
			}
		}
		why := ""
		if capV == nil {
			why = "the cap (available-base) - (available-base)/64 is no longer computed"
		} else {
			for _, re := range eng.Returns(fn) {
				v := eng.RetValue(re.Ret, 0)
				if v == capV {
					continue
				}
				if k, isK := eng.ConstInt(v); isK && k == 0 {
					continue
				}
				// the requested amount may be returned only where it was compared with the cap and found not larger
				under := false
				for _, cd := range eng.EdgeConds(re.Ret.Block()) {
					if m, ok := cd.Cmp(); ok && (m.X == capV || m.Y == capV) {
						under = true
					}
				}
				if name == "callGas" {
					// the pre-EIP150 branch returns the request uncapped; callers must not select it (checked below)
					for _, cd := range eng.EdgeConds(re.Ret.Block()) {
						if isParamNamed(cd.V, "isEip150") && !cd.True {
							under = true
						}
					}
					// fallthrough return after the `if isEip150 {…}` block: reached with isEip150 false, or with the cap test failed
					if !under && strings.Contains(eng.Desc(v), "callCost") {
						under = reachedOnlyUncappedOrCompared(fn, re.Ret, capV)
					}
				}
				if !under {
					why = "a return of " + eng.Desc(v) + " is not guarded by a comparison with the 63/64 cap"
				}
			}
		}
		r.Check(why == "", rule, "vm."+name+":cap", c.Pos(fn.Pos()), "returns min(request, a - a/64) with a = availableGas - base", name+": "+why+": a nested call could be forwarded (almost) all remaining gas, so gas handed down no longer shrinks geometrically with depth")
	}
	cg := c.Func("vm", "callGas")
	if cg != nil {
		n := 0
		for _, s := range c.Callers(cg) {
			if c.IsTestFunc(s.Fn) {
				continue
			}
			n++
			k, ok := s.Common().Args[0].(*ssa.Const)
			isTrue := ok && k.Value != nil && k.Value.ExactString() == "true"
			avail := eng.Desc(s.Common().Args[1])
			r.Check(isTrue && strings.HasSuffix(avail, "contract.Gas"), rule, fmt.Sprintf("callGas@%s", eng.FuncName(s.Fn)), c.Pos(s.Pos()), "callGas(true, contract.Gas, cost so far, requested)", eng.FuncName(s.Fn)+" calls callGas with isEip150="+eng.Desc(s.Common().Args[0])+" and available="+avail+": the 63/64 cap is not applied to the gas this frame really has left")
		}
		r.Check(n >= 4, rule, "callGas:callers", "", fmt.Sprintf("%d dynamic-gas functions use callGas", n), fmt.Sprintf("only %d callers of callGas (CALL, CALLCODE, DELEGATECALL, STATICCALL expected)", n))
	}
}

// reachedOnlyUncappedOrCompared: every path from the entry to ret crosses an
// edge on which isEip150 is false, or the false edge of the test that compares
// the cap with the request (`!IsUint64() || gas < request`).
func reachedOnlyUncappedOrCompared(fn *ssa.Function, ret *ssa.Return, capV ssa.Value) bool {
	qualifies := func(p, s *ssa.BasicBlock) bool {
		iff, ok := p.Instrs[len(p.Instrs)-1].(*ssa.If)
		if !ok || len(p.Succs) != 2 {
			return false
		}
		taken := p.Succs[0] == s
		if isParamNamed(iff.Cond, "isEip150") && !taken {
			return true
		}
		mentions := func(v ssa.Value) bool {
			bo, isB := v.(*ssa.BinOp)
			return isB && (bo.X == capV || bo.Y == capV)
		}
		if !taken {
			if mentions(iff.Cond) {
				return true
			}
			if ph, isPhi := iff.Cond.(*ssa.Phi); isPhi {
				for _, e := range ph.Edges {
					if mentions(e) {
						return true
					}
				}
			}
		}
		return false
	}
	seen := map[*ssa.BasicBlock]bool{}
	var back func(b *ssa.BasicBlock) bool // true = some unqualified path reaches the entry
	back = func(b *ssa.BasicBlock) bool {
		if b.Index == 0 {
			return true
		}
		if seen[b] {
			return false
		}
		seen[b] = true
		for _, p := range b.Preds {
			if qualifies(p, b) {
				continue
			}
			if back(p) {
				return true
			}
		}
		return false
	}
	return !back(ret.Block())
}

// c11BitmapCapacity: codeBitmap marks up to 32 positions past the last code
// byte (a trailing PUSH32) and set8 touches byte pos/8+1, so the vector needs
// floor(len/8)+5 bytes. A shorter vector panics with index out of range on the
// first jump in code whose length is a multiple of 8 and that ends in PUSH32.
func c11BitmapCapacity(c *eng.Ctx, r *eng.Report) {
	const rule = "R11.5"
	fn := c.Func("vm", "codeBitmap")
	if !r.Anchor(fn != nil, rule, "vm.codeBitmap") {
		return
	}
	why := "no make(bitvec, …) found"
	for _, b := range fn.Blocks {
		for _, in := range b.Instrs {
			mk, ok := in.(*ssa.MakeSlice)
			if !ok {
				continue
			}
			// size = (len(code)+c)/8 + k, fold the additive constants
			k := int64(0)
			v := mk.Len
			for {
				bo, isB := v.(*ssa.BinOp)
				if !isB || bo.Op != token.ADD {
					break
				}
				if cst, isK := eng.ConstInt(bo.Y); isK {
					k += cst
					v = bo.X
					continue
				}
				break
			}
			q, isQ := v.(*ssa.BinOp)
			if !isQ || !((q.Op == token.QUO && constIs(q.Y, 8)) || (q.Op == token.SHR && constIs(q.Y, 3))) {
				why = "the size is not of the form (len(code)+c)/8 + k: " + eng.Desc(mk.Len)
				continue
			}
			inner := int64(0)
			x := q.X
			if bo, isB := x.(*ssa.BinOp); isB && bo.Op == token.ADD {
				if cst, isK := eng.ConstInt(bo.Y); isK {
					inner, x = cst, bo.X
				}
			}
			if !strings.Contains(eng.Desc(x), "builtin:len(code)") {
				why = "the size is not derived from len(code)"
				continue
			}
			// floor((len+inner)/8)+k >= floor(len/8)+5 for all len  <=>  k + floor(inner/8) >= 5
			if k+inner/8 >= 5 {
				why = ""
			} else {
				why = fmt.Sprintf("the vector has (len(code)+%d)/8+%d bytes; floor(len/8)+5 are needed", inner, k)
			}
		}
	}
	r.Check(why == "", rule, "vm.codeBitmap:capacity", c.Pos(fn.Pos()), "bit vector has at least floor(len/8)+5 bytes", "codeBitmap: "+why+": for code whose length is a multiple of 8 and that ends in PUSH32 the analysis writes past the vector and the first JUMP panics the host")
}

func constIs(v ssa.Value, k int64) bool {
	c, ok := eng.ConstInt(v)
	return ok && c == k
}

// c11PrecompileGas: RequiredGas grows with what Run will allocate; a product of
// it that wraps lets a header announcing an exabyte exponent through the
// affordability test, and Run dies in makeslice.
func c11PrecompileGas(c *eng.Ctx, r *eng.Report) {
	const rule = "R11.11"
	r.Min(rule, 1)
	fn := c.Func("vm", "RunPrecompiledContract")
	if !r.Anchor(fn != nil, rule, "vm.RunPrecompiledContract") {
		return
	}
	var price, run *ssa.Call
	for _, s := range eng.Sites(fn) {
		call, ok := s.Instr.(*ssa.Call)
		if !ok || !call.Call.IsInvoke() {
			continue
		}
		switch call.Call.Method.Name() {
		case "RequiredGas":
			price = call
		case "Run":
			run = call
		}
	}
	if price == nil || run == nil {
		r.Fail(rule, "precompile:price-then-run", c.Pos(fn.Pos()), "RunPrecompiledContract no longer calls RequiredGas and Run on the contract: the pricing has moved and must be re-reviewed")
		return
	}
	var supplied *ssa.Parameter
	for _, p := range fn.Params {
		if p.Name() == "suppliedGas" {
			supplied = p
		}
	}
	// checked arithmetic: value #0 of SafeMul/SafeAdd whose overflow flag feeds a branch
	checked := func(v ssa.Value) bool {
		ex, ok := v.(*ssa.Extract)
		if !ok || ex.Index != 0 {
			return false
		}
		call, ok := ex.Tuple.(*ssa.Call)
		if !ok || !(strings.HasSuffix(eng.CallName(&call.Call), ".SafeMul") || strings.HasSuffix(eng.CallName(&call.Call), ".SafeAdd")) {
			return false
		}
		for _, ref := range *call.Referrers() {
			if e2, isE := ref.(*ssa.Extract); isE && e2.Index == 1 {
				for _, b := range fn.Blocks {
					if iff, isIf := b.Instrs[len(b.Instrs)-1].(*ssa.If); isIf && valueDerivesFromValue(iff.Cond, e2) {
						return true
					}
				}
			}
		}
		return false
	}
	var exact func(v ssa.Value, d int) bool
	exact = func(v ssa.Value, d int) bool {
		if v == ssa.Value(price) || checked(v) {
			return true
		}
		if phi, ok := v.(*ssa.Phi); ok && d < 4 {
			for _, e := range phi.Edges {
				if !exact(e, d+1) {
					return false
				}
			}
			return len(phi.Edges) > 0
		}
		return false
	}
	ok, why := false, "no comparison of the supplied gas with the price dominates Run"
	for _, cd := range eng.CondsAt(run) {
		m, isM := cd.Cmp()
		if !isM || supplied == nil {
			continue
		}
		// suppliedGas >= cost  (the false edge of suppliedGas < cost)
		var cost ssa.Value
		switch {
		case m.X == ssa.Value(supplied) && (m.Op == token.GEQ):
			cost = m.Y
		case m.Y == ssa.Value(supplied) && (m.Op == token.LEQ):
			cost = m.X
		default:
			continue
		}
		if exact(cost, 0) {
			ok = true
		} else {
			why = "the supplied gas is compared with " + eng.Desc(cost) + ", not with RequiredGas(input) itself"
		}
	}
	r.Check(ok, rule, "precompile:price-then-run", c.Pos(run.Pos()), "Run is reached only on suppliedGas >= RequiredGas(input), the price taken as returned", "RunPrecompiledContract: "+why+" — unchecked uint64 arithmetic on the price can wrap (MODEXP's price is chosen by the input: a header with a 1.5e18-byte exponent prices near 2^64/30), the affordability test passes and Run allocates what the header announces: the host panics in makeslice instead of returning ErrOutOfGas")
}

// c11SliceBounds: operands are attacker-chosen 256-bit words; their low 64 bits
// can sit anywhere in [0, 2^64).
func c11SliceBounds(c *eng.Ctx, r *eng.Report, rows []rowFx) {
	const rule = "R11.12"
	r.Min(rule, 1)
	fromOperand := func(v ssa.Value) bool {
		seen := map[ssa.Value]bool{}
		var walk func(x ssa.Value, d int) bool
		walk = func(x ssa.Value, d int) bool {
			if x == nil || d > 6 || seen[x] {
				return false
			}
			seen[x] = true
			if call, ok := x.(*ssa.Call); ok {
				n := eng.CallName(&call.Call)
				if strings.HasSuffix(n, "uint256.Int).Uint64") || strings.HasSuffix(n, "uint256.Int).Uint64WithOverflow") {
					return true
				}
				return false
			}
			if in, ok := x.(ssa.Instruction); ok {
				var ops []*ssa.Value
				for _, o := range in.Operands(ops) {
					if *o != nil && walk(*o, d+1) {
						return true
					}
				}
			}
			return false
		}
		return walk(v, 0)
	}
	done := map[*ssa.Function]bool{}
	n, nslices := 0, 0
	for _, rf := range rows {
		fn := rf.Row.Exec
		if fn == nil || done[fn] {
			continue
		}
		done[fn] = true
		n++
		i := 0
		for _, b := range fn.Blocks {
			for _, in := range b.Instrs {
				sl, ok := in.(*ssa.Slice)
				if !ok {
					continue
				}
				for _, bound := range []ssa.Value{sl.Low, sl.High} {
					bo, isB := bound.(*ssa.BinOp)
					if !isB || (bo.Op != token.ADD && bo.Op != token.MUL && bo.Op != token.SHL) {
						continue
					}
					if !fromOperand(bo.X) && !fromOperand(bo.Y) {
						continue
					}
					nslices++
					key := fmt.Sprintf("slice-bound:%s#%d", eng.FuncName(fn), i)
					i++
					r.Fail(rule, key, c.Pos(sl.Pos()), eng.FuncName(fn)+" slices with the bound "+eng.Desc(bo)+", an unchecked 64-bit "+bo.Op.String()+" of operand-derived values: for an operand near 2^64 the sum wraps below the length test and the slice expression panics (low > high) — the host crashes instead of the call failing")
				}
			}
		}
	}
	if nslices == 0 {
		r.Pass(rule, "slice-bound:none", "", fmt.Sprintf("no slice bound in the %d opcode handlers is an unchecked sum/product of operand-derived values", n))
	}
}

// c11ModulusNonZero: (*big.Int).Exp(x, y, m) treats m == 0 (and m == nil) as
// "no modulus".
func c11ModulusNonZero(c *eng.Ctx, r *eng.Report) {
	const rule = "R11.13"
	r.Min(rule, 1)
	n := 0
	for _, fn := range c.PkgFuncs("vm") {
		if c.IsTestFunc(fn) {
			continue
		}
		i := 0
		for _, s := range eng.Sites(fn) {
			if s.Name() != "(*math/big.Int).Exp" || len(s.Common().Args) < 4 {
				continue
			}
			m := s.Common().Args[3]
			if eng.IsNilConst(m) {
				continue // deliberately non-modular (a power bounded by its operands, e.g. 256^k tables)
			}
			if g, isG := unload(m).(*ssa.Global); isG {
				_ = g
				continue // a package constant
			}
			n++
			key := fmt.Sprintf("modexp:%s#%d", eng.FuncName(fn), i)
			i++
			guarded := false
			for _, cd := range eng.CondsAt(s.Instr) {
				cm, ok := cd.Cmp()
				if !ok {
					continue
				}
				d := eng.Desc(cm.X)
				if !(strings.Contains(d, ".BitLen(") || strings.Contains(d, ".Sign(")) || !strings.Contains(d, eng.Desc(m)) {
					continue
				}
				if k, isK := eng.ConstInt(cm.Y); isK && k == 0 && (cm.Op == token.NEQ || cm.Op == token.GTR) {
					guarded = true
				}
			}
			r.Check(guarded, rule, key, c.Pos(s.Pos()), "runs only on the modulus-is-non-zero edge", eng.FuncName(fn)+" calls big.Int.Exp with the input-supplied modulus "+eng.Desc(m)+" without having tested it non-zero: for a zero modulus Exp computes the plain power — with 32-byte operands that never terminates and allocates without bound, for gas priced as a modular exponentiation")
		}
	}
	r.Check(n >= 1, rule, "modexp:sites", "", fmt.Sprintf("%d modular exponentiations with an input-supplied modulus", n), "no big.Int.Exp with a modulus found in package vm (bigModExp.Run expected)")
}

// c11UnsignedSign: uint256.Int.Sign interprets the word as two's complement.
func c11UnsignedSign(c *eng.Ctx, r *eng.Report) {
	const rule = "R11.14"
	r.Min(rule, 1)
	n := 0
	for _, fn := range c.PkgFuncs("vm") {
		if c.IsTestFunc(fn) {
			continue
		}
		// the signed opcodes (SAR, SDIV, SMOD, SLT, SGT, SIGNEXTEND) read the sign bit on purpose
		switch fn.Name() {
		case "opSAR", "opSdiv", "opSmod", "opSlt", "opSgt", "opSignExtend":
			continue
		}
		i := 0
		for _, b := range fn.Blocks {
			for _, in := range b.Instrs {
				bo, ok := in.(*ssa.BinOp)
				if !ok {
					continue
				}
				var call *ssa.Call
				var other ssa.Value
				if cl, isC := bo.X.(*ssa.Call); isC {
					call, other = cl, bo.Y
				} else if cl, isC := bo.Y.(*ssa.Call); isC {
					call, other = cl, bo.X
				}
				if call == nil || !strings.HasSuffix(eng.CallName(&call.Call), "uint256.Int).Sign") {
					continue
				}
				n++
				k, isK := eng.ConstInt(other)
				key := fmt.Sprintf("uint256-sign:%s#%d", eng.FuncName(fn), i)
				i++
				r.Check(isK && k == 0 && (bo.Op == token.EQL || bo.Op == token.NEQ), rule, key, c.Pos(bo.Pos()), "Sign() compared with zero for (in)equality", fmt.Sprintf("%s compares (*uint256.Int).Sign() with `%s %s`: Sign() is -1 for values of 2^255 and above, so this test treats such an operand as zero/negative — e.g. CALLCODE with value >= 2^255 skips the value-transfer surcharge but still gets the 2300 stipend back, leaving more gas than was supplied", eng.FuncName(fn), bo.Op, eng.Desc(other)))
			}
		}
	}
	r.Check(n >= 1, rule, "uint256-sign:sites", "", fmt.Sprintf("%d comparisons of uint256 Sign()", n), fmt.Sprintf("only %d comparisons of (*uint256.Int).Sign() found in package vm", n))
}

// c11CodeHashOfCode: see R11.15.
func c11CodeHashOfCode(c *eng.Ctx, r *eng.Report) {
	const rule = "R11.15"
	r.Min(rule, 3)
	n := 0
	for _, fn := range c.PkgFuncs("vm") {
		if c.IsTestFunc(fn) {
			continue
		}
		i := 0
		for _, s := range eng.Sites(fn) {
			if !strings.HasSuffix(s.Name(), "Contract).SetCallCode") || len(s.Common().Args) < 4 {
				continue
			}
			n++
			key := fmt.Sprintf("code-hash-of-code:%s#%d", eng.FuncName(fn), i)
			i++
			hashArg, codeArg := s.Common().Args[2], s.Common().Args[3]
			acct := func(v ssa.Value, method string) string {
				call, ok := v.(*ssa.Call)
				if !ok || !call.Call.IsInvoke() || call.Call.Method.Name() != method || len(call.Call.Args) < 1 {
					return ""
				}
				return eng.Desc(eng.ResolveLocal(call.Call.Args[0])) // `addrCopy := addr` is the same account
			}
			ha, ca := acct(hashArg, "GetCodeHash"), acct(codeArg, "GetCode")
			if ha == "" || ca == "" {
				// create: hash computed from the init code itself, or an empty hash
				r.Pass(rule, key, c.Pos(s.Pos()), "hash and code are not both read from accounts here ("+eng.Desc(hashArg)+")")
				continue
			}
			r.Check(ha == ca, rule, key, c.Pos(s.Pos()), "hash and code come from the same account", eng.FuncName(fn)+" calls SetCallCode with the code hash of "+ha+" and the code of "+ca+": the callee's code is analysed and cached under another contract's hash, so its jumps are validated against a bitmap built for different code — a valid JUMP beyond that bitmap's length panics in the bit vector (host crash), and jumps into push data can be accepted")
		}
	}
	r.Check(n >= 3, rule, "code-hash-of-code:sites", "", fmt.Sprintf("%d SetCallCode sites", n), fmt.Sprintf("only %d SetCallCode sites found", n))
}

// ---- R11.16: indexes into Contract.Code are guarded by the code length.

type linForm struct {
	root string          // canonical name of the variable part
	off  int64           // constant added to it
	load ssa.Instruction // the load the root was read by (nil for SSA values)
	addr ssa.Value
}

func linOf(v ssa.Value, d int) (linForm, bool) {
	if d > 8 {
		return linForm{}, false
	}
	switch x := v.(type) {
	case *ssa.Convert:
		return linOf(x.X, d+1)
	case *ssa.ChangeType:
		return linOf(x.X, d+1)
	case *ssa.BinOp:
		if x.Op == token.ADD || x.Op == token.SUB {
			if k, ok := eng.ConstInt(x.Y); ok {
				l, ok2 := linOf(x.X, d+1)
				if x.Op == token.SUB {
					k = -k
				}
				l.off += k
				return l, ok2
			}
			if k, ok := eng.ConstInt(x.X); ok && x.Op == token.ADD {
				l, ok2 := linOf(x.Y, d+1)
				l.off += k
				return l, ok2
			}
		}
		return linForm{root: fmt.Sprintf("val:%p", v)}, true
	case *ssa.UnOp:
		if x.Op == token.MUL {
			return linForm{root: "load:" + eng.Desc(x.X), load: x, addr: x.X}, true
		}
	case *ssa.Const:
		return linForm{}, false
	}
	return linForm{root: fmt.Sprintf("val:%p", v)}, true
}

func isCodeLen(v ssa.Value) bool {
	for {
		if cv, ok := v.(*ssa.Convert); ok {
			v = cv.X
			continue
		}
		break
	}
	call, ok := v.(*ssa.Call)
	if !ok {
		return false
	}
	if b, isB := call.Call.Value.(*ssa.Builtin); !isB || b.Name() != "len" {
		return false
	}
	return isCodeSlice(call.Call.Args[0])
}

func isCodeSlice(v ssa.Value) bool {
	v = eng.ResolveLocal(v)
	if u, ok := v.(*ssa.UnOp); ok && u.Op == token.MUL {
		if t, f := eng.FieldOf(u.X); f == "Code" && strings.HasSuffix(t, "Contract") {
			return true
		}
	}
	return false
}

// sameVar: two reads of one variable with no write to it in between.
func sameVar(fn *ssa.Function, a, b linForm) bool {
	if a.root != b.root {
		return false
	}
	if a.load == nil || b.load == nil {
		return a.load == nil && b.load == nil
	}
	for _, blk := range fn.Blocks {
		for _, in := range blk.Instrs {
			st, ok := in.(*ssa.Store)
			if !ok || eng.Desc(st.Addr) != eng.Desc(a.addr) {
				continue
			}
			if eng.Reaches(a.load, st) && eng.Reaches(st, b.load) {
				return false
			}
		}
	}
	return true
}

func c11CodeIndexGuarded(c *eng.Ctx, r *eng.Report) {
	const rule = "R11.16"
	r.Min(rule, 3)
	for _, fn := range c.PkgFuncs("vm") {
		i := 0
		for _, b := range fn.Blocks {
			for _, in := range b.Instrs {
				ia, ok := in.(*ssa.IndexAddr)
				if !ok || !isCodeSlice(ia.X) {
					continue
				}
				key := fmt.Sprintf("code-index:%s#%d", eng.FuncName(fn), i)
				i++
				idx, okL := linOf(ia.Index, 0)
				if !okL {
					r.Fail(rule, key, c.Pos(ia.Pos()), eng.FuncName(fn)+" indexes the contract code at the constant position "+eng.Desc(ia.Index)+" without a length comparison the rule recognises")
					continue
				}
				// has the program counter (or whatever the root is) been written before the guard?
				proven, why := false, ""
				for _, cd := range eng.EdgeConds(b) {
					m, isM := cd.Cmp()
					if !isM {
						continue
					}
					x, y, op := m.X, m.Y, m.Op
					if isCodeLen(x) && !isCodeLen(y) { // mirror so that the length is on the right
						x, y = y, x
						switch op {
						case token.GTR:
							op = token.LSS
						case token.GEQ:
							op = token.LEQ
						case token.LSS:
							op = token.GTR
						case token.LEQ:
							op = token.GEQ
						}
					}
					if isCodeLen(y) {
						g, okG := linOf(x, 0)
						if !okG || !sameVar(fn, g, idx) {
							continue
						}
						switch op {
						case token.LSS: // p+a < L
							if idx.off <= g.off {
								proven = true
							}
						case token.LEQ: // p+a <= L
							if idx.off <= g.off-1 {
								proven = true
							}
						}
						why = eng.Desc(cd.V)
						continue
					}
					// (L - p) cmp m
					sub, isSub := x.(*ssa.BinOp)
					mconst, isK := eng.ConstInt(y)
					if !isSub || sub.Op != token.SUB || !isK || !isCodeLen(sub.X) {
						continue
					}
					g, okG := linOf(sub.Y, 0)
					if !okG || !sameVar(fn, g, idx) || g.off != 0 {
						continue
					}
					// p must still be the value the handler was entered with
					if g.load != nil {
						written := false
						for _, blk := range fn.Blocks {
							for _, in2 := range blk.Instrs {
								if st, isSt := in2.(*ssa.Store); isSt && eng.Desc(st.Addr) == eng.Desc(g.addr) && eng.Reaches(st, g.load) {
									written = true
								}
							}
						}
						if written {
							continue
						}
					}
					why = eng.Desc(cd.V)
					switch op {
					case token.GEQ, token.EQL: // L-p >= m  =>  p+m <= L
						if idx.off <= mconst-1 {
							proven = true
						}
					case token.GTR: // L-p > m
						if idx.off <= mconst {
							proven = true
						}
					}
				}
				msg := eng.FuncName(fn) + " reads the contract code at " + eng.Desc(ia.Index) + " and no dominating comparison with the code length implies that position is inside the code"
				if why != "" {
					msg += " (the guard in force, " + why + ", allows the position to equal or pass the length)"
				}
				r.Check(proven, rule, key, c.Pos(ia.Pos()), "position compared with len(code) on every path to the read", msg+": code that ends in a truncated PUSH — 0x61, 0x6112 — makes the interpreter index out of range, and the panic unwinds through EVM.Call into the host instead of the frame ending normally")
			}
		}
	}
}

// c11OwnJumpTable: see R11.17.
func c11OwnJumpTable(c *eng.Ctx, r *eng.Report) {
	const rule = "R11.17"
	r.Min(rule, 2)
	n := 0
	for _, fn := range c.PkgFuncs("vm") {
		for _, b := range fn.Blocks {
			for _, in := range b.Instrs {
				st, ok := in.(*ssa.Store)
				if !ok {
					continue
				}
				if t, f := eng.FieldOf(st.Addr); f != "jumpTable" || !strings.HasSuffix(t, "EVMInterpreter") {
					continue
				}
				n++
				call, isCall := eng.ResolveLocal(st.Val).(*ssa.Call)
				fresh := isCall && call.Call.StaticCallee() != nil && call.Call.StaticCallee().Name() == "newInstructionSet"
				r.Check(fresh, rule, fmt.Sprintf("own-table:%s", eng.FuncName(fn)), c.Pos(st.Pos()), "the interpreter's table is built by newInstructionSet() for it", eng.FuncName(fn)+" installs "+eng.Desc(st.Val)+" as the interpreter's jump table, not a table built for this interpreter: copying a JumpTable copies 256 *operation pointers, and the fork adjusters write through them — every EVM created at a Proposal026 height multiplies the shared constant gas by 30 again (330, 9900, 297000 … gas for the same code; zero after 64 EVMs, when an infinite loop costs nothing)")
			}
		}
	}
	if n == 0 {
		r.Fail(rule, "own-table:none", "", "no store to EVMInterpreter.jumpTable found: the rule has lost its anchor")
	}
	nis := c.Func("vm", "newInstructionSet")
	if !r.Anchor(nis != nil, rule, "vm.newInstructionSet") {
		return
	}
	bad := ""
	cone := c.ConeOf([]*ssa.Function{nis}, func(fn *ssa.Function) bool { return strings.HasSuffix(eng.FuncPkgPath(fn), "/src/vm") })
	for _, fn := range cone.Sorted() {
		if !strings.HasSuffix(eng.FuncPkgPath(fn), "/src/vm") {
			continue
		}
		for _, b := range fn.Blocks {
			for _, in := range b.Instrs {
				u, ok := in.(*ssa.UnOp)
				if !ok || u.Op != token.MUL {
					continue
				}
				g, isG := u.X.(*ssa.Global)
				if !isG {
					continue
				}
				ts := g.Type().String()
				if strings.Contains(ts, "vm.operation") || strings.Contains(ts, "vm.JumpTable") {
					bad = g.Name() + " at " + c.Pos(u.Pos())
				}
			}
		}
	}
	r.Check(bad == "", rule, "fresh-operations:newInstructionSet", c.Pos(nis.Pos()), "newInstructionSet reads no package-level table or operation", "newInstructionSet takes entries from the package-level "+bad+": the *operation values are then shared by every interpreter and the fork adjusters re-price them once per EVM")
}

// c11FixedWidthSetBytes: see R11.18.
func c11FixedWidthSetBytes(c *eng.Ctx, r *eng.Report) {
	const rule = "R11.18"
	minLen := func(v ssa.Value) (int64, bool) {
		v = eng.ResolveLocal(v)
		switch x := v.(type) {
		case *ssa.Slice:
			t := x.X.Type()
			if p, ok := t.Underlying().(*types.Pointer); ok {
				t = p.Elem()
			}
			arr, ok := t.Underlying().(*types.Array)
			if !ok {
				return 0, false
			}
			lo, hi := int64(0), arr.Len()
			if x.Low != nil {
				k, isK := eng.ConstInt(x.Low)
				if !isK {
					return 0, false
				}
				lo = k
			}
			if x.High != nil {
				k, isK := eng.ConstInt(x.High)
				if !isK {
					return 0, false
				}
				hi = k
			}
			return hi - lo, true
		case *ssa.MakeSlice:
			if k, ok := eng.ConstInt(x.Len); ok {
				return k, true
			}
		case *ssa.Const:
			if x.IsNil() {
				return 0, true
			}
		}
		return 0, false
	}
	n := 0
	for _, fn := range c.PkgFuncs("vm") {
		i := 0
		for _, s := range eng.Sites(fn) {
			nm := s.Name()
			idx := strings.LastIndex(nm, "uint256.Int).SetBytes")
			if idx < 0 {
				continue
			}
			width, err := strconv.Atoi(nm[idx+len("uint256.Int).SetBytes"):])
			if err != nil || width == 0 {
				continue // the variable-length SetBytes
			}
			n++
			key := fmt.Sprintf("set-bytes-%d:%s#%d", width, eng.FuncName(fn), i)
			i++
			args := s.Common().Args
			got, known := minLen(args[len(args)-1])
			switch {
			case !known:
				r.Fail(rule, key, c.Pos(s.Pos()), fmt.Sprintf("%s hands SetBytes%d a slice (%s) whose length the rule cannot bound from below: the setter reads byte %d unconditionally", eng.FuncName(fn), width, eng.Desc(args[len(args)-1]), width-1))
			case got < int64(width):
				r.Fail(rule, key, c.Pos(s.Pos()), fmt.Sprintf("%s hands SetBytes%d a slice of %d byte(s): uint256's fixed-width setter reads in[%d] unconditionally, so the opcode panics with index out of range and the panic unwinds through EVM.Call into the host instead of the frame ending as an ordinary call", eng.FuncName(fn), width, got, width-1))
			default:
				r.Pass(rule, key, c.Pos(s.Pos()), fmt.Sprintf("slice of %d bytes", got))
			}
		}
	}
	if n == 0 {
		r.Pass(rule, "set-bytes:none", "", "no fixed-width SetBytesN call in package vm")
	}
}

// c11ZeroSizeTouchesNothing: see R11.19.
func c11ZeroSizeTouchesNothing(c *eng.Ctx, r *eng.Report) {
	const rule = "R11.19"
	r.Min(rule, 3)
	for _, fn := range c.PkgFuncs("vm") {
		if fn.Signature.Recv() == nil || !strings.HasSuffix(fn.Signature.Recv().Type().String(), "vm.Memory") {
			continue
		}
		var size *ssa.Parameter
		for _, p := range fn.Params {
			switch p.Name() {
			case "size", "length", "len":
				size = p
			}
		}
		if size == nil {
			continue
		}
		n, bad := 0, ""
		for _, b := range fn.Blocks {
			for _, in := range b.Instrs {
				sl, ok := in.(*ssa.Slice)
				if !ok {
					continue
				}
				ld, isLd := sl.X.(*ssa.UnOp)
				if !isLd {
					continue
				}
				if _, f := eng.FieldOf(ld.X); f != "store" {
					continue
				}
				n++
				guarded := false
				for _, cd := range eng.EdgeConds(b) {
					m, isM := cd.Cmp()
					if !isM {
						continue
					}
					x, y, op := m.X, m.Y, m.Op
					if y == ssa.Value(size) {
						x, y = y, x
						if op == token.LSS {
							op = token.GTR
						}
					}
					if x == ssa.Value(size) {
						if k, isK := eng.ConstInt(y); isK && k == 0 && (op == token.NEQ || op == token.GTR) {
							guarded = true
						}
					}
				}
				if !guarded {
					bad = c.Pos(sl.Pos())
				}
			}
		}
		if n == 0 {
			continue
		}
		r.Check(bad == "", rule, "zero-size:"+eng.FuncName(fn), c.Pos(fn.Pos()), fmt.Sprintf("%d slice expression(s) over the store, each under size != 0", n), eng.FuncName(fn)+" slices the memory store at "+bad+" without having established that the size is non-zero: for a zero-length operand nothing bounded the offset (its memory size is 0), the call sites pass int64(offset.Uint64()), and an offset of 2^63 or more arrives negative, passes the length test and makes the slice expression panic — LOG0/CREATE/CREATE2 with size 0 and offset 2^63 crash the host")
	}
}

// c11StackCheckedFirst: see R11.20.
func c11StackCheckedFirst(c *eng.Ctx, r *eng.Report) {
	const rule = "R11.20"
	r.Min(rule, 1)
	run := c.Func("vm", "(*EVMInterpreter).Run")
	if !r.Anchor(run != nil, rule, "vm.(*EVMInterpreter).Run") {
		return
	}
	n, bad := 0, ""
	for _, s := range eng.Sites(run) {
		nm := s.Name()
		if !(strings.HasSuffix(nm, "vm.Stack).Back") || strings.HasSuffix(nm, "vm.Stack).peek") || strings.HasSuffix(nm, "vm.Stack).pop")) {
			continue
		}
		n++
		ok := false
		for _, cd := range eng.CondsAt(s.Instr) {
			m, isM := cd.Cmp()
			if !isM {
				continue
			}
			if strings.HasSuffix(eng.Desc(m.Y), ".minStack") && m.Op == token.GEQ {
				ok = true
			}
			if strings.HasSuffix(eng.Desc(m.X), ".minStack") && m.Op == token.LEQ {
				ok = true
			}
		}
		if !ok {
			bad = nm + " at " + c.Pos(s.Pos())
		}
	}
	r.Check(bad == "", rule, "run:stack-checked-first", c.Pos(run.Pos()), fmt.Sprintf("%d stack access(es) in Run itself, each after the depth validation", n), "Run reads the operand stack ("+bad+") before the depth validation has passed for the current operation: in a read-only frame a CALL reached with fewer than three items makes stack.Back(2) index out of range — the panic escapes EVM.Call instead of the frame failing with ErrStackUnderflow")
}

// c11CallGasAlwaysSet: see R11.21.
func c11CallGasAlwaysSet(c *eng.Ctx, r *eng.Report) {
	const rule = "R11.21"
	r.Min(rule, 4)
	for _, fn := range c.PkgFuncs("vm") {
		var stores []ssa.Instruction
		for _, b := range fn.Blocks {
			for _, in := range b.Instrs {
				if st, ok := in.(*ssa.Store); ok {
					if _, f := eng.FieldOf(st.Addr); f == "callGasTemp" {
						stores = append(stores, in)
					}
				}
			}
		}
		if len(stores) == 0 || fn.Signature.Results().Len() != 2 {
			continue
		}
		bad := ""
		for _, re := range eng.Returns(fn) {
			if !eng.IsNilConst(re.Incoming(1)) {
				continue
			}
			if !eng.MustPassBefore(fn, re.Ret, stores) {
				bad = c.Pos(re.Ret.Pos())
			}
		}
		r.Check(bad == "", rule, "call-gas-set:"+eng.FuncName(fn), c.Pos(fn.Pos()), "every successful return follows the callGasTemp store", eng.FuncName(fn)+" can return success (at "+bad+") without having stored evm.callGasTemp: the opcode handler forwards whatever the previous call-family instruction of the transaction left in that EVM-wide field — the callee runs on gas the caller was never charged, the unspent part is added to the caller on return, GAS reads higher after the CALL than before it, and a loop of such calls never runs out of gas")
	}
}

// c11MemoryRoundingChecked: see R11.22.
func c11MemoryRoundingChecked(c *eng.Ctx, r *eng.Report) {
	const rule = "R11.22"
	r.Min(rule, 1)
	run := c.Func("vm", "(*EVMInterpreter).Run")
	if !r.Anchor(run != nil, rule, "vm.(*EVMInterpreter).Run") {
		return
	}
	n, bad := 0, ""
	for _, s := range eng.Sites(run) {
		if !strings.HasSuffix(s.Name(), "vm.Memory).Resize") {
			continue
		}
		n++
		size := s.Common().Args[1]
		// every non-zero source of the size is the first result of SafeMul, and the call sits on its no-overflow edge
		seen := map[ssa.Value]bool{}
		var ok func(v ssa.Value, d int) bool
		ok = func(v ssa.Value, d int) bool {
			if v == nil || d > 6 {
				return false
			}
			if seen[v] {
				return true
			}
			seen[v] = true
			switch x := v.(type) {
			case *ssa.Const:
				return true
			case *ssa.Phi:
				for _, e := range x.Edges {
					if !ok(e, d+1) {
						return false
					}
				}
				return true
			case *ssa.Extract:
				if call, isC := x.Tuple.(*ssa.Call); isC && x.Index == 0 && strings.HasSuffix(eng.CallName(&call.Call), "utility.SafeMul") {
					return true
				}
			}
			return false
		}
		if !ok(size, 0) {
			bad = eng.Desc(size) + " at " + c.Pos(s.Pos())
		}
	}
	r.Check(bad == "" && n >= 1, rule, "run:memory-rounding-checked", c.Pos(run.Pos()), "the size Run resizes memory to is a SafeMul product (or zero)", "Run resizes memory to "+bad+", a value not produced by the overflow-reporting multiplication: rounded with a plain ·32, an operand end offset in [2^64−31, 2^64−1] wraps to 0 — no gas is charged, memory is not grown, and MSTORE8/MLOAD/RETURN/SHA3 then index the empty store and panic where the frame used to end with ErrGasUintOverflow")
}

// c11TableIndexGuarded: see R11.23.
func c11TableIndexGuarded(c *eng.Ctx, r *eng.Report) {
	const rule = "R11.23"
	r.Min(rule, 1)
	n := 0
	for _, fn := range c.PkgFuncs("vm") {
		i := 0
		for _, b := range fn.Blocks {
			for _, in := range b.Instrs {
				ia, ok := in.(*ssa.IndexAddr)
				if !ok {
					continue
				}
				g, isG := ia.X.(*ssa.Global)
				if !isG {
					continue
				}
				bo, isB := ia.Index.(*ssa.BinOp)
				if !isB || bo.Op != token.SUB {
					continue
				}
				if k, isK := eng.ConstInt(bo.Y); !isK || k != 1 {
					continue
				}
				base := bo.X
				if kb, isKB := eng.ConstInt(base); isKB && kb >= 1 {
					continue // len(table) − 1
				}
				n++
				key := fmt.Sprintf("table-index:%s#%d", eng.FuncName(fn), i)
				i++
				nonZeroAt := func(conds []eng.Cond, v ssa.Value) bool {
					for _, cd := range conds {
						m, isM := cd.Cmp()
						if !isM {
							continue
						}
						x, y, op := m.X, m.Y, m.Op
						if eng.ResolveLocal(y) == eng.ResolveLocal(v) {
							x, y = y, x
							if op == token.LSS {
								op = token.GTR
							}
						}
						if eng.ResolveLocal(x) != eng.ResolveLocal(v) {
							continue
						}
						if kk, isKK := eng.ConstInt(y); isKK && ((kk == 0 && (op == token.NEQ || op == token.GTR)) || (kk >= 1 && op == token.GEQ)) {
							return true
						}
					}
					return false
				}
				guarded := nonZeroAt(eng.EdgeConds(b), base)
				// a helper whose count is a parameter: every caller has established it for the argument it passes
				if prm, isP := eng.ResolveLocal(base).(*ssa.Parameter); isP && !guarded {
					idx := -1
					for pi, pp := range fn.Params {
						if pp == prm {
							idx = pi
						}
					}
					callers := c.Callers(fn)
					all := idx >= 0 && len(callers) > 0
					for _, site := range callers {
						call, isCall := site.Instr.(ssa.CallInstruction)
						if !isCall || idx >= len(call.Common().Args) || !nonZeroAt(eng.CondsAt(site.Instr), call.Common().Args[idx]) {
							all = false
						}
					}
					guarded = all
				}
				r.Check(guarded, rule, key, c.Pos(ia.Pos()), "the index k−1 is computed only where k != 0 holds", eng.FuncName(fn)+" reads "+g.Name()+"["+eng.Desc(bo.X)+" − 1] without having established in this function that "+eng.Desc(bo.X)+" is non-zero: for a count of 0 — a precompile called with less input than one element — the index is −1, the lookup panics, and the panic unwinds through EVM.Call instead of the call failing for its bad input length")
			}
		}
	}
	if n == 0 {
		r.Pass(rule, "table-index:none", "", "no k−1 index into a package-level table in package vm")
	}
}
