package rules

import (
	"fmt"
	"go/token"
	"go/types"
	"math/big"
	"strings"

	"golang.org/x/tools/go/ssa"

	"verif/checker/eng"
)

func init() { register("C18", c18) }

// C18 is claimed at level "proof": the exactness of decimal parsing is reduced
// to arithmetic obligations over constants and a pipeline shape that are
// extracted from the current source, and discharged here with math/big.
func c18(c *eng.Ctx, r *eng.Report) {
	r.Level = "proof"
	r.Explain = "strToBigInt is exact on every decimal string with at most 18 fractional and 78 integer digits, and strToBigInt(bigIntToStr(n,18),18) = n, by abstract interpretation of the function over {exact decimal, big.Float with relative error bound and direction}: the checker extracts prec, the rounding mode, the base and the pipeline ParseFloat → (*Float).Mul(target, target, base) → (*Float).Int from the SSA and discharges O1 prec >= bitlen(10^96)+3, O2 both roundings err away from zero (mode AwayFromZero inherited by Mul's receiver), O3 N_max·((1+2^(1-prec))^2-1) < 1 hence trunc(r) = N, O4 bigIntToStr/BigIntToStr are float-free string arithmetic emitting exactly `precision` fractional digits, O5 the ERC20/Rocket formatters are compositions of the two and every balance read/write in accountdb_tuntun.go passes them, O6 the value of a wrapped Ethereum transaction travels ConvertTx → TransferValue → decodeContractData as BigIntToStr(value) → StrToBigInt(string) with no intermediate rewriting and no floating-point type, and the assignment in ConvertTx is conditional on nothing but the value being non-nil (a creation, which has no recipient, carries its value like a call). " +
		"O7 the converters consult no process-local state (no cache, package-variable store or shared object in their cone), so the result depends on the arguments only. " +
		"Lemma (written out): for a decimal q = N/10^d with N < 10^96, r1 = round_away(q) satisfies |q| <= |r1| < |q|(1+e), e = 2^(1-prec); base = 10^d is exact (SetInt); r2 = round_away(r1·base) satisfies N <= |r2| < N(1+e)^2; O3 gives N(1+e)^2 - N < 1, so trunc(r2) = N. With a to-nearest mode r2 could fall below N and truncate to N-1, hence O2; O10 the unit a token amount is re-scaled to comes from the state at hand: GetERC20Binding and the FT accessors of AccountDB consult no process-wide memo beside the reviewed write-once address of the native binding — a binding cached by name outlives the revert (or the fork) it was created in, and a later binding of the same name is read and written with the stale contract, slot and decimal count (SetFT(1234567890123456789) reads back 1234567000000000000); O9 the wrapper built by ConvertTx owns its Data string: the eth_tx functions under ConvertTx take nothing from a pool except the reviewed keccak state of rlpHash, and none of them turns a byte slice into a string without copying (utility.BytesToStr) — a Data string that aliases a pooled buffer is rewritten by the next ConvertTx, and earlier transactions then decode with the last one's TransferValue; O8 the decoded value of a wrapped transaction is read-only on its way to the EVM: no function of the executor package calls a mutating (*big.Int) method (Add, Sub, Mul, Set…) with ContractData.TransferValue as its receiver — the struct travels by value but the *big.Int inside is the one stored in context[\"contractData\"], so an in-place sum in the fee pre-check changes the amount handed to vm.Call. " +
		"Not decided: strings with more than 18 fractional digits, non-decimal syntaxes accepted by ParseFloat."
	r.Trusted = []string{"math/big rounding semantics as documented (ParseFloat rounds once to prec with the given mode; z.Mul rounds to z's precision with z's mode; SetInt is exact when prec >= bit length; Int truncates toward zero)", "go/types constant evaluation", "go/ssa lowering", "the error-propagation lemma in coverage.explanation"}
	c18Parse(c, r)
	c18Format(c, r)
	c18Accessors(c, r)
	c18EthValue(c, r)
	c18Pure(c, r)
	c18ValueNotMutated(c, r)
	c18WrapperOwnsItsData(c, r)
	c18BindingFromState(c, r)
}

func c18Parse(c *eng.Ctx, r *eng.Report) {
	fn := c.Func("utility", "strToBigInt")
	if !r.Anchor(fn != nil, "O1", "utility.strToBigInt") {
		return
	}
	pos := c.Pos(fn.Pos())
	// float-free rewrite: exact by construction
	usesBigFloat := false
	for _, b := range fn.Blocks {
		for _, in := range b.Instrs {
			if v, ok := in.(ssa.Value); ok && strings.Contains(v.Type().String(), "math/big.Float") {
				usesBigFloat = true
			}
			if call, ok := in.(*ssa.Call); ok && strings.Contains(eng.CallName(&call.Call), "math/big.Float)") {
				usesBigFloat = true
			}
		}
	}
	if hf, _ := eng.HasFloat(fn); !hf && !usesBigFloat && len(callsNamed(fn, "math/big.ParseFloat")) == 0 {
		r.Pass("O1", "strToBigInt:float-free", pos, "no big.Float / float64 in the parser: exact by construction, obligations O1–O3 vanish")
		return
	}
	pf := callsNamed(fn, "math/big.ParseFloat")
	mul := callsNamed(fn, "(*math/big.Float).Mul")
	intc := callsNamed(fn, "(*math/big.Float).Int")
	setInt := callsNamed(fn, "(*math/big.Float).SetInt")
	if len(pf) != 1 || len(mul) != 1 || len(intc) != 1 || len(setInt) != 1 {
		r.Fail("O1", "strToBigInt:pipeline", pos, fmt.Sprintf("pipeline not recognised (ParseFloat=%d Mul=%d Int=%d SetInt=%d): the abstract interpretation cannot classify the function, nothing is claimed", len(pf), len(mul), len(intc), len(setInt)))
		return
	}
	base, okB := eng.ConstInt(pf[0].Call.Args[1])
	prec, okP := eng.ConstInt(pf[0].Call.Args[2])
	mode, okM := eng.ConstInt(pf[0].Call.Args[3])
	if !okB || !okP || !okM {
		r.Fail("O1", "strToBigInt:constants", pos, "base/prec/mode of ParseFloat are not constants")
		return
	}
	// pipeline shape
	var parsed ssa.Value
	for _, ref := range *pf[0].Referrers() {
		if ex, ok := ref.(*ssa.Extract); ok && ex.Index == 0 {
			parsed = ex
		}
	}
	shape := parsed != nil && mul[0].Call.Args[0] == parsed && mul[0].Call.Args[1] == parsed && intc[0].Call.Args[0] == parsed && eng.Dominates(mul[0], intc[0])
	// the multiplier is SetInt(10^decimal): Exp(ten, decimal, nil)
	baseExact := mul[0].Call.Args[2] == setInt[0].Call.Args[0] || eng.Desc(mul[0].Call.Args[2]) == eng.Desc(setInt[0].Call.Args[0])
	expOK := false
	for _, e := range callsNamed(fn, "(*math/big.Int).Exp") {
		if strings.Contains(eng.Desc(e.Call.Args[1]), "ten") && eng.IsNilConst(e.Call.Args[3]) && strings.Contains(eng.Desc(e.Call.Args[2]), "decimal") {
			if setInt[0].Call.Args[1] == e.Call.Args[0] || eng.Desc(setInt[0].Call.Args[1]) == eng.Desc(e.Call.Args[0]) {
				expOK = true
			}
		}
	}
	tenOK := false
	if g := c.Pkg("utility").Var("ten"); g != nil {
		// initialised as big.NewInt(10)
		if init := c.Pkg("utility").Func("init"); init != nil {
			for _, b := range init.Blocks {
				for _, in := range b.Instrs {
					if st, ok := in.(*ssa.Store); ok && st.Addr == ssa.Value(g) {
						if call, isC := st.Val.(*ssa.Call); isC && eng.CallName(&call.Call) == "math/big.NewInt" {
							if k, isK := eng.ConstInt(call.Call.Args[0]); isK && k == 10 {
								tenOK = true
							}
						}
					}
				}
			}
		}
	}
	// no SetMode / SetPrec on the parsed value between
	tamper := len(callsNamed(fn, "(*math/big.Float).SetMode"))+len(callsNamed(fn, "(*math/big.Float).SetPrec")) > 0
	r.Check(shape && baseExact && expOK && tenOK && base == 10 && !tamper, "O0", "strToBigInt:pipeline", pos,
		"ParseFloat(s, 10, prec, mode) → target.Mul(target, SetInt(10^decimal)) → target.Int: receiver of Mul is the parsed value (inherits prec and mode), multiplier exact",
		fmt.Sprintf("pipeline shape changed (Mul receiver/operand is the parsed value=%v, multiplier is SetInt(Exp(ten,decimal,nil))=%v/%v, ten==10=%v, base==10=%v, SetMode/SetPrec present=%v)", shape, baseExact, expOK, tenOK, base == 10, tamper))
	// …and it is the only way to a result: every successful return hands back what Int() wrote, the empty string excepted
	other := ""
	nret := 0
	for _, re := range eng.Returns(fn) {
		if len(re.Ret.Results) < 2 || !eng.IsNilConst(re.Incoming(1)) {
			continue
		}
		nret++
		v := re.Incoming(0)
		if v == intc[0].Call.Args[1] || eng.Desc(v) == eng.Desc(intc[0].Call.Args[1]) {
			continue
		}
		if call, isC := v.(*ssa.Call); isC && eng.CallName(&call.Call) == "math/big.NewInt" {
			if k, isK := eng.ConstInt(call.Call.Args[0]); isK && k == 0 {
				continue // "" ↦ 0
			}
		}
		other = c.Pos(re.Ret.Pos()) + " returns " + eng.Desc(v)
	}
	r.Check(other == "" && nret >= 1, "O0", "strToBigInt:single-path", pos, "every successful return is the result of the reviewed pipeline (or 0 for the empty string)", "strToBigInt has a successful return that does not come out of the ParseFloat→Mul→Int pipeline: "+other+" — a second parser with its own grammar (radix prefixes, digit separators, octal for a leading zero) or its own rounding, to which obligations O1–O3 do not apply")
	// …and it is total on what ParseFloat accepts: the only error strToBigInt returns is ParseFloat's own
	otherErr := ""
	for _, re := range eng.Returns(fn) {
		if len(re.Ret.Results) < 2 || eng.IsNilConst(re.Incoming(1)) {
			continue
		}
		e := re.Incoming(1)
		ex, isE := e.(*ssa.Extract)
		if !isE || ex.Tuple != ssa.Value(pf[0]) {
			otherErr = c.Pos(re.Ret.Pos()) + " returns " + eng.Desc(e)
		}
	}
	r.Check(otherErr == "", "O0", "strToBigInt:only-parse-errors", pos, "the only error returned is the one big.ParseFloat reported", "strToBigInt rejects input that big.ParseFloat accepted: "+otherErr+" — a magnitude or format guard of its own; obligations O1–O3 hold for every amount below 10^78 with 18 decimals, so any such guard can only cut valid values off (e.g. a bound of 2^196 on the unscaled amount rejects everything from 2^196·10^18 to 2^256−1, and StrToBigInt(BigIntToStr(v)) fails for those v)")
	// O1
	nmax := new(big.Int).Exp(big.NewInt(10), big.NewInt(78+18), nil)
	need := int64(nmax.BitLen() + 3)
	r.Check(prec >= need, "O1", "prec", pos, fmt.Sprintf("prec = %d >= bitlen(10^96)+3 = %d", prec, need), fmt.Sprintf("prec = %d < %d = bitlen(10^96)+3: a 78-digit amount with 18 fractional digits does not fit the mantissa, the parsed value is rounded and StrToBigInt(BigIntToStr(v)) != v for large v (e.g. 2^256-1)", prec, need))
	// O2
	away := int64(3) // big.AwayFromZero
	if k, ok := c.All["math/big"]; ok {
		if o, isC := k.Types.Scope().Lookup("AwayFromZero").(*types.Const); isC {
			away, _ = constInt64(o)
		}
	}
	r.Check(mode == away, "O2", "rounding-mode", pos, "mode = big.AwayFromZero: both roundings err away from zero, so the product never falls below the exact integer", fmt.Sprintf("rounding mode constant is %d, not AwayFromZero (%d): a product rounded to nearest/toward zero can fall just below the exact integer and truncate to N-1", mode, away))
	// O3: N_max·((1+e)^2 − 1) < 1 with e = 2^(1−prec)
	if prec > 0 && prec < 1<<20 {
		e := new(big.Rat).SetFrac(big.NewInt(1), new(big.Int).Lsh(big.NewInt(1), uint(prec-1)))
		onePlus := new(big.Rat).Add(big.NewRat(1, 1), e)
		sq := new(big.Rat).Mul(onePlus, onePlus)
		excess := new(big.Rat).Mul(new(big.Rat).SetInt(nmax), new(big.Rat).Sub(sq, big.NewRat(1, 1)))
		ok := excess.Cmp(big.NewRat(1, 1)) < 0
		r.Check(ok, "O3", "error-bound", pos, "10^96·((1+2^(1-prec))^2 − 1) < 1, so trunc(r) = N for every admissible input", "the accumulated rounding excess can reach 1 unit: trunc(r) may be N+1")
	}
	// StrToBigInt is strToBigInt(s, 18)
	st := c.Func("utility", "StrToBigInt")
	if r.Anchor(st != nil, "O0", "utility.StrToBigInt") {
		ok := false
		for _, call := range callsNamed(st, "utility.strToBigInt") {
			if k, isK := eng.ConstInt(call.Call.Args[1]); isK && k == 18 {
				ok = true
			}
		}
		r.Check(ok, "O0", "StrToBigInt:decimals", c.Pos(st.Pos()), "StrToBigInt(s) = strToBigInt(s, 18)", "StrToBigInt no longer parses with 18 decimals")
	}
}

func c18Format(c *eng.Ctx, r *eng.Report) {
	for _, name := range []string{"bigIntToStr", "BigIntToStr", "BigIntToStrWithoutDot"} {
		fn := c.Func("utility", name)
		if !r.Anchor(fn != nil, "O4", "utility."+name) {
			continue
		}
		hf, p := eng.HasFloat(fn)
		usesBigFloat := false
		for _, s := range eng.Sites(fn) {
			if strings.Contains(s.Name(), "math/big.Float") {
				usesBigFloat = true
			}
		}
		r.Check(!hf && !usesBigFloat, "O4", "float-free:"+name, c.Pos(fn.Pos()), "pure string arithmetic on n.String() (no floating-point type)", "formatter now involves a floating-point value at "+c.Pos(p))
	}
	// bigIntToStr emits exactly `precision` fractional digits: the fractional part is either
	// number[length-precision:length] or zeros padded to precision-length followed by number
	fn := c.Func("utility", "bigIntToStr")
	if fn != nil {
		okSlice, okPad := false, false
		for _, b := range fn.Blocks {
			for _, in := range b.Instrs {
				switch x := in.(type) {
				case *ssa.Slice:
					if x.Low != nil && x.High != nil {
						if bo, ok := x.Low.(*ssa.BinOp); ok && bo.Op == token.SUB && eng.Desc(bo.Y) == "precision" && x.High == bo.X {
							okSlice = true
						}
					}
				case *ssa.Call:
					if eng.CallName(&x.Call) == "strings.Repeat" {
						if bo, ok := x.Call.Args[1].(*ssa.BinOp); ok && bo.Op == token.SUB && eng.Desc(bo.X) == "precision" {
							okPad = true
						}
					}
				}
			}
		}
		r.Check(okSlice && okPad, "O4", "bigIntToStr:fraction-width", c.Pos(fn.Pos()), "fraction = last `precision` digits, or zeros padded to `precision`", fmt.Sprintf("fractional part is no longer exactly `precision` digits wide (slice form=%v, zero padding=%v)", okSlice, okPad))
	}
	b2s := c.Func("utility", "BigIntToStr")
	if b2s != nil {
		ok := false
		for _, call := range callsNamed(b2s, "utility.bigIntToStr") {
			if k, isK := eng.ConstInt(call.Call.Args[1]); isK && k == 18 {
				ok = true
			}
		}
		r.Check(ok, "O4", "BigIntToStr:decimals", c.Pos(b2s.Pos()), "BigIntToStr(n) = bigIntToStr(n, 18)", "BigIntToStr no longer formats with 18 decimals")
	}
}

func c18Accessors(c *eng.Ctx, r *eng.Report) {
	// O5: formatter compositions
	for _, spec := range []struct{ fn, fmtr, parser string }{
		{"FormatDecimalForERC20", "utility.BigIntToStr", "utility.strToBigInt"},
		{"FormatDecimalForRocket", "utility.bigIntToStr", "utility.StrToBigInt"},
	} {
		fn := c.Func("utility", spec.fn)
		if !r.Anchor(fn != nil, "O5", "utility."+spec.fn) {
			continue
		}
		f := callsNamed(fn, spec.fmtr)
		p := callsNamed(fn, spec.parser)
		ok := len(f) == 1 && len(p) == 1 && p[0].Call.Args[0] == ssa.Value(f[0])
		if ok {
			// result is the parser's result
			ok = false
			for _, re := range eng.Returns(fn) {
				if ex, isE := re.Incoming(0).(*ssa.Extract); isE && ex.Tuple == ssa.Value(p[0]) {
					ok = true
				}
			}
		}
		hf, _ := eng.HasFloat(fn)
		r.Check(ok && !hf, "O5", "composition:"+spec.fn, c.Pos(fn.Pos()), spec.fn+" = "+spec.parser+"∘"+spec.fmtr+" (identity for 18 decimals by O1–O4)", spec.fn+" is no longer the composition parse(format(n)) of the two exact converters")
	}
	// every balance accessor of accountdb_tuntun.go passes the formatters
	want := map[string]string{
		"(*AccountDB).GetFT": "utility.FormatDecimalForRocket", "(*AccountDB).SetFT": "utility.FormatDecimalForERC20",
		"(*AccountDB).AddFT": "utility.FormatDecimalForERC20", "(*AccountDB).SubFT": "utility.FormatDecimalForERC20",
		"(*AccountDB).setBalance": "utility.FormatDecimalForERC20",
	}
	for n, f := range want {
		fn := c.Func(acctPkg, n)
		if !r.Anchor(fn != nil, "O5", n) {
			continue
		}
		calls := callsNamed(fn, f)
		// in the bound-token branch the value written/returned derives from the formatter
		ok := len(calls) >= 1
		if ok {
			for _, s := range eng.Sites(fn) {
				nm := s.Name()
				if nm == "(*storage/account.accountObject).SetData" || nm == "(*storage/account.accountObject).setData" {
					call := s.Instr.(*ssa.Call)
					val := call.Call.Args[len(call.Call.Args)-1]
					derived := false
					for _, fc := range calls {
						if valueDerivesFrom(val, fc) {
							derived = true
						}
						// remain.Add(remain, fmt(x)) / remain.Sub(remain, fmt(x)): the formatted amount is
						// folded into the big.Int whose bytes are written
						for _, ref := range *fc.Referrers() {
							if ac, isC := ref.(*ssa.Call); isC {
								if n := eng.CallName(&ac.Call); n == "(*math/big.Int).Add" || n == "(*math/big.Int).Sub" {
									if recv, isRC := ac.Call.Args[0].(*ssa.Call); isRC && valueDerivesFrom(val, recv) {
										derived = true
									}
								}
							}
						}
					}
					if !derived {
						ok = false
					}
				}
			}
		}
		hf, _ := eng.HasFloat(fn)
		r.Check(ok && !hf, "O5", "accessor:"+n, c.Pos(fn.Pos()), "token-contract balances are rescaled only through "+f, n+" reads or writes the bound token contract's balance slot without passing "+f+" (or involves a float)")
	}
}

func c18EthValue(c *eng.Ctx, r *eng.Report) {
	conv := c.Func("eth_tx", "ConvertTx")
	if r.Anchor(conv != nil, "O6", "eth_tx.ConvertTx") {
		ok := false
		why := "no store to ContractData.TransferValue found"
		for _, b := range conv.Blocks {
			for _, in := range b.Instrs {
				st, isS := in.(*ssa.Store)
				if !isS {
					continue
				}
				if _, f := eng.FieldOf(st.Addr); f != "TransferValue" {
					continue
				}
				call, isC := st.Val.(*ssa.Call)
				guard := ""
				for _, cd := range eng.CondsAt(st) {
					m, isM := cd.Cmp()
					if isM && m.Op == token.NEQ && eng.IsNilConst(m.Y) && strings.Contains(eng.Desc(m.X), ".Value(") {
						continue // the value itself is present
					}
					guard = eng.Desc(cd.V)
				}
				if guard != "" {
					ok = false
					why = "TransferValue is only assigned under the condition " + guard + ", which is not about the value: a wrapped transaction for which it is false — a contract creation has no recipient — reaches the EVM with an empty transferValue, parsed as 0, so a payable constructor receives nothing of the value the sender signed"
					r.Check(false, "O6", "ConvertTx:transfer-value-unconditional", c.Pos(st.Pos()), "", why)
				} else if isC && eng.CallName(&call.Call) == "utility.BigIntToStr" && strings.Contains(eng.Desc(call.Call.Args[0]), ".Value(") {
					ok = true
					r.Pass("O6", "ConvertTx:transfer-value-unconditional", c.Pos(st.Pos()), "the assignment depends on nothing but the value being non-nil")
				} else {
					ok = false
					why = "TransferValue is assigned " + eng.Desc(st.Val) + " instead of utility.BigIntToStr(txRaw.Value()) directly: the decimal string is rewritten on its way to the EVM"
				}
			}
		}
		hf, _ := eng.HasFloat(conv)
		r.Check(ok && !hf, "O6", "ConvertTx:transfer-value", c.Pos(conv.Pos()), "TransferValue = BigIntToStr(txRaw.Value()), unmodified, no float", why)
	}
	for _, spec := range []struct{ pkg, fn string }{{"executor", "(*contractExecutor).decodeContractData"}} {
		fn := c.Func(spec.pkg, spec.fn)
		if !r.Anchor(fn != nil, "O6", spec.fn) {
			continue
		}
		ok := false
		for _, call := range callsNamed(fn, "utility.StrToBigInt") {
			if strings.HasSuffix(eng.Desc(call.Call.Args[0]), ".TransferValue") {
				// its result goes into ContractRawData unchanged
				for _, b := range fn.Blocks {
					for _, in := range b.Instrs {
						if st, isS := in.(*ssa.Store); isS {
							if _, f := eng.FieldOf(st.Addr); f == "TransferValue" {
								if ex, isE := st.Val.(*ssa.Extract); isE && ex.Tuple == ssa.Value(call) {
									ok = true
								}
							}
						}
					}
				}
			}
		}
		// every value the parser accepts gets through: nothing about the TransferValue string itself decides
		// whether the parse is reached (a length or format pre-filter rejects part of the uint256 range)
		for _, call := range callsNamed(fn, "utility.StrToBigInt") {
			if !strings.HasSuffix(eng.Desc(call.Call.Args[0]), ".TransferValue") {
				continue
			}
			for _, cd := range eng.CondsAt(call) {
				if strings.Contains(eng.Desc(cd.V), ".TransferValue") {
					r.Fail("O6", "decodeContractData:no-prefilter", c.Pos(call.Pos()), "whether the transfer value is parsed depends on "+eng.Desc(cd.V)+": a pre-filter on the amount string (its length, its format) rejects amounts the 18-decimal parser accepts — e.g. a 78-digit cap excludes every value from 10^77 to 2^256−1, whose string has 79 characters with the decimal point — so those values do not reach the EVM")
					ok = false
				}
			}
		}
		hf, _ := eng.HasFloat(fn)
		r.Check(ok && !hf, "O6", "decodeContractData:transfer-value", c.Pos(fn.Pos()), "TransferValue = StrToBigInt(data.TransferValue), unmodified, no float", "the contract executor no longer takes the transfer value as StrToBigInt(data.TransferValue) unchanged")
	}
}

// c18Pure: conversion is a function of (string, decimal) / (integer,
// precision) only — nothing in the cone of the converters remembers earlier
// calls. A memo keyed by less than all arguments answers one decimal's parse
// for another's.
func c18Pure(c *eng.Ctx, r *eng.Report) {
	const rule = "O7"
	r.Min(rule, 1)
	var entries []*ssa.Function
	for _, n := range []string{"strToBigInt", "StrToBigInt", "bigIntToStr", "BigIntToStr", "FormatDecimalForERC20", "FormatDecimalForRocket"} {
		if fn := c.Func("utility", n); fn != nil {
			entries = append(entries, fn)
		}
	}
	if !r.Anchor(len(entries) >= 4, rule, "utility converters (strToBigInt, StrToBigInt, bigIntToStr, BigIntToStr, FormatDecimalFor…)") {
		return
	}
	in := func(fn *ssa.Function) bool { return strings.HasSuffix(eng.FuncPkgPath(fn), "/src/utility") }
	cone := c.ConeOf(entries, in)
	hits, n := 0, 0
	for _, fn := range cone.Sorted() {
		if !in(fn) || fn.Blocks == nil {
			continue
		}
		n++
		for _, h := range eng.ScanNondeterminism(fn) {
			if h.Kind == "chan" || h.Kind == "go" || h.Kind == "select" {
				continue
			}
			hits++
			r.Fail(rule, h.Kind+":"+eng.FuncName(fn), c.Pos(h.Pos), h.Detail+" in the cone of the amount converters ("+cone.PathTo(fn)+"): the result of a conversion then depends on earlier conversions in this process, not only on its arguments — e.g. a parse cached under the string alone is returned for another decimal count")
		}
	}
	if hits == 0 {
		r.Pass(rule, "purity", "", fmt.Sprintf("no cache, package-variable store, shared object, map range, clock or randomness in the %d utility functions reachable from the converters", n))
	}
}

// c18ValueNotMutated: O8.
func c18ValueNotMutated(c *eng.Ctx, r *eng.Report) {
	const rule = "O8"
	mut := map[string]bool{"Add": true, "Sub": true, "Mul": true, "Div": true, "Quo": true, "Mod": true, "Rem": true, "Set": true, "SetBytes": true, "SetUint64": true, "SetInt64": true, "SetString": true, "Neg": true, "Abs": true, "Exp": true, "Lsh": true, "Rsh": true, "And": true, "Or": true, "Xor": true, "Not": true, "Sqrt": true, "QuoRem": true, "DivMod": true, "SetBit": true, "SetBits": true}
	n, hits := 0, 0
	for _, pkg := range []string{"executor", "eth_tx"} {
		for _, fn := range c.PkgFuncs(pkg) {
			for _, s := range eng.Sites(fn) {
				nm := s.Name()
				if !strings.HasPrefix(nm, "(*math/big.Int).") || !mut[strings.TrimPrefix(nm, "(*math/big.Int).")] {
					continue
				}
				n++
				recv := eng.ResolveLocal(s.Common().Args[0])
				if !strings.HasSuffix(eng.Desc(recv), ".TransferValue") {
					continue
				}
				hits++
				r.Fail(rule, "value-mutated:"+eng.FuncName(fn), c.Pos(s.Pos()), eng.FuncName(fn)+" calls "+nm+" with ContractData.TransferValue as the receiver: the *big.Int is shared with the copy kept in context[\"contractData\"], so the amount later handed to vm.Call/vm.Create is value + gasLimit × gas price instead of the value the sender signed (1235567890123456789 for 1234567890123456789)")
			}
		}
	}
	if hits == 0 {
		r.Pass(rule, "value-mutated:none", "", fmt.Sprintf("%d mutating big.Int calls in executor/eth_tx, none with TransferValue as receiver", n))
	}
}

// c18WrapperOwnsItsData: O9.
func c18WrapperOwnsItsData(c *eng.Ctx, r *eng.Report) {
	const rule = "O9"
	conv := c.Func("eth_tx", "ConvertTx")
	if !r.Anchor(conv != nil, rule, "eth_tx.ConvertTx") {
		return
	}
	in := func(fn *ssa.Function) bool { return strings.HasSuffix(eng.FuncPkgPath(fn), "/src/eth_tx") }
	cone := c.ConeOf([]*ssa.Function{conv}, in)
	n, hits := 0, 0
	for _, fn := range cone.Sorted() {
		if !in(fn) || fn.Blocks == nil {
			continue
		}
		n++
		for _, h := range eng.ScanNondeterminism(fn) {
			if h.Kind != "shared-object" && h.Kind != "global-store" && h.Kind != "cache" {
				continue
			}
			if strings.Contains(h.Detail, "eth_tx.hasherPool") {
				continue // keccak state, Reset() before use (reviewed reset-pool)
			}
			hits++
			r.Fail(rule, h.Kind+":"+eng.FuncName(fn), c.Pos(h.Pos), h.Detail+" under ConvertTx ("+cone.PathTo(fn)+"): what one wrapped transaction carries then shares memory with what the next conversion writes")
		}
		for _, s := range eng.Sites(fn) {
			if strings.HasSuffix(s.Name(), "utility.BytesToStr") {
				hits++
				r.Fail(rule, "zero-copy-string:"+eng.FuncName(fn), c.Pos(s.Pos()), eng.FuncName(fn)+" builds a string over a byte slice without copying (utility.BytesToStr) under ConvertTx: the wrapper's Data aliases a buffer that is reused — converting several transactions and then decoding them gives the earlier ones the last one's TransferValue (1.5, 2.5 and 7.000000000000000001 units all decode as 1 wei)")
			}
		}
	}
	if hits == 0 {
		r.Pass(rule, "wrapper-owns-data", c.Pos(conv.Pos()), fmt.Sprintf("%d eth_tx functions under ConvertTx: no pool beside hasherPool, no zero-copy string", n))
	}
}

// c18BindingFromState: O10.
func c18BindingFromState(c *eng.Ctx, r *eng.Report) {
	const rule = "O10"
	var entries []*ssa.Function
	for _, n := range []string{"(*AccountDB).GetERC20Binding", "(*AccountDB).GetFT", "(*AccountDB).SetFT", "(*AccountDB).AddFT", "(*AccountDB).SubFT"} {
		if f := c.Func("storage/account", n); f != nil {
			entries = append(entries, f)
		}
	}
	if !r.Anchor(len(entries) >= 4, rule, "AccountDB.GetERC20Binding and the FT accessors") {
		return
	}
	hits := 0
	for _, fn := range entries {
		for _, h := range eng.ScanNondeterminism(fn) {
			switch h.Kind {
			case "cache", "syncmap-range", "shared-object", "global-store":
			default:
				continue
			}
			hits++
			r.Fail(rule, h.Kind+":"+eng.FuncName(fn), c.Pos(h.Pos), h.Detail+" in "+eng.FuncName(fn)+": the contract, slot and decimal count a token amount is re-scaled with then come from what this process saw earlier, not from the state the call is made on — a binding created and used inside a reverted snapshot (or on another fork) answers for a later binding of the same name")
		}
		for _, s := range eng.Sites(fn) {
			if strings.HasPrefix(s.Name(), "(*sync.Map).") {
				hits++
				r.Fail(rule, "syncmap:"+eng.FuncName(fn), c.Pos(s.Pos()), s.Name()+" in "+eng.FuncName(fn)+": a process-wide map in the path that decides which contract, slot and decimal count a balance is read and written with")
			}
		}
	}
	if hits == 0 {
		r.Pass(rule, "binding:from-state", "", fmt.Sprintf("%d accessors, no process-wide memo", len(entries)))
	}
}
