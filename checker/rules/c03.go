package rules

import (
	"fmt"
	"go/token"
	"go/types"
	"strings"

	"golang.org/x/tools/go/ssa"

	"verif/checker/eng"
)

func init() { register("C03", c03) }

func c03(c *eng.Ctx, r *eng.Report) {
	r.Explain = "Write-ordering and ownership facts state durability rests on, decided on the SSA of storage/trie/database.go, storage/account and core: " +
		"R3.1 NodeDatabase.commit is a post-order recursion — children are committed before the node's own Put and nothing is committed after it, the intermediate batch flush follows the Put; " +
		"R3.2 NodeDatabase.Commit uncaches only after the final batch.Write succeeded and every error return precedes uncache; " +
		"R3.3 history is append-only — no production caller of Dereference/Cap and no Delete on a state store anywhere in storage/trie or storage/account; " +
		"R3.4 the commit leaf callback references every hash-valued field of Account (storage root, code hash), each reference conditional only on its own field; dirty objects commit their storage trie (error checked) before their account record is written; " +
		"R3.5 state commit then node-database commit, both error-checked, before success is reported and before the head moves (shared with C05 R5.4); " +
		"R3.6 errors of batch writes and commits are consumed at every call site; R3.8 an entry leaves an account's flush set (dirtyStorage) only in updateTrie, as it is written to the storage trie; R3.7 the flag that makes Commit write an account's code blob is raised unconditionally (constant true) by every function that installs code bytes, lowered only in Commit after InsertBlob of those bytes, and never computed. " +
		"R3.10 a node leaves the dirty-node cache only for a stated reason: uncache deletes the very key it was called with (the committed root, and its children by recursion over childs()), Cap deletes the oldest flush-list entry after having put it into the batch, dereference deletes a child whose reference count dropped to zero — no other function deletes from NodeDatabase.nodes, so nodes of a state that is committed to memory but not yet flushed cannot be dropped by flushing another one; " +
		"R3.16 Commit looks at every cached account object: each return of the callback AccountDB.Commit hands to accountObjects.Range is the constant true, except where the callback has just handed Commit an error to return — a silent `return false` (for an object already flagged deleted, say) ends the whole iteration, and the dirty accounts the sync.Map had not reached yet never have their storage trie committed although Commit and TrieDB().Commit report success; " +
		"R3.17 a commit writes through a batch of its own: the batch NodeDatabase.Commit fills and writes is the result of NewBatch() in that call — Commit runs under the read lock, so two commits (main chain and a fork) overlap, and a batch kept on the struct is reset or refilled by the second while the first is still writing: the first reports success for a root that was never written; " +
		"R3.15 a reference is recorded per parent: NodeDatabase.reference skips the increment only when the child is not cached or when this parent's children map already holds the child — never because the child has some other parent; an account leaf that shares its storage root or code with a leftover, unflushed account would otherwise hold no reference of its own, and Commit(root) reports success without writing that storage trie or code; " +
		"R3.14 every dirty slot reaches the storage trie: in accountObject.updateTrie each iteration over dirtyStorage passes a TryUpdate or a TryDelete on the storage trie before the next one starts (no `continue` that skips both) — a slot skipped because it equals some remembered earlier value keeps whatever an intermediate flush wrote: the committed root then holds another value than the one read before the commit; " +
		"R3.13 the account trie is committed once per block, by AccountDB.Commit, with the leaf callback that links each account's storage root and code to its leaf: every Commit call on AccountDB.trie sits in (*AccountDB).Commit and passes a non-nil callback — a commit without it (from IntermediateRoot, say) leaves the nodes clean, the later Commit never sees the leaves, and TrieDB().Commit(root) writes an account trie whose storage roots and code are not on disk; " +
		"R3.12 the stored form of a branch node carries all 17 entries: in the serialisers of fullNode and rawFullNode (EncodeRLP and the trie-package helpers they call) the entry array is never narrowed to a part of itself — the 17th entry is the value stored at the branch, a key that is a proper prefix of another (storage keys are raw strings here) lives only there; " +
		"R3.11 Commit removes an account from the trie only if it self-destructed or was written in this block and is empty: deleteAccountObject is reached only across the `suicided` or the `isDirty` outcome — an account that was merely read looks empty while its storage cache is cold (empty() does not look at the storage root), and deleting it drops the account and all its slots from the committed root; " +
		"R3.9 an account object that was written is committed: every cached object is either in the dirty set Commit iterates or has its one-shot onDirty hook armed (the C04 rule R4.8 applied here: removal from the dirty set re-arms the hook or drops the object, a replaced dirty set comes with a replaced object cache, the hook is cleared only after it was called). " +
		"Not decided: LevelDB batch atomicity and durability (trusted), that every value readable before is readable after, arbitrary physical crash points."
	r.Assume = []string{"a LevelDB batch write is atomic and durable once it returns nil"}
	c03PostOrder(c, r)
	c03Uncache(c, r)
	c03AppendOnly(c, r)
	c03LeafRefs(c, r)
	c05StateBeforeHeadAs(c, r, "R3.5")
	c03Errors(c, r)
	c03DirtyBlob(c, r)
	c03FlushSet(c, r)
	c04DirtyOrArmedAs(c, r, "R3.9")
	c03NodeCacheDeletes(c, r)
	c03CommitDeletes(c, r)
	c03AllSeventeen(c, r)
	c03AccountTrieCommit(c, r)
	c03EveryDirtySlotFlushed(c, r)
	c03ReferencePerParent(c, r)
	c03CommitVisitsEveryObject(c, r)
	c03CommitBatchIsItsOwn(c, r)
}

func batchCalls(fn *ssa.Function, method string) []*ssa.Call {
	var out []*ssa.Call
	for _, s := range eng.Sites(fn) {
		if call, ok := s.Instr.(*ssa.Call); ok && call.Call.IsInvoke() && call.Call.Method.Name() == method && strings.HasSuffix(eng.ShortType(call.Call.Value.Type()), "db.Batch") {
			out = append(out, call)
		}
	}
	return out
}

func c03PostOrder(c *eng.Ctx, r *eng.Report) {
	const rule = "R3.1"
	r.Min(rule, 2)
	fn := c.Func(triePkg, "(*NodeDatabase).commit")
	if !r.Anchor(fn != nil, rule, "(*NodeDatabase).commit") {
		return
	}
	var rec []*ssa.Call
	for _, s := range eng.Sites(fn) {
		if s.Static() == fn {
			rec = append(rec, s.Instr.(*ssa.Call))
		}
	}
	puts := batchCalls(fn, "Put")
	writes := batchCalls(fn, "Write")
	// a trie helper that is handed the batch and writes it (the size-triggered flush, extracted) stands for the Write
	for _, s := range eng.Sites(fn) {
		call, isCall := s.Instr.(*ssa.Call)
		h := s.Static()
		if !isCall || h == nil || h == fn || h.Blocks == nil || !strings.HasSuffix(eng.FuncPkgPath(h), "/"+triePkg) {
			continue
		}
		takesBatch := false
		for _, a := range call.Call.Args {
			if strings.HasSuffix(eng.ShortType(a.Type()), "db.Batch") {
				takesBatch = true
			}
		}
		if takesBatch && len(batchCalls(h, "Write")) > 0 {
			writes = append(writes, call)
		}
	}
	key := "(*storage/trie.NodeDatabase).commit:post-order"
	switch {
	case len(rec) == 0:
		r.Fail(rule, key, c.Pos(fn.Pos()), "commit is no longer a recursion over node.childs(): children-before-parent order cannot be established (an iterative rewrite must be re-reviewed — a parent written in an earlier batch than its children makes a half-written root resolvable at the top and broken below after a crash)")
	case len(puts) != 1:
		r.Fail(rule, key, c.Pos(fn.Pos()), fmt.Sprintf("%d batch.Put calls in commit (1 expected)", len(puts)))
	default:
		var bad []string
		for _, rc := range rec {
			if eng.Reaches(puts[0], rc) {
				bad = append(bad, "a child commit can run after the node's own Put")
			}
			if !eng.Reaches(rc, puts[0]) {
				bad = append(bad, "the child commit does not precede the Put")
			}
			// the recursive call is on the children of this node
			if !strings.Contains(eng.Desc(rc.Call.Args[1]), "childs(") {
				bad = append(bad, "recursion is not over node.childs()")
			}
			// its error is propagated
			if len(*rc.Referrers()) == 0 {
				bad = append(bad, "error of the child commit is dropped")
			}
		}
		r.Check(len(bad) == 0, rule, key, c.Pos(puts[0].Pos()), "children are committed (recursively, error-checked) before the node's own Put", strings.Join(uniq(bad), "; "))
		ok := len(writes) >= 1
		for _, w := range writes {
			if eng.Reaches(w, puts[0]) || !eng.Reaches(puts[0], w) {
				ok = false
			}
		}
		r.Check(ok, rule, "(*storage/trie.NodeDatabase).commit:flush-after-put", c.Pos(fn.Pos()), "the intermediate batch flush follows the Put of the current node (any flushed prefix is child-closed)", "the intermediate batch.Write no longer follows the node's Put")
		// no skip: commit reports success for a node only if the node is not in the dirty cache (already
		// persisted) or after it was Put in this very call — nothing remembered from an earlier, possibly
		// failed, attempt may short-cut it
		skip := ""
		for _, re := range eng.Returns(fn) {
			if eng.RetClass(re.Ret, 0, re.Pred) != "nil" {
				continue
			}
			if eng.Dominates(puts[0], re.Ret) {
				continue
			}
			absent := false
			for _, cd := range eng.EdgeConds(re.Ret.Block()) {
				if ex, isE := cd.V.(*ssa.Extract); isE && !cd.True && ex.Index == 1 {
					if lk, isL := ex.Tuple.(*ssa.Lookup); isL && strings.HasSuffix(eng.Desc(lk.X), ".nodes") {
						absent = true
					}
				}
			}
			if !absent {
				skip = "commit returns nil at " + c.Pos(re.Ret.Pos()) + " without having Put the node and not because the node is absent from the dirty cache"
			}
		}
		r.Check(skip == "", rule, "(*storage/trie.NodeDatabase).commit:no-skip", c.Pos(fn.Pos()), "success for a node means: not dirty, or Put in this call", skip+": a node skipped on the strength of an earlier attempt is missing from disk when that attempt's batch was lost, yet the retry reports success and the cache is dropped")
	}
}

func c03Uncache(c *eng.Ctx, r *eng.Report) {
	const rule = "R3.2"
	r.Min(rule, 2)
	fn := c.Func(triePkg, "(*NodeDatabase).Commit")
	if !r.Anchor(fn != nil, rule, "(*NodeDatabase).Commit") {
		return
	}
	unc := callsNamed(fn, "(*storage/trie.NodeDatabase).uncache")
	cm := callsNamed(fn, "(*storage/trie.NodeDatabase).commit")
	writes := batchCalls(fn, "Write")
	if len(unc) != 1 || len(cm) != 1 || len(writes) == 0 {
		r.Fail(rule, "(*storage/trie.NodeDatabase).Commit:shape", c.Pos(fn.Pos()), fmt.Sprintf("uncache=%d commit=%d batch.Write=%d", len(unc), len(cm), len(writes)))
		return
	}
	// the final write: the batch.Write that is reached from db.commit
	okWrite, okCommit := false, false
	for _, cd := range eng.CondsAt(unc[0]) {
		m, ok := cd.Cmp()
		if !ok || m.Op != token.EQL || !eng.IsNilConst(m.Y) {
			continue
		}
		for _, w := range writes {
			if m.X == ssa.Value(w) && eng.Reaches(cm[0], w) {
				okWrite = true
			}
		}
		if m.X == ssa.Value(cm[0]) {
			okCommit = true
		}
	}
	r.Check(okWrite && okCommit, rule, "(*storage/trie.NodeDatabase).Commit:uncache-after-write", c.Pos(unc[0].Pos()), "uncache runs only after db.commit and the final batch.Write both returned nil", fmt.Sprintf("uncache is reachable without a successful final write (commit err==nil edge=%v, final Write err==nil edge=%v): nodes leave the memory cache although they are not on disk", okCommit, okWrite))
	// no error return after uncache
	ok := true
	for _, re := range eng.Returns(fn) {
		if !eng.IsNilConst(re.Incoming(0)) && eng.Reaches(unc[0], re.Ret) {
			ok = false
		}
	}
	r.Check(ok, rule, "(*storage/trie.NodeDatabase).Commit:errors-before-uncache", c.Pos(fn.Pos()), "every error return precedes uncache", "an error can be returned after the cache was already dropped")
}

func c03AppendOnly(c *eng.Ctx, r *eng.Report) {
	const rule = "R3.3"
	r.Min(rule, 4)
	gc := map[string]bool{"(*storage/trie.NodeDatabase).Dereference": true, "(*storage/trie.NodeDatabase).dereference": true, "(*storage/trie.NodeDatabase).Cap": true}
	for _, n := range []string{"(*NodeDatabase).Dereference", "(*NodeDatabase).dereference", "(*NodeDatabase).Cap"} {
		fn := c.Func(triePkg, n)
		if !r.Anchor(fn != nil, rule, n) {
			continue
		}
		var outside []string
		for _, site := range c.Callers(fn) {
			if !gc[eng.FuncName(site.Fn)] {
				outside = append(outside, eng.FuncName(site.Fn)+" ("+c.Pos(site.Pos())+")")
			}
		}
		r.Check(len(outside) == 0, rule, "callers:"+n, c.Pos(fn.Pos()), "no production caller (history is never garbage-collected)", "production code now calls "+n+": "+strings.Join(outside, ", ")+" — nodes of older committed roots can be dropped, invalidating those roots")
	}
	// no Delete on a database handle in the state packages
	n := 0
	for _, pkg := range []string{triePkg, acctPkg} {
		for _, fn := range c.PkgFuncs(pkg) {
			for _, s := range eng.Sites(fn) {
				call, ok := s.Instr.(*ssa.Call)
				if !ok || !call.Call.IsInvoke() || call.Call.Method.Name() != "Delete" {
					continue
				}
				n++
				r.Fail(rule, "delete:"+eng.FuncName(fn), c.Pos(s.Pos()), "Delete on "+eng.ShortType(call.Call.Value.Type())+" inside the state packages: committed state data is removed")
			}
		}
	}
	if n == 0 {
		r.Pass(rule, "delete:none", "", "no Delete call on any database/batch handle in storage/trie or storage/account")
	}
}

func c03LeafRefs(c *eng.Ctx, r *eng.Report) {
	const rule = "R3.4"
	r.Min(rule, 3)
	commit := c.Func(acctPkg, "(*AccountDB).Commit")
	if !r.Anchor(commit != nil, rule, "(*AccountDB).Commit") {
		return
	}
	// the closure passed to trie.Commit
	var leaf *ssa.Function
	for _, an := range commit.AnonFuncs {
		if len(callsNamed(an, "(*storage/trie.NodeDatabase).Reference")) > 0 {
			leaf = an
		}
	}
	if leaf == nil {
		// the callback written as a method and passed as a method value
		for _, s := range eng.Sites(commit) {
			if !(strings.HasSuffix(s.Name(), "Trie.Commit") || strings.HasSuffix(s.Name(), "Trie).Commit")) {
				continue
			}
			for _, a := range s.Common().Args {
				if ct, isCT := a.(*ssa.ChangeType); isCT {
					a = ct.X
				}
				if mc, ok := a.(*ssa.MakeClosure); ok {
					bound := mc.Fn.(*ssa.Function)
					for _, s2 := range eng.Sites(bound) {
						if t := s2.Common().StaticCallee(); t != nil && len(callsNamed(t, "(*storage/trie.NodeDatabase).Reference")) > 0 {
							leaf = t
						}
					}
					if len(callsNamed(bound, "(*storage/trie.NodeDatabase).Reference")) > 0 {
						leaf = bound
					}
				}
			}
		}
	}
	if leaf == nil {
		r.Fail(rule, "Commit:leaf-callback", c.Pos(commit.Pos()), "no leaf callback calling TrieDB().Reference found in AccountDB.Commit")
		return
	}
	refFields := map[string]string{"Root": "storage root", "NFTSetDefinitionHash": "code / NFT-set definition hash"}
	st := c.Struct(acctPkg, "Account")
	if st != nil {
		for i := 0; i < st.NumFields(); i++ {
			f := st.Field(i)
			ts := eng.ShortType(f.Type())
			if (ts == "common.Hash" || ts == "[]byte") && refFields[f.Name()] == "" {
				r.Fail(rule, "Account-field:"+f.Name(), c.Pos(f.Pos()), "hash-typed field of Account is not in the reference table: if it names data in the node database it must be referenced by the commit leaf callback")
			}
		}
	}
	refs := callsNamed(leaf, "(*storage/trie.NodeDatabase).Reference")
	for f, what := range refFields {
		var mine *ssa.Call
		for _, rc := range refs {
			if strings.Contains(eng.Desc(rc.Call.Args[1]), "."+f) {
				mine = rc
			}
		}
		key := "leaf-ref:Account." + f
		if mine == nil {
			r.Fail(rule, key, c.Pos(leaf.Pos()), "the leaf callback no longer references the "+what+" of each account: the node database does not keep it alive/flush it with the root")
			continue
		}
		// the call is conditional only on its own field (and on decoding)
		var foreign []string
		for _, cd := range eng.CondsAt(mine) {
			d := eng.Desc(cd.V)
			for other := range refFields {
				if other != f && strings.Contains(d, "."+other) {
					foreign = append(foreign, d)
				}
			}
		}
		r.Check(len(foreign) == 0, rule, key, c.Pos(mine.Pos()), "Reference("+what+", parent) depends only on that field", "the reference of the "+what+" is conditional on another field ("+strings.Join(foreign, "; ")+"): e.g. an account with code but empty storage loses its code on a cold reopen")
	}
	// dirty objects: CommitTrie (error checked) before updateAccountObject
	var obj *ssa.Function
	for _, an := range commit.AnonFuncs {
		if len(callsNamed(an, "(*storage/account.accountObject).CommitTrie")) > 0 {
			obj = an
		}
	}
	if obj == nil {
		r.Fail(rule, "Commit:storage-before-account", c.Pos(commit.Pos()), "CommitTrie call not found in AccountDB.Commit")
		return
	}
	ct := callsNamed(obj, "(*storage/account.accountObject).CommitTrie")
	up := callsNamed(obj, "(*storage/account.AccountDB).updateAccountObject")
	ok := len(ct) == 1 && len(up) == 1
	if ok {
		ok = false
		for _, cd := range eng.CondsAt(up[0]) {
			if m, isM := cd.Cmp(); isM && (eng.ResolveLocal(m.X) == ssa.Value(ct[0]) || loadsJustStored(m.X, ct[0])) && m.Op == token.EQL && eng.IsNilConst(m.Y) {
				ok = true
			}
		}
	}
	r.Check(ok, rule, "Commit:storage-before-account", c.Pos(obj.Pos()), "a dirty object's storage trie is committed (err == nil) before its account record (carrying the new root) is written", "updateAccountObject is reachable without a successful CommitTrie: the account record can carry a storage root that was never written")
}

// c05StateBeforeHeadAs re-runs the state-before-head rule under another rule id.
func c05StateBeforeHeadAs(c *eng.Ctx, r *eng.Report, rule string) {
	sub := eng.NewReport(r.Prop, r.Tier)
	c05StateBeforeHead(c, sub)
	for _, o := range sub.Obls {
		o.Rule = rule
		r.Obls = append(r.Obls, o)
	}
	r.Min(rule, 2)
}

func c03Errors(c *eng.Ctx, r *eng.Report) {
	const rule = "R3.6"
	r.Min(rule, 8)
	targets := map[string]bool{
		"(*storage/trie.NodeDatabase).Commit": true, "(*storage/trie.NodeDatabase).commit": true, "(*storage/account.AccountDB).Commit": true,
		"(*storage/trie.Trie).Commit": true, "(*storage/account.accountObject).CommitTrie": true,
	}
	check := func(fn *ssa.Function, call *ssa.Call, name string, errIdx int) {
		used := false
		refs := call.Referrers()
		if refs != nil {
			for _, ref := range *refs {
				switch x := ref.(type) {
				case *ssa.Extract:
					if x.Index == errIdx && len(*x.Referrers()) > 0 {
						used = true
					}
				case *ssa.DebugRef:
				default:
					if errIdx == 0 && call.Call.Signature().Results().Len() == 1 {
						used = true
					}
				}
			}
		}
		r.Check(used, rule, "err:"+name+"@"+eng.FuncName(fn), c.Pos(call.Pos()), "error result is consumed", "the error of "+name+" is dropped: a failed write/commit is reported as success")
	}
	// scope: the cone of insertBlock (the path that reports a commit as successful) plus the state packages
	var inCone map[*ssa.Function]bool
	if ins := c.Func("core", "(*blockChain).insertBlock"); ins != nil {
		inCone = c.ConeOf([]*ssa.Function{ins}, eng.StdBoundary).Set
	}
	for _, fn := range c.ModFuncs() {
		p := eng.FuncPkgPath(fn)
		if !(strings.HasSuffix(p, "/storage/trie") || strings.HasSuffix(p, "/storage/account") || inCone[fn]) {
			continue
		}
		for _, s := range eng.Sites(fn) {
			call, ok := s.Instr.(*ssa.Call)
			if !ok {
				continue
			}
			n := s.Name()
			if targets[n] {
				res := call.Call.Signature().Results()
				check(fn, call, n, res.Len()-1)
				continue
			}
			if call.Call.IsInvoke() && strings.HasSuffix(eng.ShortType(call.Call.Value.Type()), "db.Batch") && (call.Call.Method.Name() == "Write" || call.Call.Method.Name() == "Put") &&
				strings.HasSuffix(p, "/storage/trie") {
				check(fn, call, "Batch."+call.Call.Method.Name(), 0)
			}
			// a helper of the trie package that writes (or fills) a batch and returns its error carries
			// that error to its caller: dropping it there drops the batch's error
			if h := s.Static(); h != nil && h.Blocks != nil && strings.HasSuffix(eng.FuncPkgPath(h), "/storage/trie") && !targets[n] {
				res := h.Signature.Results()
				if res.Len() > 0 && res.At(res.Len()-1).Type().String() == "error" && len(batchCalls(h, "Write"))+len(batchCalls(h, "Put")) > 0 {
					check(fn, call, "batch helper "+eng.FuncName(h), res.Len()-1)
				}
			}
		}
	}
}

// c03DirtyBlob: the flag that makes Commit write an account's code blob is
// raised unconditionally by whoever installs code and lowered only by Commit,
// after the blob was handed to the node database. A computed or conditionally
// lowered flag lets a commit report success with a leaf that points at bytes
// that were never written.
func c03DirtyBlob(c *eng.Ctx, r *eng.Report) {
	const rule = "R3.7"
	r.Min(rule, 3)
	n := 0
	var setters []*ssa.Function
	for _, fn := range c.PkgFuncs("storage/account") {
		if c.IsTestFunc(fn) {
			continue
		}
		for i, st := range eng.FieldStores(fn, "storage/account.accountObject", "dirtyNFTSet") {
			n++
			s := st.(*ssa.Store)
			key := fmt.Sprintf("dirty-flag:%s#%d", eng.FuncName(fn), i)
			k, isK := s.Val.(*ssa.Const)
			switch {
			case isK && k.Value != nil && k.Value.ExactString() == "true":
				setters = append(setters, fn)
				r.Check(len(eng.CondsAt(s)) == 0, rule, key, c.Pos(s.Pos()), "raised unconditionally", eng.FuncName(fn)+" raises accountObject.dirtyNFTSet only under a condition: code installed on the other branch is never written by Commit")
			case isK && k.Value != nil && k.Value.ExactString() == "false":
				ok := strings.Contains(eng.FuncName(fn), "AccountDB).Commit")
				if ok {
					ok = false
					for _, call := range callsNamed(fn, ".InsertBlob") {
						if eng.Dominates(call, s) && strings.HasSuffix(eng.Desc(call.Call.Args[len(call.Call.Args)-1]), ".nftSet") {
							ok = true
						}
					}
				}
				r.Check(ok, rule, key, c.Pos(s.Pos()), "lowered by Commit after InsertBlob(hash, nftSet)", eng.FuncName(fn)+" lowers accountObject.dirtyNFTSet without having inserted the code blob first: the next Commit skips the blob and the account leaf references bytes that are not in the node database")
			default:
				if _, isCopy := s.Val.(*ssa.UnOp); isCopy && strings.HasSuffix(eng.Desc(s.Val), ".dirtyNFTSet") {
					r.Pass(rule, key, c.Pos(s.Pos()), "copied from another object's flag")
					continue
				}
				r.Fail(rule, key, c.Pos(s.Pos()), eng.FuncName(fn)+" sets accountObject.dirtyNFTSet to the computed value "+eng.Desc(s.Val)+": the flag must be raised whenever code is installed (the blob may not have been persisted yet even if the hash is unchanged); otherwise Commit reports success with a leaf whose code hash was never written")
			}
		}
	}
	// whoever stores the code hash / code bytes also raises the flag
	for _, fn := range c.PkgFuncs("storage/account") {
		if c.IsTestFunc(fn) || strings.Contains(eng.FuncName(fn), ").undo") {
			continue
		}
		for _, st := range eng.FieldStores(fn, "storage/account.accountObject", "nftSet") {
			if k, isK := st.(*ssa.Store).Val.(*ssa.Const); isK && k.Value == nil {
				continue // cleared
			}
			has := false
			for _, s2 := range setters {
				if s2 == fn {
					has = true
				}
			}
			n++
			// loading code from the database (not dirty) is the one legitimate exception: value comes from ContractCode
			if strings.Contains(eng.Desc(st.(*ssa.Store).Val), "ContractCode(") {
				r.Pass(rule, "code-loader:"+eng.FuncName(fn), c.Pos(st.Pos()), "code read back from the database (already persisted)")
				continue
			}
			if fn.Name() == "deepCopy" {
				// the copy is a throw-away used to compute a storage trie; it must never become a committed object
				only := true
				for _, site := range c.Callers(fn) {
					if !c.IsTestFunc(site.Fn) && site.Fn.Name() != "StorageTrie" {
						only = false
					}
				}
				r.Check(only, rule, "code-setter:"+eng.FuncName(fn), c.Pos(st.Pos()), "throw-away copy, reachable only from AccountDB.StorageTrie (never committed)", "accountObject.deepCopy copies the code bytes without the dirty flag and is now called from somewhere other than AccountDB.StorageTrie: a copied object that gets committed would not write its code blob")
				continue
			}
			r.Check(has, rule, "code-setter:"+eng.FuncName(fn), c.Pos(st.Pos()), "installs code and raises the dirty flag", eng.FuncName(fn)+" installs code bytes on an account without raising dirtyNFTSet: Commit will not write the blob")
		}
	}
	r.Check(n >= 3, rule, "dirty-flag:sites", "", fmt.Sprintf("%d sites", n), fmt.Sprintf("only %d stores to dirtyNFTSet/nftSet found", n))
}

// c03FlushSet: a storage slot written in this block stays in the object's
// flush set (dirtyStorage) until updateTrie has put it into the storage trie —
// nothing else may take entries out, or the committed root silently lacks a
// write that every read before the commit still saw.
func c03FlushSet(c *eng.Ctx, r *eng.Report) {
	const rule = "R3.8"
	r.Min(rule, 1)
	n := 0
	for _, fn := range c.PkgFuncs("storage/account") {
		if c.IsTestFunc(fn) {
			continue
		}
		for _, s := range eng.Sites(fn) {
			if s.Name() != "builtin:delete" {
				continue
			}
			m := s.Common().Args[0]
			if !strings.HasSuffix(eng.Desc(m), ".dirtyStorage") {
				continue
			}
			n++
			key := "dirtyStorage-delete:" + eng.FuncName(fn)
			if fn.Name() != "updateTrie" {
				r.Fail(rule, key, c.Pos(s.Pos()), eng.FuncName(fn)+" deletes from accountObject.dirtyStorage: only updateTrie may shrink the flush set (a slot dropped from it is never written to the storage trie, so the committed root lacks a write that was readable before the commit)")
				continue
			}
			// inside updateTrie the deleted key is the one being written to the trie in the same iteration
			k := s.Common().Args[1]
			written := false
			for _, s2 := range eng.Sites(fn) {
				n2 := s2.Name()
				if strings.HasSuffix(n2, ".TryUpdate") || strings.HasSuffix(n2, ".TryDelete") || strings.HasSuffix(n2, ".setError") {
					for _, a := range s2.Common().Args {
						if valueDerivesFromValue(a, k) || valueDerivesFromValue(k, a) {
							written = true
						}
					}
				}
			}
			r.Check(written, rule, key, c.Pos(s.Pos()), "an entry leaves the flush set only as it is written to the storage trie", "updateTrie deletes a key from dirtyStorage that it does not write to the storage trie in the same pass")
		}
	}
	if n == 0 {
		r.Fail(rule, "dirtyStorage-delete:none", "", "no delete from dirtyStorage found (updateTrie expected): the flush loop has changed shape and must be re-reviewed")
	}
}

// valueDerivesFromValue: b occurs among the operands a is computed from.
func valueDerivesFromValue(a, b ssa.Value) bool {
	seen := map[ssa.Value]bool{}
	var walk func(v ssa.Value, d int) bool
	walk = func(v ssa.Value, d int) bool {
		if v == nil || d > 5 || seen[v] {
			return false
		}
		seen[v] = true
		if v == b {
			return true
		}
		if in, ok := v.(ssa.Instruction); ok {
			var ops []*ssa.Value
			for _, o := range in.Operands(ops) {
				if *o != nil && walk(*o, d+1) {
					return true
				}
			}
		}
		return false
	}
	return walk(a, 0)
}

// c03NodeCacheDeletes: the node cache holds every node that is not on disk yet.
// Flushing root A must not drop nodes that only root B reaches.
func c03NodeCacheDeletes(c *eng.Ctx, r *eng.Report) {
	const rule = "R3.10"
	r.Min(rule, 3)
	reviewed := map[string]string{
		"(*storage/trie.NodeDatabase).uncache":     "param",  // the key is the function's own hash parameter
		"(*storage/trie.NodeDatabase).Cap":         "oldest", // the flush-list head, written to the batch first
		"(*storage/trie.NodeDatabase).dereference": "param",  // the child whose parents count reached zero
	}
	n := 0
	for _, fn := range c.PkgFuncs("storage/trie") {
		if c.IsTestFunc(fn) {
			continue
		}
		i := 0
		for _, s := range eng.Sites(fn) {
			if s.Name() != "builtin:delete" {
				continue
			}
			if t, f := eng.FieldOf(unload(s.Common().Args[0])); t != "storage/trie.NodeDatabase" || f != "nodes" {
				continue
			}
			n++
			name := eng.FuncName(fn)
			key := fmt.Sprintf("node-cache-delete:%s#%d", name, i)
			i++
			how, ok := reviewed[name]
			if !ok {
				r.Fail(rule, key, c.Pos(s.Pos()), name+" deletes from NodeDatabase.nodes and is not one of the reviewed functions (uncache, Cap, dereference): a node that is only in memory may be dropped before it was written")
				continue
			}
			k := s.Common().Args[1]
			good := false
			switch how {
			case "param":
				for _, p := range fn.Params[1:] {
					if k == ssa.Value(p) {
						good = true
					}
				}
			case "oldest":
				_, f := eng.FieldOf(unload(k))
				good = f == "oldest"
				if phi, isPhi := k.(*ssa.Phi); isPhi {
					good = true
					for _, e := range phi.Edges {
						if _, f := eng.FieldOf(unload(e)); f != "oldest" && f != "flushNext" {
							good = false
						}
					}
				}
			}
			r.Check(good, rule, key, c.Pos(s.Pos()), "deletes the key it is reviewed to delete ("+how+")", name+" deletes "+eng.Desc(k)+" from the dirty-node cache instead of the node it was called for: flushing one committed root then drops cached nodes that belong to other roots which are committed to memory but not yet written (a sibling block, a child flushed before its parent); their later flush finds nothing to write and reports success, and the root cannot be opened from disk")
		}
	}
	r.Check(n >= 3, rule, "node-cache-delete:sites", "", fmt.Sprintf("%d deletions from NodeDatabase.nodes", n), fmt.Sprintf("only %d deletions from NodeDatabase.nodes found (uncache, Cap, dereference expected)", n))
}

// c03CommitDeletes: what Commit may delete.
func c03CommitDeletes(c *eng.Ctx, r *eng.Report) {
	const rule = "R3.11"
	r.Min(rule, 1)
	n := 0
	for _, fn := range c.PkgFuncs("storage/account") {
		if c.IsTestFunc(fn) || !strings.HasPrefix(eng.FuncName(fn), "(*storage/account.AccountDB).Commit") {
			continue
		}
		for i, call := range callsNamed(fn, ".deleteAccountObject") {
			n++
			cut := func(a *ssa.BasicBlock, succ int) bool {
				iff, ok := a.Instrs[len(a.Instrs)-1].(*ssa.If)
				if !ok {
					return false
				}
				for _, cd := range eng.Conjuncts(iff.Cond, succ == 0, iff) {
					if !cd.True {
						continue
					}
					d := eng.Desc(cd.V)
					if strings.HasSuffix(d, ".suicided") {
						return true
					}
					if ex, isE := cd.V.(*ssa.Extract); isE && ex.Index == 1 && strings.Contains(eng.Desc(ex.Tuple), ".accountObjectsDirty[") {
						return true
					}
				}
				return false
			}
			open := eng.PathToAvoiding(fn, call, nil, cut)
			r.Check(!open, rule, fmt.Sprintf("commit-delete:%s#%d", eng.FuncName(fn), i), c.Pos(call.Pos()), "deleteAccountObject only for suicided or dirty objects", eng.FuncName(fn)+" can delete an account object that is neither self-destructed nor dirty: an existing account with nonce 0 and no code whose slots were not touched in this block counts as empty (empty() looks at the cached storage only), so a mere read of it makes Commit drop the account and all its storage from the committed root — which then also differs from the IntermediateRoot the header carries")
		}
	}
	r.Check(n >= 1, rule, "commit-delete:sites", "", fmt.Sprintf("%d deleteAccountObject calls in Commit", n), "no deleteAccountObject call found in AccountDB.Commit")
}

// c03AllSeventeen: see R3.12.
func c03AllSeventeen(c *eng.Ctx, r *eng.Report) {
	const rule = "R3.12"
	r.Min(rule, 2)
	for _, name := range []string{"(*fullNode).EncodeRLP", "rawFullNode.EncodeRLP"} {
		ent := c.Func(triePkg, name)
		if !r.Anchor(ent != nil, rule, "trie."+name) {
			continue
		}
		cone := c.ConeOf([]*ssa.Function{ent}, func(fn *ssa.Function) bool { return eng.FuncPkgPath(fn) == eng.Mod+"/src/"+triePkg })
		bad := ""
		n := 0
		for _, fn := range cone.Sorted() {
			if eng.FuncPkgPath(fn) != eng.Mod+"/src/"+triePkg || fn.Blocks == nil {
				continue
			}
			n++
			sixteenth := false
			var narrow []*ssa.Slice
			for _, b := range fn.Blocks {
				for _, in := range b.Instrs {
					switch x := in.(type) {
					case *ssa.IndexAddr:
						if k, ok := eng.ConstInt(x.Index); ok && k == 16 && is17(x.X.Type()) {
							sixteenth = true
						}
					case *ssa.Index:
						if k, ok := eng.ConstInt(x.Index); ok && k == 16 && is17(x.X.Type()) {
							sixteenth = true
						}
					case *ssa.Slice:
						if !is17(x.X.Type()) {
							continue
						}
						lo, hi := int64(0), int64(17)
						if x.Low != nil {
							lo, _ = eng.ConstInt(x.Low)
						}
						if x.High != nil {
							if k, ok := eng.ConstInt(x.High); ok {
								hi = k
							} else {
								hi = -1
							}
						}
						if lo != 0 || hi != 17 {
							narrow = append(narrow, x)
						}
					}
				}
			}
			if len(narrow) > 0 && !sixteenth {
				bad = eng.FuncName(fn) + " at " + c.Pos(narrow[0].Pos())
			}
		}
		r.Check(bad == "", rule, "all-seventeen:"+name, c.Pos(ent.Pos()), fmt.Sprintf("%d trie functions in the serialiser, the 17-entry array is never narrowed", n), "the serialiser of a branch node narrows its 17 entries ("+bad+") and never touches entry 16: the value stored at the branch is replaced by an empty string in the bytes written to the database and in the node's hash — a contract storage key that is a proper prefix of another key reads back empty after a reopen, and the state root no longer commits to it")
	}
}

func is17(t types.Type) bool {
	if p, ok := t.Underlying().(*types.Pointer); ok {
		t = p.Elem()
	}
	a, ok := t.Underlying().(*types.Array)
	return ok && a.Len() == 17
}

// c03AccountTrieCommit: see R3.13.
func c03AccountTrieCommit(c *eng.Ctx, r *eng.Report) {
	const rule = "R3.13"
	r.Min(rule, 1)
	n := 0
	for _, fn := range c.PkgFuncs(acctPkg) {
		for _, s := range eng.Sites(fn) {
			nm := s.Name()
			if !(strings.HasSuffix(nm, "Trie.Commit") || strings.HasSuffix(nm, "Trie).Commit")) {
				continue
			}
			recv := s.Common().Value
			args := s.Common().Args
			if !s.Common().IsInvoke() {
				if len(args) == 0 {
					continue
				}
				recv, args = args[0], args[1:]
			}
			rv := eng.ResolveLocal(recv)
			u, isU := rv.(*ssa.UnOp)
			if !isU {
				continue
			}
			if t, f := eng.FieldOf(u.X); f != "trie" || !strings.HasSuffix(t, "AccountDB") {
				continue
			}
			n++
			inCommit := strings.HasPrefix(eng.FuncName(fn), "(*storage/account.AccountDB).Commit")
			hasLeaf := len(args) >= 1 && !eng.IsNilConst(args[0])
			r.Check(inCommit && hasLeaf, rule, "account-trie-commit:"+eng.FuncName(fn), c.Pos(s.Pos()), "AccountDB.Commit commits the account trie with its leaf callback", fmt.Sprintf("%s commits the account trie (leaf callback present: %v): nodes committed without the callback are already clean when AccountDB.Commit runs, so storage roots and code are never linked to their account leaves — TrieDB().Commit(root) reports success having written only the account trie, and a cold open of that root finds no storage and no code for the accounts changed in the block", eng.FuncName(fn), hasLeaf))
		}
	}
	if n == 0 {
		r.Fail(rule, "account-trie-commit:none", "", "no Commit call on AccountDB.trie found: the rule has lost its anchor")
	}
}

// c03EveryDirtySlotFlushed: see R3.14.
func c03EveryDirtySlotFlushed(c *eng.Ctx, r *eng.Report) {
	const rule = "R3.14"
	r.Min(rule, 1)
	fn := c.Func(acctPkg, "(*accountObject).updateTrie")
	if !r.Anchor(fn != nil, rule, "(*accountObject).updateTrie") {
		return
	}
	var lp *eng.RangeLoop
	for _, b := range fn.Blocks {
		for _, in := range b.Instrs {
			if rg, ok := in.(*ssa.Range); ok && strings.HasSuffix(eng.Desc(rg.X), ".dirtyStorage") {
				lp = eng.LoopOfRange(rg)
			}
		}
	}
	if !r.Anchor(lp != nil, rule, "updateTrie: range over dirtyStorage") {
		return
	}
	writes := func(b *ssa.BasicBlock) bool {
		for _, in := range b.Instrs {
			if call, ok := in.(ssa.CallInstruction); ok {
				n := eng.CallName(call.Common())
				if strings.HasSuffix(n, ".TryUpdate") || strings.HasSuffix(n, ".TryDelete") {
					return true
				}
			}
		}
		return false
	}
	skipAt := ""
	seen := map[*ssa.BasicBlock]bool{}
	var walk func(b *ssa.BasicBlock)
	walk = func(b *ssa.BasicBlock) {
		if seen[b] || !lp.Body[b] {
			return
		}
		seen[b] = true
		if writes(b) {
			return
		}
		for _, s := range b.Succs {
			if s == lp.Header {
				skipAt = c.Pos(b.Instrs[len(b.Instrs)-1].Pos())
				if skipAt == "" || skipAt == "?" || strings.HasSuffix(skipAt, ":0") {
					skipAt = fmt.Sprintf("block %d", b.Index)
				}
				return
			}
			walk(s)
		}
	}
	for _, s := range lp.Header.Succs {
		if lp.Body[s] && s != lp.Header {
			walk(s)
		}
	}
	r.Check(skipAt == "", rule, "updateTrie:every-dirty-slot", c.Pos(fn.Pos()), "every iteration over dirtyStorage writes or deletes its slot in the storage trie", "updateTrie can finish an iteration over dirtyStorage without TryUpdate or TryDelete (back to the loop head from "+skipAt+"): the slot is removed from the dirty set but never written — A, SetData(B), flush, SetData(A), Commit leaves B in the trie, so GetData before the commit returns A and a reopen of the committed root returns B")
}

// c03ReferencePerParent: see R3.15.
func c03ReferencePerParent(c *eng.Ctx, r *eng.Report) {
	const rule = "R3.15"
	r.Min(rule, 1)
	fn := c.Func(triePkg, "(*NodeDatabase).reference")
	if !r.Anchor(fn != nil, rule, "(*NodeDatabase).reference") {
		return
	}
	var inc ssa.Instruction
	for _, b := range fn.Blocks {
		for _, in := range b.Instrs {
			if st, ok := in.(*ssa.Store); ok {
				if _, f := eng.FieldOf(st.Addr); f == "parents" {
					inc = in
				}
			}
		}
	}
	if !r.Anchor(inc != nil, rule, "reference: parents++") {
		return
	}
	n, bad := 0, ""
	for _, re := range eng.Returns(fn) {
		if eng.Reaches(inc, re.Ret) {
			continue
		}
		n++
		ok := false
		for _, cd := range eng.EdgeConds(re.Ret.Block()) {
			ex, isE := cd.V.(*ssa.Extract)
			if !isE || ex.Index != 1 {
				continue
			}
			lk, isL := ex.Tuple.(*ssa.Lookup)
			if !isL {
				continue
			}
			d := eng.Desc(lk.X)
			if strings.HasSuffix(d, ".nodes") && !cd.True {
				ok = true // the child is not in the cache
			}
			if strings.HasSuffix(d, ".children") && cd.True {
				ok = true // this parent already references this child
			}
		}
		if !ok {
			bad = c.Pos(re.Ret.Pos())
		}
	}
	r.Check(bad == "" && n >= 1, rule, "reference:per-parent", c.Pos(fn.Pos()), fmt.Sprintf("%d early return(s), each for an uncached child or a reference this parent already holds", n), "NodeDatabase.reference returns at "+bad+" without counting the reference although neither the child is uncached nor this parent already references it: a child that merely has another parent gets no reference from this one — when two accounts share a storage root or code and the first was left unflushed, Commit(root) of the second writes the account trie only and reports success; the root on disk is not resolvable")
}

// c03CommitVisitsEveryObject: see R3.16.
func c03CommitVisitsEveryObject(c *eng.Ctx, r *eng.Report) {
	const rule = "R3.16"
	r.Min(rule, 1)
	commit := c.Func(acctPkg, "(*AccountDB).Commit")
	if !r.Anchor(commit != nil, rule, "(*AccountDB).Commit") {
		return
	}
	n := 0
	for _, s := range eng.Sites(commit) {
		if s.Name() != "(*sync.Map).Range" {
			continue
		}
		mc, ok := s.Common().Args[1].(*ssa.MakeClosure)
		if !ok {
			continue
		}
		cb := mc.Fn.(*ssa.Function)
		n++
		bad := ""
		for _, re := range eng.Returns(cb) {
			if k, isK := re.Incoming(0).(*ssa.Const); isK && k.Value != nil && k.Value.String() == "true" {
				continue
			}
			// stopping is fine when the stop is reported: the callback has handed an error to Commit (a store
			// through a captured variable dominates the return) and Commit returns it
			reported := false
			for _, b := range cb.Blocks {
				for _, in := range b.Instrs {
					st, isSt := in.(*ssa.Store)
					if !isSt {
						continue
					}
					root := st.Addr
					if u, isU := root.(*ssa.UnOp); isU {
						root = u.X
					}
					if _, isFV := root.(*ssa.FreeVar); isFV && eng.Dominates(in, re.Ret) {
						reported = true
					}
				}
			}
			if !reported {
				bad = c.Pos(re.Ret.Pos())
			}
		}
		r.Check(bad == "", rule, "commit-range:continues", c.Pos(cb.Pos()), "the Range callback returns true on every path (or reports an error to Commit first)", "the callback AccountDB.Commit passes to accountObjects.Range can return something other than true (at "+bad+"): sync.Map.Range stops at the first false, so the objects it had not visited yet — dirty accounts with changed storage — are never committed into the node database; Commit and NodeDatabase.Commit still report success with the expected root, and after a cold reopen their storage is missing")
	}
	if n == 0 {
		r.Fail(rule, "commit-range:none", c.Pos(commit.Pos()), "AccountDB.Commit no longer ranges over accountObjects with a closure: the rule has lost its anchor")
	}
}

// c03CommitBatchIsItsOwn: see R3.17.
func c03CommitBatchIsItsOwn(c *eng.Ctx, r *eng.Report) {
	const rule = "R3.17"
	r.Min(rule, 1)
	fn := c.Func(triePkg, "(*NodeDatabase).Commit")
	if !r.Anchor(fn != nil, rule, "(*NodeDatabase).Commit") {
		return
	}
	n := 0
	for _, s := range eng.Sites(fn) {
		if !s.Common().IsInvoke() || s.Common().Method.Name() != "Write" || !strings.Contains(s.Common().Value.Type().String(), "Batch") {
			continue
		}
		n++
		call, isCall := eng.ResolveLocal(s.Common().Value).(*ssa.Call)
		fresh := isCall && strings.HasSuffix(eng.CallName(&call.Call), ".NewBatch")
		r.Check(fresh, rule, fmt.Sprintf("commit-batch:own#%d", n-1), c.Pos(s.Pos()), "the batch written is NewBatch() of this call", "NodeDatabase.Commit writes "+eng.Desc(s.Common().Value)+", a batch that outlives the call: Commit holds only the read lock, so an overlapping commit of another root resets or refills it — the first commit then writes the other's entries, sees no error, uncaches its trie and reports success for a root that is not on disk")
	}
	if n == 0 {
		r.Fail(rule, "commit-batch:none", c.Pos(fn.Pos()), "no batch.Write in NodeDatabase.Commit: the rule has lost its anchor")
	}
}

// loadsJustStored: v is a load of an address (a captured variable, a field) into
// which `stored` was written earlier in the same block with no call in between —
// `if outer = f(); outer != nil` tests f's result.
func loadsJustStored(v ssa.Value, stored ssa.Value) bool {
	ld, ok := v.(*ssa.UnOp)
	if !ok || ld.Op != token.MUL {
		return false
	}
	instrs := ld.Block().Instrs
	at := -1
	for i, in := range instrs {
		if in == ssa.Instruction(ld) {
			at = i
		}
	}
	for i := at - 1; i >= 0; i-- {
		switch x := instrs[i].(type) {
		case *ssa.Store:
			if x.Addr == ld.X {
				return x.Val == stored
			}
		case ssa.CallInstruction:
			if si, _ := stored.(ssa.Instruction); ssa.Instruction(x) != si {
				return false
			}
		}
	}
	return false
}
