package rules

import (
	"fmt"
	"go/token"
	"os"
	"sort"
	"strings"

	"golang.org/x/tools/go/ssa"

	"verif/checker/eng"
)

func init() { register("C10", c10) }

const stackLimit = 1024

func c10(c *eng.Ctx, r *eng.Report) {
	r.Explain = "Shape of each EVM operation decided by abstract interpretation of every jump-table handler (symbolic operand stack, constant propagation through handler factories): " +
		"R10.1 the handler's stack effect on every success exit equals the row's minStack/maxStack declaration and, for standard opcodes, the Yellow-Paper (δ,α) table embedded in the checker; " +
		"R10.2 for the 25 straight-line word operations the uint256 method applied, the operand slots it is applied to (first pop / second pop / top), the slot receiving the result and the guard polarity equal a reference row written from the Yellow Paper and the uint256 API; " +
		"R10.3 JUMP/JUMPI store to pc only on the accepting edge of validJumpdest, JUMPI looks at its destination (and can fail) only under the test of its condition operand, validJumpdest keeps its three conjuncts (range, ==JUMPDEST, isCode), and the halts/jumps/reverts/returns flags equal the reference table. " +
		"R10.4 the jump bitmap consulted is the running code's own: the frame-shared map is touched only under CodeHash != zero and keyed by c.CodeHash, every bitmap stored or consulted is codeBitmap(c.Code) or that entry, only isCode/NewContract write the two fields, and codeBitmap marks exactly the operands of PUSH1..PUSH32; " +
		"R10.5 fresh memory is zero: Memory.store is assigned only in Resize and only as append(m.store, make([]byte, n)...), NewMemory returns a fresh object and Run takes one per frame. " +
		"R10.6 every memory-touching standard opcode reads and writes exactly the regions its definition names (offset/length operands as entry stack slots, compared with a reference table from the Yellow Paper and the EIPs). " +
		"R10.7 the return-data buffer is a private copy (Run copies the operation's result, or every handler of a `returns` row hands back a copy). " +
		"R10.11 RETURNDATACOPY fails when the range leaves the buffer, whatever its length: every successful return of opReturnDataCopy lies behind the comparison of offset+length with len(returnData) (EIP-211 has no zero-length exemption — a zero-length copy at offset 33 after a 32-byte return must abort the frame); " +
		"R10.10 the memory an opcode activates is exactly what it touches: where a row's memorySize function accounts for a region of constant length (MLOAD, MSTORE: 32; MSTORE8: 1) some access of the handler at that offset ends exactly at that length — a byte store sized like a word store activates a word too many at an unaligned top offset, and MSIZE and every later expansion charge differ; " +
		"R10.9 a zero-length memory operand touches nothing whatever its offset: in calcMemSize64WithUint every overflow result (second result true) is produced only after the length was found non-zero — KECCAK256(2^256-1, 0), RETURN(2^255, 0), CALLDATACOPY(2^64, 0, 0) are no-ops, not gas-overflow failures; " +
		"R10.8 memory is resized to the maximum touched offset before execution: for each standard memory opcode every region its handler touches lies inside a region its memorySize function accounts for (the C11 coverage rule applied to the rows of the reference table; MCOPY needs both source and destination) and the growth is charged; " +
		"Not decided: the 256-bit arithmetic itself (holiman/uint256), KECCAK, the bytes copied by Memory.Set/Copy, the bit arithmetic of bitvec.set/set8."
	r.Assume = []string{"holiman/uint256 v1.1.1 methods implement their documented semantics (z.Op(x,y) sets z = x op y)", "Yellow Paper (δ,α) table transcribed in rules/vmrows.go"}
	rows := analyseRows(c, r, "R10.1")
	c10Arity(c, r, rows)
	c10Binding(c, r, rows)
	c10Shuffles(c, r, rows)
	c10Jumps(c, r, rows)
	c10DumpMem(rows)
	c10MemOperands(c, r, rows)
	c10ReturnData(c, r, rows)
	c11MemoryAs(c, r, rows, "R10.8", memRef, 20)
	c10ZeroLengthFirst(c, r)
	c10MemSizeTight(c, r, rows)
	c10ReturnDataBounds(c, r)
	c10Bitmap(c, r)
	c10Memory(c, r)
}

func c10Arity(c *eng.Ctx, r *eng.Report, rows []rowFx) {
	const rule = "R10.1"
	r.Min(rule, 150)
	for _, rf := range rows {
		row, fx := rf.Row, rf.Fx
		key := "row:" + row.Name
		pos := c.Pos(row.Pos)
		if len(fx.Undecided) > 0 {
			r.Fail(rule, key, pos, "handler "+eng.FuncName(row.Exec)+" could not be analysed: "+strings.Join(fx.Undecided, "; "))
			continue
		}
		if row.MinStackVal < 0 || row.MaxStackVal < 0 {
			r.Fail(rule, key, pos, "row lacks an evaluable minStack/maxStack")
			continue
		}
		pops := row.MinStackVal
		net := stackLimit - row.MaxStackVal + pops - pops // declared push-pops = limit - maxStack
		net = int64(stackLimit) - row.MaxStackVal
		var msgs []string
		nOK := 0
		for _, e := range fx.Exits {
			if e.ErrExit {
				continue
			}
			nOK++
			if int64(e.Delta) != net {
				msgs = append(msgs, fmt.Sprintf("success exit at %s changes the stack height by %+d but the row declares %+d (maxStack=%d)", c.Pos(e.Pos), e.Delta, net, row.MaxStackVal))
			}
			if int64(e.Need) > pops {
				msgs = append(msgs, fmt.Sprintf("handler reads %d entry items but minStack validates only %d", e.Need, pops))
			}
		}
		if nOK == 0 {
			msgs = append(msgs, "handler has no success exit")
		}
		if yp, ok := yellowPaper[row.Name]; ok {
			if pops != yp[0] || net != yp[1]-yp[0] {
				msgs = append(msgs, fmt.Sprintf("row declares (pops=%d, net=%+d) but the Yellow Paper gives δ=%d α=%d", pops, net, yp[0], yp[1]))
			}
		}
		if len(msgs) > 0 {
			r.Fail(rule, key, pos, strings.Join(msgs, "; "))
		} else {
			src := "row declaration"
			if _, ok := yellowPaper[row.Name]; ok {
				src = "row declaration and Yellow Paper"
			}
			r.Pass(rule, key, pos, fmt.Sprintf("%s: pops=%d net=%+d on %d success exit(s) — agrees with %s", eng.FuncName(row.Exec), pops, net, nOK, src))
		}
	}
}

// wordRef is the reference row of one straight-line word operation.
type wordRef struct {
	core    string   // "Method(recv;arg,arg)" that must occur
	commut  bool     // arguments may be swapped
	allowed []string // other uint256 methods that may appear (guards, constants)
	guard   string   // "" or description checked by guardOK
}

var wordRefs = map[string]wordRef{
	"ADD":        {core: "Add(slot1;slot0,slot1)", commut: true},
	"MUL":        {core: "Mul(slot1;slot0,slot1)", commut: true},
	"SUB":        {core: "Sub(slot1;slot0,slot1)"},
	"DIV":        {core: "Div(slot1;slot0,slot1)"},
	"SDIV":       {core: "SDiv(slot1;slot0,slot1)"},
	"MOD":        {core: "Mod(slot1;slot0,slot1)"},
	"SMOD":       {core: "SMod(slot1;slot0,slot1)"},
	"EXP":        {core: "Exp(slot1;slot0,slot1)"},
	"SIGNEXTEND": {core: "ExtendSign(slot1;slot1,slot0)"},
	"NOT":        {core: "Not(slot0;slot0)"},
	"LT":         {core: "Lt(slot0;slot1)", allowed: []string{"SetOne", "Clear"}, guard: "cmp"},
	"GT":         {core: "Gt(slot0;slot1)", allowed: []string{"SetOne", "Clear"}, guard: "cmp"},
	"SLT":        {core: "Slt(slot0;slot1)", allowed: []string{"SetOne", "Clear"}, guard: "cmp"},
	"SGT":        {core: "Sgt(slot0;slot1)", allowed: []string{"SetOne", "Clear"}, guard: "cmp"},
	"EQ":         {core: "Eq(slot0;slot1)", commut: true, allowed: []string{"SetOne", "Clear"}, guard: "cmp"},
	"ISZERO":     {core: "IsZero(slot0;)", allowed: []string{"SetOne", "Clear"}, guard: "cmp"},
	"AND":        {core: "And(slot1;slot0,slot1)", commut: true},
	"OR":         {core: "Or(slot1;slot0,slot1)", commut: true},
	"XOR":        {core: "Xor(slot1;slot0,slot1)", commut: true},
	"BYTE":       {core: "Byte(slot1;slot0)"},
	"ADDMOD":     {core: "AddMod(slot2;slot0,slot1,slot2)", allowed: []string{"IsZero", "Clear"}},
	"MULMOD":     {core: "MulMod(slot2;slot0,slot1,slot2)", allowed: []string{"IsZero", "Clear"}},
	"SHL":        {core: "Lsh(slot1;slot1,u64(slot0))", allowed: []string{"LtUint64", "Clear", "Uint64"}, guard: "shift"},
	"SHR":        {core: "Rsh(slot1;slot1,u64(slot0))", allowed: []string{"LtUint64", "Clear", "Uint64"}, guard: "shift"},
	"SAR":        {core: "SRsh(slot1;slot1,u64(slot0))", allowed: []string{"GtUint64", "LtUint64", "Clear", "SetAllOne", "Sign", "Uint64"}, guard: "sar"},
}

func opSig(o eng.WordOp) string {
	return o.Method + "(" + o.Recv + ";" + strings.Join(o.Args, ",") + ")"
}

func c10Binding(c *eng.Ctx, r *eng.Report, rows []rowFx) {
	const rule = "R10.2"
	r.Min(rule, 25+16+16+32)
	for _, rf := range rows {
		ref, ok := wordRefs[rf.Row.Name]
		if !ok {
			continue
		}
		key := "op:" + rf.Row.Name
		pos := c.Pos(rf.Row.Pos)
		var sigs []string
		coreSeen := false
		var bad []string
		for _, o := range rf.Fx.Ops {
			s := opSig(o)
			sigs = append(sigs, s)
			if s == ref.core || (ref.commut && swapArgs(o) == ref.core) {
				coreSeen = true
				continue
			}
			okExtra := false
			for _, a := range ref.allowed {
				if o.Method == a {
					okExtra = true
				}
			}
			if !okExtra {
				bad = append(bad, s)
			}
		}
		switch {
		case !coreSeen:
			r.Fail(rule, key, pos, "expected "+ref.core+" (Yellow-Paper operand order: slot0 = first pop = μs[0]); handler performs "+strings.Join(sigs, " "))
		case len(bad) > 0:
			r.Fail(rule, key, pos, "unexpected word operation(s) "+strings.Join(bad, " ")+" in "+eng.FuncName(rf.Row.Exec)+" (reference: "+ref.core+")")
		default:
			if msg := guardOK(rf, ref); msg != "" {
				r.Fail(rule, key, pos, msg)
			} else {
				r.Pass(rule, key, pos, eng.FuncName(rf.Row.Exec)+": "+strings.Join(sigs, " ")+" — matches reference "+ref.core)
			}
		}
	}
}

// c10Shuffles: DUPn copies slot n-1, SWAPn exchanges slot 0 and slot n, PUSHn
// advances pc by n (its immediate), all decided on the interpreted handler, not
// on the factory's argument list.
func c10Shuffles(c *eng.Ctx, r *eng.Report, rows []rowFx) {
	const rule = "R10.2"
	for _, rf := range rows {
		name := rf.Row.Name
		var want string
		var n int
		switch {
		case strings.HasPrefix(name, "DUP") && len(name) > 3:
			fmt.Sscanf(name[3:], "%d", &n)
			want = fmt.Sprintf("dup(slot%d)", n-1)
		case strings.HasPrefix(name, "SWAP") && len(name) > 4:
			fmt.Sscanf(name[4:], "%d", &n)
			want = fmt.Sprintf("swap(slot0,slot%d)", n)
		case strings.HasPrefix(name, "PUSH") && len(name) > 4 && name != "PUSH0":
			fmt.Sscanf(name[4:], "%d", &n)
			ok := len(rf.Fx.PcAdds) > 0
			for _, k := range rf.Fx.PcAdds {
				if int(k) != n {
					ok = false
				}
			}
			r.Check(ok, rule, "op:"+name, c.Pos(rf.Row.Pos), fmt.Sprintf("handler skips its %d immediate bytes (*pc += %d)", n, n),
				fmt.Sprintf("handler advances pc by %v, expected %d (the immediate's width)", rf.Fx.PcAdds, n))
			continue
		default:
			continue
		}
		got := strings.Join(rf.Fx.Shuffles, " ")
		r.Check(got == want, rule, "op:"+name, c.Pos(rf.Row.Pos), "handler performs "+want, "handler performs "+got+", expected "+want)
	}
}

func swapArgs(o eng.WordOp) string {
	if len(o.Args) != 2 {
		if len(o.Args) == 1 { // Eq(x;y) ≡ Eq(y;x)
			return o.Method + "(" + o.Args[0] + ";" + o.Recv + ")"
		}
		return ""
	}
	return o.Method + "(" + o.Recv + ";" + o.Args[1] + "," + o.Args[0] + ")"
}

// guardOK checks the polarity of the branch around the result-setting calls.
func guardOK(rf rowFx, ref wordRef) string {
	fn := rf.Row.Exec
	find := func(method string) []*ssa.Call {
		var out []*ssa.Call
		for _, s := range eng.Sites(fn) {
			if call, ok := s.Instr.(*ssa.Call); ok && strings.HasSuffix(s.Name(), "uint256.Int)."+method) {
				out = append(out, call)
			}
		}
		return out
	}
	condOn := func(in ssa.Instruction, method string) (bool, bool) { // (found, polarity)
		for _, cd := range eng.CondsAt(in) {
			if call, ok := cd.V.(*ssa.Call); ok && strings.HasSuffix(eng.CallName(&call.Call), "uint256.Int)."+method) {
				return true, cd.True
			}
		}
		return false, false
	}
	switch ref.guard {
	case "cmp":
		m := ref.core[:strings.Index(ref.core, "(")]
		ones, clears := find("SetOne"), find("Clear")
		if len(ones) == 0 && len(clears) == 0 {
			// the `if cond {SetOne} else {Clear}` tail extracted into a private helper that is handed the comparison
			for _, s := range eng.Sites(fn) {
				h := s.Static()
				if h == nil || h.Pkg != fn.Pkg || h.Blocks == nil || token.IsExported(h.Name()) {
					continue
				}
				var prm *ssa.Parameter
				for i, a := range s.Common().Args {
					if call, isC := a.(*ssa.Call); isC && strings.HasSuffix(eng.CallName(&call.Call), "uint256.Int)."+m) && i < len(h.Params) {
						prm = h.Params[i]
					}
				}
				if prm == nil {
					continue
				}
				var hOnes, hClears []*ssa.Call
				for _, hs := range eng.Sites(h) {
					if call, ok := hs.Instr.(*ssa.Call); ok {
						if strings.HasSuffix(hs.Name(), "uint256.Int).SetOne") {
							hOnes = append(hOnes, call)
						}
						if strings.HasSuffix(hs.Name(), "uint256.Int).Clear") {
							hClears = append(hClears, call)
						}
					}
				}
				pol := func(in ssa.Instruction) (bool, bool) {
					for _, cd := range eng.CondsAt(in) {
						if cd.V == ssa.Value(prm) {
							return true, cd.True
						}
					}
					return false, false
				}
				// the word the helper overwrites is the one left on the stack (peek), not a popped copy
				var dst *ssa.Parameter
				for i, a := range s.Common().Args {
					if strings.Contains(eng.Desc(a), "peek(") && i < len(h.Params) && h.Params[i] != prm {
						dst = h.Params[i]
					}
				}
				if dst == nil || len(hOnes) != 1 || len(hClears) != 1 || hOnes[0].Call.Args[0] != ssa.Value(dst) || hClears[0].Call.Args[0] != ssa.Value(dst) {
					return "helper " + h.Name() + " is not handed the stack's top word (peek) as the word it sets/clears"
				}
				if len(hOnes) != 1 || len(hClears) != 1 {
					return fmt.Sprintf("helper %s: expected exactly one SetOne and one Clear, found %d/%d", h.Name(), len(hOnes), len(hClears))
				}
				if f, p := pol(hOnes[0]); !f || !p {
					return "helper " + h.Name() + ": SetOne is not on the true edge of the comparison it is handed"
				}
				if f, p := pol(hClears[0]); !f || p {
					return "helper " + h.Name() + ": Clear is not on the false edge of the comparison it is handed"
				}
				return ""
			}
		}
		if len(ones) != 1 || len(clears) != 1 {
			return fmt.Sprintf("expected exactly one SetOne and one Clear, found %d/%d", len(ones), len(clears))
		}
		if f, pol := condOn(ones[0], m); !f || !pol {
			return "SetOne is not on the true edge of " + m
		}
		if f, pol := condOn(clears[0], m); !f || pol {
			return "Clear is not on the false edge of " + m
		}
	case "shift":
		m := ref.core[:strings.Index(ref.core, "(")]
		sh := find(m)
		if len(sh) != 1 {
			return "expected exactly one " + m
		}
		f, pol := condOn(sh[0], "LtUint64")
		if !f || !pol {
			return m + " is not on the true edge of shift.LtUint64(256)"
		}
		lts := find("LtUint64")
		if len(lts) != 1 {
			return "expected one LtUint64 guard"
		}
		if k, ok := eng.ConstInt(lts[0].Call.Args[1]); !ok || k != 256 {
			return "shift guard constant is not 256"
		}
		cl := find("Clear")
		if len(cl) != 1 {
			return "expected one Clear for shifts >= 256"
		}
		if f, pol := condOn(cl[0], "LtUint64"); !f || pol {
			return "Clear is not on the false edge of shift.LtUint64(256)"
		}
	case "sar":
		sh := find("SRsh")
		if len(sh) != 1 {
			return "expected exactly one SRsh"
		}
		// SRsh must not execute when the shift exceeds the guard; accept either
		// `if shift.GtUint64(K) {…return}` (false edge) or LtUint64 true edge, K in {255,256}
		if f, pol := condOn(sh[0], "GtUint64"); f {
			if pol {
				return "SRsh executes on the true edge of GtUint64"
			}
		} else if f2, pol2 := condOn(sh[0], "LtUint64"); !f2 || !pol2 {
			return "SRsh is not guarded by a shift-range test"
		}
		for _, g := range append(find("GtUint64"), find("LtUint64")...) {
			if k, ok := eng.ConstInt(g.Call.Args[1]); !ok || (k != 255 && k != 256) {
				return "shift guard constant is not 255/256"
			}
		}
		so, cl := find("SetAllOne"), find("Clear")
		if len(so) != 1 || len(cl) != 1 {
			return "expected one SetAllOne and one Clear for over-wide shifts"
		}
		// sign test: Clear when value.Sign() >= 0
		okClear, okAll := false, false
		for _, cd := range eng.CondsAt(cl[0]) {
			if m, ok := cd.Cmp(); ok && strings.Contains(eng.Desc(m.X), ".Sign(") {
				if k, isK := eng.ConstInt(m.Y); isK && k == 0 && (m.Op == token.GEQ) {
					okClear = true
				}
			}
		}
		for _, cd := range eng.CondsAt(so[0]) {
			if m, ok := cd.Cmp(); ok && strings.Contains(eng.Desc(m.X), ".Sign(") {
				if k, isK := eng.ConstInt(m.Y); isK && k == 0 && (m.Op == token.LSS) {
					okAll = true
				}
			}
		}
		if !okClear || !okAll {
			return "over-wide SAR must yield 0 for non-negative and all-ones for negative values (sign test polarity)"
		}
	}
	if rf.Row.Name == "ADDMOD" {
		// z.IsZero() ? Clear : AddMod
		am := find("AddMod")
		if len(am) == 1 {
			if f, pol := condOn(am[0], "IsZero"); f && pol {
				return "AddMod executes on the true edge of IsZero(modulus)"
			}
		}
	}
	return ""
}

// flagRef is the reference for control-flow flags of standard opcodes.
var flagRef = map[string]map[string]bool{
	"STOP": {"halts": true}, "RETURN": {"halts": true}, "SELFDESTRUCT": {"halts": true, "writes": true},
	"REVERT": {"reverts": true, "returns": true},
	"JUMP":   {"jumps": true}, "JUMPI": {"jumps": true},
	"CREATE": {"returns": true, "writes": true}, "CREATE2": {"returns": true, "writes": true},
	"CALL": {"returns": true}, "CALLCODE": {"returns": true}, "DELEGATECALL": {"returns": true}, "STATICCALL": {"returns": true},
}

func c10Jumps(c *eng.Ctx, r *eng.Report, rows []rowFx) {
	const rule = "R10.3"
	r.Min(rule, 100)
	// flags of every standard row against the reference (absent = all false)
	for _, rf := range rows {
		if _, std := yellowPaper[rf.Row.Name]; !std {
			continue
		}
		want := flagRef[rf.Row.Name]
		var diffs []string
		for _, f := range []string{"halts", "jumps", "reverts", "returns"} {
			if rf.Row.Flags[f] != want[f] {
				diffs = append(diffs, fmt.Sprintf("%s=%v (reference %v)", f, rf.Row.Flags[f], want[f]))
			}
		}
		sort.Strings(diffs)
		r.Check(len(diffs) == 0, rule, "flags:"+rf.Row.Name, c.Pos(rf.Row.Pos), "control-flow flags equal the reference", "control-flow flags differ: "+strings.Join(diffs, ", "))
	}
	vj := c.Func("vm", "(*Contract).validJumpdest")
	if !r.Anchor(vj != nil, rule, "vm.(*Contract).validJumpdest") {
		return
	}
	for _, name := range []string{"opJump", "opJumpi"} {
		fn := c.Func("vm", name)
		if !r.Anchor(fn != nil, rule, "vm."+name) {
			continue
		}
		pc := fn.Params[0]
		n := 0
		for _, b := range fn.Blocks {
			for _, in := range b.Instrs {
				st, ok := in.(*ssa.Store)
				if !ok || st.Addr != ssa.Value(pc) {
					continue
				}
				// pc++ (fall-through of JUMPI) is not a jump
				if bo, ok := st.Val.(*ssa.BinOp); ok && bo.Op == token.ADD {
					if k, isK := eng.ConstInt(bo.Y); isK && k == 1 {
						continue
					}
				}
				n++
				okEdge := false
				for _, cd := range eng.CondsAt(in) {
					if call, ok := cd.V.(*ssa.Call); ok && call.Call.StaticCallee() == vj && cd.True {
						// the validated value is the one stored
						okEdge = true
					}
				}
				r.Check(okEdge, rule, "vm."+name+":pc-store", c.Pos(st.Pos()),
					"pc is assigned the popped destination only on the true edge of validJumpdest",
					"pc is assigned a jump destination without passing validJumpdest on its accepting edge")
			}
		}
		if n == 0 {
			r.Fail(rule, "vm."+name+":pc-store", c.Pos(fn.Pos()), "no store of a jump destination to *pc found")
		}
		if name == "opJumpi" {
			// an untaken JUMPI falls through whatever its destination operand is: the destination is looked at, and
			// the jump can fail, only on the condition-is-non-zero side
			isCondTest := func(v ssa.Value) bool {
				call, ok := v.(*ssa.Call)
				if !ok || call.Call.StaticCallee() == vj {
					return false
				}
				nm := eng.CallName(&call.Call)
				return strings.HasSuffix(nm, ".IsZero") || strings.HasSuffix(nm, ".Sign")
			}
			bad := ""
			nerr := 0
			for _, re := range eng.Returns(fn) {
				if len(re.Ret.Results) < 2 || eng.IsNilConst(re.Incoming(1)) {
					continue
				}
				nerr++
				blk := re.Ret.Block()
				if re.Pred != nil {
					blk = re.Pred
				}
				under := false
				for _, cd := range eng.EdgeConds(blk) {
					if isCondTest(cd.V) {
						under = true
					}
				}
				if !under {
					bad = c.Pos(re.Ret.Pos())
				}
			}
			for _, call := range callsNamed(fn, ".validJumpdest") {
				under := false
				for _, cd := range eng.CondsAt(call) {
					if isCondTest(cd.V) {
						under = true
					}
				}
				if !under {
					bad = c.Pos(call.Pos())
				}
			}
			r.Check(bad == "" && nerr >= 1, rule, "vm.opJumpi:untaken-falls-through", c.Pos(fn.Pos()),
				"the destination is validated, and the jump can fail, only under the test of the condition operand",
				"opJumpi validates the destination (or returns an error) at "+bad+" without having tested the condition operand: JUMPI with a zero condition and a destination that is not a JUMPDEST must fall through to pc+1, not fail with ErrInvalidJump")
		}
	}
	// validJumpdest: returns true only via isCode, after range test and JUMPDEST test
	isCode := c.Func("vm", "(*Contract).isCode")
	if r.Anchor(isCode != nil, rule, "vm.(*Contract).isCode") {
		hasRange, hasJD, viaIsCode := false, false, true
		for _, b := range vj.Blocks {
			for _, in := range b.Instrs {
				ret, ok := in.(*ssa.Return)
				if !ok {
					continue
				}
				v := eng.RetValue(ret, 0)
				if eng.Desc(v) == "false" {
					continue
				}
				call, ok := v.(*ssa.Call)
				if !ok || call.Call.StaticCallee() != isCode {
					viaIsCode = false
					continue
				}
				for _, cd := range eng.CondsAt(ret) {
					m, ok := cd.Cmp()
					if !ok {
						continue
					}
					dx, dy := eng.Desc(m.X), eng.Desc(m.Y)
					if strings.Contains(dy, "len(") && strings.Contains(dy, ".Code") && m.Op == token.LSS {
						hasRange = true
					}
					if k, isK := eng.ConstInt(m.Y); isK && k == 0x5b && m.Op == token.EQL && strings.Contains(dx, ".Code[") {
						hasJD = true
					}
				}
			}
		}
		// the destination is a 256-bit word: a value of 2^64 or more is no destination at all, it must not be cut
		// down to its low 64 bits. Either validJumpdest narrows with Uint64WithOverflow and rejects on the flag, or
		// (if it takes a uint64) every jump handler does before calling it.
		narrowOK := func(fn *ssa.Function, at ssa.Instruction) bool {
			for _, s2 := range eng.Sites(fn) {
				if !strings.HasSuffix(s2.Name(), "uint256.Int).Uint64WithOverflow") {
					continue
				}
				call, isC := s2.Instr.(*ssa.Call)
				if !isC || call.Referrers() == nil {
					continue
				}
				for _, ref := range *call.Referrers() {
					ex, isE := ref.(*ssa.Extract)
					if !isE || ex.Index != 1 {
						continue
					}
					for _, cd := range eng.CondsAt(at) {
						if cd.V == ssa.Value(ex) && !cd.True {
							return true
						}
					}
				}
			}
			return false
		}
		overflowOK := true
		for _, b := range vj.Blocks {
			for _, in := range b.Instrs {
				if ret, ok := in.(*ssa.Return); ok && eng.Desc(eng.RetValue(ret, 0)) != "false" {
					if !narrowOK(vj, ret) {
						overflowOK = false
					}
				}
			}
		}
		if !overflowOK {
			// perhaps the callers narrow
			overflowOK = true
			for _, site := range c.Callers(vj) {
				if !narrowOK(site.Fn, site.Instr) {
					overflowOK = false
				}
			}
		}
		r.Check(overflowOK, rule, "vm.(*Contract).validJumpdest:word-width", c.Pos(vj.Pos()),
			"a destination of 2^64 or more is rejected (Uint64WithOverflow, overflow flag on the accepting path)",
			"the jump destination is narrowed from 256 to 64 bits without the overflow flag being tested on the accepting path: a JUMP to 2^64+d (or 2^255+d) whose low 64 bits point at a JUMPDEST continues there instead of halting with ErrInvalidJump")
		r.Check(hasRange && hasJD && viaIsCode, rule, "vm.(*Contract).validJumpdest:conjuncts", c.Pos(vj.Pos()),
			"validJumpdest accepts only when dest < len(code), code[dest] == JUMPDEST and isCode(dest)",
			fmt.Sprintf("validJumpdest lost a conjunct (range=%v, ==JUMPDEST=%v, via isCode=%v)", hasRange, hasJD, viaIsCode))
	}
}

// c10Bitmap: the bitmap consulted for a jump is the bitmap of the running
// code. The map shared between frames is keyed by code hash, so it may be
// read or written only when the contract has one (initcode has none).
func c10DumpMem(rows []rowFx) {
	if os.Getenv("RR_DUMP_MEM") == "" {
		return
	}
	for _, rf := range rows {
		for _, m := range rf.Fx.Mem {
			fmt.Printf("MEM %s %s off=%s size=%s\n", rf.Row.Name, m.Method, m.Off, m.Size)
		}
	}
}

func c10Bitmap(c *eng.Ctx, r *eng.Report) {
	const rule = "R10.4"
	r.Min(rule, 4)
	isCode := c.Func("vm", "(*Contract).isCode")
	bm := c.Func("vm", "codeBitmap")
	if !r.Anchor(isCode != nil && bm != nil, rule, "vm.(*Contract).isCode / vm.codeBitmap") {
		return
	}
	// (a) shared-map accesses only under CodeHash != zero hash, keyed by c.CodeHash
	nAcc, bad := 0, ""
	var badPos token.Pos
	for _, b := range isCode.Blocks {
		for _, in := range b.Instrs {
			var m, key ssa.Value
			switch x := in.(type) {
			case *ssa.Lookup:
				m, key = x.X, x.Index
			case *ssa.MapUpdate:
				m, key = x.Map, x.Key
			default:
				continue
			}
			if !strings.HasSuffix(eng.Desc(m), ".jumpdests") {
				continue
			}
			nAcc++
			guarded := false
			for _, cd := range eng.CondsAt(in) {
				if bo, ok := cd.V.(*ssa.BinOp); ok {
					x, y := bo.X, bo.Y
					if _, isK := x.(*ssa.Const); isK {
						x, y = y, x
					}
					if !strings.HasSuffix(eng.Desc(x), "c.CodeHash") {
						continue
					}
					if k, isK := y.(*ssa.Const); isK && k.Value == nil { // zero value of common.Hash
						if (bo.Op == token.NEQ && cd.True) || (bo.Op == token.EQL && !cd.True) {
							guarded = true
						}
					}
				}
			}
			if !guarded {
				bad, badPos = "the frame-shared jumpdests map is accessed without first testing c.CodeHash != common.Hash{}: initcode (which has no code hash) would share one bitmap under the zero key, so a second initcode in the same call tree is checked against the first one's push-data layout", in.Pos()
			} else if !strings.HasSuffix(eng.Desc(key), "c.CodeHash") {
				bad, badPos = "the frame-shared jumpdests map is keyed by "+eng.Desc(key)+", not by the contract's own code hash", in.Pos()
			}
		}
	}
	r.Check(bad == "" && nAcc >= 2, rule, "isCode:shared-map", c.Pos(pick(badPos, isCode.Pos())), fmt.Sprintf("%d accesses to the shared map, all under CodeHash != zero and keyed by c.CodeHash", nAcc), "Contract.isCode: "+bad+fmt.Sprintf(" (%d accesses seen)", nAcc))
	// (b) every bitmap that reaches c.analysis, the shared map or a codeSegment call is codeBitmap(c.Code) or the shared entry for c.CodeHash
	okOrigin := func(v ssa.Value) bool {
		d := eng.Desc(v)
		return d == "vm.codeBitmap(c.Code)" || strings.HasSuffix(d, ".jumpdests[c.CodeHash]#0") || strings.HasSuffix(d, "c.analysis")
	}
	bad = ""
	n := 0
	check := func(v ssa.Value, pos token.Pos, what string) {
		n++
		// a local spilled through an alloc: look at what is stored into it
		if u, ok := v.(*ssa.UnOp); ok {
			if al, isA := u.X.(*ssa.Alloc); isA {
				for _, ref := range *al.Referrers() {
					if st, isSt := ref.(*ssa.Store); isSt && st.Addr == ssa.Value(al) && !okOrigin(st.Val) {
						bad, badPos = what+" is "+eng.Desc(st.Val), pos
					}
				}
				return
			}
		}
		if al, isA := v.(*ssa.Alloc); isA {
			for _, ref := range *al.Referrers() {
				if st, isSt := ref.(*ssa.Store); isSt && st.Addr == ssa.Value(al) && !okOrigin(st.Val) {
					bad, badPos = what+" is "+eng.Desc(st.Val), pos
				}
			}
			return
		}
		if !okOrigin(v) {
			bad, badPos = what+" is "+eng.Desc(v), pos
		}
	}
	for _, b := range isCode.Blocks {
		for _, in := range b.Instrs {
			switch x := in.(type) {
			case *ssa.Store:
				if _, f := eng.FieldOf(x.Addr); f == "analysis" {
					check(x.Val, x.Pos(), "the bitmap stored in c.analysis")
				}
			case *ssa.MapUpdate:
				check(x.Value, x.Pos(), "the bitmap stored in the shared map")
			case *ssa.Call:
				if strings.HasSuffix(eng.CallName(&x.Call), "bitvec).codeSegment") {
					check(x.Call.Args[0], x.Pos(), "the bitmap consulted")
					if !isParamNamed(x.Call.Args[1], "udest") {
						bad, badPos = "codeSegment is asked about "+eng.Desc(x.Call.Args[1])+", not the jump target", x.Pos()
					}
				}
			}
		}
	}
	retOK := true
	for _, re := range eng.Returns(isCode) {
		call, ok := eng.RetValue(re.Ret, 0).(*ssa.Call)
		if !ok || !strings.HasSuffix(eng.CallName(&call.Call), "bitvec).codeSegment") {
			retOK = false
		}
	}
	r.Check(bad == "" && retOK && n >= 4, rule, "isCode:bitmap-origin", c.Pos(pick(badPos, isCode.Pos())), "every bitmap stored or consulted is codeBitmap(c.Code) or the shared entry of c.CodeHash; the answer is codeSegment(udest)", "Contract.isCode: "+bad+fmt.Sprintf(" (returns codeSegment on every path=%v)", retOK)+": a jump target is validated against a bitmap that is not this code's")
	// (c) who writes Contract.analysis / Contract.jumpdests
	for _, fn := range c.PkgFuncs("vm") {
		if c.IsTestFunc(fn) {
			continue
		}
		for _, f := range []string{"analysis", "jumpdests"} {
			for _, st := range eng.FieldStores(fn, "vm.Contract", f) {
				ok := fn == isCode || fn.Name() == "NewContract"
				r.Check(ok, rule, "writer:Contract."+f+"<-"+eng.FuncName(fn), c.Pos(st.Pos()), "reviewed writer", eng.FuncName(fn)+" writes Contract."+f+": a frame could run against another code's jump bitmap")
			}
		}
	}
	// (d) codeBitmap marks exactly the PUSH1..PUSH32 operands
	lo, hi, plus := false, false, false
	for _, b := range bm.Blocks {
		for _, in := range b.Instrs {
			bo, ok := in.(*ssa.BinOp)
			if !ok {
				continue
			}
			k, isK := eng.ConstInt(bo.Y)
			if !isK {
				continue
			}
			switch {
			case bo.Op == token.GEQ && k == 0x60:
				lo = true
			case bo.Op == token.LEQ && k == 0x7f:
				hi = true
			case bo.Op == token.SUB && k == 0x60:
				for _, ref := range *bo.Referrers() {
					if a, isA := ref.(*ssa.BinOp); isA && a.Op == token.ADD {
						if k2, isK2 := eng.ConstInt(a.Y); isK2 && k2 == 1 {
							plus = true
						}
					}
				}
			}
		}
	}
	r.Check(lo && hi && plus, rule, "codeBitmap:push-range", c.Pos(bm.Pos()), "data bytes are the (op-PUSH1+1) bytes after each opcode in [PUSH1,PUSH32]", fmt.Sprintf("codeBitmap no longer marks exactly the operands of PUSH1..PUSH32 (op >= 0x60: %v, op <= 0x7f: %v, count = op-0x60+1: %v): a JUMPDEST byte inside push data becomes a valid target or a real JUMPDEST is rejected", lo, hi, plus))
}

// c10Memory: memory a frame has not written reads as zero. Memory.store grows
// only by appending freshly made (zeroed) bytes, only Resize grows it, and
// every frame starts from a freshly allocated Memory.
func c10Memory(c *eng.Ctx, r *eng.Report) {
	const rule = "R10.5"
	r.Min(rule, 3)
	resize := c.Func("vm", "(*Memory).Resize")
	newMem := c.Func("vm", "NewMemory")
	if !r.Anchor(resize != nil && newMem != nil, rule, "vm.(*Memory).Resize / vm.NewMemory") {
		return
	}
	for _, fn := range c.PkgFuncs("vm") {
		if c.IsTestFunc(fn) {
			continue
		}
		for i, st := range eng.FieldStores(fn, "vm.Memory", "store") {
			key := fmt.Sprintf("store-writer:%s#%d", eng.FuncName(fn), i)
			if fn != resize {
				r.Fail(rule, key, c.Pos(st.Pos()), eng.FuncName(fn)+" assigns Memory.store: only Resize may change the extent of memory (a truncated-and-reused buffer exposes an earlier frame's bytes)")
				continue
			}
			v := st.(*ssa.Store).Val
			ok := false
			if call, isC := v.(*ssa.Call); isC && eng.CallName(&call.Call) == "builtin:append" {
				if _, isMk := call.Call.Args[1].(*ssa.MakeSlice); isMk && strings.HasSuffix(eng.Desc(call.Call.Args[0]), "m.store") {
					ok = true
				}
			}
			r.Check(ok, rule, key, c.Pos(st.Pos()), "memory grows by appending make([]byte, n)", "Memory.Resize sets store to "+eng.Desc(v)+" instead of append(m.store, make([]byte, n)...): re-slicing into spare capacity (or any other growth) exposes bytes that were never zeroed, so MLOAD/KECCAK/RETURN over fresh memory is not zero")
		}
	}
	okNew := true
	for _, re := range eng.Returns(newMem) {
		if _, isAlloc := eng.RetValue(re.Ret, 0).(*ssa.Alloc); !isAlloc {
			okNew = false
		}
	}
	r.Check(okNew, rule, "NewMemory:fresh", c.Pos(newMem.Pos()), "returns a freshly allocated Memory", "NewMemory no longer returns a fresh &Memory{} (e.g. a pooled object): a frame may start with another frame's buffer")
	run := c.Func("vm", "(*EVMInterpreter).Run")
	if r.Anchor(run != nil, rule, "vm.(*EVMInterpreter).Run") {
		n := 0
		for _, call := range callsNamed(run, "vm.NewMemory") {
			_ = call
			n++
		}
		r.Check(n == 1, rule, "Run:own-memory", c.Pos(run.Pos()), "each frame allocates its memory with NewMemory()", fmt.Sprintf("EVMInterpreter.Run calls NewMemory %d times (one per frame expected)", n))
	}
}

// memRef: which entry stack slots delimit the memory region each standard
// opcode reads (r) or writes (w), from the Yellow Paper (appendix H.2) and the
// EIPs that added opcodes. "32" is the constant word size.
var memRef = map[string][]string{
	"MLOAD":          {"r slot0 32"},
	"MSTORE":         {"w slot0 32"},
	"SHA3":           {"r slot0 slot1"},
	"KECCAK256":      {"r slot0 slot1"},
	"CALLDATACOPY":   {"w slot0 slot2"},
	"CODECOPY":       {"w slot0 slot2"},
	"EXTCODECOPY":    {"w slot1 slot3"},
	"RETURNDATACOPY": {"w slot0 slot2"},
	"MCOPY":          {"c slot0 slot2", "c slot1 slot2"},
	"LOG0":           {"r slot0 slot1"}, "LOG1": {"r slot0 slot1"}, "LOG2": {"r slot0 slot1"}, "LOG3": {"r slot0 slot1"}, "LOG4": {"r slot0 slot1"},
	"RETURN":       {"r slot0 slot1"},
	"REVERT":       {"r slot0 slot1"},
	"CREATE":       {"r slot1 slot2"},
	"CREATE2":      {"r slot1 slot2"},
	"CALL":         {"r slot3 slot4", "w slot5 slot6"},
	"CALLCODE":     {"r slot3 slot4", "w slot5 slot6"},
	"DELEGATECALL": {"r slot2 slot3", "w slot4 slot5"},
	"STATICCALL":   {"r slot2 slot3", "w slot4 slot5"},
}

// c10MemOperands: each memory-touching opcode reads and writes the region its
// specification names (offset and length taken from the right stack items).
func c10MemOperands(c *eng.Ctx, r *eng.Report, rows []rowFx) {
	const rule = "R10.6"
	r.Min(rule, 20)
	for _, rf := range rows {
		want, ok := memRef[rf.Row.Name]
		if !ok || rf.Row.Superseded {
			continue
		}
		var got []string
		for _, m := range rf.Fx.Mem {
			k := "r"
			switch m.Method {
			case "Set", "Set32":
				k = "w"
			case "Copy":
				k = "c"
			}
			got = append(got, fmt.Sprintf("%s %s %s", k, m.Off, m.Size))
		}
		sort.Strings(got)
		got = uniq(got)
		w := append([]string{}, want...)
		sort.Strings(w)
		key := fmt.Sprintf("row:%s@%s", rf.Row.Name, rf.Row.Where)
		r.Check(strings.Join(got, "; ") == strings.Join(w, "; "), rule, key, c.Pos(rf.Row.Pos), "memory regions touched: "+strings.Join(w, "; "), rf.Row.Name+" touches memory at ["+strings.Join(got, "; ")+"] but its definition names ["+strings.Join(w, "; ")+"] (r=read, w=write, c=copy; offset and length as entry stack slots): the opcode reads or writes the wrong bytes")
	}
}

// c10ReturnData: the return-data buffer is a private copy. Either Run copies
// what the operation hands back (today), or — if it stores the result as is —
// every handler of a row flagged `returns` returns a copy. A precompile such as
// identity hands back a window into the caller's memory; without a copy a later
// MSTORE changes what RETURNDATACOPY delivers.
func c10ReturnData(c *eng.Ctx, r *eng.Report, rows []rowFx) {
	const rule = "R10.7"
	r.Min(rule, 1)
	isCopy := func(v ssa.Value) bool {
		d := eng.Desc(v)
		return eng.IsNilConst(v) || strings.Contains(d, "common.CopyBytes(") || strings.Contains(d, ".GetCopy(") || strings.HasPrefix(d, "builtin:append(")
	}
	n := 0
	for _, fn := range c.PkgFuncs("vm") {
		if c.IsTestFunc(fn) {
			continue
		}
		for i, st := range eng.FieldStores(fn, "vm.EVMInterpreter", "returnData") {
			n++
			v := st.(*ssa.Store).Val
			key := fmt.Sprintf("returnData-writer:%s#%d", eng.FuncName(fn), i)
			if isCopy(v) {
				r.Pass(rule, key, c.Pos(st.Pos()), "stores nil or a private copy")
				continue
			}
			// stored as handed back by operation.execute: then every `returns` handler must return a copy
			bad := ""
			for _, rf := range rows {
				if !rf.Row.Flags["returns"] || rf.Row.Exec == nil || rf.Row.Superseded {
					continue
				}
				for _, re := range eng.Returns(rf.Row.Exec) {
					rv := eng.RetValue(re.Ret, 0)
					if !isCopy(rv) {
						bad = rf.Row.Name + " returns " + eng.Desc(rv)
					}
				}
			}
			if bad == "" {
				r.Pass(rule, key, c.Pos(st.Pos()), "stores the operation's result, and every `returns` handler returns a copy")
			} else {
				r.Fail(rule, key, c.Pos(st.Pos()), eng.FuncName(fn)+" stores the operation's result in returnData without copying it, and "+bad+" — not a private copy: a callee's output that is a window into the caller's memory (identity precompile) then changes under RETURNDATACOPY when that memory is overwritten")
			}
		}
	}
	r.Check(n >= 2, rule, "returnData-writer:any", "", fmt.Sprintf("%d writers of returnData", n), "fewer than two stores to EVMInterpreter.returnData found (reset at frame entry and the store after a returning operation expected)")
}

// c10ZeroLengthFirst: the Yellow Paper's M(s, f, l) is s when l = 0.
func c10ZeroLengthFirst(c *eng.Ctx, r *eng.Report) {
	const rule = "R10.9"
	r.Min(rule, 1)
	fn := c.Func("vm", "calcMemSize64WithUint")
	if !r.Anchor(fn != nil, rule, "vm.calcMemSize64WithUint") || !r.Anchor(len(fn.Params) == 2, rule, "vm.calcMemSize64WithUint parameters") {
		return
	}
	length := fn.Params[1]
	bad := ""
	n := 0
	for _, re := range eng.Returns(fn) {
		ov := re.Incoming(1)
		if k, ok := ov.(*ssa.Const); ok && k.Value != nil && k.Value.String() == "false" {
			continue
		}
		n++
		blk := re.Ret.Block()
		if re.Pred != nil {
			blk = re.Pred
		}
		nonZero := false
		for _, cd := range eng.EdgeConds(blk) {
			m, isM := cd.Cmp()
			if !isM {
				continue
			}
			x, y, op := m.X, m.Y, m.Op
			if y == ssa.Value(length) { // 0 == length64
				x, y = y, x
				if op == token.LSS {
					op = token.GTR
				}
			}
			if x == ssa.Value(length) {
				if k, isK := eng.ConstInt(y); isK && k == 0 && (op == token.NEQ || op == token.GTR) {
					nonZero = true
				}
			}
		}
		if !nonZero {
			bad = c.Pos(re.Ret.Pos())
		}
	}
	r.Check(bad == "" && n >= 1, rule, "memsize:zero-length-first", c.Pos(fn.Pos()), "every possibly-overflowing result is computed only for a non-zero length", "calcMemSize64WithUint can report overflow at "+bad+" before the length was found non-zero: a memory operand of length 0 with an offset of 2^64 or more — KECCAK256(2^256-1, 0), RETURN(2^255, 0) — now aborts the frame with ErrGasUintOverflow instead of touching nothing")
}

// c10MemSizeTight: see R10.10.
func c10MemSizeTight(c *eng.Ctx, r *eng.Report, rows []rowFx) {
	const rule = "R10.10"
	r.Min(rule, 3)
	for _, rf := range rows {
		row, fx := rf.Row, rf.Fx
		if row.MemSize == nil || row.Superseded || len(fx.Mem) == 0 {
			continue
		}
		regs, probs := c.MemSizeRegions(row.MemSize)
		if len(probs) > 0 {
			continue // reported by R10.8
		}
		for _, rg := range regs {
			if rg.LenSlot >= 0 {
				continue
			}
			tight, widest := false, int64(-1)
			for _, m := range fx.Mem {
				if m.Off.Unknown != "" || m.Size.Unknown != "" || !m.Size.Const {
					continue
				}
				same := false
				for _, sl := range rg.OffSlots {
					if sl == m.Off.Slot {
						same = true
					}
				}
				if !same {
					continue
				}
				end := m.Off.Add + m.Size.Add
				if end > widest {
					widest = end
				}
				if end == rg.LenConst {
					tight = true
				}
			}
			if widest < 0 {
				continue // no constant-size access at that offset: nothing to compare
			}
			r.Check(tight, rule, "memsize-tight:"+row.Name+"@"+row.Where, c.Pos(row.Pos), fmt.Sprintf("%s accounts for %d byte(s), the handler touches exactly that", eng.FuncName(row.MemSize), rg.LenConst), fmt.Sprintf("%s is sized by %s for %d bytes at its offset but its handler %s touches %d: the opcode activates memory it does not touch — for an offset in the last active word (MSTORE8 at offset 1 of empty memory) MSIZE reports one word too many and every later expansion is charged from the wrong base", row.Name, eng.FuncName(row.MemSize), rg.LenConst, eng.FuncName(row.Exec), widest))
		}
	}
}

// c10ReturnDataBounds: see R10.11.
func c10ReturnDataBounds(c *eng.Ctx, r *eng.Report) {
	const rule = "R10.11"
	r.Min(rule, 1)
	fn := c.Func("vm", "opReturnDataCopy")
	if !r.Anchor(fn != nil, rule, "vm.opReturnDataCopy") {
		return
	}
	n, bad := 0, ""
	for _, re := range eng.Returns(fn) {
		if !eng.IsNilConst(re.Incoming(1)) {
			continue
		}
		n++
		blk := re.Ret.Block()
		if re.Pred != nil {
			blk = re.Pred
		}
		checked := false
		for _, cd := range eng.EdgeConds(blk) {
			m, isM := cd.Cmp()
			if !isM {
				continue
			}
			dx, dy := eng.Desc(m.X), eng.Desc(m.Y)
			if (strings.Contains(dx, "builtin:len(") && strings.Contains(dx, "returnData")) || (strings.Contains(dy, "builtin:len(") && strings.Contains(dy, "returnData")) {
				checked = true
			}
		}
		if !checked {
			bad = c.Pos(re.Ret.Pos())
		}
	}
	r.Check(bad == "" && n >= 1, rule, "returndatacopy:bounds-before-success", c.Pos(fn.Pos()), fmt.Sprintf("%d successful return(s), each behind the end <= len(returnData) test", n), "opReturnDataCopy can return success (at "+bad+") without having compared offset+length with the size of the return data: a copy whose range leaves the buffer — a zero-length one at offset 1 of an empty buffer included — silently succeeds and execution continues where EIP-211 aborts the frame")
}
