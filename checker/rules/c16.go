package rules

import (
	"fmt"
	"go/token"
	"sort"
	"strings"

	"golang.org/x/tools/go/ssa"

	"verif/checker/eng"
)

func init() { register("C16", c16) }

const edPkg = "common/ed25519"

func c16(c *eng.Ctx, r *eng.Report) {
	r.Explain = "Structural necessary conditions of VRF completeness under header transport and of a deterministic quality number, decided on the SSA of common/ed25519/vrf.go, consensus/vrf and consensus/logical/vrf_with_stake.go: " +
		"R16.1 on the verification and qualification paths a proof is left-padded to 80 bytes before it is decoded or its lottery output is read, and both padding helpers right-align the shortened proof (`copy(buf[80-len(pi):], pi)`) and only skip proofs that are already full length; " +
		"R16.11 the quality number is scaled by the threshold the proof was accepted under: in validateProve the ratio handed to calQn is the very value the VRF ratio was compared against (qn = floor(v / (threshold/MaxQN)) + 1 stays within 1..MaxQN only because v < threshold was just established for the same threshold); " +
		"R16.10 nothing between the block header and the padding helper judges the proof by its length: vrf.VRFVerify, vrf.VRFProof2Hash and logical.verifyBlockVRF have no branch on len() of the prove (a proof that lost leading zero bytes in transport is shorter than 80 bytes until ECVRFVerify pads it); " +
		"R16.2/R16.5 neither proof generation nor verification consults randomness, the clock, a cache or any package-level mutable state, so proving is deterministic and the verdict is a function of (key, proof, message) — and of the header's height, never of the node's own chain position (no common.GetBlockHeight()/IsProposalNNN() in the cone); " +
		"R16.3 ECVRFVerify returns true only as the comparison of the recomputed challenge with the proof's c, after the proof decoded without error, and the message and key passed to hashToCurve are the function's own arguments; " +
		"R16.4 the quality number is floor(ratio/step)+1 with the stake ratio clamped to 1, and qualification is `valueRatio < stakeRatio`; " +
		"R16.7 the lottery output (the encoding of Gamma) is unique: ECVRFVerify accepts only after the decoded Gamma passed the prime-order-subgroup test, which multiplies by the group order l; " +
		"R16.8 hashToCurve hashes the whole of the public key and of the message (Write/append of the parameter itself, no copy into a fixed-size buffer); " +
		"R16.6 decodeProof cuts the proof into gamma|c|s with plain copies that tile bytes [0,80) exactly and writes nothing else into those buffers (no bit of the proof is masked away before verification). " +
		"Not decided: uniqueness/soundness of the VRF, bit-flip rejection, the numeric range of qn under float rounding."
	r.Assume = []string{"edwards25519 group arithmetic and SHA-512 are correct"}
	c16Padding(c, r)
	c16Purity(c, r)
	c16NoLengthGate(c, r)
	c16QnSameThreshold(c, r)
	c16Verify(c, r)
	c16Qn(c, r)
	c16Verbatim(c, r)
	c16Unique(c, r)
	c16WholeMessage(c, r)
}

func c16Padding(c *eng.Ctx, r *eng.Report) {
	const rule = "R16.1"
	r.Min(rule, 4)
	// (a) consumers take the padded value
	ev := c.Func(edPkg, "ECVRFVerify")
	if r.Anchor(ev != nil, rule, "ed25519.ECVRFVerify") {
		ok := false
		for _, call := range callsNamed(ev, edPkg+".decodeProof") {
			src := eng.Unwrap(call.Call.Args[0])
			if pc, isC := src.(*ssa.Call); isC && eng.CallName(&pc.Call) == edPkg+".tryZeroPadding" && eng.Unwrap(pc.Call.Args[0]) == ssa.Value(ev.Params[1]) {
				ok = true
			}
		}
		r.Check(ok, rule, "ECVRFVerify:pad-before-decode", c.Pos(ev.Pos()), "decodeProof is given tryZeroPadding(pi)", "ECVRFVerify decodes the proof without left-padding it first: a proof whose first byte is zero comes back from the header's big-integer prove value one byte short and is decoded shifted")
	}
	vp := c.Func(logicalPkg, "validateProve")
	if r.Anchor(vp != nil, rule, "logical.validateProve") {
		ok := false
		for _, call := range callsNamed(vp, logicalPkg+".calcVrfValueRatio") {
			if pc, isC := eng.Unwrap(call.Call.Args[0]).(*ssa.Call); isC && eng.CallName(&pc.Call) == logicalPkg+".tryZeroPadding" && eng.Unwrap(pc.Call.Args[0]) == ssa.Value(vp.Params[0]) {
				ok = true
			}
		}
		r.Check(ok, rule, "validateProve:pad-before-ratio", c.Pos(vp.Pos()), "the lottery output is read from tryZeroPadding(prove)", "validateProve reads the lottery output of an unpadded proof: for a transported proof with a leading zero byte the first 32 bytes are shifted and the qualification/qn differ between proposer and verifier")
	}
	// (b) the helpers themselves
	for _, spec := range []struct{ pkg, name string }{{edPkg, "tryZeroPadding"}, {logicalPkg, "tryZeroPadding"}} {
		fn := c.Func(spec.pkg, spec.name)
		if !r.Anchor(fn != nil, rule, spec.pkg+"."+spec.name) {
			continue
		}
		var bad []string
		// early return of the input only when len(pi) >= 80
		for _, re := range eng.Returns(fn) {
			if eng.Unwrap(re.Incoming(0)) != ssa.Value(fn.Params[0]) {
				continue
			}
			okGuard := false
			for _, cd := range eng.CondsAt(re.Ret) {
				if m, isM := cd.Cmp(); isM && strings.Contains(eng.Desc(m.X), "builtin:len(pi)") && m.Op == token.GEQ {
					if k, isK := eng.ConstInt(m.Y); isK && k == 80 {
						okGuard = true
					}
				}
				// the same test spelled the other way round: 80 <= len(pi), or 80-len(pi) <= 0
				if m, isM := cd.Cmp(); isM && m.Op == token.LEQ {
					if k, isK := eng.ConstInt(m.X); isK && k == 80 && strings.Contains(eng.Desc(m.Y), "builtin:len(pi)") {
						okGuard = true
					}
					if z, isZ := eng.ConstInt(m.Y); isZ && z == 0 {
						if bo, isB := eng.Unwrap(m.X).(*ssa.BinOp); isB && bo.Op == token.SUB {
							if k, isK := eng.ConstInt(bo.X); isK && k == 80 && strings.Contains(eng.Desc(bo.Y), "builtin:len(pi)") {
								okGuard = true
							}
						}
					}
				}
			}
			if !okGuard {
				bad = append(bad, "the proof is returned unchanged without the `len(pi) >= 80` test")
			}
		}
		nCopy := 0
		for _, s := range eng.Sites(fn) {
			if s.Name() != "builtin:copy" {
				continue
			}
			nCopy++
			a := s.Common().Args
			right := false
			if sl, isS := a[0].(*ssa.Slice); isS && sl.Low != nil {
				if bo, isB := sl.Low.(*ssa.BinOp); isB && bo.Op == token.SUB && strings.Contains(eng.Desc(bo.Y), "builtin:len(pi)") {
					if k, isK := eng.ConstInt(bo.X); isK && k == 80 {
						right = true
					}
				}
			}
			if !right {
				bad = append(bad, "the shortened proof is not copied to buf[80-len(pi):] (dropped leading zero bytes must be restored in front)")
			}
		}
		if nCopy != 1 {
			bad = append(bad, fmt.Sprintf("%d copy calls (1 expected)", nCopy))
		}
		// the buffer is 80 bytes
		for _, b := range fn.Blocks {
			for _, in := range b.Instrs {
				if ms, isM := in.(*ssa.MakeSlice); isM {
					if k, isK := eng.ConstInt(ms.Len); !isK || k != 80 {
						bad = append(bad, "padding buffer is not 80 bytes")
					}
				}
			}
		}
		r.Check(len(bad) == 0, rule, "helper:"+spec.pkg+".tryZeroPadding", c.Pos(fn.Pos()), "left-pads to 80 bytes, leaves full-length proofs alone", strings.Join(uniq(bad), "; "))
	}
}

func c16Purity(c *eng.Ctx, r *eng.Report) {
	for _, spec := range []struct {
		rule    string
		entries [][2]string
		what    string
	}{
		{"R16.2", [][2]string{{edPkg, "ECVRFProve"}, {"consensus/vrf", "VRFGenProve"}}, "proof generation"},
		{"R16.5", [][2]string{{edPkg, "ECVRFVerify"}, {"consensus/vrf", "VRFVerify"}, {logicalPkg, "verifyBlockVRF"}, {logicalPkg, "validateProve"}}, "proof verification / qualification"},
	} {
		r.Min(spec.rule, 1)
		var entries []*ssa.Function
		for _, e := range spec.entries {
			if f := c.Func(e[0], e[1]); r.Anchor(f != nil, spec.rule, e[0]+"."+e[1]) {
				entries = append(entries, f)
			}
		}
		inScope := func(fn *ssa.Function) bool {
			p := eng.FuncPkgPath(fn)
			return strings.HasSuffix(p, "/"+edPkg) || strings.HasSuffix(p, "/common/ed25519/edwards25519") || strings.HasSuffix(p, "/consensus/vrf") || strings.HasSuffix(p, "/"+logicalPkg) || strings.HasSuffix(p, "/consensus/base")
		}
		cone := c.ConeOf(entries, func(fn *ssa.Function) bool { return inScope(fn) && eng.StdBoundary(fn) })
		hits, n := 0, 0
		for _, fn := range cone.Sorted() {
			if !inScope(fn) || fn.Blocks == nil {
				continue
			}
			n++
			for _, h := range eng.ScanNondeterminism(fn) {
				if h.Kind == "chan" || h.Kind == "go" || h.Kind == "select" {
					continue
				}
				// the biz logger in validateProve timestamps its own log lines
				if h.Kind == "clock" && strings.Contains(eng.FuncName(fn), "bizLog") {
					continue
				}
				hits++
				r.Fail(spec.rule, h.Kind+":"+eng.FuncName(fn), c.Pos(h.Pos), h.Detail+" in the cone of "+spec.what+" ("+cone.PathTo(fn)+"): the result then depends on process history or chance, not only on its arguments")
			}
			// the node's own chain position is process state too: a fork switch decided by common.GetBlockHeight()
			// (directly or through an IsProposalNNN() helper) makes the verdict on a header depend on where the
			// verifying node currently stands, not on the header's height
			for _, st := range eng.Sites(fn) {
				nm := st.Name()
				if nm == "common.GetBlockHeight" || (strings.HasPrefix(nm, "common.IsProposal") && !strings.Contains(nm, "$")) {
					hits++
					r.Fail(spec.rule, "node-height:"+eng.FuncName(fn), c.Pos(st.Pos()), nm+"() in the cone of "+spec.what+" ("+cone.PathTo(fn)+") reads the node's current chain height: whether a proof qualifies (and its qn) then changes with the verifier's own position — a node syncing across the fork height, or checking an old or fork block, disagrees with the proposer")
				}
			}
		}
		if hits == 0 {
			r.Pass(spec.rule, "purity", "", fmt.Sprintf("no randomness, clock, cache, map range or package-variable store in the %d functions reachable from %s", n, spec.what))
		}
	}
}

func c16Verify(c *eng.Ctx, r *eng.Report) {
	const rule = "R16.3"
	r.Min(rule, 1)
	fn := c.Func(edPkg, "ECVRFVerify")
	if fn == nil {
		return
	}
	var bad []string
	dec := callsNamed(fn, edPkg+".decodeProof")
	for _, re := range eng.Returns(fn) {
		cls := eng.RetClass(re.Ret, 0, re.Pred)
		if cls == "false" {
			continue
		}
		// the accepting return is an equality of the recomputed challenge and the proof's c
		bo, ok := re.Incoming(0).(*ssa.BinOp)
		if !ok || bo.Op != token.EQL {
			bad = append(bad, "a return other than `false` is not the challenge comparison ("+cls+")")
			continue
		}
		d := eng.Desc(bo.X) + "|" + eng.Desc(bo.Y)
		if !strings.Contains(d, "hashPoints(") {
			bad = append(bad, "the accepting comparison does not involve the recomputed challenge hashPoints(H, Gamma, U, V)")
		}
		if len(dec) != 1 || !nilEdgesAt(re.Ret)[ssa.Value(dec[0])] {
			bad = append(bad, "acceptance is possible without a successfully decoded proof")
		}
	}
	// message and key bound
	okHash := false
	for _, call := range callsNamed(fn, edPkg+".hashToCurve") {
		if eng.Unwrap(call.Call.Args[0]) == ssa.Value(fn.Params[2]) && eng.Unwrap(call.Call.Args[1]) == ssa.Value(fn.Params[0]) {
			okHash = true
		}
	}
	if !okHash {
		bad = append(bad, "hashToCurve is not applied to the function's own (message, public key)")
	}
	r.Check(len(bad) == 0, rule, "ECVRFVerify:accept-edge", c.Pos(fn.Pos()), "true only when hashPoints(H(m,pk), Gamma, U, V) equals the proof's challenge, after a successful decode", strings.Join(uniq(bad), "; "))
}

// c16Verbatim: every bit of the 80-byte proof reaches the verification
// equation — decodeProof cuts the proof into gamma|c|s with plain copies that
// tile [0,80) exactly and writes nothing else into those buffers.
func c16Verbatim(c *eng.Ctx, r *eng.Report) {
	const rule = "R16.6"
	r.Min(rule, 1)
	fn := c.Func(edPkg, "decodeProof")
	if !r.Anchor(fn != nil, rule, "ed25519.decodeProof") {
		return
	}
	type iv struct{ lo, hi int64 }
	var ivs []iv
	bufs := map[ssa.Value]bool{}
	bad := ""
	for _, call := range callsNamed(fn, "builtin:copy") {
		src, ok := call.Call.Args[1].(*ssa.Slice)
		if !ok || !isParamNamed(src.X, "pi") {
			bad = "a copy whose source is not a slice of the proof"
			continue
		}
		lo, hi := int64(0), int64(-1)
		if src.Low != nil {
			lo, _ = eng.ConstInt(src.Low)
		}
		if src.High != nil {
			hi, _ = eng.ConstInt(src.High)
		}
		ivs = append(ivs, iv{lo, hi})
		if dst, isS := call.Call.Args[0].(*ssa.Slice); isS {
			bufs[dst.X] = true
		}
	}
	sort.Slice(ivs, func(i, j int) bool { return ivs[i].lo < ivs[j].lo })
	next := int64(0)
	for _, v := range ivs {
		if v.lo != next || v.hi <= v.lo {
			bad = fmt.Sprintf("the copied slices do not tile the proof: [%d:%d] follows offset %d", v.lo, v.hi, next)
		}
		next = v.hi
	}
	if bad == "" && next != 80 {
		bad = fmt.Sprintf("the copied slices cover the proof only up to byte %d of 80", next)
	}
	// nothing else is written into the decoded buffers
	for _, b := range fn.Blocks {
		for _, in := range b.Instrs {
			st, ok := in.(*ssa.Store)
			if !ok {
				continue
			}
			if ia, isIA := st.Addr.(*ssa.IndexAddr); isIA && bufs[ia.X] {
				bad = "byte " + eng.Desc(ia.Index) + " of a decoded component is overwritten with " + eng.Desc(st.Val) + " (" + c.Pos(st.Pos()) + "): that part of the proof no longer influences verification, so a proof differing only there verifies too"
			}
		}
	}
	r.Check(bad == "", rule, "decodeProof:verbatim", c.Pos(fn.Pos()), "gamma|c|s are plain copies of pi[0:32], pi[32:48], pi[48:80] and nothing else is written into them", "decodeProof: "+bad)
}

// c16Unique: the lottery output is the encoding of Gamma (VRFProof2Hash takes
// proof[:32]), so verification must pin Gamma down to one point: either it
// rejects a Gamma outside the prime-order subgroup, or the output clears the
// cofactor. (Finding F22: neither was done; fixed by the subgroup test.)
func c16Unique(c *eng.Ctx, r *eng.Report) {
	const rule = "R16.7"
	r.Min(rule, 3)
	fn := c.Func(edPkg, "ECVRFVerify")
	p2h := c.Func("consensus/vrf", "VRFProof2Hash")
	if !r.Anchor(fn != nil && p2h != nil, rule, "ed25519.ECVRFVerify / vrf.VRFProof2Hash") {
		return
	}
	// the accepting return is reachable only after inPrimeOrderSubgroup(gamma) returned true,
	// with gamma the point decoded from this proof
	dec := callsNamed(fn, edPkg+".decodeProof")
	var sub *ssa.Call
	for _, call := range callsNamed(fn, edPkg+".inPrimeOrderSubgroup") {
		if ex, ok := call.Call.Args[0].(*ssa.Extract); ok && len(dec) == 1 && ex.Tuple == ssa.Value(dec[0]) && ex.Index == 0 {
			sub = call
		}
	}
	ok := sub != nil
	if ok {
		for _, re := range eng.Returns(fn) {
			if eng.RetClass(re.Ret, 0, re.Pred) == "false" {
				continue
			}
			guarded := false
			for _, cd := range eng.EdgeConds(re.Ret.Block()) {
				if cd.V == ssa.Value(sub) && cd.True {
					guarded = true
				}
			}
			ok = ok && guarded
		}
	}
	clears := len(callsNamed(p2h, "GeScalarMult", "GeDouble", "ScalarMult")) > 0
	r.Check(ok || clears, rule, "ECVRFVerify:gamma-subgroup", c.Pos(fn.Pos()), "acceptance only after inPrimeOrderSubgroup(decoded Gamma) (or the output clears the cofactor)", "ECVRFVerify can accept a proof whose Gamma was not tested for membership in the prime-order subgroup while the lottery output is the raw encoding of Gamma: Gamma shifted by a small-order point verifies for a fraction of the nonces, so one key and message have several accepted proofs with different lottery outputs")
	// the subgroup test multiplies by the group order l = 2^252 + 27742317777372353535851937790883648493
	sg := c.Func(edPkg, "inPrimeOrderSubgroup")
	if sub != nil && r.Anchor(sg != nil, rule, "ed25519.inPrimeOrderSubgroup") {
		okOrder := false
		if g := c.Pkg(edPkg).Var("groupOrder"); g != nil {
			if init := c.Pkg(edPkg).Func("init"); init != nil {
				want := []int64{0xed, 0xd3, 0xf5, 0x5c, 0x1a, 0x63, 0x12, 0x58, 0xd6, 0x9c, 0xf7, 0xa2, 0xde, 0xf9, 0xde, 0x14}
				got := map[int64]int64{}
				for _, b := range init.Blocks {
					for _, in := range b.Instrs {
						st, isSt := in.(*ssa.Store)
						if !isSt {
							continue
						}
						ia, isIA := st.Addr.(*ssa.IndexAddr)
						if !isIA {
							continue
						}
						// element stores of the composite literal that initialises groupOrder
						root := ia.X
						if root != ssa.Value(g) {
							if al, isA := root.(*ssa.Alloc); !isA || !strings.Contains(al.Comment, "complit") {
								continue
							}
						}
						if i, okI := eng.ConstInt(ia.Index); okI {
							if v, okV := eng.ConstInt(st.Val); okV {
								got[i] = v
							}
						}
					}
				}
				okOrder = got[31] == 0x10
				for i, w := range want {
					okOrder = okOrder && got[int64(i)] == w
				}
				for i := int64(16); i < 31; i++ {
					okOrder = okOrder && got[i] == 0
				}
			}
		}
		usesIt := false
		for _, call := range callsNamed(sg, "GeScalarMult") {
			if strings.Contains(eng.Desc(call.Call.Args[1]), "groupOrder") {
				usesIt = true
			}
		}
		// …and the product is compared with the neutral element in full: its 32-byte encoding equals {1,0,…,0}
		// (testing one coordinate only also accepts the order-2 point (0,−1))
		full := false
		for _, re := range eng.Returns(sg) {
			bo, isB := eng.RetValue(re.Ret, 0).(*ssa.BinOp)
			if !isB || bo.Op != token.EQL {
				continue
			}
			for _, pr := range [][2]ssa.Value{{bo.X, bo.Y}, {bo.Y, bo.X}} {
				enc, isU := pr[0].(*ssa.UnOp)
				lit, isL := pr[1].(*ssa.UnOp)
				if !isU || !isL {
					continue
				}
				// enc is the buffer handed to ToBytes of the product
				toBytes := false
				for _, call := range callsNamed(sg, "ExtendedGroupElement).ToBytes") {
					if call.Call.Args[1] == enc.X && strings.Contains(eng.Desc(call.Call.Args[0]), "GeScalarMult(") {
						toBytes = true
					}
				}
				// lit is a composite literal whose only element store is [0] = 1
				one, other := false, false
				if al, isA := lit.X.(*ssa.Alloc); isA {
					for _, ref := range *al.Referrers() {
						if ia, isIA := ref.(*ssa.IndexAddr); isIA {
							for _, r2 := range *ia.Referrers() {
								if st, isSt := r2.(*ssa.Store); isSt {
									i, _ := eng.ConstInt(ia.Index)
									v, _ := eng.ConstInt(st.Val)
									if i == 0 && v == 1 {
										one = true
									} else if v != 0 {
										other = true
									}
								}
							}
						}
					}
				}
				if toBytes && one && !other {
					full = true
				}
			}
		}
		r.Check(full, rule, "inPrimeOrderSubgroup:neutral", c.Pos(sg.Pos()), "l·P is compared with the neutral element through its full 32-byte encoding {1,0,…,0}", "the subgroup test no longer compares the full encoding of l·Gamma with the neutral element: a partial test (e.g. x == 0 only) also accepts the order-2 point (0,−1), so Gamma shifted by it passes for every even challenge and carries a different lottery output")
		r.Check(okOrder && usesIt, rule, "inPrimeOrderSubgroup:order", c.Pos(sg.Pos()), "multiplies by l (little-endian bytes of 2^252+27742317777372353535851937790883648493) and compares with the neutral element", fmt.Sprintf("the subgroup test does not multiply by the group order (constant ok=%v, used=%v)", okOrder, usesIt))
	}
}

// c16WholeMessage: the message and the key enter hash-to-curve whole — through
// Write on the running hash (or an append), never through a copy into a
// fixed-size buffer, which silently truncates: a proof would then verify for
// every message sharing the retained prefix.
func c16WholeMessage(c *eng.Ctx, r *eng.Report) {
	const rule = "R16.8"
	r.Min(rule, 1)
	fn := c.Func(edPkg, "hashToCurve")
	if !r.Anchor(fn != nil, rule, "ed25519.hashToCurve") {
		return
	}
	why := ""
	for _, name := range []string{"m", "pk"} {
		var p *ssa.Parameter
		for _, fp := range fn.Params {
			if fp.Name() == name {
				p = fp
			}
		}
		if p == nil {
			why = "parameter " + name + " is gone"
			continue
		}
		whole, copied := false, false
		var visit func(v ssa.Value, d int)
		visit = func(v ssa.Value, d int) {
			if d > 3 || v.Referrers() == nil {
				return
			}
			for _, ref := range *v.Referrers() {
				switch x := ref.(type) {
				case *ssa.Call:
					n := eng.CallName(&x.Call)
					switch {
					case x.Call.IsInvoke() && x.Call.Method.Name() == "Write":
						whole = true
					case n == "builtin:append":
						whole = true
					case n == "builtin:copy" && len(x.Call.Args) == 2 && x.Call.Args[1] == v:
						copied = true
					case strings.HasSuffix(n, "sha512.Sum512") || strings.HasSuffix(n, ".Write"):
						whole = true
					}
				case *ssa.Slice:
					if x.Low == nil && x.High == nil {
						visit(x, d+1) // v[:] is still the whole of v
					} else {
						copied = true
					}
				case *ssa.ChangeType:
					visit(x, d+1)
				case *ssa.Convert:
					visit(x, d+1)
				}
			}
		}
		visit(p, 0)
		if copied || !whole {
			why = fmt.Sprintf("%s does not enter the hash whole (written/appended whole=%v, sliced or copied into a buffer=%v)", name, whole, copied)
		}
	}
	r.Check(why == "", rule, "hashToCurve:whole-input", c.Pos(fn.Pos()), "H = hash(suite ‖ 0x01 ‖ pk ‖ m) over the whole of pk and m", "hashToCurve: "+why+": bytes beyond the buffer are dropped, so a proof for a long message verifies for every message sharing its retained prefix (a bit flip in the dropped part goes unnoticed)")
}

func c16Qn(c *eng.Ctx, r *eng.Report) {
	const rule = "R16.4"
	r.Min(rule, 2)
	fn := c.Func(logicalPkg, "calQn")
	if r.Anchor(fn != nil, rule, "logical.calQn") {
		clamp, floor1 := false, false
		for _, s := range eng.Sites(fn) {
			if s.Name() == "(*math/big.Rat).Set" {
				for _, cd := range eng.CondsAt(s.Instr) {
					if m, isM := cd.Cmp(); isM && m.Via == "Cmp" && m.Op == token.GTR && strings.Contains(eng.Desc(m.Y), "rat1") {
						clamp = true
					}
				}
			}
		}
		for _, b := range fn.Blocks {
			for _, in := range b.Instrs {
				if bo, ok := in.(*ssa.BinOp); ok && bo.Op == token.ADD {
					if call, isC := bo.X.(*ssa.Call); isC && eng.CallName(&call.Call) == "math.Floor" {
						if cst, isK := bo.Y.(*ssa.Const); isK && cst.Value != nil && cst.Value.ExactString() == "1" {
							floor1 = true
						}
					}
				}
			}
		}
		r.Check(clamp && floor1, rule, "calQn:shape", c.Pos(fn.Pos()), "stake ratio clamped to 1; qn = floor(ratio/step) + 1", fmt.Sprintf("calQn shape changed (clamp to 1=%v, floor+1=%v)", clamp, floor1))
	}
	vp := c.Func(logicalPkg, "validateProve")
	if vp != nil {
		ok := false
		for _, b := range vp.Blocks {
			for _, in := range b.Instrs {
				if bo, isB := in.(*ssa.BinOp); isB {
					if m, isM := eng.DecodeCmp(bo); isM && m.Via == "Cmp" && m.Op == token.LSS && strings.Contains(eng.Desc(m.X), "calcVrfValueRatio(") && strings.Contains(eng.Desc(m.Y), "calcStakeRatio(") {
						ok = true
					}
				}
			}
		}
		r.Check(ok, rule, "validateProve:qualification", c.Pos(vp.Pos()), "qualified iff valueRatio < stakeRatio", "qualification is no longer `calcVrfValueRatio(prove) < calcStakeRatio(...)`")
	}
	vb := c.Func(logicalPkg, "verifyBlockVRF")
	if r.Anchor(vb != nil, rule, "logical.verifyBlockVRF") {
		// true only after VRFVerify ok, validateProve ok and TotalQN == qn + pre.TotalQN
		okV, okP, okQ := false, false, false
		for _, re := range eng.Returns(vb) {
			if eng.RetClass(re.Ret, 0, re.Pred) != "true" {
				continue
			}
			for _, cd := range eng.CondsAt(re.Ret) {
				d := eng.Desc(cd.V)
				if strings.Contains(d, "VRFVerify(") && cd.True {
					okV = true
				}
				if strings.Contains(d, "validateProve(") && cd.True {
					okP = true
				}
				if m, isM := cd.Cmp(); isM && m.Op == token.EQL && (strings.HasSuffix(eng.Desc(m.X), ".TotalQN") || strings.HasSuffix(eng.Desc(m.Y), ".TotalQN")) {
					okQ = true // either side: equality is symmetric
				}
			}
		}
		r.Check(okV && okP && okQ, rule, "verifyBlockVRF:accept-edge", c.Pos(vb.Pos()), "accepts only a verified, qualified proof whose qn matches the header's TotalQN", fmt.Sprintf("verifyBlockVRF accept edge changed (VRFVerify ok=%v, validateProve ok=%v, TotalQN == qn+pre=%v)", okV, okP, okQ))
	}
}

// c16NoLengthGate: the header carries the proof as a big integer.
func c16NoLengthGate(c *eng.Ctx, r *eng.Report) {
	const rule = "R16.10"
	r.Min(rule, 2)
	for _, e := range [][2]string{{"consensus/vrf", "VRFVerify"}, {logicalPkg, "verifyBlockVRF"}} {
		fn := c.Func(e[0], e[1])
		if !r.Anchor(fn != nil, rule, e[0]+"."+e[1]) {
			continue
		}
		bad := ""
		for _, b := range fn.Blocks {
			iff, ok := b.Instrs[len(b.Instrs)-1].(*ssa.If)
			if !ok {
				continue
			}
			for _, cd := range eng.Conjuncts(iff.Cond, true, iff) {
				m, isM := cd.Cmp()
				if !isM {
					continue
				}
				for _, v := range []ssa.Value{m.X, m.Y} {
					d := eng.Desc(v)
					if strings.HasPrefix(d, "builtin:len(") && (strings.Contains(d, "pi") || strings.Contains(strings.ToLower(d), "prove") || strings.Contains(strings.ToLower(d), "proof")) {
						bad = d + " (" + c.Pos(iff.Pos()) + ")"
					}
				}
			}
		}
		r.Check(bad == "", rule, "no-length-gate:"+e[1], c.Pos(fn.Pos()), "no branch on the length of the prove", e[1]+" branches on "+bad+" before the proof reaches the padding in ECVRFVerify: the header stores the proof as a big integer, so one honest proof in 256 arrives with 79 bytes (its leading zero byte gone) and is rejected although it would verify after padding")
	}
}

// c16QnSameThreshold: see R16.11.
func c16QnSameThreshold(c *eng.Ctx, r *eng.Report) {
	const rule = "R16.11"
	r.Min(rule, 1)
	fn := c.Func("consensus/logical", "validateProve")
	if !r.Anchor(fn != nil, rule, "logical.validateProve") {
		return
	}
	var cmp, qn *ssa.CallCommon
	var qnPos token.Pos
	for _, s := range eng.Sites(fn) {
		switch {
		case s.Name() == "(*math/big.Rat).Cmp":
			cmp = s.Common()
		case strings.HasSuffix(s.Name(), "logical.calQn"):
			qn = s.Common()
			qnPos = s.Pos()
		}
	}
	if !r.Anchor(cmp != nil && qn != nil && len(cmp.Args) == 2 && len(qn.Args) == 2, rule, "validateProve: one Rat.Cmp and one calQn call") {
		return
	}
	same := eng.ResolveLocal(cmp.Args[0]) == eng.ResolveLocal(qn.Args[0]) && eng.ResolveLocal(cmp.Args[1]) == eng.ResolveLocal(qn.Args[1])
	r.Check(same, rule, "qn:same-threshold", c.Pos(qnPos), "calQn receives the two values the acceptance comparison was made on", "validateProve compares "+eng.Desc(cmp.Args[0])+" against "+eng.Desc(cmp.Args[1])+" but scales the quality number by calQn("+eng.Desc(qn.Args[0])+", "+eng.Desc(qn.Args[1])+"): a proof accepted under the one threshold is divided by a step of the other, so the quality number of an accepted proof leaves 1..MaxQN (past the Proposal025 difficulty switch: values in the thousands)")
}
