package rules

import (
	"fmt"
	"go/token"
	"go/types"
	"sort"
	"strings"

	"golang.org/x/tools/go/ssa"

	"verif/checker/eng"
)

// selfMutating: module types whose pointer-receiver methods, called inside the
// execution cone, write the receiver's own fields (reviewed). What makes this
// harmless is that the object belongs to one execution (or is the state being
// executed on); a process-wide object — an executor registered in the executor
// table, a manager, a service — that keeps anything between BeforeExecute and
// Execute, or between two transactions, makes the result depend on what else
// ran in the process (a second block being verified concurrently, an eth_call).
var selfMutating = map[string][2]string{
	"*common/sha3.state":                      {"value", "hash state created per hash computation"},
	"*core.GroupForkIterator":                 {"per-execution", "iterator object created by ForkIterator() for one walk"},
	"*core.GroupIterator":                     {"per-execution", "iterator object created by Iterator() for one walk"},
	"*core.VMExecutor":                        {"per-execution", "one VMExecutor is built per block execution (NewVMExecutor)"},
	"*eth_crypto/bls12381.Engine":             {"per-execution", "pairing engine created inside each precompile run"},
	"*eth_crypto/bn256/cloudflare.G1":         {"value", "curve point value"},
	"*eth_crypto/bn256/cloudflare.G2":         {"value", "curve point value"},
	"*eth_crypto/bn256/cloudflare.curvePoint": {"value", "curve point value"},
	"*eth_crypto/bn256/cloudflare.gfP2":       {"value", "field element value"},
	"*middleware/types.JSONObject":            {"value", "JSON value under construction"},
	"*middleware/types.RefundInfoList":        {"value", "refund list decoded from and re-encoded into the state"},
	"*storage/account.AccountDB":              {"state", "the state object being executed on (journal, object cache, refund counter); C04 decides its journal"},
	"*storage/account.accessList":             {"state", "EIP-2929 access list of the state object"},
	"*storage/account.accountObject":          {"state", "account object of the state being executed on"},
	"*storage/rlp.Stream":                     {"per-execution", "decoder stream; pooled instances are reset on Get (R1.1 reset-pool)"},
	"*storage/rlp.encbuf":                     {"per-execution", "encoder buffer; pooled instances are reset on Get (R1.1 reset-pool)"},
	"*storage/trie.Iterator":                  {"per-execution", "iterator created per walk"},
	"*storage/trie.nodeIterator":              {"per-execution", "iterator created per walk"},
	"*storage/trie.nodeIteratorState":         {"per-execution", "iterator frame"},
	"*storage/trie.Trie":                      {"state", "trie of the state being executed on (C02 decides its shape)"},
	"*storage/trie.NodeDatabase":              {"content-addressed", "node cache keyed by node hash: insert/reference bookkeeping cannot change what a lookup by hash returns (C03 decides durability)"},
	"*vm.Contract":                            {"per-execution", "call frame"},
	"*vm.Memory":                              {"per-execution", "call frame memory"},
	"*vm.Stack":                               {"per-execution", "call frame stack; pooled instances truncated on return (R1.1 reset-pool)"},
	"*vm.codeAndHash":                         {"per-execution", "lazy hash of the init code of one CREATE"},
}

// recvRoot: is addr a field (possibly nested / embedded) of fn's pointer receiver?
func recvRoot(fn *ssa.Function, addr ssa.Value) bool {
	if fn.Signature.Recv() == nil || len(fn.Params) == 0 {
		return false
	}
	if _, isPtr := fn.Signature.Recv().Type().Underlying().(*types.Pointer); !isPtr {
		return false
	}
	recv := fn.Params[0]
	for i := 0; i < 6; i++ {
		switch x := addr.(type) {
		case *ssa.FieldAddr:
			addr = x.X
		case *ssa.IndexAddr:
			addr = x.X
		case *ssa.UnOp:
			if x.Op != token.MUL {
				return false
			}
			addr = x.X
		case *ssa.Parameter:
			return x == recv
		default:
			return false
		}
	}
	return false
}

// c01ReceiverState (R1.6): every module type that mutates itself inside the
// execution cone is a reviewed per-execution / state / value type, and no
// package-level variable holds an instance of a per-execution or value type.
func c01ReceiverState(c *eng.Ctx, r *eng.Report, cone *eng.Cone) {
	const rule = "R1.6"
	r.Min(rule, 20)
	type hit struct {
		pos   token.Pos
		fn    *ssa.Function
		field string
		n     int
	}
	found := map[string]*hit{}
	note := func(fn *ssa.Function, addr ssa.Value, pos token.Pos) {
		if !recvRoot(fn, addr) {
			return
		}
		t := eng.ShortType(fn.Signature.Recv().Type())
		h := found[t]
		if h == nil {
			_, f := eng.FieldOf(addr)
			h = &hit{pos: pos, fn: fn, field: f}
			found[t] = h
		}
		h.n++
	}
	for _, fn := range cone.Sorted() {
		if !eng.InMod(fn) || c.IsTestFunc(fn) {
			continue
		}
		for _, b := range fn.Blocks {
			for _, in := range b.Instrs {
				switch x := in.(type) {
				case *ssa.Store:
					if _, isF := x.Addr.(*ssa.FieldAddr); isF {
						note(fn, x.Addr, x.Pos())
					}
				case *ssa.MapUpdate:
					note(fn, x.Map, x.Pos())
				}
			}
		}
	}
	// package-level variables by (pointer-stripped) type
	globalsOf := map[string]string{}
	for path, p := range c.SSA {
		if !strings.HasPrefix(path, eng.Mod+"/") {
			continue
		}
		for _, m := range p.Members {
			if g, ok := m.(*ssa.Global); ok {
				t := g.Type().(*types.Pointer).Elem()
				if pt, isP := t.(*types.Pointer); isP {
					t = pt.Elem()
				}
				globalsOf["*"+eng.ShortType(t)] = p.Pkg.Name() + "." + g.Name()
			}
		}
	}
	var ks []string
	for k := range found {
		ks = append(ks, k)
	}
	sort.Strings(ks)
	for _, t := range ks {
		h := found[t]
		key := "receiver-state:" + strings.TrimPrefix(t, "*")
		rv, ok := selfMutating[t]
		if !ok {
			r.Fail(rule, key, c.Pos(h.pos), fmt.Sprintf("%s writes its receiver's field %s inside the execution cone (%s) and %s is not a reviewed per-execution type: an object that outlives one execution — an executor registered in the executor table, a manager, a service — carries what one transaction or one concurrent execution left in it into the next, so the result of executing a block is no longer a function of (pre-state, block)", eng.FuncName(h.fn), h.field, cone.PathTo(h.fn), t))
			continue
		}
		if g := globalsOf[t]; g != "" && rv[0] == "per-execution" {
			r.Fail(rule, key, c.Pos(h.pos), fmt.Sprintf("%s is reviewed as %s (%s) but the package-level variable %s now holds an instance: a shared instance mutated inside the execution cone", t, rv[0], rv[1], g))
			continue
		}
		r.Pass(rule, key, c.Pos(h.pos), fmt.Sprintf("%s: %s (%d writes in the cone)", rv[0], rv[1], h.n))
	}
}
