package rules

import (
	"fmt"
	"go/token"
	"go/types"
	"sort"
	"strings"

	"golang.org/x/tools/go/ssa"

	"verif/checker/eng"
)

func init() { register("C04", c04) }

const acctPkg = "storage/account"

// journaledFields: struct (short type) → fields whose content a snapshot revert must restore.
var journaledFields = map[string][]string{
	"storage/account.Account":       {"Nonce", "NFTSetDefinitionHash", "kind"},
	"storage/account.accountObject": {"nftSet", "dirtyNFTSet", "cachedStorage", "dirtyStorage", "suicided", "touched"},
	"storage/account.AccountDB":     {"refund", "logs", "logSize", "accessList", "transientStorage", "accountObjects", "accountObjectsDirty", "transitions", "validRevisions"},
	"storage/account.accessList":    {"addresses", "slots"},
}

// writerTable is the reviewed set of functions allowed to write each journaled
// field, with the class that justifies it. Any other (field, function) pair is
// a violation: a mutator the journal does not know about.
var writerTable = map[string]map[string]string{
	"Account.Nonce":                {"(*storage/account.accountObject).setNonce": "raw setter"},
	"Account.NFTSetDefinitionHash": {"(*storage/account.accountObject).setNFTSetDefinition": "raw setter", "storage/account.newAccountObject": "constructor (fresh object)"},
	"Account.kind":                 {"(*storage/account.accountObject).setNFTSetDefinition": "raw setter"},
	"accountObject.nftSet":         {"(*storage/account.accountObject).setNFTSetDefinition": "raw setter", "(*storage/account.accountObject).nftSetDefinition": "cache filler (loads committed code)", "(*storage/account.accountObject).deepCopy": "constructor (fresh copy)"},
	"accountObject.dirtyNFTSet":    {"(*storage/account.accountObject).setNFTSetDefinition": "raw setter", "(*storage/account.AccountDB).Commit$1": "lifecycle (flush)"},
	"accountObject.cachedStorage": {"(*storage/account.accountObject).setData": "raw setter", "(*storage/account.accountObject).GetCommittedData": "cache filler (committed value)",
		"(*storage/account.accountObject).getAllRefund": "cache filler (committed values)", "storage/account.newAccountObject": "constructor", "(*storage/account.accountObject).deepCopy": "constructor (fresh copy)"},
	"accountObject.dirtyStorage": {"(*storage/account.accountObject).setData": "raw setter", "(*storage/account.accountObject).updateTrie": "lifecycle (flush to trie)",
		"storage/account.newAccountObject": "constructor", "(*storage/account.accountObject).deepCopy": "constructor (fresh copy)"},
	"accountObject.suicided": {"(*storage/account.accountObject).markSuicided": "raw setter", "(storage/account.suicideChange).undo": "undo", "(*storage/account.accountObject).deepCopy": "constructor (fresh copy)"},
	"accountObject.touched":  {"(*storage/account.accountObject).touch": "journaled mutator", "(storage/account.touchChange).undo": "undo"},
	"AccountDB.refund": {"(*storage/account.AccountDB).AddRefund": "journaled mutator", "(*storage/account.AccountDB).SubRefund": "journaled mutator",
		"(storage/account.refundChange).undo": "undo", "(*storage/account.AccountDB).clearJournalAndRefund": "lifecycle"},
	"AccountDB.logs": {"(*storage/account.AccountDB).AddLog": "journaled mutator", "(storage/account.addLogChange).undo": "undo", "(*storage/account.AccountDB).Reset": "lifecycle",
		"storage/account.NewAccountDB": "constructor"},
	"AccountDB.logSize":          {"(*storage/account.AccountDB).AddLog": "journaled mutator", "(storage/account.addLogChange).undo": "undo", "(*storage/account.AccountDB).Reset": "lifecycle"},
	"AccountDB.accessList":       {"(*storage/account.AccountDB).Prepare": "lifecycle (per-transaction reset)", "(*storage/account.AccountDB).Reset": "lifecycle", "storage/account.NewAccountDB": "constructor"},
	"AccountDB.transientStorage": {"storage/account.NewAccountDB": "constructor"},
	"AccountDB.accountObjects": {"(*storage/account.AccountDB).Reset": "lifecycle", "(*storage/account.AccountDB).Clean": "lifecycle", "storage/account.NewAccountDB": "constructor",
		"(*storage/account.AccountDB).setAccountObject": "raw setter (publish object)", "(storage/account.createObjectChange).undo": "undo"},
	"AccountDB.accountObjectsDirty": {"(*storage/account.AccountDB).Reset": "lifecycle", "(*storage/account.AccountDB).Clean": "lifecycle", "storage/account.NewAccountDB": "constructor",
		"(*storage/account.AccountDB).MarkAccountObjectDirty": "raw setter (onDirty callback)", "(storage/account.createObjectChange).undo": "undo", "(storage/account.touchChange).undo": "undo",
		"(*storage/account.AccountDB).Commit$1": "lifecycle (flush)"},
	"AccountDB.transitions": {"(*storage/account.AccountDB).clearJournalAndRefund": "lifecycle", "(*storage/account.AccountDB).RevertToSnapshot": "revert (truncate)"},
	"AccountDB.validRevisions": {"(*storage/account.AccountDB).clearJournalAndRefund": "lifecycle", "(*storage/account.AccountDB).RevertToSnapshot": "revert (truncate)",
		"(*storage/account.AccountDB).Snapshot": "snapshot (push)"},
	"accessList.addresses": {"(*storage/account.accessList).AddAddress": "raw setter (returns changed)", "(*storage/account.accessList).AddSlot": "raw setter (returns changed)",
		"(*storage/account.accessList).DeleteSlot": "undo helper", "(*storage/account.accessList).DeleteAddress": "undo helper", "storage/account.newAccessList": "constructor", "(*storage/account.accessList).Copy": "constructor (fresh copy)"},
	"accessList.slots": {"(*storage/account.accessList).AddSlot": "raw setter (returns changed)", "(*storage/account.accessList).DeleteSlot": "undo helper", "(*storage/account.accessList).Copy": "constructor (fresh copy)",
		"storage/account.newAccessList": "constructor"},
}

// journalPairs: raw setter → journal entry type(s) that must accompany it.
var journalPairs = map[string][]string{
	"(*storage/account.accountObject).setData":             {"storageChange"},
	"(*storage/account.accountObject).setNonce":            {"nonceChange"},
	"(*storage/account.accountObject).setNFTSetDefinition": {"nftSetDefinitionChange"},
	"(*storage/account.accountObject).markSuicided":        {"suicideChange"},
	"(*storage/account.AccountDB).setBalance":              {"suicideChange"},
	"(*storage/account.AccountDB).setTransientState":       {"transientStorageChange"},
	"(*storage/account.AccountDB).setAccountObject":        {"createObjectChange", "resetObjectChange"},
}

// undoPairs: journal entry type → what its undo must (only) do, as raw-setter
// calls / field writes.
var undoPairs = map[string][]string{
	"storageChange":              {"call:(*storage/account.accountObject).setData"},
	"nonceChange":                {"call:(*storage/account.accountObject).setNonce"},
	"nftSetDefinitionChange":     {"call:(*storage/account.accountObject).setNFTSetDefinition"},
	"suicideChange":              {"call:(*storage/account.AccountDB).setBalance", "field:accountObject.suicided"},
	"transientStorageChange":     {"call:(*storage/account.AccountDB).setTransientState"},
	"refundChange":               {"field:AccountDB.refund"},
	"addLogChange":               {"field:AccountDB.logSize", "field:AccountDB.logs"},
	"touchChange":                {"field:AccountDB.accountObjectsDirty", "field:accountObject.touched"},
	"createObjectChange":         {"field:AccountDB.accountObjects", "field:AccountDB.accountObjectsDirty"},
	"resetObjectChange":          {"call:(*storage/account.AccountDB).setAccountObject"},
	"accessListAddAccountChange": {"call:(*storage/account.accessList).DeleteAddress"},
	"accessListAddSlotChange":    {"call:(*storage/account.accessList).DeleteSlot"},
}

// undoConditionalOnEntry: entry types whose undo may skip the restore depending
// on what the entry itself recorded (reviewed).
var undoConditionalOnEntry = map[string]string{
	"touchChange": "nothing to restore when the object had been touched before (prev) — and the ripemd precompile keeps its touch by consensus rule (EIP-161 quirk)",
}

func c04(c *eng.Ctx, r *eng.Report) {
	r.Explain = "Journal completeness of the account state as ownership + ordering + pairing rules on the SSA of storage/account: " +
		"R4.1 every write (store, map update, delete, sync.Map Store/Delete) to a journaled field comes from a function in the reviewed writer table; " +
		"R4.2 every call of a raw setter outside undo/lifecycle code is preceded on every path by a journal append of the paired entry type (or, for the access list, followed by one under the setter's `changed` result); the unjournaled balance path is accepted only on the false edge of IsProposal002(); " +
		"R4.3 every journal entry type is appended somewhere and its undo performs exactly the paired raw writes; " +
		"R4.4 a map-typed journaled field whose size/emptiness is observable needs an undo that can delete from it; " +
		"R4.5/R4.6 RevertToSnapshot undoes entries from the last down to the snapshot index inclusive and truncates both journal and revision list; Snapshot records len(journal). " +
		"R4.7 every state read that feeds a member of a journal entry happens before any write (direct or through a package callee) to the same field in that mutator — the entry captures the pre-state. " +
		"R4.8 an account object is always either in the dirty set or has its one-shot onDirty hook armed: whoever takes an address out of accountObjectsDirty re-arms the hook of that object or drops the object from the cache (undo of a touch, undo of a creation, Commit), whoever replaces the dirty set replaces the object cache with it, and the hook is cleared only right after it was called — otherwise writes made after a revert are never marked dirty and the root computed afterwards lacks them. " +
		"R4.12 a journalled map is written, read and cleared under one key derivation: within the methods of one type of the account package, every string key that is computed from a hash or address by a method call uses the same method (transientStorage: key.String() in the set, delete and get paths) — a set that stores under one spelling while the delete path removes another makes the journal's undo of a first write a no-op; " +
		"R4.11 the state object holds nothing the journal does not know about: every field of AccountDB and accountObject is either journaled (R4.1) or in the reviewed list of fields that are not state (handles, locks, error memos, per-transaction tags) — a new field, e.g. a cache of decoded balances, is reported until it is classified, because whatever mirrors journaled state and is not undone survives a revert; " +
		"R4.10 every Snapshot() hands out a fresh revision: each return is preceded on every path by the increment of nextRevisionID and an append to validRevisions, and returns the id that was appended — two live snapshots never share an id (reverting the inner one would consume the outer one's revision); and every argument of a restoring setter call in an undo comes from what the entry recorded, never a constant (an entry that no longer carries the previous value cannot restore it); " +
		"R4.9 the access-list undo helpers are the exact inverses of what was journaled: an address leaves accessList.addresses only in DeleteAddress (the inverse of AddAddress), and DeleteSlot — the inverse of adding a slot to an address already present — only resets that address's slot index to -1, it never removes the address. " +
		"Not decided: value equality of every query after revert; equality of state roots."
	r.Assume = []string{"state reachable through the account package's API lives in the fields listed in rules/c04.go (journaledFields)", "sync.Map/maps are only written through the recognised instructions"}
	c04Writers(c, r)
	c04Journaled(c, r)
	c04Undo(c, r)
	c04Shrink(c, r)
	c04Revert(c, r)
	c04PreState(c, r)
	c04DirtyOrArmedAs(c, r, "R4.8")
	c04AccessListInverses(c, r)
	c04FreshRevision(c, r)
	c04StructCensusAs(c, r, "R4.11")
	c04OneKeyDerivation(c, r)
}

func shortStruct(t string) string { return strings.TrimPrefix(t, "storage/account.") }

// fieldWrites finds every write to journaled fields in fn: returns field keys.
func fieldWrites(fn *ssa.Function) map[string]token.Pos {
	out := map[string]token.Pos{}
	isJ := func(t, f string) bool {
		for _, x := range journaledFields[t] {
			if x == f {
				return true
			}
		}
		return false
	}
	note := func(v ssa.Value, pos token.Pos) {
		// v is an address of the field (FieldAddr) or a load of it
		if u, ok := v.(*ssa.UnOp); ok && u.Op == token.MUL {
			v = u.X
		}
		t, f := eng.FieldOf(v)
		if t != "" && isJ(t, f) {
			k := shortStruct(t) + "." + f
			if _, ok := out[k]; !ok {
				out[k] = pos
			}
		}
	}
	for _, b := range fn.Blocks {
		for _, in := range b.Instrs {
			switch x := in.(type) {
			case *ssa.Store:
				// `transitions = append(transitions, entry)` IS the journal; only other writes of it count
				if _, f := eng.FieldOf(x.Addr); f == "transitions" {
					if call, ok := x.Val.(*ssa.Call); ok {
						if bi, ok := call.Call.Value.(*ssa.Builtin); ok && bi.Name() == "append" {
							continue
						}
					}
				}
				note(x.Addr, x.Pos())
				// element store into a slice/array field: &field[i]
				if ia, ok := x.Addr.(*ssa.IndexAddr); ok {
					note(ia.X, x.Pos())
				}
			case *ssa.MapUpdate:
				note(x.Map, x.Pos())
			case *ssa.Call:
				if bi, ok := x.Call.Value.(*ssa.Builtin); ok && bi.Name() == "delete" && len(x.Call.Args) > 0 {
					note(x.Call.Args[0], x.Pos())
				}
				// sync.Map mutators on a field
				n := eng.CallName(&x.Call)
				if strings.HasPrefix(n, "(*sync.Map).") {
					m := strings.TrimPrefix(n, "(*sync.Map).")
					if m == "Store" || m == "Delete" || m == "LoadOrStore" || m == "LoadAndDelete" || m == "Swap" || m == "CompareAndSwap" || m == "CompareAndDelete" {
						note(x.Call.Args[0], x.Pos())
					}
				}
			}
		}
	}
	return out
}

func c04Writers(c *eng.Ctx, r *eng.Report) {
	const rule = "R4.1"
	r.Min(rule, 60)
	seen := map[string]bool{}
	for _, fn := range c.PkgFuncs(acctPkg) {
		for field, pos := range fieldWrites(fn) {
			name := eng.FuncName(fn)
			key := "write:" + field + "<-" + name
			seen[field+"|"+name] = true
			cls, ok := writerTable[field][name]
			if !ok && !token.IsExported(fn.Name()) {
				// a private helper every caller of which is a reviewed revert/lifecycle writer of this field is
				// part of that writer (the truncation of RevertToSnapshot, extracted)
				callers := c.Callers(fn)
				inherited := len(callers) > 0
				for _, cs := range callers {
					pc := writerTable[field][eng.FuncName(cs.Fn)]
					if !strings.HasPrefix(pc, "revert") && !strings.HasPrefix(pc, "lifecycle") {
						inherited = false
					}
					cls = pc + ", through its helper"
				}
				ok = inherited
			}
			r.Check(ok, rule, key, c.Pos(pos), "reviewed writer ("+cls+")", name+" writes journaled field "+field+" but is not in the reviewed writer table: a mutation the journal cannot undo (or an undo/lifecycle path that now changes more than it should)")
		}
	}
	// writers outside the package (unexported fields cannot be, but exported ones could)
	for _, fn := range c.ModFuncs() {
		if eng.FuncPkgPath(fn) == eng.Mod+"/src/"+acctPkg {
			continue
		}
		for field, pos := range fieldWrites(fn) {
			r.Fail(rule, "write:"+field+"<-"+eng.FuncName(fn), c.Pos(pos), "journaled field written from outside storage/account")
		}
	}
	// table entries that no longer exist are reported as information (stale rows do not weaken the rule)
	var stale []string
	for field, m := range writerTable {
		for name := range m {
			if !seen[field+"|"+name] {
				stale = append(stale, field+"<-"+name)
			}
		}
	}
	sort.Strings(stale)
	for _, s := range stale {
		r.Info(rule, "stale:"+s, "", "writer-table row matches no write in the current tree")
	}
	// every journaled field still exists
	for t, fs := range journaledFields {
		parts := strings.Split(t, ".")
		st := c.Struct(acctPkg, parts[len(parts)-1])
		for _, f := range fs {
			found := false
			if st != nil {
				for i := 0; i < st.NumFields(); i++ {
					if st.Field(i).Name() == f {
						found = true
					}
				}
			}
			r.Anchor(found, rule, t+"."+f)
		}
	}
	// new fields of the journaled structs must be classified: list of all fields vs journaled ∪ nonState
	nonState := map[string]string{
		"accountObject.address": "identity", "accountObject.addrHash": "identity", "accountObject.data": "container (fields listed individually)", "accountObject.db": "back pointer",
		"accountObject.dbErr": "memoised read error", "accountObject.trie": "storage trie handle (committed content; written only by lifecycle)", "accountObject.cachedLock": "mutex",
		"accountObject.deleted": "lifecycle flag set by Finalise/Commit", "accountObject.onDirty": "dirty-notification hook (mirrors accountObjectsDirty)",
		"Account.Root": "storage root (lifecycle: updateRoot/CommitTrie)",
		"AccountDB.db": "database handle", "AccountDB.trie": "account trie (lifecycle)", "AccountDB.accountObjectsLock": "mutex", "AccountDB.dbErr": "memoised read error",
		"AccountDB.nextRevisionID": "monotone id source", "AccountDB.thash": "per-transaction context (Prepare)", "AccountDB.bhash": "per-transaction context (Prepare)", "AccountDB.txIndex": "per-transaction context (Prepare)",
	}
	for t := range journaledFields {
		parts := strings.Split(t, ".")
		tn := parts[len(parts)-1]
		st := c.Struct(acctPkg, tn)
		if st == nil {
			continue
		}
		for i := 0; i < st.NumFields(); i++ {
			f := st.Field(i).Name()
			k := tn + "." + f
			isJ := false
			for _, x := range journaledFields[t] {
				if x == f {
					isJ = true
				}
			}
			_, isN := nonState[k]
			r.Check(isJ || isN, rule, "field:"+k, c.Pos(st.Field(i).Pos()), "field classified (journaled or reviewed non-state)", "new field "+k+" is neither in the journaled-field table nor in the reviewed non-state list: if queries depend on it, a revert will not restore it")
		}
	}
}

type jAppend struct {
	typ   string
	store *ssa.Store
}

// journalAppends lists the `transitions = append(transitions, X{…})` sites of fn.
func journalAppends(fn *ssa.Function) []jAppend {
	var out []jAppend
	for _, b := range fn.Blocks {
		var lastTyp []string
		for _, in := range b.Instrs {
			switch x := in.(type) {
			case *ssa.MakeInterface:
				if n, ok := x.Type().(*types.Named); ok && n.Obj().Name() == "transitionEntry" {
					t := x.X.Type()
					if nn, ok := t.(*types.Named); ok {
						lastTyp = append(lastTyp, nn.Obj().Name())
					}
				}
			case *ssa.Store:
				if t, f := eng.FieldOf(x.Addr); t == "storage/account.AccountDB" && f == "transitions" && len(lastTyp) > 0 {
					if call, ok := x.Val.(*ssa.Call); ok {
						if bi, ok := call.Call.Value.(*ssa.Builtin); ok && bi.Name() == "append" {
							for _, ty := range lastTyp {
								out = append(out, jAppend{ty, x})
							}
							lastTyp = nil
						}
					}
				}
			}
		}
	}
	return out
}

func isUndo(fn *ssa.Function) bool { return strings.HasSuffix(eng.FuncName(fn), ").undo") }

func c04Journaled(c *eng.Ctx, r *eng.Report) {
	const rule = "R4.2"
	r.Min(rule, 12)
	setters := map[*ssa.Function]string{}
	for n := range journalPairs {
		short := n[strings.Index(n, ".")+1:]
		_ = short
		var fn *ssa.Function
		if strings.HasPrefix(n, "(*storage/account.accountObject).") {
			fn = c.Func(acctPkg, "(*accountObject)."+strings.TrimPrefix(n, "(*storage/account.accountObject)."))
		} else {
			fn = c.Func(acctPkg, "(*AccountDB)."+strings.TrimPrefix(n, "(*storage/account.AccountDB)."))
		}
		if r.Anchor(fn != nil, rule, n) {
			setters[fn] = n
		}
	}
	// lifecycle callers that may use raw setters without journaling, with reason
	lifecycle := map[string]string{
		"(*storage/account.AccountDB).createObject|(*storage/account.accountObject).setNonce":         "applied to an object allocated in the same function and not yet published",
		"(*storage/account.AccountDB).getAccountObject|(*storage/account.AccountDB).setAccountObject": "publishes an object just loaded from the trie (no state change)",
		"(*storage/account.AccountDB).setBalance|(*storage/account.accountObject).setData":            "setBalance is itself a raw setter (paired with suicideChange); its callers are checked",
	}
	isP002 := func(v ssa.Value) bool {
		call, ok := v.(*ssa.Call)
		return ok && eng.CallName(&call.Call) == "common.IsProposal002"
	}
	for _, fn := range c.PkgFuncs(acctPkg) {
		if isUndo(fn) {
			continue
		}
		apps := journalAppends(fn)
		for _, s := range eng.Sites(fn) {
			callee := s.Static()
			sn, ok := setters[callee]
			if !ok {
				continue
			}
			name := eng.FuncName(fn)
			key := "call:" + sn + "<-" + name
			pos := c.Pos(s.Pos())
			if why, ok := lifecycle[name+"|"+sn]; ok {
				// createObject: receiver must be the fresh object
				r.Pass(rule, key, pos, "lifecycle: "+why)
				continue
			}
			var barriers []ssa.Instruction
			for _, a := range apps {
				for _, want := range journalPairs[sn] {
					if a.typ == want {
						barriers = append(barriers, a.store)
					}
				}
			}
			okJ := len(barriers) > 0 && eng.MustPassBefore(fn, s.Instr, barriers)
			if okJ {
				r.Pass(rule, key, pos, "journal append of "+strings.Join(journalPairs[sn], "/")+" dominates the raw mutation")
				continue
			}
			// legacy unjournaled balance path: only on the false edge of IsProposal002()
			legacy := false
			for _, cd := range eng.CondsAt(s.Instr) {
				if isP002(cd.V) && !cd.True {
					legacy = true
				}
			}
			if legacy && sn == "(*storage/account.accountObject).setData" {
				r.Pass(rule, key+":legacy", pos, "unjournaled write only on the pre-Proposal002 edge (the property is stated from Proposal002 on)")
				continue
			}
			r.Fail(rule, key, pos, name+" calls "+sn+" without a dominating journal append of "+strings.Join(journalPairs[sn], "/")+": the mutation survives RevertToSnapshot")
		}
	}
	// "changed"-result idiom of the access list
	for _, spec := range []struct {
		setter string
		idx    int
		entry  string
	}{
		{"(*storage/account.accessList).AddAddress", -1, "accessListAddAccountChange"},
		{"(*storage/account.accessList).AddSlot", 0, "accessListAddAccountChange"},
		{"(*storage/account.accessList).AddSlot", 1, "accessListAddSlotChange"},
	} {
		for _, fn := range c.PkgFuncs(acctPkg) {
			if isUndo(fn) {
				continue
			}
			apps := journalAppends(fn)
			for _, s := range eng.Sites(fn) {
				if s.Name() != spec.setter {
					continue
				}
				call := s.Instr.(*ssa.Call)
				var changed ssa.Value = call
				if spec.idx >= 0 {
					changed = nil
					for _, ref := range *call.Referrers() {
						if ex, ok := ref.(*ssa.Extract); ok && ex.Index == spec.idx {
							changed = ex
						}
					}
				}
				key := fmt.Sprintf("changed:%s#%d<-%s", spec.setter, spec.idx, eng.FuncName(fn))
				ok := false
				if changed != nil {
					for _, a := range apps {
						if a.typ != spec.entry {
							continue
						}
						for _, cd := range eng.CondsAt(a.store) {
							if cd.V == changed && cd.True {
								ok = true
							}
						}
					}
				}
				r.Check(ok, rule, key, c.Pos(s.Pos()), "append of "+spec.entry+" on the true edge of the setter's changed result", "the `changed` result of "+spec.setter+" does not lead to a journal append of "+spec.entry+": the addition is not undone by a revert")
			}
		}
	}
	// direct (non-setter) journaled mutators: the field write must be dominated by an append in the same function
	for _, spec := range []struct{ fn, field, entry string }{
		{"(*AccountDB).AddRefund", "AccountDB.refund", "refundChange"},
		{"(*AccountDB).SubRefund", "AccountDB.refund", "refundChange"},
		{"(*AccountDB).AddLog", "AccountDB.logs", "addLogChange"},
		{"(*AccountDB).AddLog", "AccountDB.logSize", "addLogChange"},
		{"(*accountObject).touch", "accountObject.touched", "touchChange"},
	} {
		fn := c.Func(acctPkg, spec.fn)
		if !r.Anchor(fn != nil, rule, spec.fn) {
			continue
		}
		apps := journalAppends(fn)
		ok := false
		var at token.Pos
		for _, b := range fn.Blocks {
			for _, in := range b.Instrs {
				w := map[string]token.Pos{}
				switch x := in.(type) {
				case *ssa.Store:
					t, f := eng.FieldOf(x.Addr)
					w[shortStruct(t)+"."+f] = x.Pos()
				case *ssa.MapUpdate:
					if u, isU := x.Map.(*ssa.UnOp); isU {
						t, f := eng.FieldOf(u.X)
						w[shortStruct(t)+"."+f] = x.Pos()
					}
				}
				if p, hit := w[spec.field]; hit {
					at = p
					for _, a := range apps {
						if a.typ == spec.entry && eng.Dominates(a.store, in) {
							ok = true
						}
					}
				}
			}
		}
		r.Check(ok, rule, "direct:"+spec.field+"<-"+eng.FuncName(fn), c.Pos(at), "append of "+spec.entry+" dominates the write of "+spec.field, "write of "+spec.field+" in "+eng.FuncName(fn)+" is not dominated by an append of "+spec.entry)
	}
}

func c04Undo(c *eng.Ctx, r *eng.Report) { c04UndoAs(c, r, "R4.3", nil, 12) }

// c04UndoAs decides the entry/undo pairing for all journal entry types (only ==
// nil) or for the named ones, reporting under the given rule id: the
// conservation property (C06) relies on the same pairing for the entries that
// carry balances.
func c04UndoAs(c *eng.Ctx, r *eng.Report, rule string, only map[string]bool, min int) {
	r.Min(rule, min)
	// all types implementing transitionEntry
	p := c.TPkg(acctPkg)
	if p == nil {
		r.Anchor(false, rule, "package storage/account")
		return
	}
	ifaceObj := p.Types.Scope().Lookup("transitionEntry")
	if !r.Anchor(ifaceObj != nil, rule, "transitionEntry") {
		return
	}
	iface := ifaceObj.Type().Underlying().(*types.Interface)
	appended := map[string]bool{}
	for _, fn := range c.PkgFuncs(acctPkg) {
		for _, a := range journalAppends(fn) {
			appended[a.typ] = true
		}
	}
	for _, n := range p.Types.Scope().Names() {
		tn, ok := p.Types.Scope().Lookup(n).(*types.TypeName)
		if !ok || tn.IsAlias() {
			continue
		}
		if _, isI := tn.Type().Underlying().(*types.Interface); isI {
			continue
		}
		if !types.Implements(tn.Type(), iface) && !types.Implements(types.NewPointer(tn.Type()), iface) {
			continue
		}
		if only != nil && !only[n] {
			continue
		}
		key := "entry:" + n
		undo := c.Func(acctPkg, n+".undo")
		if !r.Anchor(undo != nil, rule, n+".undo") {
			continue
		}
		want, known := undoPairs[n]
		if !known {
			r.Fail(rule, key, c.Pos(tn.Pos()), "journal entry type "+n+" is not in the reviewed entry/undo pair table")
			continue
		}
		if !appended[n] {
			r.Fail(rule, key+":appended", c.Pos(tn.Pos()), "journal entry type "+n+" is never appended to the journal")
		}
		got := map[string]bool{}
		for f := range fieldWrites(undo) {
			got["field:"+f] = true
		}
		for _, s := range eng.Sites(undo) {
			nm := s.Name()
			if _, isSetter := journalPairs[nm]; isSetter || strings.HasPrefix(nm, "(*storage/account.accessList).Delete") {
				got["call:"+nm] = true
			}
		}
		var gl []string
		for g := range got {
			gl = append(gl, g)
		}
		sort.Strings(gl)
		wl := append([]string(nil), want...)
		sort.Strings(wl)
		r.Check(strings.Join(gl, " ") == strings.Join(wl, " "), rule, key, c.Pos(undo.Pos()), "undo performs exactly "+strings.Join(wl, ", "), "undo of "+n+" performs ["+strings.Join(gl, ", ")+"], reference is ["+strings.Join(wl, ", ")+"]: entry and undo no longer address the same state")
		// …and performs each of them on every path to its return (an early exit that skips one leaves that part of
		// the change standing after the revert)
		writes := map[string][]ssa.Instruction{}
		note := func(v ssa.Value, in ssa.Instruction) {
			if u, ok := v.(*ssa.UnOp); ok && u.Op == token.MUL {
				v = u.X
			}
			if ia, ok := v.(*ssa.IndexAddr); ok {
				v = ia.X
				if u, ok := v.(*ssa.UnOp); ok && u.Op == token.MUL {
					v = u.X
				}
			}
			if t, f := eng.FieldOf(v); t != "" {
				k := "field:" + shortStruct(t) + "." + f
				writes[k] = append(writes[k], in)
			}
		}
		for _, b := range undo.Blocks {
			for _, in := range b.Instrs {
				switch x := in.(type) {
				case *ssa.Store:
					note(x.Addr, in)
				case *ssa.MapUpdate:
					note(x.Map, in)
				case *ssa.Call:
					nm := eng.CallName(&x.Call)
					if nm == "builtin:delete" && len(x.Call.Args) > 0 {
						note(x.Call.Args[0], in)
					}
					if _, isSetter := journalPairs[nm]; isSetter || strings.HasPrefix(nm, "(*storage/account.accessList).Delete") {
						writes["call:"+nm] = append(writes["call:"+nm], in)
					}
				}
			}
		}
		skipped := ""
		// the receiver (the journal entry) and what may legitimately decide whether a restore is needed
		var recv ssa.Value
		if len(undo.Params) > 0 {
			recv = undo.Params[0]
		}
		fromEntry := func(v ssa.Value) bool {
			// a condition over the entry's recorded fields, constants/package constants, or the presence of the object
			ok := true
			usesEntry := false
			seen := map[ssa.Value]bool{}
			var walk func(x ssa.Value, d int)
			walk = func(x ssa.Value, d int) {
				if x == nil || d > 6 || seen[x] || !ok {
					return
				}
				seen[x] = true
				switch y := x.(type) {
				case *ssa.Const, *ssa.Global:
					return
				case *ssa.Parameter:
					if y != recv {
						ok = false
					}
					usesEntry = true
					return
				case *ssa.Alloc:
					usesEntry = true
					return // the spilled receiver copy
				case *ssa.Call:
					// obj := s.getAccountObject(...); if obj != nil
					if strings.HasSuffix(eng.CallName(&y.Call), ").getAccountObject") {
						return
					}
					if nm := eng.CallName(&y.Call); nm == "builtin:len" {
						break // len(ch.field): a look at the entry
					}
					ok = false
					return
				case *ssa.Lookup, *ssa.Extract:
					ok = false // a look at current state
					return
				}
				if in, isI := x.(ssa.Instruction); isI {
					var ops []*ssa.Value
					for _, o := range in.Operands(ops) {
						if *o != nil {
							walk(*o, d+1)
						}
					}
				}
			}
			walk(v, 0)
			// what the entry recorded may decide whether a restore is needed only where that was reviewed
			// (touchChange restores nothing when the object was already touched); for every other entry the
			// restore is unconditional but for the presence of the object
			if usesEntry && undoConditionalOnEntry[n] == "" {
				return false
			}
			return ok
		}
		for _, w := range want {
			ins := writes[w]
			if len(ins) == 0 || skipped != "" {
				continue // reported above
			}
			for _, re := range eng.Returns(undo) {
				if eng.MustPassBefore(undo, re.Ret, ins) {
					continue
				}
				// this exit can be reached without the restore: fine only when the entry itself (or the absence of
				// the object) says nothing needs restoring — both for reaching the exit and for skipping the write
				for _, cd := range eng.EdgeConds(re.Ret.Block()) {
					if !fromEntry(cd.V) {
						skipped = w + " (an exit is taken under " + eng.Desc(cd.V) + ", a condition that is not the reviewed one for this entry, before it)"
					}
				}
				for _, in := range ins {
					for _, cd := range eng.CondsAt(in) {
						if !fromEntry(cd.V) {
							skipped = w + " (it is performed only under " + eng.Desc(cd.V) + ", a condition other than the presence of the object and the reviewed conditions of this entry type)"
						}
					}
				}
			}
		}
		r.Check(skipped == "", rule, key+":every-path", c.Pos(undo.Pos()), "each restoring write happens on every path through undo", "undo of "+n+" can return without performing "+skipped+" (an early exit skips it): after RevertToSnapshot that part of the reverted change is still visible (e.g. a counter stays advanced)")
	}
}

func c04Shrink(c *eng.Ctx, r *eng.Report) {
	const rule = "R4.4"
	r.Min(rule, 2)
	// map-typed journaled fields of accountObject whose len() is read by a query
	lifecycle := map[string]bool{"(*storage/account.accountObject).updateTrie": true, "(*storage/account.accountObject).deepCopy": true, "(storage/account.Storage).Copy": true, "(storage/account.Storage).String": true}
	for _, f := range []string{"cachedStorage", "dirtyStorage"} {
		var readers []string
		var rp token.Pos
		for _, fn := range c.PkgFuncs(acctPkg) {
			if lifecycle[eng.FuncName(fn)] || isUndo(fn) {
				continue
			}
			for _, b := range fn.Blocks {
				for _, in := range b.Instrs {
					call, ok := in.(*ssa.Call)
					if !ok {
						continue
					}
					bi, ok := call.Call.Value.(*ssa.Builtin)
					if !ok || bi.Name() != "len" {
						continue
					}
					if u, ok := call.Call.Args[0].(*ssa.UnOp); ok {
						if t, ff := eng.FieldOf(u.X); t == "storage/account.accountObject" && ff == f {
							readers = append(readers, eng.FuncName(fn))
							rp = call.Pos()
						}
					}
				}
			}
		}
		if len(readers) == 0 {
			r.Pass(rule, "field:accountObject."+f, "", "no query observes the size of the map; insert-only undo is adequate")
			continue
		}
		// can storageChange.undo delete from it?
		undo := c.Func(acctPkg, "storageChange.undo")
		canDelete := false
		if undo != nil {
			cone := c.ConeOf([]*ssa.Function{undo}, func(fn *ssa.Function) bool { return eng.FuncPkgPath(fn) == eng.Mod+"/src/"+acctPkg })
			for fn := range cone.Set {
				for _, in := range eng.FieldMapWrites(fn, "storage/account.accountObject", f) {
					if call, ok := in.(*ssa.Call); ok {
						if bi, ok := call.Call.Value.(*ssa.Builtin); ok && bi.Name() == "delete" {
							canDelete = true
						}
					}
				}
			}
		}
		r.Check(canDelete, rule, "field:accountObject."+f, c.Pos(rp), "undo can shrink the map", "len("+f+") is read by "+strings.Join(uniq(readers), ", ")+" but storageChange.undo can only insert into the map: after SetData+revert on a fresh account the map keeps an entry, empty() answers false and the account survives Finalise(true)")
	}
}

func c04Revert(c *eng.Ctx, r *eng.Report) {
	const rule = "R4.5"
	r.Min(rule, 3)
	rev := c.Func(acctPkg, "(*AccountDB).RevertToSnapshot")
	if !r.Anchor(rev != nil, rule, "(*AccountDB).RevertToSnapshot") {
		return
	}
	var undoCall *ssa.Call
	loopFn := rev
	var helperCall *ssa.Call // rev's call of the private helper that holds the loop, if it was extracted
	findUndo := func(fn *ssa.Function) *ssa.Call {
		var out *ssa.Call
		for _, s := range eng.Sites(fn) {
			if s.Common().IsInvoke() && s.Common().Method.Name() == "undo" {
				out, _ = s.Instr.(*ssa.Call)
			}
		}
		return out
	}
	undoCall = findUndo(rev)
	if undoCall == nil {
		for _, s := range eng.Sites(rev) {
			h := s.Static()
			call, isCall := s.Instr.(*ssa.Call)
			if h == nil || !isCall || h.Pkg != rev.Pkg || h.Blocks == nil || token.IsExported(h.Name()) || len(c.Callers(h)) != 1 {
				continue
			}
			if u := findUndo(h); u != nil {
				undoCall, loopFn, helperCall = u, h, call
			}
		}
	}
	if undoCall == nil {
		r.Fail(rule, "RevertToSnapshot:loop", c.Pos(rev.Pos()), "no transitions[i].undo(adb) call found")
		return
	}
	// index of the undone entry
	var idx ssa.Value
	if u, ok := undoCall.Call.Value.(*ssa.UnOp); ok {
		if ia, ok := u.X.(*ssa.IndexAddr); ok {
			idx = ia.Index
		}
	}
	phi, _ := idx.(*ssa.Phi)
	okInit, okStep, okCond := false, false, false
	var snapshot ssa.Value
	if phi != nil {
		for _, e := range phi.Edges {
			if bo, ok := e.(*ssa.BinOp); ok && bo.Op == token.SUB {
				if k, isK := eng.ConstInt(bo.Y); isK && k == 1 {
					if bo.X == ssa.Value(phi) {
						okStep = true
					} else if strings.Contains(eng.Desc(bo.X), "builtin:len(") && strings.Contains(eng.Desc(bo.X), ".transitions") {
						okInit = true
					}
				}
			}
		}
		for _, cd := range eng.CondsAt(undoCall) {
			if m, ok := cd.Cmp(); ok && m.X == ssa.Value(phi) && m.Op == token.GEQ {
				okCond = true
				snapshot = m.Y
			}
		}
	}
	r.Check(okInit && okStep && okCond, rule, "RevertToSnapshot:loop", c.Pos(undoCall.Pos()), "entries are undone for i = len-1 … snapshot (inclusive), newest first",
		fmt.Sprintf("undo loop shape changed (starts at len-1=%v, steps by -1=%v, runs while i >= snapshot=%v): entries are skipped or undone in the wrong order", okInit, okStep, okCond))
	bound := snapshot // as RevertToSnapshot sees it
	if prm, isP := snapshot.(*ssa.Parameter); isP && helperCall != nil {
		for i, q := range loopFn.Params {
			if q == prm && i < len(helperCall.Call.Args) {
				bound = helperCall.Call.Args[i]
			}
		}
	}
	if snapshot != nil {
		r.Check(strings.HasSuffix(eng.Desc(bound), ".journalIndex"), rule, "RevertToSnapshot:bound", c.Pos(undoCall.Pos()), "loop bound is the revision's journalIndex", "loop bound is not the revision's journalIndex: "+eng.Desc(bound))
	}
	// truncations
	truncJ, truncR := false, false
	scope := []*ssa.Function{rev}
	if loopFn != rev {
		scope = append(scope, loopFn)
	}
	for _, fn := range scope {
		for _, b := range fn.Blocks {
			for _, in := range b.Instrs {
				st, ok := in.(*ssa.Store)
				if !ok {
					continue
				}
				_, f := eng.FieldOf(st.Addr)
				if sl, ok := st.Val.(*ssa.Slice); ok && sl.Low == nil && sl.High != nil {
					if f == "transitions" && snapshot != nil && (sl.High == snapshot || fn == rev && sl.High == bound) {
						truncJ = true
					}
					if f == "validRevisions" {
						truncR = true
					}
				}
			}
		}
	}
	r.Check(truncJ && truncR, rule, "RevertToSnapshot:truncate", c.Pos(rev.Pos()), "journal truncated to the snapshot index and revision list truncated", fmt.Sprintf("journal truncated to snapshot=%v, revisions truncated=%v", truncJ, truncR))
	snap := c.Func(acctPkg, "(*AccountDB).Snapshot")
	if r.Anchor(snap != nil, "R4.6", "(*AccountDB).Snapshot") {
		ok := false
		for _, b := range snap.Blocks {
			for _, in := range b.Instrs {
				if st, isS := in.(*ssa.Store); isS {
					if t, f := eng.FieldOf(st.Addr); strings.HasSuffix(t, "revision") && f == "journalIndex" {
						d := eng.Desc(st.Val)
						if strings.Contains(d, "builtin:len(") && strings.Contains(d, ".transitions") {
							ok = true
						}
					}
				}
			}
		}
		r.Check(ok, "R4.6", "Snapshot:journalIndex", c.Pos(snap.Pos()), "Snapshot records len(adb.transitions)", "Snapshot no longer records len(adb.transitions) as the revision's journal index")
	}
	// snapshot ids stay unique among the live revisions: the id counter only counts up (in Snapshot), or is reset in a
	// function that empties the revision list as well — RevertToSnapshot finds its entry by binary search over ids
	n := 0
	for _, fn := range c.PkgFuncs(acctPkg) {
		if c.IsTestFunc(fn) {
			continue
		}
		for _, st := range eng.FieldStores(fn, "storage/account.AccountDB", "nextRevisionID") {
			n++
			v := st.(*ssa.Store).Val
			ok := false
			if bo, isB := v.(*ssa.BinOp); isB && bo.Op == token.ADD && fn == snap {
				if k, isK := eng.ConstInt(bo.Y); isK && k == 1 {
					ok = true
				}
			}
			if !ok {
				for _, st2 := range eng.FieldStores(fn, "storage/account.AccountDB", "validRevisions") {
					d := eng.Desc(st2.(*ssa.Store).Val)
					if strings.HasSuffix(d, ":0]") || d == "nil" || strings.Contains(d, "makeslice") {
						ok = true
					}
				}
			}
			r.Check(ok, "R4.6", "revision-id-writer:"+eng.FuncName(fn), c.Pos(st.Pos()), "the id counter counts up in Snapshot (or is reset together with the revision list)", eng.FuncName(fn)+" sets AccountDB.nextRevisionID to "+eng.Desc(v)+" without emptying validRevisions: ids handed out afterwards collide with revisions still on the list, and RevertToSnapshot's search by id rolls back to an earlier transaction's entry (state that had already succeeded is undone) or panics")
		}
	}
	r.Check(n >= 1, "R4.6", "revision-id-writer:any", "", fmt.Sprintf("%d writers of nextRevisionID", n), "no writer of nextRevisionID found (Snapshot expected)")
}

// c04PreState: a journal entry records the state *before* the change. Every
// field read that feeds a `prev…` member of the entry must therefore not be
// preceded, on any path through the mutator, by a write to that same field —
// neither a direct store nor a call of a package function that stores it.
func c04PreState(c *eng.Ctx, r *eng.Report) {
	const rule = "R4.7"
	r.Min(rule, 10)
	// fields stored by each function of the package, then closed over static callees
	direct := map[*ssa.Function]map[string]bool{}
	fns := c.PkgFuncs("storage/account")
	for _, fn := range fns {
		m := map[string]bool{}
		for _, b := range fn.Blocks {
			for _, in := range b.Instrs {
				switch x := in.(type) {
				case *ssa.Store:
					if t, f := eng.FieldOf(x.Addr); t != "" {
						m[t+"."+f] = true
					}
				case *ssa.MapUpdate:
					if u, ok := x.Map.(*ssa.UnOp); ok {
						if t, f := eng.FieldOf(u.X); t != "" {
							m[t+"."+f] = true
						}
					}
				}
			}
		}
		direct[fn] = m
	}
	var writes func(fn *ssa.Function, depth int, seen map[*ssa.Function]bool) map[string]bool
	writes = func(fn *ssa.Function, depth int, seen map[*ssa.Function]bool) map[string]bool {
		out := map[string]bool{}
		if fn == nil || seen[fn] || depth > 3 {
			return out
		}
		seen[fn] = true
		for k := range direct[fn] {
			out[k] = true
		}
		for _, s := range eng.Sites(fn) {
			if st := s.Static(); st != nil && direct[st] != nil {
				for k := range writes(st, depth+1, seen) {
					out[k] = true
				}
			}
		}
		return out
	}
	for _, fn := range fns {
		if c.IsTestFunc(fn) || isUndo(fn) {
			continue
		}
		for _, b := range fn.Blocks {
			for _, in := range b.Instrs {
				mi, ok := in.(*ssa.MakeInterface)
				if !ok {
					continue
				}
				if n, isN := mi.Type().(*types.Named); !isN || n.Obj().Name() != "transitionEntry" {
					continue
				}
				ety, isN := mi.X.Type().(*types.Named)
				if !isN {
					continue
				}
				// the entry is a load of a composite literal: gather the values stored into its members
				var vals []ssa.Value
				handedIn := ""
				if u, isU := mi.X.(*ssa.UnOp); isU {
					if al, isA := u.X.(*ssa.Alloc); isA {
						for _, ref := range *al.Referrers() {
							if fa, isFA := ref.(*ssa.FieldAddr); isFA {
								for _, r2 := range *fa.Referrers() {
									if st, isSt := r2.(*ssa.Store); isSt && st.Addr == ssa.Value(fa) {
										vals = append(vals, st.Val)
										// the recorded previous value is read from the state by the function that journals it,
										// not taken on trust from a caller (who may hold a re-encoded or stale copy)
										if _, mf := eng.FieldOf(fa); strings.HasPrefix(mf, "prev") || strings.HasPrefix(mf, "pre") {
											if prm, isP := eng.ResolveLocal(st.Val).(*ssa.Parameter); isP && (len(fn.Params) == 0 || prm != fn.Params[0]) && !strings.HasSuffix(prm.Type().String(), "accountObject") /* an object's identity, not a copy of a value */ {
												handedIn = mf + " = parameter " + prm.Name()
											}
										}
									}
								}
							}
						}
					}
				}
				if handedIn != "" {
					r.Fail(rule, fmt.Sprintf("pre-state:%s:%s:handed-in", eng.FuncName(fn), ety.Obj().Name()), c.Pos(mi.Pos()), "journal entry "+ety.Obj().Name()+" built in "+eng.FuncName(fn)+" records a previous value it did not read itself ("+handedIn+"): the caller's copy need not be what the state holds — a balance re-encoded in minimal form where the slot held a zero-padded word — so undo writes other bytes than were there, and the storage root after RevertToSnapshot differs from the one before the frame")
				}
				// loads of state fields feeding those values
				type ld struct {
					key string
					in  ssa.Instruction
				}
				var loads []ld
				seen := map[ssa.Value]bool{}
				var walk func(v ssa.Value, d int)
				walk = func(v ssa.Value, d int) {
					if v == nil || d > 5 || seen[v] {
						return
					}
					seen[v] = true
					if u, isU := v.(*ssa.UnOp); isU && u.Op == token.MUL {
						if t, f := eng.FieldOf(u.X); t != "" && strings.HasPrefix(t, "storage/account.") {
							loads = append(loads, ld{t + "." + f, u})
						}
					}
					if inst, isI := v.(ssa.Instruction); isI {
						var ops []*ssa.Value
						for _, o := range inst.Operands(ops) {
							if *o != nil {
								walk(*o, d+1)
							}
						}
					}
				}
				for _, v := range vals {
					walk(v, 0)
				}
				key := fmt.Sprintf("pre-state:%s:%s", eng.FuncName(fn), ety.Obj().Name())
				bad := ""
				var badPos token.Pos
				for _, l := range loads {
					for _, b2 := range fn.Blocks {
						for _, i2 := range b2.Instrs {
							if i2 == l.in || !(eng.Dominates(i2, l.in) || eng.Reaches(i2, l.in)) {
								continue
							}
							switch x := i2.(type) {
							case *ssa.Store:
								if t, f := eng.FieldOf(x.Addr); t+"."+f == l.key {
									bad, badPos = "field "+shortStruct(l.key)+" is stored before the entry reads it", x.Pos()
								}
							case *ssa.Call:
								if st := x.Call.StaticCallee(); st != nil && direct[st] != nil {
									if writes(st, 0, map[*ssa.Function]bool{})[l.key] {
										bad, badPos = eng.FuncName(st)+", which writes "+shortStruct(l.key)+", is called before the entry reads that field", x.Pos()
									}
								}
							}
						}
					}
				}
				r.Check(bad == "", rule, key, c.Pos(pick(badPos, mi.Pos())), fmt.Sprintf("the %d state reads captured by the entry precede every write to those fields", len(loads)), "journal entry "+ety.Obj().Name()+" built in "+eng.FuncName(fn)+" does not capture the pre-state: "+bad+"; undo then restores the already-modified value and the change survives RevertToSnapshot")
			}
		}
	}
}

// c04DirtyOrArmedAs: Finalise and Commit only look at objects in
// accountObjectsDirty, and an object enters that set through its one-shot
// onDirty hook. So for every cached object: in the set, or hook armed. The
// rule checks the three ways the invariant can be lost.
func c04DirtyOrArmedAs(c *eng.Ctx, r *eng.Report, rule string) {
	r.Min(rule, 5)
	related := func(a, b ssa.Instruction) bool {
		return a.Block() == b.Block() || eng.Dominates(a, b) || eng.Dominates(b, a)
	}
	nDel, nReset, nClear := 0, 0, 0
	for _, fn := range c.PkgFuncs(acctPkg) {
		if c.IsTestFunc(fn) {
			continue
		}
		var rearm, drop, objReset []ssa.Instruction
		var dels, resets, clears []ssa.Instruction
		for _, b := range fn.Blocks {
			for _, in := range b.Instrs {
				switch x := in.(type) {
				case *ssa.Store:
					t, f := eng.FieldOf(x.Addr)
					switch shortStruct(t) + "." + f {
					case "accountObject.onDirty":
						if eng.IsNilConst(x.Val) {
							clears = append(clears, in)
						} else {
							rearm = append(rearm, in)
						}
					case "AccountDB.accountObjectsDirty":
						resets = append(resets, in)
					case "AccountDB.accountObjects":
						objReset = append(objReset, in)
					}
				case *ssa.Call:
					nm := eng.CallName(&x.Call)
					if nm == "builtin:delete" && strings.HasSuffix(eng.Desc(x.Call.Args[0]), ".accountObjectsDirty") {
						dels = append(dels, in)
					}
					if nm == "(*sync.Map).Delete" && strings.HasSuffix(eng.Desc(x.Call.Args[0]), ".accountObjects") {
						drop = append(drop, in)
					}
				}
			}
		}
		name := strings.ReplaceAll(eng.FuncName(fn), "storage/account.", "")
		for i, d := range dels {
			nDel++
			ok := false
			for _, o := range append(append([]ssa.Instruction{}, rearm...), drop...) {
				if related(d, o) {
					ok = true
				}
			}
			r.Check(ok, rule, fmt.Sprintf("dirty-or-armed:%s#%d", name, i), c.Pos(d.Pos()), "the object leaving the dirty set gets its onDirty hook back or leaves the cache too", eng.FuncName(fn)+" takes an address out of accountObjectsDirty without re-arming that object's onDirty hook and without dropping the object from the cache: the hook is one-shot (already nil once the object was marked), so every later write to the object goes unmarked, Finalise/Commit skip it, and the root computed afterwards lacks writes that every read still sees (e.g. Snapshot; zero-amount credit to a cold account; RevertToSnapshot; credit; Commit)")
		}
		for i, d := range resets {
			nReset++
			ok := false
			for _, o := range objReset {
				if related(d, o) {
					ok = true
				}
			}
			r.Check(ok, rule, fmt.Sprintf("dirty-reset:%s#%d", name, i), c.Pos(d.Pos()), "the dirty set is replaced together with the object cache", eng.FuncName(fn)+" replaces accountObjectsDirty but keeps the cached account objects: their consumed onDirty hooks stay nil and later writes to them are never marked dirty")
		}
		for i, d := range clears {
			nClear++
			// cleared only right after the hook was called
			ok := false
			for _, s := range eng.Sites(fn) {
				if s.Common().StaticCallee() == nil && !s.Common().IsInvoke() {
					if _, f := eng.FieldOf(unload(s.Common().Value)); f == "onDirty" && eng.Dominates(s.Instr, d) {
						ok = true
					}
				}
			}
			r.Check(ok, rule, fmt.Sprintf("hook-consumed:%s#%d", name, i), c.Pos(d.Pos()), "onDirty is cleared only after it was called", eng.FuncName(fn)+" clears the object's onDirty hook without having called it: the object is neither dirty nor armed, its writes never reach the trie")
		}
	}
	r.Check(nDel >= 3 && nReset >= 2 && nClear >= 1 /* the consume-and-clear idiom may live in one helper */, rule, "dirty-or-armed:sites", "", fmt.Sprintf("%d removals, %d resets, %d hook clears", nDel, nReset, nClear), fmt.Sprintf("only %d removals from the dirty set, %d resets and %d hook clears found (at least 3/2/1 expected)", nDel, nReset, nClear))
}

// unload strips the load of a field address (`*(&x.f)` → `&x.f`).
func unload(v ssa.Value) ssa.Value {
	if u, ok := v.(*ssa.UnOp); ok && u.Op == token.MUL {
		return u.X
	}
	return v
}

// c04AccessListInverses: AddSlot on a warm address journals only the slot
// entry; undoing it must leave the address warm.
func c04AccessListInverses(c *eng.Ctx, r *eng.Report) {
	const rule = "R4.9"
	r.Min(rule, 2)
	nDel, nSet := 0, 0
	for _, fn := range c.PkgFuncs(acctPkg) {
		if c.IsTestFunc(fn) {
			continue
		}
		name := strings.ReplaceAll(eng.FuncName(fn), "storage/account.", "")
		for _, b := range fn.Blocks {
			for _, in := range b.Instrs {
				switch x := in.(type) {
				case *ssa.Call:
					if eng.CallName(&x.Call) != "builtin:delete" {
						continue
					}
					if t, f := eng.FieldOf(unload(x.Call.Args[0])); shortStruct(t) == "accessList" && f == "addresses" {
						nDel++
						r.Check(name == "(*accessList).DeleteAddress", rule, "addresses-delete:"+name, c.Pos(x.Pos()), "an address leaves the access list only through DeleteAddress", eng.FuncName(fn)+" deletes an entry of accessList.addresses: only DeleteAddress — the undo of AddAddress — may; the undo of a slot addition on an address that was already warm would otherwise make AddressInAccessList answer false after the revert although it answered true when the snapshot was taken")
					}
				case *ssa.MapUpdate:
					if t, f := eng.FieldOf(unload(x.Map)); shortStruct(t) == "accessList" && f == "addresses" && name == "(*accessList).DeleteSlot" {
						nSet++
						k, isK := eng.ConstInt(x.Value)
						r.Check(isK && k == -1, rule, "addresses-reset:"+name, c.Pos(x.Pos()), "DeleteSlot resets the address's slot index to -1", "DeleteSlot writes "+eng.Desc(x.Value)+" as the slot index of the address instead of -1 (no slots): the address's entry no longer says what it said before the slot was added")
					}
				}
			}
		}
	}
	r.Check(nDel >= 1 && nSet >= 1, rule, "access-list:sites", "", fmt.Sprintf("%d deletions from addresses, %d index resets in DeleteSlot", nDel, nSet), fmt.Sprintf("access-list undo helpers not recognised (%d deletions from addresses, %d index resets in DeleteSlot; 1 and 1 expected)", nDel, nSet))
}

// c04FreshRevision: nested frames take a snapshot each; the inner revert pops
// its revision from validRevisions. If both frames hold the same id the outer
// revert finds nothing to revert to.
func c04FreshRevision(c *eng.Ctx, r *eng.Report) {
	const rule = "R4.10"
	r.Min(rule, 2)
	fn := c.Func(acctPkg, "(*AccountDB).Snapshot")
	if r.Anchor(fn != nil, rule, "(*AccountDB).Snapshot") {
		inc := eng.FieldStores(fn, "storage/account.AccountDB", "nextRevisionID")
		app := eng.FieldStores(fn, "storage/account.AccountDB", "validRevisions")
		bad := ""
		for _, re := range eng.Returns(fn) {
			if !eng.MustPassBefore(fn, re.Ret, inc) || !eng.MustPassBefore(fn, re.Ret, app) {
				bad = "the return at " + c.Pos(re.Ret.Pos()) + " can be reached without a new revision having been allocated and recorded"
			}
			if _, f := eng.FieldOf(unload(re.Incoming(0))); f != "nextRevisionID" {
				bad = "the return at " + c.Pos(re.Ret.Pos()) + " hands out " + eng.Desc(re.Incoming(0)) + " instead of the id just allocated"
			}
		}
		r.Check(bad == "" && len(inc) > 0 && len(app) > 0, rule, "Snapshot:fresh-revision", c.Pos(fn.Pos()), "every return allocates, records and returns a new id", "Snapshot: "+bad+": two live snapshots can then share one revision id — RevertToSnapshot of the inner frame removes that revision, and the outer frame's revert panics (`revision id cannot be reverted`) with its writes left in place")
	}
	// restoring setters are fed from the entry
	p := c.TPkg(acctPkg)
	if p == nil {
		return
	}
	names := make([]string, 0, len(undoPairs))
	for n := range undoPairs {
		names = append(names, n)
	}
	sort.Strings(names)
	checked := 0
	for _, n := range names {
		undo := c.Func(acctPkg, n+".undo")
		if undo == nil || len(undo.Params) == 0 {
			continue
		}
		recv := undo.Params[0]
		fromEntry := func(v ssa.Value) bool {
			seen := map[ssa.Value]bool{}
			var walk func(x ssa.Value, d int) bool
			walk = func(x ssa.Value, d int) bool {
				if x == nil || d > 8 || seen[x] {
					return false
				}
				seen[x] = true
				if x == ssa.Value(recv) {
					return true
				}
				if a, isA := x.(*ssa.Alloc); isA {
					// the spilled copy of the value receiver
					for _, ref := range *a.Referrers() {
						if st, isS := ref.(*ssa.Store); isS && st.Addr == ssa.Value(a) && st.Val == ssa.Value(recv) {
							return true
						}
					}
					return false
				}
				if in, isI := x.(ssa.Instruction); isI {
					var ops []*ssa.Value
					for _, o := range in.Operands(ops) {
						if *o != nil && walk(*o, d+1) {
							return true
						}
					}
				}
				return false
			}
			return walk(v, 0)
		}
		for _, s := range eng.Sites(undo) {
			nm := s.Name()
			if _, isSetter := journalPairs[nm]; !isSetter && !strings.HasPrefix(nm, "(*storage/account.accessList).Delete") && nm != "(*storage/account.AccountDB).setBalance" && nm != "(*storage/account.AccountDB).setTransientState" && nm != "(*storage/account.AccountDB).setAccountObject" {
				continue
			}
			args := s.Common().Args
			for i := 1; i < len(args); i++ { // args[0] is the object the setter is called on
				checked++
				if !fromEntry(args[i]) {
					r.Fail(rule, fmt.Sprintf("restore-from-entry:%s#%d", n, i), c.Pos(s.Pos()), "undo of "+n+" calls "+nm+" with "+eng.Desc(args[i])+" as argument "+fmt.Sprint(i)+", which does not come from what the entry recorded: that part of the previous state is not restored by the revert (e.g. code installed earlier in the same uncommitted block exists only in memory — restoring `nil` and re-reading by hash loses it)")
				}
			}
		}
	}
	if checked >= 8 {
		r.Pass(rule, "restore-from-entry:all", "", fmt.Sprintf("%d setter arguments in undo functions, all taken from the entry", checked))
	} else {
		r.Fail(rule, "restore-from-entry:sites", "", fmt.Sprintf("only %d setter arguments found in undo functions (≥8 expected)", checked))
	}
}

// nonStateFields: fields of the state structs that are not journaled, with the reason (reviewed).
var nonStateFields = map[string]map[string]string{
	"AccountDB": {
		"db": "handle of the backing store", "trie": "the account trie (written only by Finalise/Commit)", "accountObjectsLock": "mutex",
		"dbErr": "first database error, returned by Commit", "nextRevisionID": "revision counter (R4.6, R4.10)",
		"thash": "per-transaction tag set by Prepare", "bhash": "per-transaction tag set by Prepare", "txIndex": "per-transaction tag set by Prepare",
	},
	"accountObject": {
		"address": "immutable identity", "addrHash": "immutable identity", "data": "the account record: its fields are journaled one by one (Account.*)", "db": "back pointer",
		"dbErr": "first database error", "trie": "storage trie (written only by updateTrie/CommitTrie)", "cachedLock": "mutex",
		"deleted": "set by Commit/Finalise only (deleteAccountObject)", "onDirty": "one-shot dirty hook (R4.8)",
	},
}

// c04StructCensusAs: every field is accounted for.
func c04StructCensusAs(c *eng.Ctx, r *eng.Report, rule string) {
	r.Min(rule, 2)
	for _, tn := range []string{"AccountDB", "accountObject"} {
		st := c.Struct(acctPkg, tn)
		if !r.Anchor(st != nil, rule, "storage/account."+tn) {
			continue
		}
		var unknown []string
		for i := 0; i < st.NumFields(); i++ {
			f := st.Field(i).Name()
			journaled := false
			for _, j := range journaledFields["storage/account."+tn] {
				if j == f {
					journaled = true
				}
			}
			if !journaled && nonStateFields[tn][f] == "" {
				unknown = append(unknown, f+" "+st.Field(i).Type().String())
			}
		}
		r.Check(len(unknown) == 0, rule, "struct-census:"+tn, "", fmt.Sprintf("all %d fields are journaled or reviewed as not being state", st.NumFields()), tn+" has field(s) ["+strings.Join(unknown, "; ")+"] that are neither journaled nor reviewed: if they hold or mirror state (a cache of decoded balances, a memo of a lookup) nothing undoes them on RevertToSnapshot — a value read between a write and its rollback is served afterwards, affordability checks pass on funds that were rolled back and the debit then fails silently while the credit lands")
	}
}

// c04OneKeyDerivation: see R4.12.
func c04OneKeyDerivation(c *eng.Ctx, r *eng.Report) {
	const rule = "R4.12"
	r.Min(rule, 1)
	type use struct{ callee, pos string }
	groups := map[string][]use{}
	add := func(fn *ssa.Function, m, k ssa.Value, pos token.Pos) {
		mt, ok := m.Type().Underlying().(*types.Map)
		if !ok {
			return
		}
		if b, isB := mt.Key().Underlying().(*types.Basic); !isB || b.Kind() != types.String {
			return
		}
		call, isCall := eng.Unwrap(k).(*ssa.Call)
		if !isCall || call.Common().StaticCallee() == nil || call.Common().Signature().Recv() == nil {
			return
		}
		g := "package"
		if fn.Signature.Recv() != nil {
			g = types.TypeString(fn.Signature.Recv().Type(), func(*types.Package) string { return "" })
		}
		recvT := types.TypeString(call.Common().Signature().Recv().Type(), func(p *types.Package) string { return p.Name() })
		g += " keyed by " + strings.TrimPrefix(recvT, "*")
		groups[g] = append(groups[g], use{call.Common().StaticCallee().Name(), c.Pos(pos)})
	}
	for _, fn := range c.PkgFuncs("storage/account") {
		for _, b := range fn.Blocks {
			for _, in := range b.Instrs {
				switch x := in.(type) {
				case *ssa.MapUpdate:
					add(fn, x.Map, x.Key, x.Pos())
				case *ssa.Lookup:
					add(fn, x.X, x.Index, x.Pos())
				case *ssa.Call:
					if bi, ok := x.Call.Value.(*ssa.Builtin); ok && bi.Name() == "delete" {
						add(fn, x.Call.Args[0], x.Call.Args[1], x.Pos())
					}
				}
			}
		}
	}
	keys := make([]string, 0, len(groups))
	for g := range groups {
		keys = append(keys, g)
	}
	sort.Strings(keys)
	for _, g := range keys {
		set := map[string]string{}
		for _, u := range groups[g] {
			set[u.callee] = u.pos
		}
		names := make([]string, 0, len(set))
		for n := range set {
			names = append(names, n)
		}
		sort.Strings(names)
		r.Check(len(names) == 1, rule, "one-key:"+g, groups[g][0].pos, fmt.Sprintf("%d map accesses, all keyed by %s()", len(groups[g]), names[0]), fmt.Sprintf("the methods of %s address their maps under different spellings of the same key (%s; e.g. %s): an entry written under one spelling is not found by the path that uses the other — transientStorage.Set stores under one and deletes under the other, so the journal's undo of a first TSTORE (set back to zero) removes nothing and the reverted value stays readable", g, strings.Join(names, "() and ")+"()", set[names[len(names)-1]]))
	}
}
