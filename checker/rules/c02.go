package rules

import (
	"fmt"
	"go/token"
	"go/types"
	"sort"
	"strings"

	"golang.org/x/tools/go/ssa"

	"verif/checker/eng"
)

func init() { register("C02", c02) }

const triePkg = "storage/trie"

func c02(c *eng.Ctx, r *eng.Report) {
	r.Explain = "Structural necessary conditions of a history-independent Merkle-Patricia root, on the SSA of storage/trie: " +
		"R2.1 copy-on-write — every store into a field of a short/full node targets an object created in the same function (composite literal, copy(), or the reviewed returns-fresh helpers); " +
		"R2.2 every node object created or copied in insert/delete gets flags = t.newFlag() (dirty) in that function; " +
		"R2.3 hasher.hash reuses a cached hash only when not storing, when unloading, or when the node is clean; " +
		"R2.4 the embed threshold in hasher.store is `len < 32` with 32 = len(common.Hash{}), `force` is true only for the root, and the decoder accepts embedded nodes up to the same bound; " +
		"R2.5 delete builds a short node around a child only on the not-a-short-node edge of a type test of that child (minimal form); " +
		"R2.6 only the 16 child slots of a branch are hashed, the value slot (index 16) is carried over verbatim; " +
		"R2.7 a cached hash is attached only to the node it belongs to — node constructors that take a hash (decodeNode, decodeShort, decodeFull, expandNode) are given nil whenever the node goes into a child slot of another node. " +
		"R2.8 the six functions of the hex-prefix (compact) key encoding keep the arithmetic constants that make them inverse to each other and equal to the specification (flag = 2·terminator+odd in the high nibble, high nibble first, terminator nibble 16). " +
		"R2.9 the node iterator's look-ahead leaves the cursor one before the child it offers and only push() advances it, by one (what seek-to-a-start-key relies on). " +
		"R2.10 every dispatch on the kind of a split RLP item in the trie decoder handles Byte, String and List or ends in an error. " +
		"R2.12 the root a trie reports is the hash of its root node: every value Trie.Hash returns, and every root Trie.Commit returns with a nil error, comes out of hashRoot (which yields the empty-set root for an empty trie) — never a constant or a zero value; " +
		"R2.13 the node store's read path has no length floor: whether a stored blob is treated as present depends only on the lookup error and on its being nil — the root node is stored under its hash however short its encoding (the force flag of R2.4), so a test like len(enc) < 32 makes small tries unreadable after a reload; " +
		"R2.18 nodes are serialised by the RLP codec, not by hand: the only EncodeRLP methods in the trie package are the reviewed ones of fullNode and rawFullNode (which substitute empty strings for nil children and hand the array to rlp.Encode) — a hand-written encoder for another node type (a short node whose long-string tag starts at 0xB8 instead of 0xB7) hashes values of 56 bytes or more over bytes that are not their RLP, and the root is not the Merkle-Patricia root of the content; " +
		"R2.17 the conversions between live and stored nodes visit every child: in simplifyNode and expandNode the recursive call on a branch child depends on nothing but the child being non-nil (and the loop bound) — a cascade restricted to one node kind leaves a live *fullNode embedded in a branch (two keys differing in their last nibble under a common branch) in the write-back cache, and Commit panics with `unknown node type` while holding the database lock; " +
		"R2.16 a trie holds nothing beside the nodes that are hashed: the structs Trie, fullNode, shortNode and nodeFlag have exactly the reviewed fields (root, db, originalRoot and the cache generation; Children/Key/Val and the flags) — any further field is state the root does not commit to (a per-node child counter that the disk decoder fills differently from insert; a lookup memo that one of the update paths forgets to invalidate) and must be reviewed before the claim stands; " +
		"R2.15 the node decoder accepts every node the encoder can write: decodeShort and decodeFull fail only when an RLP split or a child decode failed — each error they return carries a callee's error, they raise none of their own (a short node's path may be empty: two keys that differ in their last nibble leave two leaves with nothing but the terminator; a branch value may be empty) — the reviewed shape checks live in decodeNode and decodeRef; " +
		"R2.14 the node decoder and the embedded-child path agree: decodeRef hands decodeNode the remainder of the parent's buffer (the child's own bytes followed by its siblings), so decodeNode may treat bytes after the node's list as an error only if decodeRef trims what it passes to the child's size; " +
		"R2.11 prefixLen (where insert/delete split a short node) returns a position: every value it returns after having looked at key content derives from the scan position carried round its loop, never from one comparison step alone. " +
		"Not decided: equality of the root with the Yellow-Paper value for a given content, iterator order as such, resolution after cache eviction."
	r.Assume = []string{"nodes are only reachable through the trie package (unexported types)"}
	c02CopyOnWrite(c, r)
	c02Dirty(c, r)
	c02CacheReuse(c, r)
	c02Threshold(c, r)
	c02Minimal(c, r)
	c02ValueSlot(c, r)
	c02HashOwner(c, r)
	c02HexPrefix(c, r)
	c02IterCursor(c, r)
	c02KindDispatch(c, r)
	c02PrefixLen(c, r)
	c02RootReported(c, r)
	c02NoLengthFloor(c, r)
	c02EmbeddedDecode(c, r)
	c02DecoderRejectsOnlyRLP(c, r)
	c02NodeCensus(c, r)
	c02CascadeEveryChild(c, r)
	c02EncoderCensus(c, r)
}

func isNodePtr(t types.Type) (string, bool) {
	p, ok := t.Underlying().(*types.Pointer)
	if !ok {
		return "", false
	}
	n, ok := p.Elem().(*types.Named)
	if !ok || n.Obj().Pkg() == nil || !strings.HasSuffix(n.Obj().Pkg().Path(), "/"+triePkg) {
		return "", false
	}
	if n.Obj().Name() == "shortNode" || n.Obj().Name() == "fullNode" {
		return n.Obj().Name(), true
	}
	return "", false
}

// freshIn reports whether v denotes a node object created inside fn.
func freshIn(v ssa.Value, fresh map[string]bool, depth int) (bool, string) {
	if depth > 6 {
		return false, "origin too deep"
	}
	switch x := v.(type) {
	case *ssa.Alloc:
		return true, "allocated here"
	case *ssa.Call:
		n := eng.CallName(&x.Call)
		if strings.HasSuffix(n, "Node).copy") || fresh[n] {
			return true, "result of " + n
		}
		return false, "result of " + n
	case *ssa.Extract:
		return freshIn(x.Tuple, fresh, depth+1)
	case *ssa.TypeAssert:
		return freshIn(x.X, fresh, depth+1)
	case *ssa.MakeInterface:
		return freshIn(x.X, fresh, depth+1)
	case *ssa.ChangeInterface:
		return freshIn(x.X, fresh, depth+1)
	case *ssa.Phi:
		for _, e := range x.Edges {
			if ok, why := freshIn(e, fresh, depth+1); !ok {
				return false, why
			}
		}
		return true, "phi of fresh objects"
	case *ssa.UnOp:
		if x.Op == token.MUL {
			// load of a local variable holding the pointer: every store to that local must be fresh
			if al, ok := x.X.(*ssa.Alloc); ok {
				all := true
				why := "local never assigned"
				for _, ref := range *al.Referrers() {
					if st, isS := ref.(*ssa.Store); isS && st.Addr == ssa.Value(al) {
						ok2, w := freshIn(st.Val, fresh, depth+1)
						why = w
						if !ok2 {
							all = false
						}
					}
				}
				return all, why
			}
		}
	case *ssa.Parameter:
		return false, "parameter " + x.Name() + " (a node owned by the caller, possibly shared with another root)"
	}
	return false, eng.Desc(v)
}

func c02CopyOnWrite(c *eng.Ctx, r *eng.Report) {
	const rule = "R2.1"
	r.Min(rule, 12)
	// reviewed returns-fresh helpers: every node they return was allocated or copied by them
	fresh := map[string]bool{
		"(*storage/trie.hasher).hashChildren": true, // collapsed, cached := n.copy(), n.copy()
	}
	n := 0
	for _, fn := range c.PkgFuncs(triePkg) {
		for _, b := range fn.Blocks {
			for _, in := range b.Instrs {
				st, ok := in.(*ssa.Store)
				if !ok {
					continue
				}
				var base ssa.Value
				field := ""
				switch a := st.Addr.(type) {
				case *ssa.FieldAddr:
					base = a.X
					_, field = eng.FieldOf(a)
					// nested: &n.flags.hash → FieldAddr(FieldAddr(n, flags), hash)
					if inner, ok := a.X.(*ssa.FieldAddr); ok {
						base = inner.X
						_, f0 := eng.FieldOf(inner)
						field = f0 + "." + field
					}
				case *ssa.IndexAddr:
					if fa, ok := a.X.(*ssa.FieldAddr); ok {
						base = fa.X
						_, field = eng.FieldOf(fa)
						field += "[i]"
					}
				}
				if base == nil {
					continue
				}
				kind, isNode := isNodePtr(base.Type())
				if !isNode {
					continue
				}
				// the one-line copy() helpers write their own fresh copy
				if strings.HasSuffix(eng.FuncName(fn), "Node).copy") {
					continue
				}
				n++
				ok2, why := freshIn(base, fresh, 0)
				key := fmt.Sprintf("store:%s.%s@%s", kind, field, eng.FuncName(fn))
				r.Check(ok2, rule, key, c.Pos(st.Pos()), "target object is fresh ("+why+")", "store into "+kind+"."+field+" of an object not created in this function ("+why+"): a node reachable from another root (an older state) is mutated in place, so that root's content changes behind its hash")
			}
		}
	}
	r.Extra["node_field_stores"] = n
}

func c02Dirty(c *eng.Ctx, r *eng.Report) {
	const rule = "R2.2"
	r.Min(rule, 9)
	for _, name := range []string{"(*Trie).insert", "(*Trie).delete"} {
		fn := c.Func(triePkg, name)
		if !r.Anchor(fn != nil, rule, name) {
			continue
		}
		idx := 0
		for _, b := range fn.Blocks {
			for _, in := range b.Instrs {
				var obj ssa.Value
				what := ""
				switch x := in.(type) {
				case *ssa.Alloc:
					if k, ok := isNodePtr(x.Type()); ok && x.Heap {
						obj, what = x, "&"+k+"{…}"
					}
				case *ssa.Call:
					if strings.HasSuffix(eng.CallName(&x.Call), "Node).copy") {
						obj, what = x, "copy()"
					}
				}
				if obj == nil {
					continue
				}
				idx++
				ok := false
				for _, ref := range *obj.Referrers() {
					fa, isFA := ref.(*ssa.FieldAddr)
					if !isFA {
						continue
					}
					if _, f := eng.FieldOf(fa); f != "flags" {
						continue
					}
					for _, r2 := range *fa.Referrers() {
						if st, isS := r2.(*ssa.Store); isS {
							if call, isC := st.Val.(*ssa.Call); isC && strings.HasSuffix(eng.CallName(&call.Call), "(*storage/trie.Trie).newFlag") {
								ok = true
							}
						}
					}
				}
				key := fmt.Sprintf("%s:node#%d(%s)", eng.FuncName(fn), idx, what)
				r.Check(ok, rule, key, c.Pos(in.Pos()), "flags = t.newFlag() (dirty, current generation)", "a node created/copied on the modified path does not get flags = t.newFlag(): it keeps a stale cached hash (or a clean flag) and the root no longer reflects the content")
			}
		}
	}
}

func c02CacheReuse(c *eng.Ctx, r *eng.Report) {
	const rule = "R2.3"
	r.Min(rule, 3)
	fn := c.Func(triePkg, "(*hasher).hash")
	if !r.Anchor(fn != nil, rule, "(*hasher).hash") {
		return
	}
	var cacheCall *ssa.Call
	for _, s := range eng.Sites(fn) {
		if s.Common().IsInvoke() && s.Common().Method.Name() == "cache" {
			cacheCall, _ = s.Instr.(*ssa.Call)
		}
	}
	if cacheCall == nil {
		r.Fail(rule, "hasher.hash:shape", c.Pos(fn.Pos()), "n.cache() call not found")
		return
	}
	n := 0
	for _, re := range eng.Returns(fn) {
		v := re.Incoming(0)
		// returns of the cached hash (Extract #0 of n.cache(), possibly boxed)
		u := eng.Unwrap(v)
		ex, ok := u.(*ssa.Extract)
		if !ok || ex.Tuple != ssa.Value(cacheCall) || ex.Index != 0 {
			continue
		}
		n++
		why := ""
		for _, cd := range eng.CondsAt(re.Ret) {
			d := eng.Desc(cd.V)
			if m, isM := cd.Cmp(); isM && m.Op == token.EQL && eng.IsNilConst(m.Y) && eng.Desc(m.X) == "db" {
				why = "db == nil (hash only)"
			}
			if strings.Contains(d, ".canUnload(") && cd.True {
				why = "canUnload (node leaves the cache)"
			}
			if exd, isE := cd.V.(*ssa.Extract); isE && exd.Tuple == ssa.Value(cacheCall) && exd.Index == 1 && !cd.True {
				why = "!dirty (clean node)"
			}
		}
		r.Check(why != "", rule, fmt.Sprintf("hasher.hash:cached-return#%d", n), c.Pos(re.Ret.Pos()), "cached hash reused because "+why, "the cached hash of a node is returned although the node may be dirty and is being stored: a modified subtree keeps its old hash")
	}
	if n < 3 {
		r.Fail(rule, "hasher.hash:cached-returns", c.Pos(fn.Pos()), fmt.Sprintf("%d cached-hash returns recognised (3 expected)", n))
	}
}

func c02Threshold(c *eng.Ctx, r *eng.Report) {
	const rule = "R2.4"
	r.Min(rule, 4)
	store := c.Func(triePkg, "(*hasher).store")
	if r.Anchor(store != nil, rule, "(*hasher).store") {
		ok := false
		why := "no `len(h.tmp) < 32` test found"
		for _, b := range store.Blocks {
			iff, isI := b.Instrs[len(b.Instrs)-1].(*ssa.If)
			if !isI {
				continue
			}
			m, isM := eng.DecodeCmp(iff.Cond)
			if !isM || !strings.Contains(eng.Desc(m.X), "builtin:len(") || !strings.Contains(eng.Desc(m.X), ".tmp") {
				continue
			}
			k, isK := eng.ConstInt(m.Y)
			switch {
			case !isK:
				why = "threshold is not a constant"
			case k != 32:
				why = fmt.Sprintf("threshold is %d, must be 32 (= len(common.Hash{}))", k)
			case m.Op != token.LSS:
				why = "comparison is `" + m.Op.String() + "`, must be `<`: a node whose encoding is exactly 32 bytes must be hashed, not embedded"
			default:
				ok = true
			}
		}
		r.Check(ok, rule, "hasher.store:embed-threshold", c.Pos(store.Pos()), "nodes are embedded iff len(rlp) < 32", why)
		// the embed branch also requires !force
		okForce := false
		for _, re := range eng.Returns(store) {
			if p, isP := eng.Unwrap(re.Incoming(0)).(*ssa.Parameter); isP && p.Name() == "n" {
				for _, cd := range eng.CondsAt(re.Ret) {
					if pp, isPP := cd.V.(*ssa.Parameter); isPP && pp.Name() == "force" && !cd.True {
						okForce = true
					}
				}
			}
		}
		r.Check(okForce, rule, "hasher.store:force", c.Pos(store.Pos()), "a forced (root) node is never embedded", "the embed return is no longer conditional on !force: a small root would be returned un-hashed")
	}
	hl, _ := c.Obj(triePkg, "hashLen").(*types.Const)
	if r.Anchor(hl != nil, rule, "storage/trie.hashLen") {
		v, _ := constInt64(hl)
		r.Check(v == 32, rule, "const:hashLen", "", "hashLen = len(common.Hash{}) = 32", fmt.Sprintf("hashLen is %d", v))
	}
	// force argument of every hasher.hash call
	hash := c.Func(triePkg, "(*hasher).hash")
	if r.Anchor(hash != nil, rule, "(*hasher).hash") {
		for _, site := range c.Callers(hash) {
			args := site.Common().Args
			f := eng.Desc(args[len(args)-1])
			caller := eng.FuncName(site.Fn)
			want := "false"
			if caller == "(*storage/trie.Trie).hashRoot" {
				want = "true"
			}
			r.Check(f == want, rule, "force-arg:"+caller, c.Pos(site.Pos()), "force="+f, "hasher.hash is called with force="+f+" from "+caller+" (expected "+want+"): only the root is hashed unconditionally")
		}
	}
	dr := c.Func(triePkg, "decodeRef")
	if r.Anchor(dr != nil, rule, "decodeRef") {
		ok := false
		for _, b := range dr.Blocks {
			iff, isI := b.Instrs[len(b.Instrs)-1].(*ssa.If)
			if !isI {
				continue
			}
			if m, isM := eng.DecodeCmp(iff.Cond); isM && m.Op == token.GTR {
				if k, isK := eng.ConstInt(m.Y); isK && k == 32 {
					ok = true
				}
			}
		}
		r.Check(ok, rule, "decodeRef:bound", c.Pos(dr.Pos()), "the decoder rejects embedded nodes larger than hashLen", "decodeRef no longer bounds embedded nodes by hashLen")
	}
}

func c02Minimal(c *eng.Ctx, r *eng.Report) {
	const rule = "R2.5"
	r.Min(rule, 2)
	fn := c.Func(triePkg, "(*Trie).delete")
	if !r.Anchor(fn != nil, rule, "(*Trie).delete") {
		return
	}
	// every &shortNode{K, V, flags} in delete whose V is not taken from a short node's own Val
	idx := 0
	for _, b := range fn.Blocks {
		for _, in := range b.Instrs {
			al, ok := in.(*ssa.Alloc)
			if !ok || !al.Heap {
				continue
			}
			if k, isN := isNodePtr(al.Type()); !isN || k != "shortNode" {
				continue
			}
			var val ssa.Value
			for _, ref := range *al.Referrers() {
				if fa, isFA := ref.(*ssa.FieldAddr); isFA {
					if _, f := eng.FieldOf(fa); f == "Val" {
						for _, r2 := range *fa.Referrers() {
							if st, isS := r2.(*ssa.Store); isS {
								val = st.Val
							}
						}
					}
				}
			}
			if val == nil {
				continue
			}
			d := eng.Desc(val)
			// merged nodes take the inner short node's Val: they are the minimal form itself
			if strings.HasSuffix(d, ".Val") {
				continue
			}
			idx++
			key := fmt.Sprintf("delete:shortNode-around#%d", idx)
			ok2, why := guardedByNotShort(al.Block(), val)
			r.Check(ok2, rule, key, c.Pos(al.Pos()), "child is wrapped only when it is not itself a short node ("+why+")", "delete wraps "+d+" in a short node without testing that it is not itself a short node ("+why+"): the trie leaves minimal form (shortNode{…, shortNode{…}}) and its root differs from the canonical one for the same content")
		}
	}
}

// guardedByNotShort: every way of entering block b implies either a failed
// `.(*shortNode)` type test of v (or of its resolved form), or that v is the
// value slot (index 16).
func guardedByNotShort(b *ssa.BasicBlock, v ssa.Value) (bool, string) {
	edgeOK := func(p, s *ssa.BasicBlock) (bool, string) {
		iff, ok := p.Instrs[len(p.Instrs)-1].(*ssa.If)
		if !ok {
			return false, ""
		}
		onFalse := len(p.Succs) == 2 && p.Succs[1] == s && p.Succs[0] != s
		if ex, isE := iff.Cond.(*ssa.Extract); isE && ex.Index == 1 && onFalse {
			if ta, isT := ex.Tuple.(*ssa.TypeAssert); isT && strings.HasSuffix(ta.AssertedType.String(), "trie.shortNode") {
				return true, "failed .(*shortNode) test"
			}
		}
		// a successful test for another concrete node type also excludes *shortNode
		if ex, isE := iff.Cond.(*ssa.Extract); isE && ex.Index == 1 && len(p.Succs) == 2 && p.Succs[0] == s && p.Succs[1] != s {
			if ta, isT := ex.Tuple.(*ssa.TypeAssert); isT && !strings.HasSuffix(ta.AssertedType.String(), "trie.shortNode") {
				if _, isIface := ta.AssertedType.Underlying().(*types.Interface); !isIface {
					return true, "successful ." + "(" + eng.ShortType(ta.AssertedType) + ") test"
				}
			}
		}
		if m, isM := eng.DecodeCmp(iff.Cond); isM {
			if k, isK := eng.ConstInt(m.Y); isK && k == 16 && ((m.Op == token.NEQ && onFalse) || (m.Op == token.EQL && !onFalse)) {
				return true, "value slot (pos == 16)"
			}
		}
		return false, ""
	}
	seen := map[*ssa.BasicBlock]bool{}
	var check func(s *ssa.BasicBlock, depth int) (bool, string)
	check = func(s *ssa.BasicBlock, depth int) (bool, string) {
		if depth > 4 || seen[s] {
			return false, "no type test on some path"
		}
		seen[s] = true
		if len(s.Preds) == 0 {
			return false, "reachable from function entry without a test"
		}
		last := ""
		for _, p := range s.Preds {
			if ok, why := edgeOK(p, s); ok {
				last = why
				continue
			}
			// straight-line predecessor: look further up
			if len(p.Succs) == 1 {
				if ok, why := check(p, depth+1); ok {
					last = why
					continue
				}
			}
			return false, fmt.Sprintf("edge from block %d carries no type test", p.Index)
		}
		return true, last
	}
	return check(b, 0)
}

// c02HashOwner: a cached hash is attached only to the node it is the hash of.
// The constructors that take a hash (decodeNode, mustDecodeNode, decodeShort,
// decodeFull, expandNode) are given nil whenever the node they build is a
// child embedded in its parent: an embedded node has no hash of its own, and
// the parent's hash on it would be emitted in its place once the parent is
// restructured.
func c02HashOwner(c *eng.Ctx, r *eng.Report) {
	const rule = "R2.7"
	r.Min(rule, 3)
	ctors := map[string]bool{"decodeNode": true, "mustDecodeNode": true, "decodeShort": true, "decodeFull": true, "expandNode": true}
	for _, fn := range c.PkgFuncs("storage/trie") {
		if c.IsTestFunc(fn) {
			continue
		}
		idx := 0
		for _, s := range eng.Sites(fn) {
			st := s.Static()
			if st == nil || !ctors[st.Name()] || eng.FuncPkgPath(st) != eng.FuncPkgPath(fn) {
				continue
			}
			v, _ := s.Instr.(*ssa.Call)
			if v == nil {
				continue
			}
			child := fn.Name() == "decodeRef"
			// does the constructed node go into a child slot (Val / Children[i]) of another node?
			var flows func(x ssa.Value, d int) bool
			flows = func(x ssa.Value, d int) bool {
				if d > 3 || x.Referrers() == nil {
					return false
				}
				for _, ref := range *x.Referrers() {
					switch y := ref.(type) {
					case *ssa.Extract:
						if y.Index == 0 && flows(y, d+1) {
							return true
						}
					case *ssa.Store:
						if y.Val != x {
							continue
						}
						switch a := y.Addr.(type) {
						case *ssa.FieldAddr:
							if _, f := eng.FieldOf(a); f == "Val" {
								return true
							}
						case *ssa.IndexAddr:
							if _, f := eng.FieldOf(a.X); f == "Children" {
								return true
							}
						}
					case *ssa.ChangeInterface, *ssa.MakeInterface:
						if flows(y.(ssa.Value), d+1) {
							return true
						}
					}
				}
				return false
			}
			if !child && !flows(v, 0) {
				continue
			}
			h := s.Common().Args[0]
			key := fmt.Sprintf("child-ctor:%s→%s#%d", eng.FuncName(fn), st.Name(), idx)
			idx++
			r.Check(eng.IsNilConst(h), rule, key, c.Pos(s.Pos()), "a child node embedded in its parent is built with a nil cached hash", eng.FuncName(fn)+" builds a child node with cached hash "+eng.Desc(h)+" instead of nil: the child would carry another node's hash; once the parent is split or merged the hasher emits that stale hash in place of the child's own encoding and the root is not the root of the content")
		}
	}
}

func c02ValueSlot(c *eng.Ctx, r *eng.Report) {
	const rule = "R2.6"
	r.Min(rule, 1)
	hc := c.Func(triePkg, "(*hasher).hashChildren")
	hash := c.Func(triePkg, "(*hasher).hash")
	if !r.Anchor(hc != nil, rule, "(*hasher).hashChildren") || hash == nil {
		return
	}
	// calls h.hash(n.Children[i], …): i must be bounded by 16 (never the value slot)
	n := 0
	ok := true
	why := ""
	for _, s := range eng.Sites(hc) {
		if s.Static() != hash {
			continue
		}
		arg := s.Common().Args[1]
		u, isU := arg.(*ssa.UnOp)
		if !isU {
			continue
		}
		ia, isIA := u.X.(*ssa.IndexAddr)
		if !isIA {
			// ranging by value (`for i, child := range n.Children`) — index not bounded by 16
			if strings.Contains(eng.Desc(arg), "Children") {
				n++
				ok, why = false, "children are ranged over including index 16"
			}
			continue
		}
		if _, f := eng.FieldOf(ia.X); f != "Children" {
			continue
		}
		n++
		bounded := false
		for _, cd := range eng.CondsAt(s.Instr) {
			if m, isM := cd.Cmp(); isM && m.X == ia.Index && m.Op == token.LSS {
				if k, isK := eng.ConstInt(m.Y); isK && k == 16 {
					bounded = true
				}
			}
		}
		if !bounded {
			ok, why = false, "h.hash is applied to Children[i] without the bound i < 16"
		}
	}
	if n == 0 {
		// range-by-value form: find Range/Next or any h.hash call whose argument derives from Children
		for _, s := range eng.Sites(hc) {
			if s.Static() == hash && strings.Contains(eng.Desc(s.Common().Args[1]), "Children") {
				n++
				ok, why = false, "h.hash is applied to every element of Children, including the value slot 16"
			}
		}
	}
	if n == 0 {
		// the shortNode case hashes n.Val; the fullNode case must exist
		ok, why = false, "no h.hash(n.Children[i]) call recognised in hashChildren"
	}
	r.Check(ok, rule, "hashChildren:value-slot", c.Pos(hc.Pos()), "only Children[0..15] go through hash/store; the value slot is carried over verbatim", why+": a branch value of 32+ bytes would be replaced by its hash in the node encoding")
}

// hexPrefixRef: the arithmetic constants of the hex-prefix (compact) key
// encoding, per function, as the Yellow Paper defines them (appendix C):
// flag nibble = 2·terminator + odd, high nibble first, terminator nibble 16.
var hexPrefixRef = map[string][]string{
	"hexToCompact":  {"<< 5", "| 16", "& 1", "== 1", "/ 2", "+ 1"},
	"compactToHex":  {"< 2", "& 1", "2 -"},
	"keybytesToHex": {"/ 16", "% 16", "* 2", "store 16"},
	"hexToKeybytes": {"/ 2", "& 1", "!= 0"},
	"decodeNibbles": {"<< 4", "+ 2", "+ 1"},
	"hasTerm":       {"== 16", "> 0", "- 1"},
}

// c02HexPrefix: encoder and decoder of the compact key form keep the constants
// that make them inverse to each other and equal to the specification.
func c02HexPrefix(c *eng.Ctx, r *eng.Report) {
	const rule = "R2.8"
	r.Min(rule, 6)
	var names []string
	for n := range hexPrefixRef {
		names = append(names, n)
	}
	sort.Strings(names)
	for _, n := range names {
		fn := c.Func("storage/trie", n)
		if !r.Anchor(fn != nil, rule, "trie."+n) {
			continue
		}
		have := map[string]bool{}
		for _, b := range fn.Blocks {
			for _, in := range b.Instrs {
				switch x := in.(type) {
				case *ssa.BinOp:
					if k, ok := eng.ConstInt(x.Y); ok {
						have[fmt.Sprintf("%s %d", x.Op, k)] = true
					}
					if k, ok := eng.ConstInt(x.X); ok {
						have[fmt.Sprintf("%d %s", k, x.Op)] = true
						switch x.Op { // commutative: the side the constant stands on is spelling
						case token.OR, token.AND, token.ADD, token.MUL, token.XOR, token.EQL, token.NEQ:
							have[fmt.Sprintf("%s %d", x.Op, k)] = true
						}
					}
				case *ssa.Store:
					if k, ok := eng.ConstInt(x.Val); ok {
						have[fmt.Sprintf("store %d", k)] = true
					}
				}
			}
		}
		// arithmetically equivalent spellings of one operation count as that operation
		equiv := map[string][]string{"<< 5": {"* 32"}, "| 16": {"+ 16", "^ 16"}, "& 1": {"% 2"}, "/ 2": {">> 1"}, "/ 16": {">> 4"}, "% 16": {"& 15"},
			"* 2": {"<< 1"}, "<< 4": {"* 16"}, "== 1": {"!= 0"}, "!= 0": {"== 1"}}
		var missing []string
		for _, w := range hexPrefixRef[n] {
			ok := have[w]
			for _, alt := range equiv[w] {
				ok = ok || have[alt]
			}
			if !ok {
				missing = append(missing, w)
			}
		}
		var got []string
		for k := range have {
			got = append(got, k)
		}
		sort.Strings(got)
		r.Check(len(missing) == 0, rule, "hex-prefix:"+n, c.Pos(fn.Pos()), "constants of the compact encoding present: "+strings.Join(hexPrefixRef[n], ", "), n+" lost constant operation(s) "+strings.Join(missing, ", ")+" of the hex-prefix encoding (found: "+strings.Join(got, ", ")+"): encoder and decoder stop being inverse, or the stored keys stop being the specification's, and with them every root")
	}
}

// c02IterCursor: the node iterator's look-ahead (peek → nextChild) does not
// move the cursor past the child it offers — only push() does, by one. seek()
// relies on this: the entry it stops in front of must still be returned by the
// next Next(). (Iteration order as such is not decided.)
func c02IterCursor(c *eng.Ctx, r *eng.Report) {
	const rule = "R2.9"
	r.Min(rule, 2)
	nc := c.Func("storage/trie", "(*nodeIterator).nextChild")
	push := c.Func("storage/trie", "(*nodeIterator).push")
	peek := c.Func("storage/trie", "(*nodeIterator).peek")
	if !r.Anchor(nc != nil && push != nil && peek != nil, rule, "nodeIterator.nextChild/push/peek") {
		return
	}
	// (a) in the look-ahead, the cursor of an existing state is only ever set to (offered child − 1)
	why := ""
	n := 0
	for _, fn := range []*ssa.Function{nc, peek} {
		for _, st := range eng.FieldStores(fn, "storage/trie.nodeIteratorState", "index") {
			s := st.(*ssa.Store)
			// stores that initialise a freshly built state (index: -1 / 0 in a composite literal) are not cursor moves
			if fa, ok := s.Addr.(*ssa.FieldAddr); ok {
				if _, fresh := fa.X.(*ssa.Alloc); fresh {
					continue
				}
			}
			n++
			bo, ok := s.Val.(*ssa.BinOp)
			k, isK := int64(0), false
			if ok {
				k, isK = eng.ConstInt(bo.Y)
			}
			if !ok || bo.Op != token.SUB || !isK || k != 1 {
				why = "the look-ahead (" + fn.Name() + ") sets a state's cursor to " + eng.Desc(s.Val) + " (" + c.Pos(s.Pos()) + ") instead of (offered child − 1)"
				continue
			}
			if _, isPhi := bo.X.(*ssa.Phi); !isPhi {
				why = "the cursor is not derived from the child-scan variable"
			}
		}
	}
	// (a') nobody else moves a cursor: seek() positions the iterator only by pushing what peek offers
	for _, fn := range c.PkgFuncs("storage/trie") {
		if c.IsTestFunc(fn) || fn == nc || fn == peek {
			continue
		}
		for _, st := range eng.FieldStores(fn, "storage/trie.nodeIteratorState", "index") {
			s := st.(*ssa.Store)
			if fa, ok := s.Addr.(*ssa.FieldAddr); ok {
				if _, fresh := fa.X.(*ssa.Alloc); fresh {
					continue
				}
			}
			why = eng.FuncName(fn) + " sets a state's cursor to " + eng.Desc(s.Val) + " (" + c.Pos(s.Pos()) + "): only the look-ahead may position a cursor, and only to (offered child − 1)"
		}
	}
	r.Check(why == "" && n >= 1, rule, "nodeIterator.peek:look-ahead-only", c.Pos(nc.Pos()), "nextChild leaves the cursor one before the child it offers", "trie node iterator: "+why+fmt.Sprintf(" (%d cursor stores seen)", n)+": peeking already consumes the child, so the entry seek() stops in front of (iteration from a start key) is skipped")
	// (b) push advances the parent's cursor by exactly one through the pointer peek handed out
	inc := false
	for _, b := range push.Blocks {
		for _, in := range b.Instrs {
			s, ok := in.(*ssa.Store)
			if !ok || !isParamNamed(s.Addr, "parentIndex") {
				continue
			}
			if bo, isB := s.Val.(*ssa.BinOp); isB && bo.Op == token.ADD {
				if k, isK := eng.ConstInt(bo.Y); isK && k == 1 {
					if u, isU := bo.X.(*ssa.UnOp); isU && isParamNamed(u.X, "parentIndex") {
						inc = true
					}
				}
			}
		}
	}
	handsOut := false
	for _, re := range eng.Returns(peek) {
		if len(re.Ret.Results) >= 2 {
			if _, f := eng.FieldOf(eng.RetValue(re.Ret, 1)); f == "index" {
				handsOut = true
			}
		}
	}
	r.Check(inc && handsOut, rule, "nodeIterator.push:advance-by-one", c.Pos(push.Pos()), "push increments the parent's cursor (handed out by peek as &parent.index) by one", fmt.Sprintf("trie node iterator: the cursor is no longer advanced in push by one through the pointer peek returns (push increments=%v, peek returns &parent.index=%v)", inc, handsOut))
}

// c02KindDispatch: whoever splits an RLP item and branches on its kind either
// handles all three kinds (Byte, String, List) or ends the dispatch in an
// error: a kind that falls through silently is content that is read as absent
// after a reload (a one-byte value below 0x80 has kind Byte, not String).
func c02KindDispatch(c *eng.Ctx, r *eng.Report) {
	const rule = "R2.10"
	r.Min(rule, 1)
	n := 0
	for _, fn := range c.PkgFuncs("storage/trie") {
		if c.IsTestFunc(fn) {
			continue
		}
		for i, call := range callsNamed(fn, "storage/rlp.Split") {
			var kind ssa.Value
			for _, ref := range *call.Referrers() {
				if ex, ok := ref.(*ssa.Extract); ok && ex.Index == 0 {
					kind = ex
				}
			}
			if kind == nil || kind.Referrers() == nil {
				continue
			}
			consts := map[int64]bool{}
			var cmps []ssa.Value
			for _, ref := range *kind.Referrers() {
				if bo, ok := ref.(*ssa.BinOp); ok && (bo.Op == token.EQL || bo.Op == token.NEQ) {
					if k, isK := eng.ConstInt(bo.Y); isK {
						consts[k] = true
						cmps = append(cmps, bo)
					}
				}
			}
			if len(cmps) == 0 {
				continue // kind not used for dispatch
			}
			n++
			exhaustive := consts[0] && consts[1] && consts[2]
			// a default that fails: a non-nil error return on which no kind comparison is known to have succeeded
			defaultErr := false
			for _, re := range eng.Returns(fn) {
				idx := len(re.Ret.Results) - 1
				if cls := eng.RetClass(re.Ret, idx, re.Pred); cls == "nil" {
					continue
				}
				pos, neg := 0, 0
				for _, cd := range eng.EdgeConds(re.Ret.Block()) {
					for _, cm := range cmps {
						if cd.V == cm {
							bo := cm.(*ssa.BinOp)
							if (bo.Op == token.EQL) == cd.True {
								pos++
							} else {
								neg++
							}
						}
					}
				}
				if pos == 0 && neg > 0 {
					defaultErr = true
				}
			}
			key := fmt.Sprintf("kind-dispatch:%s#%d", eng.FuncName(fn), i)
			r.Check(exhaustive || defaultErr, rule, key, c.Pos(call.Pos()), "all three kinds handled, or the dispatch ends in an error", eng.FuncName(fn)+" branches on the kind of a split RLP item without handling every kind (Byte handled="+fmt.Sprint(consts[0])+", String="+fmt.Sprint(consts[1])+", List="+fmt.Sprint(consts[2])+") and without a failing default: an item of the unhandled kind is silently dropped — e.g. a one-byte value below 0x80 stored in a branch node reads as absent after the node is reloaded, and the next update gives a non-canonical root")
		}
	}
	if n == 0 {
		r.Fail(rule, "kind-dispatch:none", "", "no kind dispatch over rlp.Split found in storage/trie (decodeRef expected)")
	}
}

// c02PrefixLen: insert and delete split a short node at prefixLen(key, n.Key);
// the shape of the trie (hence the root) is canonical only if that is the
// true common-prefix length. Structurally: the function scans with a position
// carried round a loop, and whatever it returns once it has compared key
// content must be computed from that position. A fast path that returns the
// offset inside its current window is correct for the first window only.
func c02PrefixLen(c *eng.Ctx, r *eng.Report) {
	const rule = "R2.11"
	r.Min(rule, 1)
	fn := c.Func("storage/trie", "prefixLen")
	if !r.Anchor(fn != nil, rule, "prefixLen") {
		return
	}
	// loop-carried positions: phis one of whose edges derives from the phi itself
	var carried []*ssa.Phi
	for _, b := range fn.Blocks {
		for _, in := range b.Instrs {
			phi, ok := in.(*ssa.Phi)
			if !ok {
				break
			}
			for _, e := range phi.Edges {
				if e != phi && valueDerivesFromValue(e, phi) {
					carried = append(carried, phi)
					break
				}
			}
		}
	}
	// arithmetic on the position only: a value obtained by looking at content at
	// that position (loads, slices, calls) is not itself a position
	fromPos := func(v ssa.Value) bool {
		seen := map[ssa.Value]bool{}
		var walk func(v ssa.Value, d int) bool
		walk = func(v ssa.Value, d int) bool {
			if v == nil || d > 8 || seen[v] {
				return false
			}
			seen[v] = true
			switch x := v.(type) {
			case *ssa.Phi:
				for _, p := range carried {
					if p == x {
						return true
					}
				}
				for _, e := range x.Edges {
					if walk(e, d+1) {
						return true
					}
				}
			case *ssa.BinOp:
				return walk(x.X, d+1) || walk(x.Y, d+1)
			case *ssa.Convert:
				return walk(x.X, d+1)
			case *ssa.ChangeType:
				return walk(x.X, d+1)
			}
			return false
		}
		return walk(v, 0)
	}
	// does v look at key content (an element or sub-slice of a parameter)?
	content := func(v ssa.Value) bool {
		seen := map[ssa.Value]bool{}
		var walk func(v ssa.Value, d int) bool
		walk = func(v ssa.Value, d int) bool {
			if v == nil || d > 8 || seen[v] {
				return false
			}
			seen[v] = true
			switch x := v.(type) {
			case *ssa.IndexAddr:
				if _, isP := x.X.(*ssa.Parameter); isP {
					return true
				}
			case *ssa.Slice:
				if _, isP := x.X.(*ssa.Parameter); isP {
					return true
				}
			}
			if in, ok := v.(ssa.Instruction); ok {
				var ops []*ssa.Value
				for _, o := range in.Operands(ops) {
					if *o != nil && walk(*o, d+1) {
						return true
					}
				}
			}
			return false
		}
		return walk(v, 0)
	}
	inLoop := func(b *ssa.BasicBlock) bool {
		for _, p := range carried {
			if p.Block() == b || p.Block().Dominates(b) {
				return true
			}
		}
		return false
	}
	bad := ""
	n := 0
	for _, re := range eng.Returns(fn) {
		v := re.Incoming(0)
		if !inLoop(re.Ret.Block()) {
			continue // before the scan started
		}
		n++
		if fromPos(v) {
			continue
		}
		// a return after the scan that does not use the position is acceptable only
		// when no content comparison decided it (`return length` after a clean scan)
		blk := re.Ret.Block()
		if re.Pred != nil {
			blk = re.Pred
		}
		for _, cd := range eng.EdgeConds(blk) {
			if content(cd.V) {
				bad = c.Pos(re.Ret.Pos()) + " returns " + eng.Desc(v) + " under " + eng.Desc(cd.V)
			}
		}
	}
	r.Check(len(carried) > 0 && n > 0 && bad == "", rule, "prefixLen:position", c.Pos(fn.Pos()), fmt.Sprintf("%d return(s) after the scan started, each computed from the carried position", n), "prefixLen "+bad+": the result of a content comparison is returned without the scan position it was made at, so for keys that first differ beyond the first step the reported common prefix is too short — insert/delete split the short node at the wrong nibble and two tries holding the same entries get different shapes and different roots")
}

// c02RootReported: Commit has named results; a bare return hands back the zero
// hash, which is not the root of the empty set.
func c02RootReported(c *eng.Ctx, r *eng.Report) {
	const rule = "R2.12"
	r.Min(rule, 2)
	for _, spec := range []struct {
		name   string
		errIdx int
	}{{"(*Trie).Hash", -1}, {"(*Trie).Commit", 1}} {
		fn := c.Func("storage/trie", spec.name)
		if !r.Anchor(fn != nil, rule, "trie."+spec.name) {
			continue
		}
		bad := ""
		n := 0
		for _, re := range eng.Returns(fn) {
			if spec.errIdx >= 0 && !eng.IsNilConst(re.Incoming(spec.errIdx)) {
				continue
			}
			n++
			v := re.Incoming(0)
			if !strings.Contains(eng.Desc(v), "hashRoot(") {
				bad = c.Pos(re.Ret.Pos()) + " returns " + eng.Desc(v)
			}
		}
		r.Check(bad == "" && n >= 1, rule, "root-reported:"+spec.name, c.Pos(fn.Pos()), "every reported root comes out of hashRoot", spec.name+" at "+bad+", which is not the hash hashRoot computed: for an empty trie the reported root is then the zero hash instead of the empty-set root 56e81f17…, and Hash() and Commit() disagree about the same trie")
	}
}

// c02NoLengthFloor: see R2.4 — the root is forced to be stored under its hash
// even when its encoding is shorter than a hash.
func c02NoLengthFloor(c *eng.Ctx, r *eng.Report) {
	const rule = "R2.13"
	r.Min(rule, 1)
	bad := ""
	n := 0
	for _, name := range []string{"(*NodeDatabase).node", "(*NodeDatabase).Node", "(*NodeDatabase).preimage"} {
		fn := c.Func("storage/trie", name)
		if !r.Anchor(fn != nil, rule, "trie."+name) {
			continue
		}
		n++
		for _, b := range fn.Blocks {
			iff, ok := b.Instrs[len(b.Instrs)-1].(*ssa.If)
			if !ok {
				continue
			}
			for _, cd := range eng.Conjuncts(iff.Cond, true, iff) {
				m, isM := cd.Cmp()
				if !isM {
					continue
				}
				for _, pr := range [][2]ssa.Value{{m.X, m.Y}, {m.Y, m.X}} {
					if !strings.HasPrefix(eng.Desc(pr[0]), "builtin:len(") || !strings.Contains(eng.Desc(pr[0]), ".Get(") {
						continue
					}
					if k, isK := eng.ConstInt(pr[1]); !isK || k > 1 {
						bad = name + " compares " + eng.Desc(pr[0]) + " with " + eng.Desc(pr[1]) + " (" + c.Pos(iff.Pos()) + ")"
					}
				}
			}
		}
	}
	r.Check(bad == "" && n >= 2, rule, "store-read:no-length-floor", "", "presence of a stored node depends only on the lookup error and on the blob being nil/empty", bad+": a stored node shorter than that is treated as missing, but the root node is always stored under its hash, however short (hasher.store force=true) — a trie whose root encodes to fewer bytes cannot be read back after a commit: MissingNodeError for its own root")
}

// c02EmbeddedDecode: two sites, one contract.
func c02EmbeddedDecode(c *eng.Ctx, r *eng.Report) {
	const rule = "R2.14"
	r.Min(rule, 1)
	dn := c.Func("storage/trie", "decodeNode")
	dr := c.Func("storage/trie", "decodeRef")
	if !r.Anchor(dn != nil && dr != nil, rule, "trie.decodeNode/decodeRef") {
		return
	}
	strict := false
	for _, call := range callsNamed(dn, "storage/rlp.SplitList") {
		for _, ref := range *call.Referrers() {
			if ex, ok := ref.(*ssa.Extract); ok && ex.Index == 1 && ex.Referrers() != nil && len(*ex.Referrers()) > 0 {
				strict = true
			}
		}
	}
	trimmed := true
	for _, s := range eng.Sites(dr) {
		if s.Common().StaticCallee() != dn {
			continue
		}
		arg := s.Common().Args[1]
		sl, isSl := arg.(*ssa.Slice)
		if !isSl || sl.High == nil {
			trimmed = false
		}
	}
	r.Check(!strict || trimmed, rule, "embedded-child:buffer-contract", c.Pos(dn.Pos()), fmt.Sprintf("decodeNode inspects trailing bytes=%v, decodeRef trims the child's buffer=%v", strict, trimmed), "decodeNode now looks at the bytes after the node's list while decodeRef still hands an embedded child the un-trimmed remainder of its parent's buffer: every branch with an inlined (<32-byte) child fails to decode from the store — small keys and values make the trie unreadable after a commit (mustDecodeNode panics)")
}

// c02DecoderRejectsOnlyRLP: see R2.15.
func c02DecoderRejectsOnlyRLP(c *eng.Ctx, r *eng.Report) {
	const rule = "R2.15"
	r.Min(rule, 2)
	for _, name := range []string{"decodeShort", "decodeFull"} {
		fn := c.Func(triePkg, name)
		if !r.Anchor(fn != nil, rule, "trie."+name) {
			continue
		}
		n, bad := 0, ""
		for _, re := range eng.Returns(fn) {
			ev := re.Incoming(1)
			if eng.IsNilConst(ev) {
				continue
			}
			n++
			if !carriesCalleeError(ev) {
				bad = c.Pos(re.Ret.Pos())
				if in, ok := ev.(ssa.Instruction); ok && in.Pos().IsValid() {
					bad = c.Pos(in.Pos())
				}
			}
		}
		r.Check(bad == "" && n >= 1, rule, "decoder-own-error:"+name, c.Pos(fn.Pos()), fmt.Sprintf("%d error returns, each carries the error of an RLP split or child decode", n), name+" raises an error of its own at "+bad+" (no callee failed): it rejects a node the encoder writes — a leaf whose path is only the terminator, as left by two keys differing in their last nibble — so a committed trie cannot be read back: Get panics in mustDecodeNode or returns MissingNodeError for a key that was stored")
	}
}

// carriesCalleeError: v is, or is built from, the error result of a call that
// is not itself an error constructor.
func carriesCalleeError(v ssa.Value) bool {
	seen := map[ssa.Value]bool{}
	var walk func(v ssa.Value, d int) bool
	walk = func(v ssa.Value, d int) bool {
		if v == nil || d > 14 || seen[v] {
			return false
		}
		seen[v] = true
		isErr := types.Identical(v.Type(), types.Universe.Lookup("error").Type())
		switch x := v.(type) {
		case *ssa.Extract:
			if isErr {
				if call, ok := x.Tuple.(*ssa.Call); ok && !errorCtor(call) {
					return true
				}
			}
			return false
		case *ssa.Call:
			if isErr && !errorCtor(x) && len(x.Call.Args) == 0 {
				return true
			}
			for _, a := range x.Call.Args {
				if walk(a, d+1) {
					return true
				}
			}
			if isErr && !errorCtor(x) {
				// an error-returning module function handed no error: its own
				return false
			}
			return false
		case *ssa.Phi:
			for _, e := range x.Edges {
				if eng.IsNilConst(e) {
					continue
				}
				if !walk(e, d+1) {
					return false
				}
			}
			return true
		case *ssa.Slice:
			return walk(x.X, d+1)
		case *ssa.Alloc:
			for _, ref := range *x.Referrers() {
				switch y := ref.(type) {
				case *ssa.IndexAddr:
					for _, r2 := range *y.Referrers() {
						if st, ok := r2.(*ssa.Store); ok && walk(st.Val, d+1) {
							return true
						}
					}
				case *ssa.Store:
					if y.Addr == ssa.Value(x) && walk(y.Val, d+1) {
						return true
					}
				}
			}
			return false
		case *ssa.MakeInterface:
			return walk(x.X, d+1)
		case *ssa.ChangeInterface:
			return walk(x.X, d+1)
		case *ssa.ChangeType:
			return walk(x.X, d+1)
		case *ssa.UnOp:
			return walk(x.X, d+1)
		}
		return false
	}
	return walk(v, 0)
}

func errorCtor(call *ssa.Call) bool {
	n := eng.CallName(&call.Call)
	return n == "fmt.Errorf" || n == "errors.New"
}

// c02NodeCensus: see R2.16.
func c02NodeCensus(c *eng.Ctx, r *eng.Report) {
	const rule = "R2.16"
	r.Min(rule, 4)
	reviewed := map[string][]string{
		"Trie":      {"db", "root", "originalRoot", "cachegen", "cachelimit"},
		"fullNode":  {"Children", "flags"},
		"shortNode": {"Key", "Val", "flags"},
		"nodeFlag":  {"hash", "gen", "dirty"},
	}
	for _, tn := range []string{"Trie", "fullNode", "shortNode", "nodeFlag"} {
		st := c.Struct(triePkg, tn)
		if !r.Anchor(st != nil, rule, "storage/trie."+tn) {
			continue
		}
		var unknown []string
		for i := 0; i < st.NumFields(); i++ {
			f := st.Field(i).Name()
			ok := false
			for _, k := range reviewed[tn] {
				if k == f {
					ok = true
				}
			}
			if !ok {
				unknown = append(unknown, f+" "+st.Field(i).Type().String())
			}
		}
		r.Check(len(unknown) == 0, rule, "node-census:"+tn, "", fmt.Sprintf("%d fields, all reviewed", st.NumFields()), "storage/trie."+tn+" has field(s) ["+strings.Join(unknown, "; ")+"] beside the reviewed ones: state that lives next to the nodes is not covered by the root — a child counter kept by insert/delete but filled differently by the decoder makes a reloaded branch collapse (or not collapse) differently from the same trie built in memory, a memo of looked-up values answers for a key that an update path has since removed — so the root, Get and iteration can disagree, or depend on whether the trie went through the database")
	}
}

// c02CascadeEveryChild: see R2.17.
func c02CascadeEveryChild(c *eng.Ctx, r *eng.Report) {
	const rule = "R2.17"
	r.Min(rule, 2)
	for _, name := range []string{"simplifyNode", "expandNode"} {
		fn := c.Func(triePkg, name)
		if !r.Anchor(fn != nil, rule, "trie."+name) {
			continue
		}
		n, bad := 0, ""
		for _, s := range eng.Sites(fn) {
			if s.Common().StaticCallee() != fn {
				continue
			}
			// the child argument comes out of an indexed entry of the branch
			var child ssa.Value
			for _, a := range s.Common().Args {
				if _, isIface := a.Type().Underlying().(*types.Interface); isIface {
					child = a
				}
			}
			if child == nil || !strings.Contains(eng.Desc(child), "[") {
				continue
			}
			n++
			for _, cd := range eng.CondsAt(s.Instr) {
				if m, isM := cd.Cmp(); isM {
					if eng.IsNilConst(m.X) || eng.IsNilConst(m.Y) {
						continue // child != nil
					}
					if strings.Contains(eng.Desc(m.X), "builtin:len(") || strings.Contains(eng.Desc(m.Y), "builtin:len(") {
						continue // loop bound
					}
					if _, isK := eng.ConstInt(m.Y); isK {
						continue // constant loop bound
					}
				}
				if ex, isE := cd.V.(*ssa.Extract); isE {
					if _, isTA := ex.Tuple.(*ssa.TypeAssert); isTA {
						// which case of the type switch on the node itself we are in is fine; a test on the child is not
						if ta := ex.Tuple.(*ssa.TypeAssert); ta.X == ssa.Value(fn.Params[len(fn.Params)-1]) || (len(fn.Params) >= 2 && ta.X == ssa.Value(fn.Params[1])) || ta.X == ssa.Value(fn.Params[0]) {
							continue
						}
					}
				}
				bad = eng.Desc(cd.V) + " at " + c.Pos(s.Pos())
			}
		}
		r.Check(bad == "" && n >= 1, rule, "cascade:"+name, c.Pos(fn.Pos()), fmt.Sprintf("%d recursive call(s) on branch children, each under child != nil only", n), name+" descends into a branch child only under "+bad+": children of the other kinds keep their live form — a small branch embedded directly in another branch stays a *fullNode inside the raw node handed to the database, and Trie.Commit panics in NodeDatabase.insert (unknown node type: *trie.fullNode) with the database lock held, although Hash() is well defined for that content")
	}
}

// c02EncoderCensus: see R2.18.
func c02EncoderCensus(c *eng.Ctx, r *eng.Report) {
	const rule = "R2.18"
	r.Min(rule, 2)
	reviewed := map[string]bool{"(*storage/trie.fullNode).EncodeRLP": true, "(storage/trie.rawFullNode).EncodeRLP": true}
	n := 0
	for _, fn := range c.PkgFuncs(triePkg) {
		if fn.Name() != "EncodeRLP" || fn.Signature.Recv() == nil {
			continue
		}
		n++
		name := eng.FuncName(fn)
		r.Check(reviewed[name], rule, "node-encoder:"+name, c.Pos(fn.Pos()), "reviewed: substitutes empty strings for nil children and calls rlp.Encode", name+" is a hand-written RLP encoder for a trie node that is not in the reviewed set: the bytes a node is hashed over are then whatever this function writes, not what the RLP codec (decided under C08) writes for the same node — a wrong tag base for long strings changes the root of every trie holding a value of 56 bytes or more, while reads and reloads, which go through the reflection encoder, keep working")
	}
	if n < 2 {
		r.Fail(rule, "node-encoder:census", "", fmt.Sprintf("%d EncodeRLP methods found in the trie package, 2 expected", n))
	}
}
