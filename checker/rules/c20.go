package rules

import (
	"fmt"
	"go/token"
	"sort"
	"strings"

	"golang.org/x/tools/go/ssa"

	"verif/checker/eng"
)

func init() { register("C20", c20) }

func c20(c *eng.Ctx, r *eng.Report) {
	r.Explain = "Agreement rules for the miner registry (service/miner_manager.go, refund_manager.go, executor/miner_executor.go) decided on SSA: " +
		"R20.1 every storage read API the registry uses sits on the same layer as the writes — accountObject.GetData consults the cached layer and DataIterator must flush or overlay the dirty layer before walking the trie; " +
		"R20.2 AddMiner/AddStake debit exactly the stake they record (same uint64 through the same conversion) and only after the id and the account are found free in BOTH registries; " +
		"R20.3 GetRefundStake returns exactly the amount it subtracts from the record, removes the record only on the below-minimum edge of the matching miner type and updates it otherwise, and its callers schedule the returned amount unchanged; " +
		"R20.4 writer, by-id reader, iterator and remover derive the stake/account/status keys with the same Sha256 nesting depth (1/2/3); " +
		"R20.5 a BeforeExecute implementation mutates state only through ProcessFee; " +
		"R20.6 a record is rewritten read-modify-write — UpdateMiner(m, db, false), which writes stake, account and status together, is given the record just read from the registry — and RemoveMiner erases the four slots only on the `left == 0` edge. " +
		"R20.7 the stake total and the proposer set used for leader election grow together, by the record's own stake, only for non-nil records whose status is normal and whose ApplyHeight has been reached, and the proposer count is the size of that same set (no second walk with its own filter). " +
		"R20.11 every lookup answers from the state it is handed: no method of MinerManager consults a process-local cache or writes a package variable — the registration record, stake, account and status live in the AccountDB passed in, and a memo keyed by id outlives the deletion of the record (apply, refund everything, apply again with new keys: lookup by id returns the old ApplyHeight and keys while the registry iteration sees the new record); " +
		"R20.15 RemoveMiner never returns without having written the record: every return is preceded on every path by a SetData on the miner database (the four erasing writes, or stake = left and status = aborted) — its caller has already scheduled the refund, so a path that writes nothing (a contract-owned miner refunded to exactly 0) leaves the stake in place next to the escrowed refund: the refund can be repeated; " +
		"R20.14 a refund added to a height's list reaches the map the block's escrow is booked from: RefundInfoList is a struct value, so wherever AddRefundInfo is called on a local copy, that copy is stored into a map afterwards on every path to the function's return — a list read out of map[height]RefundInfoList by value and appended to without being stored back loses the appended refund (finding F31: the second account's refund of a block is dropped, its stake is reduced and nothing is escrowed); " +
		"R20.13 a miner enters the registry as a normal miner: minerApplyExecutor.Execute sets Status to the constant MinerStatusNormal on the record it hands to AddMiner, on every path — the record is decoded from the transaction's JSON, so otherwise the applicant chooses its status: a record that is locked and registered but aborted (or of an unknown status) is found by id and missing from the proposer totals; " +
		"R20.12 a miner record disappears only through the reviewed paths: RemoveMiner is called by the refund path (which has computed what is left and scheduled the refund) and by the two one-off clean-ups of unused validators, nowhere else — a second caller that removes an aborted miner to let it apply again drops the stake still locked in the record (200 of 10000 vanish); " +
		"R20.10 an escrow slot accumulates: in RefundManager.Add every SetData for an id whose slot was found non-empty writes a value computed from what GetData returned (existing + new) — only on the `slot empty` edge may the new amount be stored alone; a second batch for the same height and account (the unstake opcodes flush per call; a reward landing on the same height) otherwise replaces the first and the earlier refund vanishes; " +
		"R20.9 a refund never exceeds the stake: the subtraction `miner.Stake - money` in GetRefundStake happens only on the `miner.Stake >= money` edge (the fields are unsigned — a test of the difference against zero can never fire, the difference wraps to about 2^64 and the full amount is scheduled); " +
		"R20.8 what AddMiner/AddStake check is what they record: no field of the miner record (account, id, type, stake) is assigned between the uniqueness lookups and UpdateMiner. " +
		"Not decided: the sums themselves; equality of the three lookup results as values."
	r.Assume = []string{"miner records live in the storage of ValidatorDBAddress/ProposerDBAddress only"}
	c20Layers(c, r)
	c20AccountLookup(c, r)
	c20Lock(c, r)
	c20Refund(c, r)
	c20Keys(c, r)
	c20Before(c, r)
	c20Record(c, r)
	c20Election(c, r)
	c20CheckedIsRecorded(c, r)
	c20RefundBounded(c, r)
	c20EscrowAccumulates(c, r)
	c20LookupsUncached(c, r)
	c20WhoRemovesMiners(c, r)
	c20ApplyStartsNormal(c, r)
	c20RefundListWrittenBack(c, r)
	c20RemoveAlwaysWrites(c, r)
}

func c20Layers(c *eng.Ctx, r *eng.Report) {
	const rule = "R20.1"
	r.Min(rule, 2)
	gd := c.Func(acctPkg, "(*accountObject).GetData")
	if r.Anchor(gd != nil, rule, "(*accountObject).GetData") {
		ok := false
		for _, b := range gd.Blocks {
			for _, in := range b.Instrs {
				if lk, isL := in.(*ssa.Lookup); isL {
					if u, isU := lk.X.(*ssa.UnOp); isU {
						if _, f := eng.FieldOf(u.X); f == "cachedStorage" {
							ok = true
						}
					}
				}
			}
		}
		r.Check(ok, rule, "accountObject.GetData:cached-layer", c.Pos(gd.Pos()), "GetData consults the cached layer (which setData writes) before the trie", "GetData no longer consults cachedStorage first: a value written earlier in the block is invisible to lookups by id")
	}
	di := c.Func(acctPkg, "(*accountObject).DataIterator")
	if r.Anchor(di != nil, rule, "(*accountObject).DataIterator") {
		flushes := len(callsNamed(di, "(*storage/account.accountObject).updateTrie")) > 0
		overlays := false
		for _, b := range di.Blocks {
			for _, in := range b.Instrs {
				if fa, isFA := in.(*ssa.FieldAddr); isFA {
					if _, f := eng.FieldOf(fa); f == "dirtyStorage" || f == "cachedStorage" {
						overlays = true
					}
				}
			}
		}
		r.Check(flushes || overlays, rule, "accountObject.DataIterator:dirty-layer", c.Pos(di.Pos()), "the iterator flushes or overlays pending writes before walking the trie", "DataIterator walks ao.trie only, while setData writes cachedStorage/dirtyStorage and the trie is updated at Finalise: records written earlier in the same block are invisible to lookups by account and to iteration, although GetData (lookup by id) sees them — e.g. two MinerApply transactions in one block naming the same account both pass GetMinerIdByAccount(...) == nil")
	}
}

// c20AccountLookup: lookup by account must see every record lookup by id sees —
// GetMinerById returns a record whatever its status, so the by-account scan may
// skip an iterator entry only when there is no record at all.
func c20AccountLookup(c *eng.Ctx, r *eng.Report) {
	const rule = "R20.1"
	fn := c.Func("service", "(*MinerManager).GetMinerIdByAccount")
	if !r.Anchor(fn != nil, rule, "(*MinerManager).GetMinerIdByAccount") {
		return
	}
	n := 0
	// the walk of one registry may stand in a private helper that is called once per registry
	_, helpers := c20RegistryKinds(fn, ".minerIterator")
	var sites []eng.Site
	weight := map[ssa.Instruction]int{}
	for _, s := range eng.Sites(fn) {
		sites = append(sites, s)
		weight[s.Instr] = 1
	}
	for h, k := range helpers {
		for _, s := range eng.Sites(h) {
			sites = append(sites, s)
			weight[s.Instr] = k
		}
	}
	for _, s := range sites {
		if s.Name() != "bytes.Compare" && s.Name() != "bytes.Equal" {
			continue
		}
		if !strings.Contains(eng.Desc(s.Common().Args[0])+eng.Desc(s.Common().Args[1]), ".Account") {
			continue
		}
		n += weight[s.Instr]
		var extra []string
		for _, cd := range eng.CondsAt(s.Instr) {
			d := eng.Desc(cd.V)
			if strings.Contains(d, ".Next(") {
				continue
			}
			if m, isM := cd.Cmp(); isM && m.Op == token.NEQ && (eng.IsNilConst(m.Y) || eng.IsNilConst(m.X)) {
				v := m.X
				if eng.IsNilConst(m.X) {
					v = m.Y
				}
				if ex, isE := v.(*ssa.Extract); isE && ex.Index == 0 && strings.Contains(eng.Desc(ex.Tuple), ".Current(") {
					continue
				}
				extra = append(extra, "`"+eng.Desc(v)+" != nil`")
				continue
			}
			extra = append(extra, d)
		}
		key := fmt.Sprintf("GetMinerIdByAccount:filter#%d", n)
		r.Check(len(extra) == 0, rule, key, c.Pos(s.Pos()), "the scan compares the account of every record the iterator yields (only record == nil is skipped)", "lookup by account skips records on an extra condition ("+strings.Join(extra, "; ")+") that lookup by id does not apply: e.g. an aborted miner is still found by id but not by account, so the same account can register a second miner")
	}
	if n < 2 {
		r.Fail(rule, "GetMinerIdByAccount:filter", c.Pos(fn.Pos()), fmt.Sprintf("%d account comparisons found (2 expected, one per registry)", n))
	}
}

func c20Lock(c *eng.Ctx, r *eng.Report) {
	const rule = "R20.2"
	r.Min(rule, 4)
	// AddMiner
	am := c.Func("service", "(*MinerManager).AddMiner")
	if r.Anchor(am != nil, rule, "(*MinerManager).AddMiner") {
		sub := callsNamed(am, "(*storage/account.AccountDB).SubBalance")
		upd := callsNamed(am, "(*service.MinerManager).UpdateMiner")
		ok := len(sub) == 1 && len(upd) == 1
		why := "SubBalance/UpdateMiner not found"
		if ok {
			amt := eng.Desc(sub[0].Call.Args[2])
			if !(strings.Contains(amt, "utility.Float64ToBigInt(") && strings.Contains(amt, "miner.Stake")) {
				ok, why = false, "debited amount is "+amt+", not Float64ToBigInt(float64(miner.Stake))"
			}
			if upd[0].Call.Args[1] != ssa.Value(am.Params[2]) {
				ok, why = false, "the record written is not the miner whose stake was debited"
			}
			idFree, acctFree := false, false
			for _, cd := range eng.CondsAt(sub[0]) {
				m, isM := cd.Cmp()
				if !isM || m.Op != token.EQL {
					continue
				}
				x := m.X
				if eng.IsNilConst(m.X) {
					x = m.Y
				} else if !eng.IsNilConst(m.Y) {
					continue
				}
				d := eng.Desc(x)
				if strings.Contains(d, ".GetMiner(") && strings.Contains(d, "miner.Id") {
					idFree = true
				}
				if strings.Contains(d, ".GetMinerIdByAccount(") && strings.Contains(d, "miner.Account") {
					acctFree = true
				}
			}
			if !idFree || !acctFree {
				ok, why = false, fmt.Sprintf("stake is locked without the uniqueness tests (id free=%v, account free=%v)", idFree, acctFree)
			}
			if !eng.Dominates(sub[0], upd[0]) {
				ok, why = false, "the record is written before the balance is debited"
			}
		}
		r.Check(ok, rule, "AddMiner:lock-pairing", c.Pos(am.Pos()), "debits Float64ToBigInt(float64(miner.Stake)) and records that miner, after id and account were found free", why)
	}
	as := c.Func("service", "(*MinerManager).AddStake")
	if r.Anchor(as != nil, rule, "(*MinerManager).AddStake") {
		sub := callsNamed(as, "(*storage/account.AccountDB).SubBalance")
		ok := len(sub) == 1
		why := "SubBalance not found"
		if ok {
			amt := eng.Desc(sub[0].Call.Args[2])
			if !(strings.Contains(amt, "utility.Float64ToBigInt(") && strings.Contains(amt, "delta")) {
				ok, why = false, "debited amount is "+amt+", not Float64ToBigInt(float64(delta))"
			}
			// miner.Stake = miner.Stake + delta
			okAdd := false
			for _, b := range as.Blocks {
				for _, in := range b.Instrs {
					if st, isS := in.(*ssa.Store); isS {
						if _, f := eng.FieldOf(st.Addr); f == "Stake" {
							if bo, isB := st.Val.(*ssa.BinOp); isB && bo.Op == token.ADD && (bo.Y == ssa.Value(as.Params[3]) || bo.X == ssa.Value(as.Params[3])) {
								okAdd = true
							}
						}
					}
				}
			}
			if !okAdd {
				ok, why = false, "the recorded stake is not increased by the same delta that is debited"
			}
		}
		r.Check(ok, rule, "AddStake:lock-pairing", c.Pos(as.Pos()), "debits Float64ToBigInt(float64(delta)) and adds delta to the recorded stake", why)
	}
	// R20.2b both registries
	for _, spec := range []struct{ fn, callee string }{{"(*MinerManager).GetMinerIdByAccount", ".minerIterator"}, {"(*MinerManager).GetMiner", ".GetMinerById"}} {
		fn := c.Func("service", spec.fn)
		if !r.Anchor(fn != nil, rule, spec.fn) {
			continue
		}
		kinds, _ := c20RegistryKinds(fn, spec.callee)
		r.Check(len(kinds) >= 2, rule, "both-registries:"+spec.fn, c.Pos(fn.Pos()), "consults both the validator and the proposer registry", spec.fn+" consults only one miner registry: an account (or id) can hold one miner of each type")
	}
}

func c20Refund(c *eng.Ctx, r *eng.Report) {
	const rule = "R20.3"
	r.Min(rule, 4)
	fn := c.Func("service", "(*RefundManager).GetRefundStake")
	if r.Anchor(fn != nil, rule, "(*RefundManager).GetRefundStake") {
		// success return: result #1 = Uint64ToBigInt(refund) where refund is the `money` (phi with miner.Stake for MaxUint64)
		var bad []string
		var money ssa.Value
		for _, re := range eng.Returns(fn) {
			if !eng.IsNilConst(re.Incoming(3)) {
				continue
			}
			call, ok := re.Incoming(1).(*ssa.Call)
			if !ok || eng.CallName(&call.Call) != "utility.Uint64ToBigInt" {
				bad = append(bad, "the amount returned is not Uint64ToBigInt(refund)")
				continue
			}
			money = call.Call.Args[0]
		}
		// left = miner.Stake - money with the same money
		var left *ssa.BinOp
		for _, b := range fn.Blocks {
			for _, in := range b.Instrs {
				if bo, ok := in.(*ssa.BinOp); ok && bo.Op == token.SUB && strings.HasSuffix(eng.Desc(bo.X), ".Stake") {
					left = bo
				}
			}
		}
		if left == nil || money == nil || left.Y != money {
			bad = append(bad, "the amount subtracted from the recorded stake is not the amount returned for refund")
		}
		rm := callsNamed(fn, "(*service.MinerManager).RemoveMiner")
		up := callsNamed(fn, "(*service.MinerManager).UpdateMiner")
		if len(rm) != 1 || len(up) != 1 {
			bad = append(bad, fmt.Sprintf("RemoveMiner calls=%d UpdateMiner calls=%d", len(rm), len(up)))
		} else if left != nil {
			if rm[0].Call.Args[len(rm[0].Call.Args)-1] != ssa.Value(left) {
				bad = append(bad, "RemoveMiner is not given the remaining stake")
			}
			// UpdateMiner after miner.Stake = left
			stored := false
			for _, b := range fn.Blocks {
				for _, in := range b.Instrs {
					if st, ok := in.(*ssa.Store); ok && st.Val == ssa.Value(left) {
						if _, f := eng.FieldOf(st.Addr); f == "Stake" && eng.Dominates(st, up[0]) {
							stored = true
						}
					}
				}
			}
			if !stored {
				bad = append(bad, "UpdateMiner is not preceded by miner.Stake = left")
			}
			// threshold edge: RemoveMiner block is reached via `left < XStake` comparisons; UpdateMiner not under them
			thr := 0
			for _, b := range fn.Blocks {
				if iff, ok := b.Instrs[len(b.Instrs)-1].(*ssa.If); ok {
					if m, isM := eng.DecodeCmp(iff.Cond); isM && m.X == ssa.Value(left) && m.Op == token.LSS {
						if b.Succs[0] == rm[0].Block() {
							thr++
						}
						if b.Succs[0] == up[0].Block() {
							bad = append(bad, "UpdateMiner is on the below-minimum edge")
						}
					}
					// the per-type tests extracted into a boolean helper that is handed `left`
					if hc, isC := iff.Cond.(*ssa.Call); isC {
						if h := hc.Call.StaticCallee(); h != nil && h.Pkg == fn.Pkg && h.Blocks != nil {
							var prm *ssa.Parameter
							for i, a := range hc.Call.Args {
								if a == ssa.Value(left) && i < len(h.Params) {
									prm = h.Params[i]
								}
							}
							n := 0
							if prm != nil {
								for _, hb := range h.Blocks {
									for _, hin := range hb.Instrs {
										if bo, isB := hin.(*ssa.BinOp); isB && bo.Op == token.LSS && bo.X == ssa.Value(prm) {
											n++
										}
									}
								}
							}
							if n > 0 && b.Succs[0] == rm[0].Block() {
								thr += n
							}
							if n > 0 && b.Succs[0] == up[0].Block() {
								bad = append(bad, "UpdateMiner is on the below-minimum edge")
							}
						}
					}
				}
			}
			if thr < 2 {
				bad = append(bad, fmt.Sprintf("RemoveMiner is reached from %d `left < minimum` tests (2 expected: proposer and validator)", thr))
			}
		}
		r.Check(len(bad) == 0, rule, "GetRefundStake:pairing", c.Pos(fn.Pos()), "refunded amount == amount subtracted; record removed below the type's minimum, updated otherwise", strings.Join(uniq(bad), "; "))
	}
	// callers schedule the returned amount unchanged
	for _, spec := range []struct{ pkg, fn string }{{"executor", "(*minerRefundExecutor).Execute"}, {"vm", "opUnStake"}, {"vm", "opUnStakeAll"}} {
		f := c.Func(spec.pkg, spec.fn)
		if !r.Anchor(f != nil, rule, spec.fn) {
			continue
		}
		gr := callsNamed(f, "(*service.RefundManager).GetRefundStake")
		ok := len(gr) == 1
		if ok {
			ok = false
			for _, s := range eng.Sites(f) {
				if strings.HasSuffix(s.Name(), "RefundInfoList).AddRefundInfo") {
					a := s.Common().Args
					v := a[len(a)-1]
					if ex, isE := v.(*ssa.Extract); isE && ex.Tuple == ssa.Value(gr[0]) && ex.Index == 1 {
						ok = true
					} else {
						ok = false
						break
					}
				}
			}
		}
		r.Check(ok, rule, "refund-scheduled-unchanged:"+spec.fn, c.Pos(f.Pos()), "the amount returned by GetRefundStake is scheduled unchanged", spec.fn+" schedules a refund amount other than the one GetRefundStake subtracted from the stake")
	}
}

func shaDepth(v ssa.Value) int { return strings.Count(eng.Desc(v), "common.Sha256(") }

func c20Keys(c *eng.Ctx, r *eng.Report) {
	const rule = "R20.4"
	r.Min(rule, 4)
	want := map[string]int{"stake": 1, "account": 2, "status": 3}
	show := func(m map[string]int) string {
		var p []string
		for k, v := range m {
			p = append(p, fmt.Sprintf("%s=%d", k, v))
		}
		sort.Strings(p)
		return strings.Join(p, " ")
	}
	// writer
	um := c.Func("service", "(*MinerManager).UpdateMiner")
	if r.Anchor(um != nil, rule, "UpdateMiner") {
		got := map[string]int{}
		for _, call := range callsNamed(um, "(*storage/account.AccountDB).SetData") {
			val := eng.Desc(call.Call.Args[3])
			d := shaDepth(call.Call.Args[2])
			switch {
			case strings.Contains(val, ".Stake"):
				got["stake"] = d
			case strings.Contains(val, ".Account"):
				got["account"] = d
			case strings.Contains(val, ".Status"):
				got["status"] = d
			default:
				// []byte{miner.Status}: a one-element literal whose element is the Status field
				if sl, isSl := call.Call.Args[3].(*ssa.Slice); isSl {
					if al, isAl := sl.X.(*ssa.Alloc); isAl {
						for _, ref := range *al.Referrers() {
							if ia, isIA := ref.(*ssa.IndexAddr); isIA {
								for _, r2 := range *ia.Referrers() {
									if st, isSt := r2.(*ssa.Store); isSt && strings.HasSuffix(eng.Desc(st.Val), ".Status") {
										got["status"] = d
									}
								}
							}
						}
					}
				}
			}
		}
		r.Check(show(got) == show(want), rule, "key-depth:UpdateMiner", c.Pos(um.Pos()), "writes "+show(got), "UpdateMiner writes "+show(got)+", reference is "+show(want))
	}
	// by-id reader
	if f := c.Func("service", "(*MinerManager).GetMinerById"); f != nil {
		got := c20MinerFieldDepths(f, 1)
		r.Check(show(got) == show(want), rule, "key-depth:GetMinerById", c.Pos(f.Pos()), "reads "+show(got), "GetMinerById reads "+show(got)+", the writer uses "+show(want)+": lookup by id returns a different stake/account/status than was written")
	}
	// iterator
	cur := c.Func("service", "(*MinerIterator).Current")
	if r.Anchor(cur != nil, rule, "(*MinerIterator).Current") {
		got := c20MinerFieldDepths(cur, 1)
		r.Check(show(got) == show(want), rule, "key-depth:MinerIterator.Current", c.Pos(cur.Pos()), "reads "+show(got), "MinerIterator.Current reads "+show(got)+", the writer uses "+show(want)+": iteration / lookup by account disagrees with lookup by id")
	}
	rm := c.Func("service", "(*MinerManager).RemoveMiner")
	if r.Anchor(rm != nil, rule, "RemoveMiner") {
		var depths []int
		for _, call := range callsNamed(rm, "(*storage/account.AccountDB).SetData") {
			depths = append(depths, shaDepth(call.Call.Args[2]))
		}
		sort.Ints(depths)
		r.Check(fmt.Sprint(depths) == "[0 1 1 2 3 3]", rule, "key-depth:RemoveMiner", c.Pos(rm.Pos()), "full removal clears depths 0..3; partial removal writes stake (1) and status (3)", fmt.Sprintf("RemoveMiner writes key depths %v, expected [0 1 1 2 3 3] (record, stake, account, status; then stake and status)", depths))
	}
}

func valueDerivesFrom(v ssa.Value, call *ssa.Call) bool {
	seen := map[ssa.Value]bool{}
	var walk func(v ssa.Value, d int) bool
	walk = func(v ssa.Value, d int) bool {
		if v == nil || d > 6 || seen[v] {
			return false
		}
		seen[v] = true
		if v == ssa.Value(call) {
			return true
		}
		in, ok := v.(ssa.Instruction)
		if !ok {
			return false
		}
		var ops []*ssa.Value
		for _, o := range in.Operands(ops) {
			if *o != nil && walk(*o, d+1) {
				return true
			}
		}
		return false
	}
	return walk(v, 0)
}

func c20Before(c *eng.Ctx, r *eng.Report) {
	const rule = "R20.5"
	r.Min(rule, 3)
	setters := map[*ssa.Function]bool{}
	for _, n := range rawSetters {
		if f := c.Func(acctPkg, n); f != nil {
			setters[f] = true
		}
	}
	for _, fn := range c.PkgFuncs("executor") {
		if !strings.HasSuffix(eng.FuncName(fn), ").BeforeExecute") {
			continue
		}
		cone := c.ConeOfX([]*ssa.Function{fn}, func(f *ssa.Function) bool {
			n := eng.FuncName(f)
			if n == "(*service.TxPool).ProcessFee" || n == "(*storage/account.AccountDB).getAccountObject" || n == "(*storage/account.AccountDB).getOrNewAccountObject" {
				return false
			}
			return eng.StdBoundary(f)
		}, nil)
		var hit *ssa.Function
		for s := range setters {
			if cone.Set[s] {
				hit = s
			}
		}
		msg := ""
		if hit != nil {
			msg = "BeforeExecute mutates state other than through ProcessFee (" + cone.PathTo(hit) + "): a transaction rejected before execution leaves more than the fee behind"
		}
		r.Check(hit == nil, rule, "before-execute:"+eng.FuncName(fn), c.Pos(fn.Pos()), "only ProcessFee mutates state", msg)
	}
}

// c20Record: a miner record is rewritten from what the registry holds and
// erased only once no stake is left.
func c20Record(c *eng.Ctx, r *eng.Report) {
	const rule = "R20.6"
	r.Min(rule, 5)
	upd := c.Func("service", "(*MinerManager).UpdateMiner")
	rem := c.Func("service", "(*MinerManager).RemoveMiner")
	if !r.Anchor(upd != nil && rem != nil, rule, "MinerManager.UpdateMiner / RemoveMiner") {
		return
	}
	// (a) UpdateMiner(m, db, false) writes stake, account and status together, so m must be the record just
	//     read from the registry (read-modify-write); only registration (isNew=true) may pass a new record
	for i, s := range c.Callers(upd) {
		if c.IsTestFunc(s.Fn) {
			continue
		}
		args := s.Common().Args
		isNew, _ := eng.ConstInt(args[len(args)-1])
		if k, ok := args[len(args)-1].(*ssa.Const); ok && k.Value != nil && k.Value.ExactString() == "true" {
			isNew = 1
		}
		key := fmt.Sprintf("UpdateMiner@%s#%d", eng.FuncName(s.Fn), i)
		if isNew == 1 {
			r.Pass(rule, key, c.Pos(s.Pos()), "registration: writes the full record")
			continue
		}
		m := args[1]
		fromRegistry := false
		seen := map[ssa.Value]bool{}
		var walk func(v ssa.Value, d int)
		walk = func(v ssa.Value, d int) {
			if v == nil || d > 5 || seen[v] {
				return
			}
			seen[v] = true
			switch x := v.(type) {
			case *ssa.Call:
				n := eng.CallName(&x.Call)
				if strings.Contains(n, "MinerManager).GetMiner") {
					fromRegistry = true
				}
			case *ssa.Phi:
				for _, e := range x.Edges {
					walk(e, d+1)
				}
			case *ssa.Extract:
				walk(x.Tuple, d+1)
			case *ssa.UnOp:
				walk(x.X, d+1)
			}
		}
		walk(m, 0)
		r.Check(fromRegistry, rule, key, c.Pos(s.Pos()), "the record passed is the one read from the registry (GetMiner/GetMinerById), modified in place", eng.FuncName(s.Fn)+" calls UpdateMiner(…, false) with "+eng.Desc(m)+", which is not the record read from the registry: UpdateMiner rewrites stake, account and status together, so every member the new value does not carry (e.g. an aborted status) is reset — lookup by id and the active set stop agreeing with what was registered")
	}
	// (b) RemoveMiner erases the record (writes the empty value) only when no stake is left
	n := 0
	for _, s := range eng.Sites(rem) {
		if !strings.HasSuffix(s.Name(), "AccountDB).SetData") {
			continue
		}
		v := s.Common().Args[len(s.Common().Args)-1]
		if !strings.Contains(eng.Desc(v), "emptyValue") {
			continue
		}
		n++
		zero := false
		for _, cd := range eng.CondsAt(s.Instr) {
			if m, ok := cd.Cmp(); ok && isParamNamed(m.X, "left") {
				if k, isK := eng.ConstInt(m.Y); isK && k == 0 && m.Op == token.EQL {
					zero = true
				}
			}
		}
		r.Check(zero, rule, fmt.Sprintf("RemoveMiner:erase#%d", n), c.Pos(s.Pos()), "erased only on the left == 0 edge", "RemoveMiner can erase a slot of the miner record although stake is left (no `left == 0` condition holds at this write): the leftover stake is neither locked, scheduled for refund nor liquid, and the miner vanishes from every lookup")
	}
	r.Check(n >= 4, rule, "RemoveMiner:erase-sites", c.Pos(rem.Pos()), fmt.Sprintf("%d erase writes", n), fmt.Sprintf("RemoveMiner erases only %d of the 4 slots of a record", n))
}

// c20Election: the stake total and the proposer set used for leader election
// are accumulated together, from the same record, only for active records.
func c20Election(c *eng.Ctx, r *eng.Report) {
	const rule = "R20.7"
	r.Min(rule, 1)
	fn := c.Func("service", "(*MinerManager).GetProposerTotalStakeWithDetail")
	if !r.Anchor(fn != nil, rule, "MinerManager.GetProposerTotalStakeWithDetail") {
		return
	}
	why := ""
	n := 0
	for _, b := range fn.Blocks {
		for _, in := range b.Instrs {
			mu, ok := in.(*ssa.MapUpdate)
			if !ok {
				continue
			}
			n++
			if !strings.HasSuffix(eng.Desc(mu.Value), ".Stake") {
				why = "the per-member detail records " + eng.Desc(mu.Value) + ", not the record's stake"
			}
			// the total is increased by the same record's stake in the same block
			added := false
			for _, i2 := range b.Instrs {
				if bo, isB := i2.(*ssa.BinOp); isB && bo.Op == token.ADD && eng.Desc(bo.Y) == eng.Desc(mu.Value) {
					added = true
				}
			}
			if !added {
				why = "the total is not increased by the same record's stake where the member is recorded"
			}
			normal, nonNil, started := false, false, false
			for _, cd := range eng.EdgeConds(b) {
				m, isM := cd.Cmp()
				if !isM {
					continue
				}
				d := eng.Desc(m.X) + "|" + eng.Desc(m.Y)
				if strings.Contains(d, ".Status") && m.Op == token.EQL {
					if k, isK := eng.ConstInt(m.Y); isK && k == 0 {
						normal = true
					}
					if k, isK := eng.ConstInt(m.X); isK && k == 0 {
						normal = true
					}
				}
				if m.Op == token.NEQ && (eng.IsNilConst(m.X) || eng.IsNilConst(m.Y)) {
					nonNil = true
				}
				// height >= record.ApplyHeight
				if strings.HasSuffix(eng.Desc(m.Y), ".ApplyHeight") && eng.Desc(m.X) == "height" && m.Op == token.GEQ {
					started = true
				}
				if strings.HasSuffix(eng.Desc(m.X), ".ApplyHeight") && eng.Desc(m.Y) == "height" && m.Op == token.LEQ {
					started = true
				}
			}
			if !normal || !nonNil || !started {
				why = fmt.Sprintf("a record is counted without the tests record != nil (%v), Status == MinerStatusNormal (%v) and height >= ApplyHeight (%v)", nonNil, normal, started)
			}
		}
	}
	if n != 1 && why == "" {
		why = fmt.Sprintf("%d writes to the member detail map (one expected)", n)
	}
	// one definition of the active set: the proposer count is the size of the very set the total was summed over
	if cnt := c.Func("service", "(*MinerManager).GetProposerTotalStake"); r.Anchor(cnt != nil, rule, "MinerManager.GetProposerTotalStake") {
		bad := ""
		nret := 0
		for _, re := range eng.Returns(cnt) {
			v := re.Incoming(0)
			if k, isK := eng.ConstInt(v); isK && k == 0 {
				continue // no state for that hash
			}
			nret++
			d := eng.Desc(v)
			if !(strings.Contains(d, "builtin:len(") && strings.Contains(d, "GetProposerTotalStakeWithDetail(") && strings.Contains(d, "#1")) {
				bad = d
			}
		}
		r.Check(bad == "" && nret >= 1, rule, "GetProposerTotalStake:same-set", c.Pos(cnt.Pos()), "count = len(member set of GetProposerTotalStakeWithDetail)", "GetProposerTotalStake returns "+bad+" instead of the size of the member set GetProposerTotalStakeWithDetail summed the total over: a second walk of the registry has its own idea of who is active (e.g. it forgets the ApplyHeight window), so the proposer count used by every VRF check no longer matches the records behind the total stake")
	}
	r.Check(why == "", rule, "GetProposerTotalStakeWithDetail:active-only", c.Pos(fn.Pos()), "total and member set grow together, by the record's stake, only for non-nil records with Status == MinerStatusNormal whose ApplyHeight has been reached", "GetProposerTotalStakeWithDetail: "+why+": the stake total and proposer count used for leader election stop being the sum over active records")
}

// c20CheckedIsRecorded: AddMiner looks the id and the account up in both
// registries and then records the miner. A default filled in (or any field
// changed) after the lookups is recorded unchecked.
func c20CheckedIsRecorded(c *eng.Ctx, r *eng.Report) {
	const rule = "R20.8"
	r.Min(rule, 1)
	for _, name := range []string{"(*MinerManager).AddMiner"} {
		fn := c.Func("service", name)
		if !r.Anchor(fn != nil, rule, name) {
			continue
		}
		var lookups []*ssa.Call
		lookups = append(lookups, callsNamed(fn, ".GetMinerIdByAccount")...)
		lookups = append(lookups, callsNamed(fn, "(*service.MinerManager).GetMiner")...)
		upd := callsNamed(fn, ".UpdateMiner")
		if len(lookups) < 2 || len(upd) != 1 {
			r.Fail(rule, "checked-is-recorded:"+name, c.Pos(fn.Pos()), fmt.Sprintf("%s: uniqueness lookups=%d UpdateMiner=%d (2 and 1 expected): the registration sequence changed and must be re-reviewed", name, len(lookups), len(upd)))
			continue
		}
		bad := ""
		for _, f := range []string{"Account", "Id", "Type", "Stake"} {
			for _, st := range eng.FieldStores(fn, "middleware/types.Miner", f) {
				for _, lk := range lookups {
					if eng.Reaches(lk, st) {
						bad = "Miner." + f + " is assigned at " + c.Pos(st.Pos()) + ", after the lookup at " + c.Pos(lk.Pos())
					}
				}
			}
		}
		r.Check(bad == "", rule, "checked-is-recorded:"+name, c.Pos(fn.Pos()), "no field of the record is assigned after the uniqueness lookups", name+": "+bad+" — the value that is recorded is not the value that was looked up, so an application that leaves the field to its default slips past the `one miner per account / id` test (an account that already controls a miner registers a second one)")
	}
}

// c20RefundBounded: unsigned arithmetic.
func c20RefundBounded(c *eng.Ctx, r *eng.Report) {
	const rule = "R20.9"
	r.Min(rule, 1)
	fn := c.Func("service", "(*RefundManager).GetRefundStake")
	if !r.Anchor(fn != nil, rule, "(*RefundManager).GetRefundStake") {
		return
	}
	n, bad := 0, ""
	for _, b := range fn.Blocks {
		for _, in := range b.Instrs {
			bo, ok := in.(*ssa.BinOp)
			if !ok || bo.Op != token.SUB || !strings.HasSuffix(eng.Desc(bo.X), ".Stake") {
				continue
			}
			n++
			guarded := false
			for _, cd := range eng.CondsAt(bo) {
				m, isM := cd.Cmp()
				if !isM {
					continue
				}
				if eng.Desc(m.X) == eng.Desc(bo.X) && eng.Desc(m.Y) == eng.Desc(bo.Y) && (m.Op == token.GEQ || m.Op == token.GTR) {
					guarded = true
				}
				if eng.Desc(m.Y) == eng.Desc(bo.X) && eng.Desc(m.X) == eng.Desc(bo.Y) && (m.Op == token.LEQ || m.Op == token.LSS) {
					guarded = true
				}
			}
			if !guarded {
				bad = eng.Desc(bo) + " at " + c.Pos(bo.Pos())
			}
		}
	}
	r.Check(bad == "" && n >= 1, rule, "refund:bounded-by-stake", c.Pos(fn.Pos()), "Stake - money only where Stake >= money", "GetRefundStake computes "+bad+" without the `Stake >= money` test in front of it: both are uint64, so asking for more than the stake wraps the recorded stake to about 2^64 and schedules the full amount for payout — tokens are created and the total proposer stake becomes enormous")
}

// c20EscrowAccumulates: see R20.10.
func c20EscrowAccumulates(c *eng.Ctx, r *eng.Report) {
	const rule = "R20.10"
	r.Min(rule, 1)
	fn := c.Func("service", "(*RefundManager).Add")
	if !r.Anchor(fn != nil, rule, "service.(*RefundManager).Add") {
		return
	}
	var get *ssa.Call
	for _, s := range eng.Sites(fn) {
		if strings.HasSuffix(s.Name(), "AccountDB).GetData") {
			get, _ = s.Instr.(*ssa.Call)
		}
	}
	if !r.Anchor(get != nil, rule, "RefundManager.Add: GetData of the escrow slot") {
		return
	}
	n := 0
	for _, s := range eng.Sites(fn) {
		if !strings.HasSuffix(s.Name(), "AccountDB).SetData") {
			continue
		}
		n++
		args := s.Common().Args
		val := args[len(args)-1]
		// on the empty-slot edge?
		// every path to this store crosses an edge that found the slot empty (`nil == b || 0 == len(b)` has no
		// single dominating edge)
		emptyEdge := func(a *ssa.BasicBlock, succ int) bool {
			iff, isIf := a.Instrs[len(a.Instrs)-1].(*ssa.If)
			if !isIf {
				return false
			}
			m, isM := eng.DecodeCmp(iff.Cond)
			if !isM || !(deepDerives(m.X, get) || deepDerives(m.Y, get)) {
				return false
			}
			return (m.Op == token.EQL && succ == 0) || (m.Op == token.NEQ && succ == 1)
		}
		empty := !eng.PathToAvoiding(fn, s.Instr, func(ssa.Instruction) bool { return false }, emptyEdge)
		ok := empty || deepDerives(val, get)
		r.Check(ok, rule, fmt.Sprintf("escrow-accumulates:Add#%d", n-1), c.Pos(s.Pos()), "the stored amount is existing + new unless the slot was empty", "RefundManager.Add stores "+eng.Desc(val)+" into an escrow slot that may already hold an amount, and that value is not computed from what GetData returned: the earlier refund scheduled for the same height and account is overwritten — refunds of 300 and 200 flushed separately credit 200, and liquid + staked no longer adds up (9700 of 10000)")
	}
	if n == 0 {
		r.Fail(rule, "escrow-accumulates:none", c.Pos(fn.Pos()), "RefundManager.Add no longer calls SetData: the rule has lost its anchor")
	}
}

// c20LookupsUncached: see R20.11.
func c20LookupsUncached(c *eng.Ctx, r *eng.Report) {
	const rule = "R20.11"
	r.Min(rule, 1)
	n, hits := 0, 0
	for _, fn := range c.PkgFuncs("service") {
		if fn.Signature.Recv() == nil || !strings.HasSuffix(fn.Signature.Recv().Type().String(), "service.MinerManager") {
			continue
		}
		n++
		for _, h := range eng.ScanNondeterminism(fn) {
			if h.Kind != "cache" && h.Kind != "global-store" {
				continue
			}
			hits++
			r.Fail(rule, h.Kind+":"+eng.FuncName(fn), c.Pos(h.Pos), h.Detail+" in "+eng.FuncName(fn)+": what a miner lookup returns then depends on what this process looked up before, not only on the state it is handed — a record that was deleted and registered again (refund of the whole stake, then a new apply with new keys) is answered from the memo by id while the iteration over the registry reads the new record: the lookups disagree on ApplyHeight, keys and whether the miner is active")
		}
	}
	if hits == 0 {
		r.Pass(rule, "lookups:uncached", "", fmt.Sprintf("%d MinerManager methods, none reads a process-local cache or writes a package variable", n))
	}
}

// c20WhoRemovesMiners: see R20.12.
func c20WhoRemovesMiners(c *eng.Ctx, r *eng.Report) {
	const rule = "R20.12"
	r.Min(rule, 3)
	allowed := map[string]string{
		"(*service.RefundManager).GetRefundStake":       "the refund path: `left` was computed from the recorded stake and the refund is scheduled by the caller",
		"(*service.MinerManager).RemoveUnusedValidator": "one-off clean-up of validators that never worked (proposal height)",
		"core.removeUnusedValidator":                    "one-off clean-up at a proposal height",
		"core.removeUnusedValidator1":                   "one-off clean-up at a proposal height",
	}
	n := 0
	for _, fn := range c.ModFuncs() {
		if fn.Blocks == nil {
			continue
		}
		for _, s := range eng.Sites(fn) {
			if s.Name() != "(*service.MinerManager).RemoveMiner" {
				continue
			}
			n++
			name := eng.FuncName(fn)
			why, ok := allowed[name]
			r.Check(ok, rule, "miner-remover:"+name, c.Pos(s.Pos()), why, name+" removes a miner record: RemoveMiner erases the record's slots including whatever stake is still locked in it, and only the refund path knows what that is and schedules it — here the leftover of an aborted miner (below the minimum, above zero) is neither refunded nor carried over, so locked + escrow + liquid drops (10000 → 9800)")
		}
	}
	if n == 0 {
		r.Fail(rule, "miner-remover:none", "", "no caller of RemoveMiner found: the rule has lost its anchor")
	}
}

// c20ApplyStartsNormal: see R20.13.
func c20ApplyStartsNormal(c *eng.Ctx, r *eng.Report) {
	const rule = "R20.13"
	r.Min(rule, 1)
	fn := c.Func("executor", "(*minerApplyExecutor).Execute")
	if !r.Anchor(fn != nil, rule, "executor.(*minerApplyExecutor).Execute") {
		return
	}
	var add ssa.Instruction
	for _, s := range eng.Sites(fn) {
		if strings.HasSuffix(s.Name(), "MinerManager).AddMiner") {
			add = s.Instr
		}
	}
	if !r.Anchor(add != nil, rule, "minerApplyExecutor.Execute: AddMiner call") {
		return
	}
	ok := false
	for _, b := range fn.Blocks {
		for _, in := range b.Instrs {
			st, isSt := in.(*ssa.Store)
			if !isSt {
				continue
			}
			if t, f := eng.FieldOf(st.Addr); f == "Status" && strings.HasSuffix(t, "types.Miner") {
				if k, isK := eng.ConstInt(st.Val); isK && k == 0 && eng.Dominates(in, add) {
					ok = true
				}
			}
		}
	}
	r.Check(ok, rule, "apply:status-normal", c.Pos(add.Pos()), "Status = MinerStatusNormal dominates AddMiner", "minerApplyExecutor.Execute hands AddMiner a record whose Status it did not set to MinerStatusNormal: the record comes out of the transaction's JSON, so the applicant chooses the status it is registered with — a miner registered as aborted has its stake locked and is found by id, but is absent from the proposer/validator totals and the account iteration: the lookups disagree")
}

// c20RefundListWrittenBack: see R20.14.
func c20RefundListWrittenBack(c *eng.Ctx, r *eng.Report) {
	const rule = "R20.14"
	r.Min(rule, 4)
	for _, fn := range c.ModFuncs() {
		if fn.Blocks == nil || c.IsTestFunc(fn) {
			continue
		}
		i := 0
		for _, s := range eng.Sites(fn) {
			if !strings.HasSuffix(s.Name(), "types.RefundInfoList).AddRefundInfo") {
				continue
			}
			al, isAlloc := s.Common().Args[0].(*ssa.Alloc)
			if !isAlloc {
				continue // called through a pointer that is not a local copy
			}
			key := fmt.Sprintf("refund-writeback:%s#%d", eng.FuncName(fn), i)
			i++
			stores := func(in ssa.Instruction) bool {
				mu, ok := in.(*ssa.MapUpdate)
				if !ok {
					return false
				}
				u, isU := mu.Value.(*ssa.UnOp)
				return isU && u.X == ssa.Value(al)
			}
			leak := ""
			for _, re := range eng.Returns(fn) {
				if !eng.Reaches(s.Instr, re.Ret) {
					continue
				}
				if ok, _ := eng.ReachAvoiding(fn, s.Instr, re, stores); ok {
					leak = c.Pos(re.Ret.Pos())
				}
			}
			r.Check(leak == "", rule, key, c.Pos(s.Pos()), "the changed copy is stored into the map before the function returns", eng.FuncName(fn)+" adds a refund to a local copy of a RefundInfoList and can return (at "+leak+") without storing the copy into the map: when the list for that height already exists in the block's context — a second refund transaction of another account in the same block, maturing at the same height — the appended entry is lost: the miner's stake is reduced, nothing is escrowed, and locked + escrow + liquid shrinks (two refunds of 400: 400 come back)")
		}
	}
}

// c20RemoveAlwaysWrites: see R20.15.
func c20RemoveAlwaysWrites(c *eng.Ctx, r *eng.Report) {
	const rule = "R20.15"
	r.Min(rule, 1)
	fn := c.Func("service", "(*MinerManager).RemoveMiner")
	if !r.Anchor(fn != nil, rule, "service.(*MinerManager).RemoveMiner") {
		return
	}
	var writes []ssa.Instruction
	for _, s := range eng.Sites(fn) {
		if strings.HasSuffix(s.Name(), "AccountDB).SetData") {
			writes = append(writes, s.Instr)
		}
	}
	bad := ""
	for _, re := range eng.Returns(fn) {
		if !eng.MustPassBefore(fn, re.Ret, writes) {
			bad = c.Pos(re.Ret.Pos())
		}
	}
	r.Check(bad == "" && len(writes) >= 6, rule, "RemoveMiner:always-writes", c.Pos(fn.Pos()), fmt.Sprintf("%d writes; every return follows one", len(writes)), "RemoveMiner can return (at "+bad+") without a single write to the miner's record: GetRefundStake has already computed and scheduled the refund, so the stake slot keeps its old value next to the escrowed amount — for a miner whose controlling account is a contract and whose stake drops to exactly 0, stake no longer equals applied + added − refunded, GetValidatorsStake still counts it, and the refund-all can be repeated to mint tokens")
}

// c20MinerFieldDepths: for the stores fn makes into Miner.Stake / .Account /
// .Status, the hash depth of the registry key the stored value was read under.
// The read may stand in fn, in a service function whose result is stored
// (getMinerStake), or — inline > 0 — in a private helper that fills the record.
func c20MinerFieldDepths(fn *ssa.Function, inline int) map[string]int {
	got := map[string]int{}
	inService := func(h *ssa.Function) bool {
		return h != nil && h != fn && h.Blocks != nil && h.Pkg == fn.Pkg
	}
	for _, b := range fn.Blocks {
		for _, in := range b.Instrs {
			st, ok := in.(*ssa.Store)
			if !ok {
				continue
			}
			t, f := eng.FieldOf(st.Addr)
			role := map[string]string{"Stake": "stake", "Account": "account", "Status": "status"}[f]
			if role == "" || !strings.HasSuffix(t, "types.Miner") {
				continue
			}
			for _, call := range callsNamed(fn, "(*storage/account.AccountDB).GetData") {
				if valueDerivesFrom(st.Val, call) {
					got[role] = shaDepth(call.Call.Args[2])
				}
			}
			for _, s := range eng.Sites(fn) {
				hc, isC := s.Instr.(*ssa.Call)
				if h := s.Static(); isC && inService(h) && valueDerivesFrom(st.Val, hc) {
					for _, call := range callsNamed(h, "(*storage/account.AccountDB).GetData") {
						got[role] = shaDepth(call.Call.Args[2])
					}
				}
			}
		}
	}
	if inline > 0 {
		for _, s := range eng.Sites(fn) {
			h := s.Static()
			if !inService(h) || token.IsExported(h.Name()) {
				continue
			}
			off := 0
			for _, a := range s.Common().Args {
				if d := shaDepth(a); d > off {
					off = d
				}
			}
			for k, v := range c20MinerFieldDepths(h, inline-1) {
				got[k] = v + off
			}
		}
	}
	return got
}

// c20RegistryKinds: the registry constants that reach an argument of fn's calls
// of callee — written at the call, or handed to a private helper of the package
// that passes its own parameter on (then also: helper → number of registries it
// is run for). A value ranged over a slice literal stands for the literal's
// constant elements.
func c20RegistryKinds(fn *ssa.Function, callee string) (map[string]bool, map[*ssa.Function]int) {
	kinds := map[string]bool{}
	helpers := map[*ssa.Function]int{}
	constsOf := func(v ssa.Value) []int64 {
		if k, ok := eng.ConstInt(v); ok {
			return []int64{k}
		}
		ld, ok := v.(*ssa.UnOp)
		if !ok || ld.Op != token.MUL {
			return nil
		}
		ia, ok := ld.X.(*ssa.IndexAddr)
		if !ok {
			return nil
		}
		base := ia.X
		if sl, isSl := base.(*ssa.Slice); isSl {
			base = sl.X
		}
		al, ok := base.(*ssa.Alloc)
		if !ok {
			return nil
		}
		var out []int64
		for _, ref := range *al.Referrers() {
			if eia, isIA := ref.(*ssa.IndexAddr); isIA && eia != ia {
				for _, r2 := range *eia.Referrers() {
					if st, isSt := r2.(*ssa.Store); isSt {
						if k, isK := eng.ConstInt(st.Val); isK {
							out = append(out, k)
						}
					}
				}
			}
		}
		return out
	}
	for _, call := range callsNamed(fn, callee) {
		for _, a := range call.Call.Args {
			for _, k := range constsOf(a) {
				kinds[fmt.Sprint(k)] = true
			}
		}
	}
	for _, s := range eng.Sites(fn) {
		h := s.Static()
		if h == nil || h == fn || h.Pkg != fn.Pkg || h.Blocks == nil || token.IsExported(h.Name()) {
			continue
		}
		perSite := 0 // registries this one call of the helper runs it for
		for _, inner := range callsNamed(h, callee) {
			for _, a := range inner.Call.Args {
				for pi, q := range h.Params {
					if a == ssa.Value(q) && pi < len(s.Common().Args) {
						ks := constsOf(s.Common().Args[pi])
						for _, k := range ks {
							kinds[fmt.Sprint(k)] = true
						}
						if len(ks) > perSite {
							perSite = len(ks)
						}
					}
				}
			}
		}
		if perSite > 0 {
			helpers[h] += perSite
		}
	}
	return kinds, helpers
}
