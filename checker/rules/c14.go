package rules

import (
	"fmt"
	"go/token"
	"go/types"
	"strings"

	"golang.org/x/tools/go/ssa"

	"verif/checker/eng"
)

func init() { register("C14", c14) }

const gsPkg = "consensus/groupsig"
const bnPkg = "consensus/groupsig/bn256"

func c14(c *eng.Ctx, r *eng.Report) {
	r.Explain = "Shape of BLS verification and of the encodings around it, decided on the SSA of consensus/groupsig and its bn256 package: " +
		"R14.1 VerifySig returns true only as PairIsEuqal(Pair(sig, G2 generator), Pair(H(msg), pub)) of its own three arguments, after rejecting a nil or invalid signature and an invalid key; " +
		"R14.2 the signature decoders consume both results of G1.Unmarshal and reject left-over bytes; " +
		"R14.3 G1/G2.Unmarshal return a nil error only after the length test and, for a non-infinity point, IsOnCurve(), and assign the projective coordinates z and t on every accepted path (parsing overwrites the whole point, whatever the receiver held); " +
		"R14.4 Sign/VerifySig and the key, signature and id parsers/serialisers consult no process-local mutable state (no cache, package-variable store, map range, clock or randomness in their cone), so the verdict is a function of (key, message, signature) only; " +
		"R14.5 wherever the bytes of a big integer are placed into a fixed-width big-endian buffer they are right-aligned (`copy(buf[W-len(b):], b)`), so values with leading zero bytes encode faithfully. " +
		"R14.6 keys, signatures and scalars are values — Sign, VerifySig, GeneratePubkey, AggregatePubkeys, hashToG1 and the Miller loop of the pairing (which normalises copies of its operands, never the operands: a key is paired against concurrently) perform in-place curve operations only on objects they allocate (never through an argument or a shallow copy of one: Signature/Pubkey wrap a pointer), and every modular reduction of a scalar in the package is modulo the group order, so the scalar Sign multiplies by is the one GeneratePubkey exponentiates. " +
		"R14.7 VerifySig is the only function of the node that evaluates the signature pairing (no second, e.g. aggregated, definition of validity), and the scalar hex printer/parser are an inverse pair. " +
		"R14.8 the pairing is 1 as soon as either operand is the identity: optimalAte tests IsInfinity() of both its operands and sets the result to one under either (e(P,O) = e(O,Q) = 1 is what bilinearity needs at k = 0 and k = order). " +
		"R14.9 a groupsig function whose pointer result some caller dereferences without a nil test (`*groupsig.DeserializeSign(raw)`) has no nil return — a malformed signature from a peer verifies as false, it does not crash the verifier. " +
		"R14.16 the by-value wrapper hands out a key only when the decoder accepted the bytes: every return of ByteToPublicKey that is not the zero Pubkey lies behind `err == nil` of Deserialize — G2.Unmarshal allocates its point before it looks at the length, so after a refused decode the variable holds the point at infinity, a non-empty key under which the identity signature verifies for every message; " +
		"R14.15 a decoder that reports an error leaves no value behind: in Signature.unmarshalExact and Pubkey.unmarshalExact no path leads from the assignment of the decoded point to an error return without the receiver being reset — DeserializeSign and the other convenience wrappers drop the error and test the value, so a valid 64-byte signature followed by junk would otherwise decode to the valid signature and verify; " +
		"R14.14 (= R13.12) the hex form of secret keys and ids round-trips: BnInt's writer (big.Int.Text(16), minimal digits) and reader (big.Int.SetString(_, 16)) agree; " +
		"R14.13 the zero multiple of a point is the identity: in (*curvePoint).Mul and (*twistPoint).Mul the base point enters the running sum only under a set bit of the scalar (every Set/Add that reads the base operand is dominated by scalar.Bit(i) != 0) — an accumulator seeded with the base itself returns Q for the scalar 0, so secret key 0 (or r) shares key 1's public key and e(P, 0·Q) != e(P, Q)^0; " +
		"R14.12 every addition formula has its doubling exit: a function of the bn256 package reachable from (*curvePoint).Add or (*twistPoint).Add that subtracts field elements (the chord formulas divide by the difference of the operands' coordinates) also calls Double of its point type — P + P is 2P, not the identity the chord formula yields for equal operands (e(P+P, Q) = e(P, Q)^2, and a scalar multiplication whose running sum meets its base keeps going); " +
		"R14.11 the key and signature decoders hand the curve decoder the bytes they were given: the argument of G1/G2.Unmarshal in Pubkey.Deserialize, Signature.Deserialize and unmarshalExact is the function's own parameter, not a buffer substituted on some condition of its content (an encoding that merely starts with 0x00 is not the identity); " +
		"R14.10 negation keeps a point well-formed: twistPoint.Neg and curvePoint.Neg carry the cached z² (field t) over from their argument — zeroing it leaves an affine point (z = 1) with t = 0, which MakeAffine does not repair, and the Miller loop then computes a different value for the same group element (finding F26, fixed). " +
		"Not decided: bilinearity, non-degeneracy, subgroup membership, soundness (algebraic; the baseline's curve tests sample them)."
	r.Assume = []string{"bn256 Pair / PairIsEuqal implement the optimal Ate pairing and equality in GT"}
	c14Verify(c, r)
	c14Decoders(c, r)
	c14Unmarshal(c, r)
	c14Purity(c, r)
	c14LeftPad(c, r)
	// R14.6 keys, signatures and scalars are values: nothing in signing, verification, key derivation or
	// aggregation writes through an input, and every scalar reduction is modulo the group order
	r.Min("R14.6", 10)
	inputsUntouched(c, r, "R14.6", []roEnt{
		{"consensus/groupsig", "Sign"}, {"consensus/groupsig", "VerifySig"}, {"consensus/groupsig", "GeneratePubkey"},
		{"consensus/groupsig", "AggregatePubkeys"}, {"consensus/groupsig", "hashToG1"},
		// the pairing normalises private copies of its operands: a key is paired against by many goroutines at once
		{"consensus/groupsig/bn256", "miller"}, {"consensus/groupsig/bn256", "optimalAte"},
	})
	groupsigScalarField(c, r, "R14.6")
	c14Verifiers(c, r)
	c14PairIdentity(c, r)
	c14NoNilResult(c, r)
	c14NegKeepsT(c, r)
	c14DecoderInputVerbatim(c, r)
	c14AddHandlesDoubling(c, r)
	c14MulStartsAtIdentity(c, r)
	hexCodecAgreeAs(c, r, "R14.14")
	c14ErrorLeavesNoValue(c, r)
	c14WrapperZeroOnError(c, r)
}

func c14Verify(c *eng.Ctx, r *eng.Report) {
	const rule = "R14.1"
	r.Min(rule, 2)
	fn := c.Func(gsPkg, "VerifySig")
	if !r.Anchor(fn != nil, rule, "groupsig.VerifySig") {
		return
	}
	eq := callsNamed(fn, bnPkg+".PairIsEuqal")
	pairs := callsNamed(fn, bnPkg+".Pair")
	var bad []string
	if len(eq) != 1 || len(pairs) != 2 {
		bad = append(bad, fmt.Sprintf("PairIsEuqal calls=%d, Pair calls=%d (1 and 2 expected)", len(eq), len(pairs)))
	} else {
		// every non-constant-false return is the PairIsEuqal verdict
		for _, re := range eng.Returns(fn) {
			cls := eng.RetClass(re.Ret, 0, re.Pred)
			if cls == "false" {
				continue
			}
			if re.Incoming(0) != ssa.Value(eq[0]) {
				bad = append(bad, "a return other than `false` is not the PairIsEuqal verdict ("+cls+")")
			}
		}
		d := func(v ssa.Value) string { return eng.Desc(v) }
		var sigSide, msgSide *ssa.Call
		for _, p := range pairs {
			a0, a1 := d(p.Call.Args[0]), d(p.Call.Args[1])
			if strings.Contains(a0, "sig") && strings.HasSuffix(a0, ".value") && strings.Contains(a1, "GetG2Base(") {
				sigSide = p
			}
			if strings.Contains(a0, "hashToG1(") && strings.Contains(a0, "msg") && strings.Contains(a1, "pub") && strings.HasSuffix(a1, ".value") {
				msgSide = p
			}
		}
		if sigSide == nil {
			bad = append(bad, "no Pair(&sig.value, G2 generator)")
		}
		if msgSide == nil {
			bad = append(bad, "no Pair(hashToG1(msg), &pub.value)")
		}
		if sigSide != nil && msgSide != nil {
			a, b := eq[0].Call.Args[0], eq[0].Call.Args[1]
			if !((a == ssa.Value(sigSide) && b == ssa.Value(msgSide)) || (a == ssa.Value(msgSide) && b == ssa.Value(sigSide))) {
				bad = append(bad, "PairIsEuqal does not compare the two pairings")
			}
		}
		// guards on the path to the pairing
		gNil, gValid, gPub := false, false, false
		for _, cd := range eng.CondsAt(eq[0]) {
			dd := d(cd.V)
			if strings.Contains(dd, "Signature).IsNil(") && !cd.True {
				gNil = true
			}
			if strings.Contains(dd, "Signature).IsValid(") && cd.True {
				gValid = true
			}
			if strings.Contains(dd, "Pubkey).IsValid(") && cd.True {
				gPub = true
			}
		}
		if !gNil || !gValid || !gPub {
			bad = append(bad, fmt.Sprintf("guards before the pairing: !sig.IsNil=%v sig.IsValid=%v pub.IsValid=%v", gNil, gValid, gPub))
		}
	}
	r.Check(len(bad) == 0, rule, "VerifySig:equation", c.Pos(fn.Pos()), "true only as e(sig, g2) == e(H(msg), pub) of the three arguments, after the nil/validity guards", strings.Join(bad, "; "))
	// Sign: sig = H(msg)^sk
	sg := c.Func(gsPkg, "Sign")
	if r.Anchor(sg != nil, rule, "groupsig.Sign") {
		ok := false
		for _, call := range callsNamed(sg, "G1).ScalarMult") {
			a := call.Call.Args
			if strings.Contains(eng.Desc(a[1]), "hashToG1(") && strings.Contains(eng.Desc(a[1]), "msg") && strings.Contains(eng.Desc(a[2]), "sec") {
				ok = true
			}
		}
		r.Check(ok, rule, "Sign:equation", c.Pos(sg.Pos()), "sig = H(msg)^sk", "Sign no longer computes ScalarMult(hashToG1(msg), sec)")
	}
	// hashToG1 hashes exactly its argument
	h := c.Func(gsPkg, "hashToG1")
	if r.Anchor(h != nil, rule, "groupsig.hashToG1") {
		ok := false
		for _, call := range callsNamed(h, "G1).HashToPoint") {
			if strings.Contains(eng.Desc(call.Call.Args[1]), "m") {
				ok = true
			}
		}
		// and returns the freshly hashed point
		fresh := false
		for _, re := range eng.Returns(h) {
			if _, isAlloc := re.Incoming(0).(*ssa.Alloc); isAlloc {
				fresh = true
			}
		}
		r.Check(ok && fresh, rule, "hashToG1:fresh", c.Pos(h.Pos()), "returns a freshly allocated point hashed from its whole argument", "hashToG1 no longer returns a point freshly computed from its argument")
	}
}

func c14Decoders(c *eng.Ctx, r *eng.Report) {
	const rule = "R14.2"
	r.Min(rule, 1)
	n := 0
	for _, fn := range c.PkgFuncs(gsPkg) {
		name := eng.FuncName(fn)
		for _, s := range eng.Sites(fn) {
			nm := s.Name()
			isG1 := strings.HasSuffix(nm, "bn256.G1).Unmarshal")
			isG2 := strings.HasSuffix(nm, "bn256.G2).Unmarshal")
			if !isG1 && !isG2 {
				continue
			}
			call, ok := s.Instr.(*ssa.Call)
			if !ok {
				continue
			}
			n++
			restUsed, errUsed := false, false
			for _, ref := range *call.Referrers() {
				if ex, isE := ref.(*ssa.Extract); isE && len(*ex.Referrers()) > 0 {
					if ex.Index == 0 {
						restUsed = true
					}
					if ex.Index == 1 {
						errUsed = true
					}
				}
			}
			key := "decoder:" + name
			if isG1 {
				r.Check(restUsed && errUsed, rule, key, c.Pos(call.Pos()), "both the left-over bytes and the error of G1.Unmarshal are consumed", fmt.Sprintf("signature decoder discards results of G1.Unmarshal (rest used=%v, error used=%v): truncated, malformed or over-long encodings decode to a usable signature", restUsed, errUsed))
			} else {
				if restUsed && errUsed {
					r.Pass(rule, key, c.Pos(call.Pos()), "both results of G2.Unmarshal are consumed")
				} else {
					r.Info(rule, key, c.Pos(call.Pos()), fmt.Sprintf("public-key decoder does not consume all results of G2.Unmarshal (rest used=%v, error used=%v): observation — the property's rejection clause is about signature values", restUsed, errUsed))
				}
			}
		}
	}
	if n == 0 {
		r.Fail(rule, "decoder:none", "", "no G1/G2.Unmarshal call found in package groupsig")
	}
}

func c14Unmarshal(c *eng.Ctx, r *eng.Report) {
	const rule = "R14.3"
	r.Min(rule, 6)
	for _, spec := range []struct {
		name string
		need int64
	}{{"(*G1).Unmarshal", 64}, {"(*G2).Unmarshal", 128}} {
		fn := c.Func(bnPkg, spec.name)
		if !r.Anchor(fn != nil, rule, "bn256."+spec.name) {
			continue
		}
		var bad []string
		for _, re := range eng.Returns(fn) {
			if !eng.IsNilConst(re.Incoming(1)) {
				continue
			}
			lenOK, curveOK := false, false
			infinity := false
			for _, cd := range eng.CondsAt(re.Ret) {
				dd := eng.Desc(cd.V)
				if m, isM := cd.Cmp(); isM && strings.Contains(eng.Desc(m.X), "builtin:len(m)") && m.Op == token.GEQ {
					if k, isK := eng.ConstInt(m.Y); isK && k == spec.need {
						lenOK = true
					}
				}
				// mirrored spelling: need <= len(m)
				if m, isM := cd.Cmp(); isM && strings.Contains(eng.Desc(m.Y), "builtin:len(m)") && m.Op == token.LEQ {
					if k, isK := eng.ConstInt(m.X); isK && k == spec.need {
						lenOK = true
					}
				}
				if strings.Contains(dd, ".IsOnCurve(") && cd.True {
					curveOK = true
				}
			}
			// the infinity branch (x == 0 && y == 0) needs no curve test: recognised by reaching the return
			// without passing the IsOnCurve block; accept only if an explicit zero test is on the path
			if !curveOK {
				for _, cd := range eng.CondsAt(re.Ret) {
					if strings.Contains(eng.Desc(cd.V), "zero") || strings.Contains(eng.Desc(cd.V), ".IsZero(") {
						infinity = true
					}
				}
				// single join return: both branches merge; check that the non-infinity branch contains the test
				if !infinity {
					for _, b := range fn.Blocks {
						for _, in := range b.Instrs {
							if call, isC := in.(*ssa.Call); isC && strings.HasSuffix(eng.CallName(&call.Call), ".IsOnCurve") {
								// its false edge must return an error
								for _, ref := range *call.Referrers() {
									if iff, isI := ref.(*ssa.If); isI {
										f := iff.Block().Succs[1]
										if ret, isR := f.Instrs[len(f.Instrs)-1].(*ssa.Return); isR && !eng.IsNilConst(eng.RetValue(ret, 1)) {
											curveOK = true
										}
									}
								}
							}
						}
					}
				}
			}
			if !lenOK {
				bad = append(bad, fmt.Sprintf("nil error without the len(m) >= %d test", spec.need))
			}
			if !curveOK && !infinity {
				bad = append(bad, "nil error for a point that was not tested with IsOnCurve()")
			}
		}
		r.Check(len(bad) == 0, rule, "bn256."+spec.name, c.Pos(fn.Pos()), "accepts only a full-length encoding of the infinity point or of a point on the curve", strings.Join(uniq(bad), "; "))
		// parsing overwrites the whole point: the receiver may already hold a value (a key variable that is
		// re-used, an identity from an earlier parse), so besides x and y the projective coordinates z and t are
		// assigned on every accepted path — SetOne for an affine point, SetZero for the identity
		for _, coord := range []string{"z", "t"} {
			var sets []ssa.Instruction
			for _, st := range eng.Sites(fn) {
				n := st.Name()
				if (strings.HasSuffix(n, ".SetOne") || strings.HasSuffix(n, ".SetZero")) && len(st.Common().Args) > 0 && strings.HasSuffix(eng.Desc(st.Common().Args[0]), "."+coord) {
					sets = append(sets, st.Instr)
				}
			}
			for _, b := range fn.Blocks {
				for _, in := range b.Instrs {
					if st, isSt := in.(*ssa.Store); isSt {
						if _, f := eng.FieldOf(st.Addr); f == coord {
							sets = append(sets, in)
						}
					}
				}
			}
			missing := ""
			for _, re := range eng.Returns(fn) {
				if !eng.IsNilConst(re.Incoming(1)) {
					continue
				}
				if !eng.MustPassBefore(fn, re.Ret, sets) {
					missing = c.Pos(re.Ret.Pos())
				}
			}
			r.Check(len(sets) > 0 && missing == "", rule, "bn256."+spec.name+":"+coord+"-assigned", c.Pos(fn.Pos()), "the "+coord+" coordinate is assigned on every accepted path", spec.name+" can accept an encoding (return at "+missing+") without assigning the point's "+coord+" coordinate: parsed into a receiver that already holds a value — an identity (z = 0), or a key that was computed and never serialised (z ≠ 1) — the stale coordinate stays, so a valid key parses as the identity (and the all-zero signature then verifies for any message) or is rejected as off-curve")
		}
	}
}

func c14Purity(c *eng.Ctx, r *eng.Report) {
	const rule = "R14.4"
	r.Min(rule, 1)
	var entries []*ssa.Function
	for _, n := range []string{"VerifySig", "Sign", "hashToG1",
		// the parsers and serialisers: a round trip is a function of the bytes alone
		"ByteToPublicKey", "(*Pubkey).Deserialize", "Pubkey.Serialize", "(*Pubkey).SetHexString", "Pubkey.GetHexString",
		"DeserializeSign", "(*Signature).Deserialize", "Signature.Serialize", "(*Signature).SetHexString", "Signature.GetHexString",
		"(*Seckey).Deserialize", "Seckey.Serialize", "(*Seckey).SetHexString", "Seckey.GetHexString",
		"DeserializeID", "(*ID).Deserialize", "ID.Serialize", "(*ID).SetHexString", "ID.GetHexString"} {
		if f := c.Func(gsPkg, n); f != nil {
			entries = append(entries, f)
		}
	}
	r.Anchor(len(entries) >= 12, rule, "groupsig Sign/VerifySig and the key, signature and id codecs")
	cone := c.ConeOf(entries, func(fn *ssa.Function) bool {
		p := eng.FuncPkgPath(fn)
		return strings.HasSuffix(p, "/"+gsPkg) || strings.HasSuffix(p, "/"+bnPkg)
	})
	n, hits := 0, 0
	for _, fn := range cone.Sorted() {
		p := eng.FuncPkgPath(fn)
		if !(strings.HasSuffix(p, "/"+gsPkg) || strings.HasSuffix(p, "/"+bnPkg)) || fn.Blocks == nil {
			continue
		}
		n++
		for _, h := range eng.ScanNondeterminism(fn) {
			if h.Kind == "chan" || h.Kind == "go" || h.Kind == "select" {
				continue
			}
			hits++
			r.Fail(rule, h.Kind+":"+eng.FuncName(fn), c.Pos(h.Pos), h.Detail+" in the cone of Sign/VerifySig and the key/signature/id codecs ("+cone.PathTo(fn)+"): the verdict, the signature or the parsed value then depends on process history, not only on key, message and bytes — a decoded key handed out of a cache shares its curve point with every other holder, and an in-place re-parse of one rewrites the cache entry")
		}
	}
	if hits == 0 {
		r.Pass(rule, "purity", "", fmt.Sprintf("no cache, package-variable store, map range, clock or randomness in the %d functions reachable from Sign/VerifySig", n))
	}
}

func c14LeftPad(c *eng.Ctx, r *eng.Report) { c14LeftPadAs(c, r, "R14.5") }

func c14LeftPadAs(c *eng.Ctx, r *eng.Report, rule string) {
	r.Min(rule, 2)
	derivesFromBigBytes := func(v ssa.Value) bool {
		seen := map[ssa.Value]bool{}
		var walk func(v ssa.Value, d int) bool
		walk = func(v ssa.Value, d int) bool {
			if v == nil || d > 5 || seen[v] {
				return false
			}
			seen[v] = true
			if call, ok := v.(*ssa.Call); ok {
				n := eng.CallName(&call.Call)
				if n == "(*math/big.Int).Bytes" {
					return true
				}
				// local helpers returning such bytes (BnInt.serialize → v.Bytes())
				if f := call.Call.StaticCallee(); f != nil && f.Blocks != nil && eng.InMod(f) && d < 3 {
					for _, re := range eng.Returns(f) {
						if walk(re.Incoming(0), d+1) {
							return true
						}
					}
				}
				return false
			}
			switch x := v.(type) {
			case *ssa.Slice:
				return walk(x.X, d+1)
			case *ssa.Phi:
				for _, e := range x.Edges {
					if walk(e, d+1) {
						return true
					}
				}
			}
			return false
		}
		return walk(v, 0)
	}
	for _, pkg := range []string{gsPkg, bnPkg} {
		for _, fn := range c.PkgFuncs(pkg) {
			idx := 0
			for _, s := range eng.Sites(fn) {
				if strings.HasSuffix(s.Name(), ".RightPadBytes") {
					r.Fail(rule, "right-pad:"+eng.FuncName(fn), c.Pos(s.Pos()), eng.FuncName(fn)+" pads with "+s.Name()+": every fixed-width value in these packages is a big-endian integer, whose short forms are missing leading zeros — padded on the right, an id or scalar with a leading zero byte (1 in 256) serialises shifted, and the bytes, hex and JSON round trips all yield a different value")
					continue
				}
				if s.Name() != "builtin:copy" {
					continue
				}
				a := s.Common().Args
				if !derivesFromBigBytes(a[1]) {
					continue
				}
				idx++
				key := fmt.Sprintf("left-pad:%s#%d", eng.FuncName(fn), idx)
				ok := false
				if sl, isS := a[0].(*ssa.Slice); isS && sl.Low != nil {
					if bo, isB := sl.Low.(*ssa.BinOp); isB && bo.Op == token.SUB && strings.Contains(eng.Desc(bo.Y), "builtin:len(") {
						ok = true
					}
				}
				// …and the buffer is that value's own: a second right-aligned copy into the same array leaves the
				// first value's leading bytes in front of a shorter second one
				if sl, isS := a[0].(*ssa.Slice); isS && ok {
					root := sl.X
					uses := 0
					for _, s2 := range eng.Sites(fn) {
						if s2.Name() != "builtin:copy" {
							continue
						}
						if sl2, isS2 := s2.Common().Args[0].(*ssa.Slice); isS2 && sl2.X == root {
							if _, isAlloc := root.(*ssa.Alloc); isAlloc {
								uses++
							}
						}
					}
					if uses > 1 {
						r.Fail(rule, key+":buffer-reused", c.Pos(s.Pos()), eng.FuncName(fn)+" right-aligns more than one big integer in the same fixed-width array without clearing it in between: when a later value is shorter than an earlier one (a coordinate with a leading zero byte, 1 in 256) the earlier value's leading bytes stay in front of it — H(m) becomes an off-curve point, no member's share verifies and no group signature can be produced for that message")
					}
				}
				r.Check(ok, rule, key, c.Pos(s.Pos()), "big-integer bytes are right-aligned in the fixed-width buffer", "the bytes of a big integer are copied to the start of a fixed-width big-endian buffer instead of to buf[W-len(b):]: a value with a leading zero byte (1 in 256) is encoded shifted, e.g. H(m) becomes an off-curve point and an honest signature fails to verify")
			}
		}
	}
}

// c14Verifiers: signature validity is decided in one place. Whoever evaluates
// the pairing is a verifier; an additional one (a batch or combined check) is
// a second definition of "valid" that the property does not allow without
// review — a single aggregated equation over several signatures accepts
// pairs of invalid signatures whose errors cancel.
func c14Verifiers(c *eng.Ctx, r *eng.Report) {
	const rule = "R14.7"
	r.Min(rule, 2)
	n := 0
	for _, fn := range c.ModFuncs() {
		if c.IsTestFunc(fn) || fn.Blocks == nil || strings.Contains(eng.FuncPkgPath(fn), "/groupsig/bn256") || strings.Contains(eng.FuncPkgPath(fn), "/eth_crypto/") || strings.Contains(eng.FuncPkgPath(fn), "/src/vm") {
			continue
		}
		uses := false
		for _, s := range eng.Sites(fn) {
			name := s.Name()
			if strings.HasSuffix(name, "groupsig/bn256.PairIsEuqal") || strings.HasSuffix(name, "groupsig/bn256.Pair") || strings.HasSuffix(name, "groupsig/bn256.Miller") || strings.HasSuffix(name, "groupsig/bn256.PairingCheck") {
				uses = true
			}
		}
		if !uses {
			continue
		}
		n++
		r.Check(eng.FuncName(fn) == "consensus/groupsig.VerifySig", rule, "pairing-user:"+eng.FuncName(fn), c.Pos(fn.Pos()), "the one verifier", eng.FuncName(fn)+" evaluates the pairing itself: a second definition of signature validity next to VerifySig (for instance one equation over several signatures, which accepts sig1+d, sig2−d for any d); every acceptance must go through VerifySig's single-signature equation")
	}
	r.Check(n >= 1, rule, "pairing-user:any", "", fmt.Sprintf("%d pairing users", n), "no user of the pairing found (VerifySig expected)")
	// scalar hex codec: printer and parser are an inverse pair (big.Int Text(16) drops leading zeros and may have
	// an odd number of digits, which only SetString(·,16) reads back)
	get := c.Func(gsPkg, "(*BnInt).getHexString")
	set := c.Func(gsPkg, "(*BnInt).setHexString")
	if r.Anchor(get != nil && set != nil, rule, "groupsig.(*BnInt).getHexString/setHexString") {
		text16, setString16 := false, false
		for _, call := range callsNamed(get, "big.Int).Text") {
			if k, ok := eng.ConstInt(call.Call.Args[1]); ok && k == 16 {
				text16 = true
			}
		}
		for _, call := range callsNamed(set, "big.Int).SetString") {
			if k, ok := eng.ConstInt(call.Call.Args[2]); ok && k == 16 {
				setString16 = true
			}
		}
		evenPrinter := len(callsNamed(get, "hex.EncodeToString", "common.Bytes2Hex", "common.ToHex")) > 0
		bytesParser := len(callsNamed(set, "common.Hex2Bytes", "common.FromHex", "hex.DecodeString")) > 0
		ok := (text16 && setString16 && !bytesParser) || (evenPrinter && bytesParser && !text16)
		r.Check(ok, rule, "BnInt:hex-pair", c.Pos(set.Pos()), "printer Text(16) with parser SetString(·,16) (or an even-length byte printer with a byte parser)", fmt.Sprintf("the scalar hex printer and parser are not an inverse pair (Text(16)=%v, SetString(16)=%v, even-length printer=%v, byte parser=%v): a key or id whose hex form has an odd number of digits is parsed back to a different value", text16, setString16, evenPrinter, bytesParser))
	}
}

// c14PairIdentity: e(P, O) = e(O, Q) = 1. The Miller loop is not defined at the
// identity, so optimalAte has to special-case it for both operands.
func c14PairIdentity(c *eng.Ctx, r *eng.Report) {
	const rule = "R14.8"
	r.Min(rule, 1)
	fn := c.Func("consensus/groupsig/bn256", "optimalAte")
	if !r.Anchor(fn != nil, rule, "bn256.optimalAte") {
		return
	}
	// which parameters have their IsInfinity() feeding a branch (or a short-circuit value feeding one)
	tested := map[int]bool{}
	for _, s := range eng.Sites(fn) {
		if !strings.HasSuffix(s.Name(), ".IsInfinity") || len(s.Common().Args) == 0 {
			continue
		}
		call, ok := s.Instr.(*ssa.Call)
		if !ok {
			continue
		}
		feeds := false
		for _, b := range fn.Blocks {
			if iff, isIf := b.Instrs[len(b.Instrs)-1].(*ssa.If); isIf && valueDerivesFromValue(iff.Cond, call) {
				feeds = true
			}
		}
		for i, p := range fn.Params {
			if s.Common().Args[0] == ssa.Value(p) && feeds {
				tested[i] = true
			}
		}
	}
	one := len(callsNamed(fn, ".SetOne")) > 0
	r.Check(len(fn.Params) == 2 && tested[0] && tested[1] && one, rule, "optimalAte:identity-operands", c.Pos(fn.Pos()), "IsInfinity() of both operands decides whether the result is set to one", fmt.Sprintf("optimalAte does not set the result to one for an identity operand on both sides (G2 operand tested=%v, G1 operand tested=%v, SetOne present=%v): Pair(P, O) or Pair(O, Q) is then whatever the Miller loop makes of the identity, not 1 — e(P, Q+(-Q)) != e(P,Q)·e(P,-Q), and a signature check against an identity key or signature no longer reduces to comparing with 1", tested[0], tested[1], one))
}

// c14NoNilResult: callers write `*groupsig.DeserializeSign(raw)`.
func c14NoNilResult(c *eng.Ctx, r *eng.Report) {
	const rule = "R14.9"
	r.Min(rule, 1)
	n := 0
	for _, fn := range c.PkgFuncs("consensus/groupsig") {
		if c.IsTestFunc(fn) || fn.Signature.Results().Len() != 1 {
			continue
		}
		if _, isPtr := fn.Signature.Results().At(0).Type().Underlying().(*types.Pointer); !isPtr {
			continue
		}
		// an unguarded dereference of the result somewhere in the module
		where := ""
		for _, site := range c.Callers(fn) {
			call, ok := site.Instr.(*ssa.Call)
			if !ok || call.Referrers() == nil || c.IsTestFunc(site.Fn) {
				continue
			}
			for _, ref := range *call.Referrers() {
				deref := false
				switch x := ref.(type) {
				case *ssa.UnOp:
					deref = x.Op == token.MUL
				case *ssa.FieldAddr:
					deref = true
				}
				if !deref {
					continue
				}
				guarded := false
				for _, cd := range eng.CondsAt(ref) {
					if m, isM := cd.Cmp(); isM && m.Op == token.NEQ && (m.X == ssa.Value(call) && eng.IsNilConst(m.Y) || m.Y == ssa.Value(call) && eng.IsNilConst(m.X)) {
						guarded = true
					}
				}
				if !guarded && where == "" {
					where = eng.FuncName(site.Fn) + " (" + c.Pos(ref.Pos()) + ")"
				}
			}
		}
		if where == "" {
			continue
		}
		n++
		nilRet := ""
		for _, re := range eng.Returns(fn) {
			if eng.IsNilConst(re.Incoming(0)) {
				nilRet = c.Pos(re.Ret.Pos())
			}
		}
		r.Check(nilRet == "", rule, "no-nil-result:"+eng.FuncName(fn), c.Pos(fn.Pos()), "never returns nil (its result is dereferenced without a test in "+where+")", eng.FuncName(fn)+" can return nil at "+nilRet+" while "+where+" dereferences the result without a nil test: bytes from a peer that fail to decode crash the verifying node instead of failing verification")
	}
	r.Check(n >= 1, rule, "no-nil-result:sites", "", fmt.Sprintf("%d pointer-returning functions with unguarded dereferences", n), "no groupsig function whose result is dereferenced unguarded was found (DeserializeSign expected)")
}

// c14NegKeepsT: t is part of the representation invariant (t = z²).
func c14NegKeepsT(c *eng.Ctx, r *eng.Report) {
	const rule = "R14.10"
	r.Min(rule, 2)
	for _, name := range []string{"(*twistPoint).Neg", "(*curvePoint).Neg"} {
		fn := c.Func(bnPkg, name)
		if !r.Anchor(fn != nil, rule, "bn256."+name) || !r.Anchor(len(fn.Params) == 2, rule, "bn256."+name+" parameters") {
			continue
		}
		arg := fn.Params[1]
		ok, how := false, "no assignment of the receiver's t found"
		// c.t.Set(&a.t) / c.t = a.t
		for _, s := range eng.Sites(fn) {
			args := s.Common().Args
			if len(args) >= 2 {
				if _, f := eng.FieldOf(args[0]); f == "t" && strings.HasSuffix(s.Name(), ".Set") {
					if _, f2 := eng.FieldOf(args[1]); f2 == "t" && valueDerivesFromValue(args[1], arg) {
						ok = true
					} else {
						how = "t is set from " + eng.Desc(args[1])
					}
				}
			}
			if len(args) >= 1 {
				if _, f := eng.FieldOf(args[0]); f == "t" && (strings.HasSuffix(s.Name(), ".SetZero") || strings.HasSuffix(s.Name(), ".SetOne")) {
					how = "t is overwritten by " + s.Name()
					ok = false
				}
			}
		}
		for _, st := range eng.FieldStores(fn, "consensus/groupsig/bn256."+strings.TrimSuffix(strings.TrimPrefix(name, "(*"), ").Neg"), "t") {
			v := st.(*ssa.Store).Val
			if _, f := eng.FieldOf(unload(v)); f == "t" && valueDerivesFromValue(v, arg) {
				ok = true
			} else {
				ok, how = false, "t is assigned "+eng.Desc(v)
			}
		}
		r.Check(ok, rule, "neg-keeps-t:"+name, c.Pos(fn.Pos()), "the receiver's t is copied from the argument's t", name+": "+how+" instead of the argument's t: the negated point no longer satisfies t = z² — for an affine point (z = 1, every key parsed from bytes) MakeAffine leaves it alone and the pairing of the negated point is not the pairing of the same group element reached by scalar multiplication: e(P,Q)·e(P,−Q) ≠ 1")
	}
}

// c14DecoderInputVerbatim: no content-dependent substitution before Unmarshal.
func c14DecoderInputVerbatim(c *eng.Ctx, r *eng.Report) {
	const rule = "R14.11"
	r.Min(rule, 2)
	n := 0
	for _, name := range []string{"(*Pubkey).Deserialize", "(*Signature).Deserialize", "(*Signature).unmarshalExact"} {
		fn := c.Func("consensus/groupsig", name)
		if fn == nil {
			continue
		}
		for _, s := range eng.Sites(fn) {
			if !strings.HasSuffix(s.Name(), "G1).Unmarshal") && !strings.HasSuffix(s.Name(), "G2).Unmarshal") {
				continue
			}
			n++
			arg := s.Common().Args[len(s.Common().Args)-1]
			isParam := false
			for _, p := range fn.Params {
				if arg == ssa.Value(p) {
					isParam = true
				}
			}
			r.Check(isParam, rule, "decoder-input:"+name, c.Pos(s.Pos()), "Unmarshal is given the parameter itself", name+" hands Unmarshal "+eng.Desc(arg)+" instead of the bytes it was given: the decoded key then depends on a rewrite of the input — e.g. any 128-byte key whose first byte is zero (1 in 144 honest keys) parsed as the identity, under which the all-zero signature verifies for every message")
		}
	}
	r.Check(n >= 2, rule, "decoder-input:sites", "", fmt.Sprintf("%d Unmarshal calls in the key/signature decoders", n), fmt.Sprintf("only %d G1/G2.Unmarshal calls found in the decoders", n))
}

// c14AddHandlesDoubling: see R14.12.
func c14AddHandlesDoubling(c *eng.Ctx, r *eng.Report) {
	const rule = "R14.12"
	r.Min(rule, 2)
	for _, typ := range []string{"curvePoint", "twistPoint"} {
		add := c.Func(bnPkg, "(*"+typ+").Add")
		if !r.Anchor(add != nil, rule, "bn256.(*"+typ+").Add") {
			continue
		}
		cone := c.ConeOf([]*ssa.Function{add}, func(fn *ssa.Function) bool { return strings.HasSuffix(eng.FuncPkgPath(fn), "/"+bnPkg) })
		n := 0
		for _, fn := range cone.Sorted() {
			if fn.Blocks == nil || !strings.HasSuffix(eng.FuncPkgPath(fn), "/"+bnPkg) || fn.Signature.Recv() == nil {
				continue
			}
			if !strings.HasSuffix(fn.Signature.Recv().Type().String(), "."+typ) || fn.Name() == "Double" {
				continue
			}
			subs, doubles := false, false
			for _, s := range eng.Sites(fn) {
				nm := s.Name()
				if strings.HasSuffix(nm, ".gfpSub") || strings.HasSuffix(nm, "gfP2).Sub") {
					subs = true
				}
				if strings.HasSuffix(nm, "(*"+bnPkg+"."+typ+").Double") {
					doubles = true
				}
			}
			if !subs {
				continue
			}
			n++
			r.Check(doubles, rule, "doubling-exit:"+eng.FuncName(fn), c.Pos(fn.Pos()), "the chord formula has a Double exit for equal operands", eng.FuncName(fn)+" adds two points with a chord formula (it subtracts their coordinates) and never calls Double: for equal operands h = 0 and r = 0, and the formula returns z = 0 — the identity — instead of 2P; G1.Add(P, P) on a parsed signature is then the identity, e(P+P, Q) != e(P, Q)^2, and a scalar multiplication whose running sum meets its base point loses the rest of the scalar")
		}
		if n == 0 {
			r.Fail(rule, "doubling-exit:"+typ, c.Pos(add.Pos()), "no chord formula found under (*"+typ+").Add: the rule has lost its anchor")
		}
	}
}

// c14MulStartsAtIdentity: see R14.13.
func c14MulStartsAtIdentity(c *eng.Ctx, r *eng.Report) {
	const rule = "R14.13"
	r.Min(rule, 2)
	for _, typ := range []string{"curvePoint", "twistPoint"} {
		fn := c.Func(bnPkg, "(*"+typ+").Mul")
		if !r.Anchor(fn != nil && len(fn.Params) == 3, rule, "bn256.(*"+typ+").Mul") {
			continue
		}
		base := fn.Params[1]
		n, bad := 0, ""
		for _, s := range eng.Sites(fn) {
			uses := false
			for i, a := range s.Common().Args {
				if i > 0 && eng.ResolveLocal(a) == ssa.Value(base) {
					uses = true
				}
			}
			if !uses {
				continue
			}
			n++
			underBit := false
			for _, cd := range eng.CondsAt(s.Instr) {
				m, isM := cd.Cmp()
				if !isM || m.Op != token.NEQ {
					continue
				}
				if call, ok := m.X.(*ssa.Call); ok && eng.CallName(&call.Call) == "(*math/big.Int).Bit" {
					if k, isK := eng.ConstInt(m.Y); isK && k == 0 {
						underBit = true
					}
				}
			}
			if !underBit {
				bad = s.Name() + " at " + c.Pos(s.Pos())
			}
		}
		r.Check(bad == "" && n >= 1, rule, "mul-identity:(*"+typ+").Mul", c.Pos(fn.Pos()), fmt.Sprintf("%d use(s) of the base point, each under a set scalar bit", n), "(*"+typ+").Mul reads the base point outside a set-bit branch ("+bad+"): the running sum no longer starts at the identity, so Mul(Q, 0) returns Q — the secret key 0 (NewSeckeyFromBigInt(Order)) gets the public key of secret key 1, key 1's signature verifies under it, and the pairing is not bilinear at the zero multiple")
	}
}

// c14ErrorLeavesNoValue: see R14.15.
func c14ErrorLeavesNoValue(c *eng.Ctx, r *eng.Report) {
	const rule = "R14.15"
	r.Min(rule, 1)
	n := 0
	for _, name := range []string{"(*Signature).unmarshalExact", "(*Pubkey).unmarshalExact", "(*Signature).Deserialize", "(*Pubkey).Deserialize"} {
		fn := c.Func(gsPkg, name)
		if fn == nil || fn.Blocks == nil {
			continue
		}
		var decoded []ssa.Instruction
		isReset := func(in ssa.Instruction) bool {
			st, ok := in.(*ssa.Store)
			if !ok {
				return false
			}
			if _, f := eng.FieldOf(st.Addr); f != "value" {
				return false
			}
			_, isConst := st.Val.(*ssa.Const)
			return isConst
		}
		for _, b := range fn.Blocks {
			for _, in := range b.Instrs {
				if st, ok := in.(*ssa.Store); ok {
					if _, f := eng.FieldOf(st.Addr); f == "value" && !isReset(in) {
						decoded = append(decoded, in)
					}
				}
			}
		}
		if len(decoded) == 0 {
			continue
		}
		n++
		bad := ""
		for _, st := range decoded {
			for _, re := range eng.Returns(fn) {
				if eng.IsNilConst(re.Incoming(0)) {
					continue
				}
				if re.Pred != nil {
					// a phi of nil and an error: only the error edges matter; Incoming already picked this edge's value
				}
				if ok, _ := eng.ReachAvoiding(fn, st, re, isReset); ok {
					bad = c.Pos(st.Pos()) + " → return at " + c.Pos(re.Ret.Pos())
				}
			}
		}
		r.Check(bad == "", rule, "error-leaves-no-value:"+name, c.Pos(fn.Pos()), "no error return is reachable from the assignment of the decoded point without a reset", name+" can return an error with the decoded point still stored in the receiver ("+bad+"): the wrappers that drop the error (DeserializeSign in the block, beacon and group verification paths) then hold a valid signature for an over-long encoding — 64 valid bytes followed by junk verify")
	}
	if n == 0 {
		r.Fail(rule, "error-leaves-no-value:none", "", "no decoder assigning a decoded point found: the rule has lost its anchor")
	}
}

// c14WrapperZeroOnError: see R14.16.
func c14WrapperZeroOnError(c *eng.Ctx, r *eng.Report) {
	const rule = "R14.16"
	r.Min(rule, 1)
	fn := c.Func(gsPkg, "ByteToPublicKey")
	if !r.Anchor(fn != nil, rule, "groupsig.ByteToPublicKey") {
		return
	}
	n, bad := 0, ""
	for _, re := range eng.Returns(fn) {
		v := re.Incoming(0)
		if _, isZero := v.(*ssa.Const); isZero {
			continue
		}
		n++
		blk := re.Ret.Block()
		if re.Pred != nil {
			blk = re.Pred
		}
		accepted := false
		for _, cd := range eng.EdgeConds(blk) {
			m, isM := cd.Cmp()
			if isM && m.Op == token.EQL && (eng.IsNilConst(m.Y) || eng.IsNilConst(m.X)) && strings.Contains(eng.Desc(m.X)+eng.Desc(m.Y), "Deserialize(") {
				accepted = true
			}
		}
		if !accepted {
			bad = c.Pos(re.Ret.Pos())
		}
	}
	r.Check(bad == "" && n >= 1, rule, "ByteToPublicKey:zero-on-error", c.Pos(fn.Pos()), "a non-zero key is returned only behind err == nil", "ByteToPublicKey can return the variable it decoded into (at "+bad+") although Deserialize reported an error: G2.Unmarshal has already allocated the point, so a too-short encoding comes back as a non-empty key holding the point at infinity, and VerifySig(ByteToPublicKey(short), anyMessage, identitySignature) is true")
}
