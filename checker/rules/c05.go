package rules

import (
	"fmt"
	"go/token"
	"sort"
	"strings"

	"golang.org/x/tools/go/ssa"

	"verif/checker/eng"
)

func init() { register("C05", c05) }

func c05(c *eng.Ctx, r *eng.Report) {
	r.Explain = "Bracketing, ownership and ordering facts the canonical-chain/crash story rests on, decided on the SSA of package core: " +
		"R5.1 insertBlock writes its intent mark before any store write and erases it only after the last one on the success path; remove likewise; " +
		"R5.2 Put/Delete on the hash/height/verify-hash stores and assignments of the head pointer come only from the reviewed writer set; " +
		"R5.3 start-up runs the recovery before the head's state is opened, recovery re-runs remove() for every mark it finds before erasing the mark, and mark writers/readers use the same keys; " +
		"R5.4 the state commit (account trie then node database, both error-checked) precedes the head update; " +
		"R5.5 every removeFromCommonAncestor call is guarded by the chain-weight comparison with the right operand roles (coming vs local, local competitor taken at the fork point); " +
		"R5.6 transactions are marked executed before the head moves and unmarked on every successful removal, UnMarkExecuted deletes the executed record before it re-adds the transaction, and the pending container takes the re-added transaction unless it is full; R5.8 the header cache that height lookups read is evicted by remove(); R5.7 block verification precedes insertion and checkStates compares state, receipt and tx roots. " +
		"R5.11 the header cache in front of the height index follows every write of the index: insertBlock adds the inserted block's header to topBlocks under its height on the way to its success return, remove() drops the height, and nobody else fills the cache except the start-up scan (buildCache) — a cache filled on read keeps the typed-nil entry the start-up scan stored for a height that had no block, and a block later inserted at that height is invisible to GetBlockHash/QueryBlock by height and can never be unwound; " +
		"R5.10 the executed marks of a removed block stay removed: the pool's write batch, which lives as long as the pool, is Reset() after every Write() on every path of MarkExecuted — a batch that keeps its content writes the removed block's marks again with the next block, after UnMarkExecuted deleted them, and verifyBlock then refuses every later block carrying one of those transactions; " +
		"R5.9 the in-memory head pointer and the head record on disk move together: a function that assigns blockChain.latestBlock writes the head record (heightDB key latestBlockKey) before the assignment or on every path from it to a return, start-up loading excepted; " +
		"R5.3 (content) an intent mark carries the whole block — what is put under a mark key is the output of MarshalBlock and what recovery hands to remove() is the UnMarshalBlock of what it read — because remove() needs the transactions to roll the executed marks back. " +
		"Not decided: that every intermediate crash state is repaired (needs fault injection), reachability of the head from genesis as a data invariant, disk errors."
	r.Assume = []string{"LevelDB single-key writes are atomic", "blockChain methods run under the chain lock (not checked here)"}
	c05Brackets(c, r)
	c05Writers(c, r)
	c05Recovery(c, r)
	c05StateBeforeHead(c, r)
	c05ForkChoice(c, r)
	c05Verify(c, r)
	c05HeaderCache(c, r)
	c05HeadRecord(c, r)
	batchResetAs(c, r, "R5.10", "service", 1)
	c05HeaderCacheFollowsIndex(c, r)
	c05MarkContent(c, r)
	// the second half of R5.6: what UnMarkExecuted does with a removed block's transactions (shared with C17)
	c17UnmarkAs(c, r, "R5.6")
	c17PushTotalAs(c, r, "R5.6")
}

func callsNamed(fn *ssa.Function, suffix ...string) []*ssa.Call {
	var out []*ssa.Call
	for _, s := range eng.Sites(fn) {
		if call, ok := s.Instr.(*ssa.Call); ok {
			for _, sf := range suffix {
				if strings.HasSuffix(s.Name(), sf) {
					out = append(out, call)
				}
			}
		}
	}
	return out
}

// dbOps lists Put/Delete calls on a named store field of blockChain inside fn.
func dbOps(fn *ssa.Function) []*ssa.Call {
	var out []*ssa.Call
	for _, s := range eng.Sites(fn) {
		call, ok := s.Instr.(*ssa.Call)
		if !ok || !call.Call.IsInvoke() {
			continue
		}
		m := call.Call.Method.Name()
		if m != "Put" && m != "Delete" {
			continue
		}
		d := eng.Desc(call.Call.Value)
		if strings.HasSuffix(d, ".hashDB") || strings.HasSuffix(d, ".heightDB") || strings.HasSuffix(d, ".verifyHashDB") {
			out = append(out, call)
		}
	}
	return out
}

func c05Brackets(c *eng.Ctx, r *eng.Report) {
	const rule = "R5.1"
	r.Min(rule, 4)
	ins := c.Func("core", "(*blockChain).insertBlock")
	if r.Anchor(ins != nil, rule, "core.(*blockChain).insertBlock") {
		marks := callsNamed(ins, ".markAddBlock")
		erases := callsNamed(ins, ".eraseAddBlockMark")
		writes := callsNamed(ins, ".saveBlockByHash", ".saveBlockByHeight", ".saveStates", ".updateVerifyHash", ".updateTxPool", ".updateLastBlock")
		key := "insertBlock:mark-first"
		if len(marks) != 1 || len(erases) != 1 || len(writes) < 6 {
			r.Fail(rule, key, c.Pos(ins.Pos()), fmt.Sprintf("bracket not recognised: markAddBlock=%d eraseAddBlockMark=%d writer calls=%d (6 expected)", len(marks), len(erases), len(writes)))
		} else {
			var bad []string
			for _, w := range writes {
				if !eng.Dominates(marks[0], w) {
					bad = append(bad, eng.CallName(&w.Call)+" is not dominated by markAddBlock")
				}
			}
			r.Check(len(bad) == 0, rule, key, c.Pos(marks[0].Pos()), "the add-intent mark is written before every store write of insertBlock", strings.Join(bad, "; ")+": a crash leaves a partial write with no intent mark to repair it")
			bad = nil
			for _, w := range writes {
				if eng.Reaches(erases[0], w) {
					bad = append(bad, eng.CallName(&w.Call)+" can run after eraseAddBlockMark")
				}
				if !eng.Reaches(w, erases[0]) {
					bad = append(bad, eng.CallName(&w.Call)+" does not precede eraseAddBlockMark")
				}
			}
			// the success return passes the erase
			okRet := false
			for _, re := range eng.Returns(ins) {
				if strings.Contains(eng.Desc(re.Incoming(0)), "0") && eng.RetClass(re.Ret, 0, re.Pred) == "const:0" {
					okRet = eng.MustPassBefore(ins, re.Ret, []ssa.Instruction{erases[0]})
				}
			}
			if !okRet {
				bad = append(bad, "the AddBlockSucc return does not pass eraseAddBlockMark")
			}
			r.Check(len(bad) == 0, rule, "insertBlock:erase-last", c.Pos(erases[0].Pos()), "the mark is erased after the last store write, on the success path only", strings.Join(bad, "; "))
		}
	}
	rm := c.Func("core", "(*blockChain).remove")
	if r.Anchor(rm != nil, rule, "core.(*blockChain).remove") {
		marks := callsNamed(rm, ".markRemoveBlock")
		erases := callsNamed(rm, ".eraseRemoveBlockMark")
		ops := dbOps(rm)
		unmark := callsNamed(rm, ".UnMarkExecuted")
		key := "remove:mark-first"
		if len(marks) != 1 || len(erases) != 1 || len(ops) < 4 || len(unmark) != 1 {
			r.Fail(rule, key, c.Pos(rm.Pos()), fmt.Sprintf("bracket not recognised: markRemoveBlock=%d eraseRemoveBlockMark=%d store ops=%d (4 expected) UnMarkExecuted=%d", len(marks), len(erases), len(ops), len(unmark)))
		} else {
			var bad []string
			for _, w := range append(ops, unmark[0]) {
				if !eng.Dominates(marks[0], w) {
					bad = append(bad, opName(w)+" is not dominated by markRemoveBlock")
				}
			}
			r.Check(len(bad) == 0, rule, key, c.Pos(marks[0].Pos()), "the remove-intent mark is written before every store write of remove", strings.Join(bad, "; "))
			bad = nil
			for _, w := range append(ops, unmark[0]) {
				if eng.Reaches(erases[0], w) {
					bad = append(bad, opName(w)+" can run after eraseRemoveBlockMark")
				}
			}
			// every `return true` reached after the mark passes the erase
			for _, re := range eng.Returns(rm) {
				if eng.RetClass(re.Ret, 0, re.Pred) == "true" && eng.Reaches(marks[0], re.Ret) {
					if ok, _ := eng.ReachAvoiding(rm, marks[0], re, func(in ssa.Instruction) bool { return in == ssa.Instruction(erases[0]) }); ok {
						bad = append(bad, "a `return true` after the mark does not pass eraseRemoveBlockMark")
					}
				}
			}
			r.Check(len(bad) == 0, rule, "remove:erase-last", c.Pos(erases[0].Pos()), "the mark is erased after the last store write and before reporting success", strings.Join(bad, "; "))
		}
		// R5.6: UnMarkExecuted on every successful removal
		ok := len(unmark) == 1
		if ok {
			for _, re := range eng.Returns(rm) {
				if eng.RetClass(re.Ret, 0, re.Pred) == "true" && len(marks) == 1 && eng.Reaches(marks[0], re.Ret) {
					if esc, _ := eng.ReachAvoiding(rm, marks[0], re, func(in ssa.Instruction) bool { return in == ssa.Instruction(unmark[0]) }); esc {
						ok = false
					}
				}
			}
		}
		r.Check(ok, "R5.6", "remove:UnMarkExecuted", c.Pos(rm.Pos()), "every successful removal returns the block's transactions to the pool", "a successful removal can return without UnMarkExecuted(block): its transactions stay marked executed and can never be packed again")
	}
	if ins != nil {
		mk := callsNamed(ins, ".updateTxPool")
		ul := callsNamed(ins, ".updateLastBlock")
		ok := len(mk) == 1 && len(ul) == 1 && eng.Dominates(mk[0], ul[0])
		utp := c.Func("core", "(*blockChain).updateTxPool")
		if ok && utp != nil {
			ok = len(callsNamed(utp, ".MarkExecuted")) == 1
		}
		r.Check(ok, "R5.6", "insertBlock:MarkExecuted-before-head", c.Pos(ins.Pos()), "the new block's transactions are marked executed before the head moves", "MarkExecuted no longer precedes updateLastBlock")
	}
}

func opName(call *ssa.Call) string {
	if call.Call.IsInvoke() {
		d := eng.Desc(call.Call.Value)
		return d[strings.LastIndex(d, ".")+1:] + "." + call.Call.Method.Name()
	}
	return eng.CallName(&call.Call)
}

var storeWriters = map[string]string{
	"(*core.blockChain).saveBlockByHash":      "insertBlock bracket",
	"(*core.blockChain).saveBlockByHeight":    "insertBlock bracket",
	"(*core.blockChain).updateLastBlock":      "insertBlock bracket (head pointer)",
	"(*core.blockChain).updateVerifyHash":     "insertBlock bracket",
	"(*core.blockChain).markAddBlock":         "intent mark",
	"(*core.blockChain).eraseAddBlockMark":    "intent mark",
	"(*core.blockChain).markRemoveBlock":      "intent mark",
	"(*core.blockChain).eraseRemoveBlockMark": "intent mark",
	"(*core.blockChain).remove":               "remove bracket",
	"(*core.blockChain).insertGenesisBlock":   "genesis",
	"core.initBlockChain":                     "start-up (loads the head)",
}

// who may call the bracketed writers
var writerCallers = map[string][]string{
	"(*core.blockChain).saveBlockByHash":   {"(*core.blockChain).insertBlock", "(*core.blockChain).insertGenesisBlock"},
	"(*core.blockChain).saveBlockByHeight": {"(*core.blockChain).insertBlock", "(*core.blockChain).insertGenesisBlock"},
	"(*core.blockChain).updateLastBlock":   {"(*core.blockChain).insertBlock", "(*core.blockChain).insertGenesisBlock"},
	"(*core.blockChain).updateVerifyHash":  {"(*core.blockChain).insertBlock", "(*core.blockChain).insertGenesisBlock"},
}

func c05Writers(c *eng.Ctx, r *eng.Report) {
	const rule = "R5.2"
	r.Min(rule, 10)
	for _, fn := range c.ModFuncs() {
		name := eng.FuncName(fn)
		nOps := len(dbOps(fn))
		stores := eng.FieldStores(fn, "core.blockChain", "latestBlock")
		if nOps == 0 && len(stores) == 0 {
			continue
		}
		_, ok := storeWriters[name]
		what := fmt.Sprintf("%d store Put/Delete, %d head-pointer stores", nOps, len(stores))
		r.Check(ok, rule, "writer:"+name, c.Pos(fn.Pos()), "reviewed writer ("+storeWriters[name]+"): "+what, name+" writes the block stores / head pointer ("+what+") outside the reviewed set: a write outside the intent-mark brackets is not repaired after a crash")
	}
	var names []string
	for n := range writerCallers {
		names = append(names, n)
	}
	sort.Strings(names)
	for _, n := range names {
		short := strings.TrimPrefix(n, "(*core.blockChain).")
		fn := c.Func("core", "(*blockChain)."+short)
		if !r.Anchor(fn != nil, rule, n) {
			continue
		}
		for _, site := range c.Callers(fn) {
			cn := eng.FuncName(site.Fn)
			ok := false
			for _, a := range writerCallers[n] {
				if a == cn {
					ok = true
				}
			}
			r.Check(ok, rule, "caller:"+cn+"→"+short, c.Pos(site.Pos()), "called from inside a bracket", cn+" calls "+short+" outside the insertBlock/genesis brackets")
		}
	}
}

func c05Recovery(c *eng.Ctx, r *eng.Report) {
	const rule = "R5.3"
	r.Min(rule, 4)
	init := c.Func("core", "initBlockChain")
	ecc := c.Func("core", "(*blockChain).ensureChainConsistency")
	if !r.Anchor(init != nil, rule, "core.initBlockChain") || !r.Anchor(ecc != nil, rule, "core.(*blockChain).ensureChainConsistency") {
		return
	}
	rec := callsNamed(init, ".ensureChainConsistency")
	open := callsNamed(init, ".GetAccountDBByHash")
	ok := len(rec) == 1 && len(open) >= 1
	if ok {
		for _, o := range open {
			if !eng.Dominates(rec[0], o) {
				ok = false
			}
		}
	}
	r.Check(ok, rule, "initBlockChain:recovery-first", c.Pos(init.Pos()), "ensureChainConsistency dominates the opening of the head's state", "the head's state is opened without (or before) running ensureChainConsistency")
	// recovery cone: each erase of a mark is preceded, on every path, by remove()
	cone := c.ConeOf([]*ssa.Function{ecc}, func(fn *ssa.Function) bool {
		n := eng.FuncName(fn)
		return eng.FuncPkgPath(fn) == eng.Mod+"/src/core" && n != "(*core.blockChain).remove"
	})
	nErase := 0
	for _, fn := range cone.Sorted() {
		if fn.Blocks == nil || eng.FuncName(fn) == "(*core.blockChain).remove" || fn.Synthetic != "" {
			continue // $bound/$thunk wrappers of a method value are not holders: the call through the value is (below)
		}
		removes := callsNamed(fn, "(*core.blockChain).remove")
		erasers := callsNamed(fn, ".eraseAddBlockMark", ".eraseRemoveBlockMark")
		// an eraser handed in as a function value (`rollback(mark, chain.eraseAddBlockMark)`):
		// the call through the parameter is the erase event of this function
		for _, s := range eng.Sites(fn) {
			prm, isP := s.Common().Value.(*ssa.Parameter)
			if !isP || s.Common().IsInvoke() {
				continue
			}
			idx := -1
			for i, q := range fn.Params {
				if q == prm {
					idx = i
				}
			}
			for _, cs := range c.Callers(fn) {
				if idx < 0 || idx >= len(cs.Common().Args) {
					continue
				}
				if d := eng.Desc(cs.Common().Args[idx]); strings.Contains(d, "eraseAddBlockMark") || strings.Contains(d, "eraseRemoveBlockMark") {
					if call, isC := s.Instr.(*ssa.Call); isC {
						erasers = append(erasers, call)
					}
					break
				}
			}
		}
		// a recovery helper that deletes the mark key itself counts as an erase event too
		if n := eng.FuncName(fn); !strings.HasSuffix(n, ".eraseAddBlockMark") && !strings.HasSuffix(n, ".eraseRemoveBlockMark") {
			for _, op := range dbOps(fn) {
				if op.Call.Method.Name() == "Delete" && strings.HasSuffix(eng.Desc(op.Call.Value), ".hashDB") {
					erasers = append(erasers, op)
				}
			}
		}
		for _, e := range erasers {
			nErase++
			var bar []ssa.Instruction
			for _, rm := range removes {
				bar = append(bar, rm)
			}
			key := "recovery:" + eng.FuncName(fn) + ":" + strings.TrimPrefix(opName(e), "(*core.blockChain).")
			ok := len(bar) > 0 && eng.MustPassBefore(fn, e, bar)
			r.Check(ok, rule, key, c.Pos(e.Pos()), "the mark is erased only after remove() re-ran for the marked block", "the intent mark can be erased without re-running remove() for the marked block: a half-finished add/remove is never repaired and the mark that would have triggered the repair is gone")
		}
	}
	if nErase < 1 {
		r.Fail(rule, "recovery:erase-sites", c.Pos(ecc.Pos()), fmt.Sprintf("only %d mark-erase sites found in the recovery cone", nErase))
	}
	// key agreement: Put / Delete / Get of each mark use one constant
	keyOf := func(fnName string) string {
		fn := c.Func("core", fnName)
		if fn == nil {
			return "?"
		}
		for _, s := range eng.Sites(fn) {
			call, ok := s.Instr.(*ssa.Call)
			if ok && call.Call.IsInvoke() && strings.HasSuffix(eng.Desc(call.Call.Value), ".hashDB") {
				return eng.Desc(call.Call.Args[0])
			}
		}
		return "?"
	}
	var gets []string
	for _, s := range eng.Sites(ecc) {
		if call, ok := s.Instr.(*ssa.Call); ok && call.Call.IsInvoke() && call.Call.Method.Name() == "Get" {
			gets = append(gets, eng.Desc(call.Call.Args[0]))
		}
	}
	// helper-extracted recovery: collect Gets in the cone too
	for _, fn := range cone.Sorted() {
		if fn == ecc || fn.Blocks == nil {
			continue
		}
		for _, s := range eng.Sites(fn) {
			if call, ok := s.Instr.(*ssa.Call); ok && call.Call.IsInvoke() && call.Call.Method.Name() == "Get" && strings.HasSuffix(eng.Desc(call.Call.Value), ".hashDB") {
				gets = append(gets, eng.Desc(call.Call.Args[0]))
			}
		}
	}
	for _, pair := range [][2]string{{"(*blockChain).markAddBlock", "(*blockChain).eraseAddBlockMark"}, {"(*blockChain).markRemoveBlock", "(*blockChain).eraseRemoveBlockMark"}} {
		k1, k2 := keyOf(pair[0]), keyOf(pair[1])
		inGet := false
		for _, g := range gets {
			if g == k1 || strings.HasPrefix(g, "conv") && strings.Contains(g, k1) {
				inGet = true
			}
		}
		// parameterised recovery helpers read the key from an argument; accept when the constant flows in as an argument of a cone call
		if !inGet {
			for _, fn := range cone.Sorted() {
				if fn.Blocks == nil {
					continue
				}
				for _, s := range eng.Sites(fn) {
					for _, a := range s.Common().Args {
						if eng.Desc(a) == k1 || strings.Contains(eng.Desc(a), strings.Trim(k1, "conv:[]byte()")) && strings.Contains(k1, eng.Desc(a)) {
							inGet = true
						}
					}
				}
			}
		}
		r.Check(k1 != "?" && k1 == k2 && inGet, rule, "mark-key:"+pair[0], "", "mark is written, erased and looked up under the same key "+k1, fmt.Sprintf("mark key mismatch: written under %s, erased under %s, recovery looks up %v", k1, k2, gets))
	}
}

func c05StateBeforeHead(c *eng.Ctx, r *eng.Report) {
	const rule = "R5.4"
	r.Min(rule, 2)
	ins := c.Func("core", "(*blockChain).insertBlock")
	ss := c.Func("core", "(*blockChain).saveStates")
	if !r.Anchor(ins != nil, rule, "insertBlock") || !r.Anchor(ss != nil, rule, "saveStates") {
		return
	}
	sv := callsNamed(ins, ".saveStates")
	ul := callsNamed(ins, ".updateLastBlock")
	ok := len(sv) == 1 && len(ul) == 1
	if ok {
		// updateLastBlock only on the edge where saveStates' first result is true
		var res ssa.Value
		for _, ref := range *sv[0].Referrers() {
			if e, isE := ref.(*ssa.Extract); isE && e.Index == 0 {
				res = e
			}
		}
		on := false
		for _, cd := range eng.CondsAt(ul[0]) {
			if cd.V == res && cd.True {
				on = true
			}
		}
		ok = on
	}
	r.Check(ok, rule, "insertBlock:state-before-head", c.Pos(ins.Pos()), "the head pointer is written only after saveStates reported success", "updateLastBlock is reachable without a successful saveStates: the head can name a state root that is not on disk")
	// saveStates: return true only after state.Commit and trieDB.Commit both returned nil errors
	commits := callsNamed(ss, "(*storage/account.AccountDB).Commit")
	tcommits := callsNamed(ss, "(*storage/trie.NodeDatabase).Commit")
	ok = len(commits) == 1 && len(tcommits) == 1
	why := fmt.Sprintf("AccountDB.Commit calls=%d, NodeDatabase.Commit calls=%d", len(commits), len(tcommits))
	if ok {
		for _, re := range eng.Returns(ss) {
			if eng.RetClass(re.Ret, 0, re.Pred) != "true" {
				continue
			}
			nilEdges := 0
			for _, cd := range eng.CondsAt(re.Ret) {
				if m, isM := cd.Cmp(); isM && m.Op == token.EQL && eng.IsNilConst(m.Y) {
					if ex, isE := m.X.(*ssa.Extract); isE && (ex.Tuple == ssa.Value(commits[0])) {
						nilEdges++
					}
					if m.X == ssa.Value(tcommits[0]) {
						nilEdges++
					}
				}
			}
			if nilEdges < 2 || !eng.Dominates(commits[0], tcommits[0]) {
				ok = false
				why = "`return true` in saveStates is not under both `err == nil` edges (state.Commit, trieDB.Commit) in that order"
			}
		}
	}
	r.Check(ok, rule, "saveStates:commit-order", c.Pos(ss.Pos()), "saveStates reports success only after state.Commit and trieDB.Commit both succeeded, in that order", why)
}

func c05ForkChoice(c *eng.Ctx, r *eng.Report) {
	const rule = "R5.5"
	r.Min(rule, 3) // addBlockOnChain (one or two reorg sites), triggerOnChain, the tie-break's shape
	rfa := c.Func("core", "(*blockChain).removeFromCommonAncestor")
	add := c.Func("core", "(*blockChain).addBlockOnChain")
	if !r.Anchor(rfa != nil, rule, "removeFromCommonAncestor") || !r.Anchor(add != nil, rule, "addBlockOnChain") {
		return
	}
	isQN := func(v ssa.Value, who string) bool {
		d := eng.Desc(v)
		return strings.HasSuffix(d, ".TotalQN") && strings.Contains(d, who)
	}
	for i, site := range c.Callers(rfa) {
		fn := site.Fn
		name := eng.FuncName(fn)
		key := fmt.Sprintf("call:%s#%d", name, i)
		pos := c.Pos(site.Pos())
		switch name {
		case "(*core.blockChain).addBlockOnChain":
			notLess, greater, pvLost := false, false, false
			for _, cd := range eng.CondsAt(site.Instr) {
				if m, ok := cd.Cmp(); ok {
					if isQN(m.X, "coming.Header") && isQN(m.Y, ".latestBlock") {
						if m.Op == token.GEQ {
							notLess = true
						}
						if m.Op == token.GTR {
							greater = true
						}
					}
				}
				if call, ok := cd.V.(*ssa.Call); ok && eng.CallName(&call.Call) == "core.chainPvGreatThanRemote" && !cd.True {
					// roles: (local competitor at the fork point, coming header)
					a0, a1 := eng.Desc(call.Call.Args[0]), eng.Desc(call.Call.Args[1])
					localOK := strings.Contains(a0, "QueryBlockHeaderByHeight") && strings.Contains(a0, "queryBlockHeaderByHash") && strings.Contains(a0, ".PreHash") && strings.Contains(a0, ".Height + 1")
					comingOK := a1 == "coming.Header"
					if localOK && comingOK {
						pvLost = true
					} else {
						r.Fail(rule, key+":roles", pos, "chainPvGreatThanRemote is called with ("+a0+", "+a1+"): expected (the local block at commonAncestor.Height+1 where commonAncestor = block of coming.PreHash, coming.Header)")
					}
				}
			}
			if notLess && !greater && !pvLost {
				// one reorg tail shared by both reasons: every path to the call crosses either the edge on which the
				// weights differ (with >= established: strictly greater) or the edge on which the local competitor loses
				rolesOK := func(call *ssa.Call) bool {
					a0, a1 := eng.Desc(call.Call.Args[0]), eng.Desc(call.Call.Args[1])
					return strings.Contains(a0, "QueryBlockHeaderByHeight") && strings.Contains(a0, "queryBlockHeaderByHash") && strings.Contains(a0, ".PreHash") && strings.Contains(a0, ".Height + 1") && a1 == "coming.Header"
				}
				cut := func(a *ssa.BasicBlock, succ int) bool {
					iff, isIf := a.Instrs[len(a.Instrs)-1].(*ssa.If)
					if !isIf {
						return false
					}
					cd := eng.Cond{V: iff.Cond, True: succ == 0, If: iff}
					if m, ok := cd.Cmp(); ok && isQN(m.X, "coming.Header") && isQN(m.Y, ".latestBlock") && (m.Op == token.GTR || m.Op == token.NEQ) {
						return true
					}
					if call, ok := iff.Cond.(*ssa.Call); ok && eng.CallName(&call.Call) == "core.chainPvGreatThanRemote" && succ == 1 && rolesOK(call) {
						return true
					}
					return false
				}
				if !eng.PathToAvoiding(fn, site.Instr, nil, cut) {
					greater, pvLost = true, true
				}
			}
			r.Check(notLess && (greater || pvLost), rule, key, pos, "reorg only when coming.TotalQN >= top.TotalQN and (strictly greater or the local competitor at the fork point loses on prove value/hash)",
				fmt.Sprintf("removeFromCommonAncestor is not guarded by the chain-weight rule (coming.TotalQN >= top=%v, > top=%v, local prove value not greater=%v)", notLess, greater, pvLost))
		case "(*core.blockChainFork).triggerOnChain":
			notLess, tie := false, false
			for _, cd := range eng.CondsAt(site.Instr) {
				if m, ok := cd.Cmp(); ok && isQN(m.X, "blockFork.latestBlock") && isQN(m.Y, "chain.latestBlock") && m.Op == token.GEQ {
					notLess = true
				}
			}
			// the tie-break `==` ∧ nextPvGreatThanFork → return true must dominate the call's block
			for _, b := range fn.Blocks {
				iff, ok := b.Instrs[len(b.Instrs)-1].(*ssa.If)
				if !ok {
					continue
				}
				if call, ok := iff.Cond.(*ssa.Call); ok && strings.HasSuffix(eng.CallName(&call.Call), ".nextPvGreatThanFork") {
					if t := b.Succs[0]; len(t.Instrs) > 0 {
						if ret, isR := t.Instrs[len(t.Instrs)-1].(*ssa.Return); isR && eng.RetClass(ret, 0, nil) == "true" {
							// equality condition guards the call
							for _, cd := range eng.EdgeConds(b) {
								if m, ok := cd.Cmp(); ok && m.Op == token.EQL && isQN(m.X, "blockFork.latestBlock") && isQN(m.Y, "chain.latestBlock") {
									tie = true
								}
							}
							if !eng.Reaches(iff, site.Instr) {
								tie = false
							}
						}
					}
				}
			}
			r.Check(notLess && tie, rule, key, pos, "sync reorg only when fork.TotalQN >= local and, on a tie, the local next block does not win on prove value", fmt.Sprintf("sync-path reorg is not guarded by the chain-weight rule (fork.TotalQN >= local=%v, tie-break present=%v)", notLess, tie))
		default:
			r.Fail(rule, key, pos, name+" calls removeFromCommonAncestor: a new, unreviewed way of moving the head backwards")
		}
	}
	// chainPvGreatThanRemote: true only for Cmp > 0 of (local, remote) prove values or equal and local hash greater
	pv := c.Func("core", "chainPvGreatThanRemote")
	if r.Anchor(pv != nil, rule, "core.chainPvGreatThanRemote") {
		// Decided over the finite set of orderings: the function touches the two blocks only through two three-way
		// comparisons (prove values, hashes). For each of the 3×3 sign combinations the CFG is walked with the
		// comparison results fixed, and the returned boolean is compared with the specification
		//   local wins  <=>  pv(local) > pv(remote)  or  (pv equal and hash(local) > hash(remote)).
		why := orderTable(pv, "chainNextBlock", "remoteBlock")
		r.Check(why == "", rule, "chainPvGreatThanRemote:shape", c.Pos(pv.Pos()), "for all 9 orderings of (prove value, hash) the result is: local prove value greater, or equal and local hash greater", "chainPvGreatThanRemote: "+why+": the head can move to (or stay on) the lighter of two siblings")
	}
}

func c05Verify(c *eng.Ctx, r *eng.Report) {
	const rule = "R5.7"
	r.Min(rule, 2)
	add := c.Func("core", "(*blockChain).addBlockOnChain")
	if add == nil {
		return
	}
	vb := callsNamed(add, ".verifyBlock")
	ib := callsNamed(add, ".insertBlock")
	ok := len(vb) == 1 && len(ib) >= 1
	if ok {
		var res ssa.Value
		for _, ref := range *vb[0].Referrers() {
			if e, isE := ref.(*ssa.Extract); isE && e.Index == 1 {
				res = e
			}
		}
		for _, i := range ib {
			on := false
			for _, cd := range eng.CondsAt(i) {
				if m, isM := cd.Cmp(); isM && m.X == res && m.Op == token.EQL {
					if k, isK := eng.ConstInt(m.Y); isK && k == 0 {
						on = true
					}
				}
			}
			ok = ok && on
		}
		for _, rf := range callsNamed(add, ".removeFromCommonAncestor") {
			if !eng.Dominates(vb[0], rf) {
				ok = false
			}
		}
	}
	r.Check(ok, rule, "addBlockOnChain:verify-first", c.Pos(add.Pos()), "insertBlock and any reorg happen only after verifyBlock returned 0", "a block can be inserted (or the chain reorganised for it) without passing verifyBlock")
	cs := c.Func("core", "(*blockChain).checkStates")
	if r.Anchor(cs != nil, rule, "checkStates") {
		roots := map[string]bool{}
		for _, s := range eng.Sites(cs) {
			if s.Name() != "bytes.Compare" {
				continue
			}
			call := s.Instr.(*ssa.Call)
			d := eng.Desc(call.Call.Args[0]) + " " + eng.Desc(call.Call.Args[1])
			for _, f := range []string{"StateTree", "ReceiptTree", "TxTree"} {
				if strings.Contains(d, "."+f) {
					// failure edge returns false
					for _, ref := range *call.Referrers() {
						if bo, ok := ref.(*ssa.BinOp); ok && (bo.Op == token.NEQ || bo.Op == token.EQL) {
							roots[f] = true
						}
					}
				}
			}
		}
		r.Check(len(roots) == 3, rule, "checkStates:three-roots", c.Pos(cs.Pos()), "recomputed state, receipt and transaction roots are each compared with the header", fmt.Sprintf("checkStates compares only %v with the header", roots))
	}
}

// c05HeaderCache: the LRU in front of the height index answers as the index
// does only if remove() evicts the removed block's height; otherwise a lookup
// by height keeps returning a block that is no longer on the chain.
func c05HeaderCache(c *eng.Ctx, r *eng.Report) {
	const rule = "R5.8"
	r.Min(rule, 1)
	rm := c.Func("core", "(*blockChain).remove")
	if !r.Anchor(rm != nil, rule, "(*blockChain).remove") {
		return
	}
	// caches the chain answers height/hash lookups from
	used := map[string]token.Pos{}
	for _, fn := range c.PkgFuncs("core") {
		if c.IsTestFunc(fn) || fn.Signature.Recv() == nil || !strings.HasSuffix(eng.ShortType(fn.Signature.Recv().Type()), "core.blockChain") {
			continue
		}
		for _, h := range eng.ScanNondeterminism(fn) {
			if h.Kind != "cache" {
				continue
			}
			m := ""
			if f := eng.HitCommon(h).StaticCallee(); f != nil {
				m = f.Name()
			}
			if (m == "Get" || m == "Peek") && strings.HasSuffix(h.Recv, ".topBlocks") {
				used[h.Recv] = h.Pos
			}
		}
	}
	// evictions performed by remove (directly or in a helper of the same type it calls)
	evicted := map[string]bool{}
	cone := c.ConeOf([]*ssa.Function{rm}, func(fn *ssa.Function) bool {
		return fn.Signature.Recv() != nil && strings.HasSuffix(eng.ShortType(fn.Signature.Recv().Type()), "core.blockChain")
	})
	for _, fn := range cone.Sorted() {
		if fn.Blocks == nil || !strings.HasSuffix(eng.FuncPkgPath(fn), "/src/core") {
			continue
		}
		for _, h := range eng.ScanNondeterminism(fn) {
			if h.Kind != "cache" {
				continue
			}
			call := &struct{ Call ssa.CallCommon }{*eng.HitCommon(h)}
			if f := call.Call.StaticCallee(); f != nil && (f.Name() == "Remove" || f.Name() == "Purge") {
				if f.Name() == "Purge" || strings.Contains(strings.ToLower(eng.Desc(call.Call.Args[1])), "height") {
					evicted[h.Recv] = true
				}
			}
		}
	}
	n := 0
	for recv, pos := range used {
		n++
		r.Check(evicted[recv], rule, "cache:"+recv, c.Pos(pos), "remove() evicts the removed height from the cache lookups read", "lookups by height are answered from "+recv+" but blockChain.remove no longer evicts the removed block's height from it: after a reorg to a chain that has no block at that height, GetBlockHash/QueryBlockHeaderByHeight keep returning the removed block although the height index was cleaned")
	}
	if n == 0 {
		r.Pass(rule, "cache:none", "", "no header cache is read by height lookups")
	}
}

// orderTable symbolically runs fn for every sign combination of its two
// three-way comparisons and returns "" when the result always equals
// pv>0 || (pv==0 && hash>0), signs taken as (local, remote).
func orderTable(fn *ssa.Function, local, remote string) string {
	// classify comparison calls: kind ("pv"/"hash") and orientation (+1 local first, -1 remote first)
	type cmpInfo struct {
		kind string
		sign int
	}
	cmps := map[ssa.Value]cmpInfo{}
	for _, s := range eng.Sites(fn) {
		call, ok := s.Instr.(*ssa.Call)
		if !ok {
			continue
		}
		n := s.Name()
		var x, y ssa.Value
		switch {
		case strings.HasSuffix(n, "big.Int).Cmp"):
			x, y = call.Call.Args[0], call.Call.Args[1]
		case n == "bytes.Compare":
			x, y = call.Call.Args[0], call.Call.Args[1]
		default:
			continue
		}
		dx, dy := eng.Desc(x), eng.Desc(y)
		kind := ""
		switch {
		case strings.Contains(dx, ".ProveValue") && strings.Contains(dy, ".ProveValue"):
			kind = "pv"
		case strings.Contains(dx, ".Hash") && strings.Contains(dy, ".Hash"):
			kind = "hash"
		default:
			continue
		}
		switch {
		case strings.Contains(dx, local) && strings.Contains(dy, remote):
			cmps[call] = cmpInfo{kind, 1}
		case strings.Contains(dx, remote) && strings.Contains(dy, local):
			cmps[call] = cmpInfo{kind, -1}
		}
	}
	has := map[string]bool{}
	for _, ci := range cmps {
		has[ci.kind] = true
	}
	if !has["pv"] || !has["hash"] {
		return fmt.Sprintf("the two three-way comparisons (prove values: %v, hashes: %v) between the local and the coming block were not both found", has["pv"], has["hash"])
	}
	var evalInt func(v ssa.Value, pv, hs int) (int, bool)
	evalInt = func(v ssa.Value, pv, hs int) (int, bool) {
		if ci, ok := cmps[v]; ok {
			if ci.kind == "pv" {
				return ci.sign * pv, true
			}
			return ci.sign * hs, true
		}
		if k, ok := eng.ConstInt(v); ok {
			return int(k), true
		}
		return 0, false
	}
	var evalBool func(v ssa.Value, pv, hs int, from *ssa.BasicBlock) (bool, bool)
	evalBool = func(v ssa.Value, pv, hs int, from *ssa.BasicBlock) (bool, bool) {
		switch x := v.(type) {
		case *ssa.Const:
			if x.Value != nil {
				return x.Value.ExactString() == "true", true
			}
		case *ssa.UnOp:
			if x.Op == token.NOT {
				b, ok := evalBool(x.X, pv, hs, from)
				return !b, ok
			}
		case *ssa.BinOp:
			l, ok1 := evalInt(x.X, pv, hs)
			rr, ok2 := evalInt(x.Y, pv, hs)
			if !ok1 || !ok2 {
				return false, false
			}
			switch x.Op {
			case token.GTR:
				return l > rr, true
			case token.GEQ:
				return l >= rr, true
			case token.LSS:
				return l < rr, true
			case token.LEQ:
				return l <= rr, true
			case token.EQL:
				return l == rr, true
			case token.NEQ:
				return l != rr, true
			}
		case *ssa.Phi:
			for i, p := range x.Block().Preds {
				if p == from {
					return evalBool(x.Edges[i], pv, hs, from)
				}
			}
		}
		return false, false
	}
	for _, pv := range []int{-1, 0, 1} {
		for _, hs := range []int{-1, 0, 1} {
			want := pv > 0 || (pv == 0 && hs > 0)
			b := fn.Blocks[0]
			var from *ssa.BasicBlock
			steps := 0
			for {
				steps++
				if steps > 200 {
					return "the walk does not terminate (loop in the comparison function)"
				}
				last := b.Instrs[len(b.Instrs)-1]
				switch t := last.(type) {
				case *ssa.Return:
					v := t.Results[0]
					got, ok := evalBool(v, pv, hs, from)
					if ph, isPhi := v.(*ssa.Phi); isPhi && ph.Block() == b {
						got, ok = evalBool(v, pv, hs, from)
					}
					if !ok {
						return "a returned value is not a function of the two comparisons (" + eng.Desc(v) + ")"
					}
					if got != want {
						return fmt.Sprintf("for prove-value order %+d and hash order %+d (local vs coming) it answers %v, the fork-choice rule says %v", pv, hs, got, want)
					}
				case *ssa.If:
					c, ok := evalBool(t.Cond, pv, hs, from)
					if !ok {
						return "a branch condition is not a function of the two comparisons (" + eng.Desc(t.Cond) + ")"
					}
					from = b
					if c {
						b = b.Succs[0]
					} else {
						b = b.Succs[1]
					}
					continue
				case *ssa.Jump:
					from = b
					b = b.Succs[0]
					continue
				default:
					return "unexpected terminator"
				}
				break
			}
		}
	}
	return ""
}

// c05HeadRecord: each removal (and each insertion) leaves the head record on
// disk naming the block the in-memory head pointer names. A removal that moves
// the pointer but leaves the record to a later removal has a window — between
// two removals of a multi-block reorg no intent mark exists — in which a crash
// leaves a recorded head that is in neither index.
func c05HeadRecord(c *eng.Ctx, r *eng.Report) {
	const rule = "R5.9"
	r.Min(rule, 2)
	n := 0
	for _, fn := range c.PkgFuncs("core") {
		if c.IsTestFunc(fn) {
			continue
		}
		stores := eng.FieldStores(fn, "core.blockChain", "latestBlock")
		if len(stores) == 0 {
			continue
		}
		name := eng.FuncName(fn)
		var puts []ssa.Instruction
		for _, op := range dbOps(fn) {
			if op.Call.Method.Name() == "Put" && strings.HasSuffix(eng.Desc(op.Call.Value), ".heightDB") && strings.Contains(eng.Desc(op.Call.Args[0]), "bcurrent") {
				puts = append(puts, op)
			}
		}
		for i, st := range stores {
			key := fmt.Sprintf("head-record:%s#%d", name, i)
			// start-up: the pointer is loaded from the record
			if v := st.(*ssa.Store).Val; strings.Contains(eng.Desc(v), "bcurrent") {
				r.Pass(rule, key, c.Pos(st.Pos()), "head pointer loaded from the head record")
				n++
				continue
			}
			n++
			ok := false
			for _, p := range puts {
				if eng.Dominates(p, st) {
					ok = true
				}
			}
			if !ok && len(puts) > 0 {
				ok = true
				isPut := func(in ssa.Instruction) bool {
					for _, p := range puts {
						if p == in {
							return true
						}
					}
					return false
				}
				for _, re := range eng.Returns(fn) {
					if reach, _ := eng.ReachAvoiding(fn, st, re, isPut); reach {
						ok = false
					}
				}
			}
			// a removal moves the head to the removed block's parent — found by the parent link, not by height arithmetic
			// (heights follow casting slots and may skip)
			if strings.HasSuffix(name, ").remove") || strings.HasSuffix(name, ").removeBlock") {
				v := st.(*ssa.Store).Val
				viaParent := false
				var walk func(x ssa.Value, d int)
				seenV := map[ssa.Value]bool{}
				walk = func(x ssa.Value, d int) {
					if x == nil || d > 10 || seenV[x] {
						return
					}
					seenV[x] = true
					if call, isC := x.(*ssa.Call); isC {
						for _, a := range call.Call.Args {
							if strings.HasSuffix(eng.Desc(a), ".PreHash") {
								viaParent = true
							}
						}
					}
					if in, isI := x.(ssa.Instruction); isI {
						var ops []*ssa.Value
						for _, o := range in.Operands(ops) {
							if *o != nil {
								walk(*o, d+1)
							}
						}
					}
				}
				walk(v, 0)
				r.Check(viaParent, rule, fmt.Sprintf("new-head-is-parent:%s#%d", name, i), c.Pos(st.Pos()), "after a removal the head is the block looked up by the removed block's PreHash", name+" sets the head after a removal to "+eng.Desc(v)+", which is not looked up through the removed block's parent link (PreHash): heights follow casting slots, so the block at height-1 may not exist or may not be the parent — the removal then deletes the block from every index and returns without moving the head, leaving a recorded head that is in no index")
			}
			r.Check(ok, rule, key, c.Pos(st.Pos()), "the head record is written before the pointer moves or on every path after it", name+" moves the head pointer (blockChain.latestBlock) on a path that does not write the head record (heightDB[latestBlockKey]): pointer and record disagree until some later write, and no intent mark covers that window — a crash there leaves a recorded head that the indexes no longer contain")
		}
	}
	r.Check(n >= 3, rule, "head-record:sites", "", fmt.Sprintf("%d head-pointer assignments", n), fmt.Sprintf("only %d assignments of blockChain.latestBlock found (initBlockChain, remove, updateLastBlock expected)", n))
}

func derivesFromCall(v ssa.Value, callee string, depth int) bool {
	seen := map[ssa.Value]bool{}
	var walk func(v ssa.Value, d int) bool
	walk = func(v ssa.Value, d int) bool {
		if v == nil || d > depth || seen[v] {
			return false
		}
		seen[v] = true
		if call, ok := v.(*ssa.Call); ok {
			return eng.CallName(&call.Call) == callee
		}
		switch x := v.(type) {
		case *ssa.Extract:
			return walk(x.Tuple, d+1)
		case *ssa.Phi:
			for _, e := range x.Edges {
				if !walk(e, d+1) {
					return false
				}
			}
			return len(x.Edges) > 0
		case *ssa.ChangeType:
			return walk(x.X, d+1)
		case *ssa.UnOp:
			if x.Op == token.MUL {
				return walk(eng.ResolveLocal(x), d+1) && eng.ResolveLocal(x) != ssa.Value(x)
			}
		}
		return false
	}
	return walk(v, 0)
}

// c05MarkContent: remove() rolls back the indexes, the head and — through
// UnMarkExecuted(block) — the executed marks of the block's transactions. The
// recovery re-runs remove() on what the mark holds, so the mark must hold the
// block with its transactions.
func c05MarkContent(c *eng.Ctx, r *eng.Report) {
	const rule = "R5.3"
	n, nPut := 0, 0
	for _, fn := range c.PkgFuncs("core") {
		if c.IsTestFunc(fn) {
			continue
		}
		for _, op := range dbOps(fn) {
			if op.Call.Method.Name() != "Put" || !strings.HasSuffix(eng.Desc(op.Call.Value), ".hashDB") {
				continue
			}
			k := eng.Desc(op.Call.Args[0])
			if !strings.Contains(k, "BlockMark") && !strings.Contains(k, "addBlock") && !strings.Contains(k, "removeBlock") {
				continue
			}
			n++
			nPut++
			name := eng.FuncName(fn)
			key := "mark-content:" + name
			val := op.Call.Args[1]
			if prm, isP := val.(*ssa.Parameter); isP {
				idx := -1
				for i, q := range fn.Params {
					if q == prm {
						idx = i
					}
				}
				callers := c.Callers(fn)
				ok := len(callers) > 0
				bad := ""
				for _, site := range callers {
					if idx < 0 || idx >= len(site.Common().Args) || !derivesFromCall(site.Common().Args[idx], "middleware/types.MarshalBlock", 4) {
						ok = false
						bad = eng.FuncName(site.Fn) + " (" + c.Pos(site.Pos()) + ")"
					}
				}
				r.Check(ok, rule, key, c.Pos(op.Pos()), "every caller passes the output of MarshalBlock", "the intent mark written by "+name+" does not hold the marshalled block: "+bad+" passes something else — after a crash the recovery cannot hand remove() the block's transactions, so their executed records survive the rollback and the rolled-back block (and any block carrying those transactions) is refused for ever")
				continue
			}
			r.Check(derivesFromCall(val, "middleware/types.MarshalBlock", 4), rule, key, c.Pos(op.Pos()), "the mark holds the output of MarshalBlock", "the intent mark written by "+name+" is not the output of MarshalBlock: the recovery cannot rebuild the block with its transactions")
		}
	}
	ecc := c.Func("core", "(*blockChain).ensureChainConsistency")
	if ecc != nil {
		cone := c.ConeOf([]*ssa.Function{ecc}, func(fn *ssa.Function) bool {
			return eng.FuncPkgPath(fn) == eng.Mod+"/src/core" && eng.FuncName(fn) != "(*core.blockChain).remove"
		})
		for _, fn := range cone.Sorted() {
			if fn.Blocks == nil || eng.FuncName(fn) == "(*core.blockChain).remove" {
				continue
			}
			for i, rm := range callsNamed(fn, "(*core.blockChain).remove") {
				n++
				args := rm.Common().Args
				ok := len(args) >= 2 && derivesFromCall(args[1], "middleware/types.UnMarshalBlock", 4)
				r.Check(ok, rule, fmt.Sprintf("recovery-block:%s#%d", eng.FuncName(fn), i), c.Pos(rm.Pos()), "remove() is given the UnMarshalBlock of the mark", "the recovery in "+eng.FuncName(fn)+" hands remove() something other than the UnMarshalBlock of the mark it read (e.g. a header-only block): the rollback cannot unmark the block's transactions")
			}
		}
	}
	r.Check(nPut >= 2 && n-nPut >= 1, rule, "mark-content:sites", "", fmt.Sprintf("%d mark writes / %d recovery removals", nPut, n-nPut), fmt.Sprintf("only %d mark writes and %d recovery removals found (2 and at least 1 expected)", nPut, n-nPut))
}

// c05HeaderCacheFollowsIndex: see R5.11.
func c05HeaderCacheFollowsIndex(c *eng.Ctx, r *eng.Report) {
	const rule = "R5.11"
	r.Min(rule, 3)
	isTop := func(s eng.Site, method string) bool {
		return strings.HasSuffix(s.Name(), "lru.Cache)."+method) && len(s.Common().Args) > 0 && strings.HasSuffix(eng.Desc(s.Common().Args[0]), ".topBlocks")
	}
	allowed := map[string]string{
		"(*core.blockChain).insertBlock": "the header of the block just written to the height index",
		"(*core.blockChain).buildCache":  "start-up scan of the top heights",
	}
	nAdd := 0
	for _, fn := range c.PkgFuncs("core") {
		for _, s := range eng.Sites(fn) {
			if !isTop(s, "Add") {
				continue
			}
			nAdd++
			why, ok := allowed[eng.FuncName(fn)]
			r.Check(ok, rule, "header-cache-writer:"+eng.FuncName(fn), c.Pos(s.Pos()), why, eng.FuncName(fn)+" fills the header cache: outside insertBlock and the start-up scan nothing knows that the height index changed, so an entry made on read (or a typed-nil entry the start-up scan left for an empty height) outlives the insertion of a block at that height")
		}
	}
	ins := c.Func("core", "(*blockChain).insertBlock")
	if r.Anchor(ins != nil, rule, "core.(*blockChain).insertBlock") {
		var add ssa.Instruction
		for _, s := range eng.Sites(ins) {
			if isTop(s, "Add") && strings.Contains(eng.Desc(s.Common().Args[1]), ".Height") {
				add = s.Instr
			}
		}
		ok := add != nil
		where := ""
		if ok {
			// the add must lie on every path to updateLastBlock (the head moves only with the cache updated)
			for _, s := range eng.Sites(ins) {
				if strings.HasSuffix(s.Name(), "blockChain).updateLastBlock") && !eng.Dominates(add, s.Instr) {
					ok = false
					where = c.Pos(s.Pos())
				}
			}
		}
		r.Check(ok, rule, "header-cache:insert", c.Pos(ins.Pos()), "insertBlock caches the inserted header under its height before the head moves", "insertBlock moves the head (updateLastBlock "+where+") without having put the inserted block's header into topBlocks under its height: after a restart the cache holds a typed-nil entry for every height that had no block, the by-height lookup treats it as a hit, and a block that a reorg puts at such a height cannot be found by height — GetBlockHash/QueryBlock return nothing for a block of the head's chain, and the next heavier fork recurses in addBlockOnChain trying to unwind it")
	}
	rm := c.Func("core", "(*blockChain).remove")
	if r.Anchor(rm != nil, rule, "core.(*blockChain).remove") {
		has := false
		for _, s := range eng.Sites(rm) {
			if isTop(s, "Remove") {
				has = true
			}
		}
		r.Check(has, rule, "header-cache:remove", c.Pos(rm.Pos()), "remove() drops the removed height from the header cache", "remove() no longer drops the removed height from topBlocks: the by-height lookup keeps answering with the removed block's header")
	}
	if nAdd == 0 {
		r.Fail(rule, "header-cache-writer:none", "", "no topBlocks.Add in package core: the rule has lost its anchor")
	}
}
