package rules

import (
	"fmt"
	"go/token"
	"go/types"
	"reflect"
	"sort"
	"strings"

	"golang.org/x/tools/go/ssa"

	"verif/checker/eng"
)

func init() { register("C09", c09) }

const typesPkg = "middleware/types"

func c09(c *eng.Ctx, r *eng.Report) {
	r.Explain = "Totality and field coverage of the protobuf wire codecs in middleware/types/serialization.go, decided on SSA and go/types: " +
		"R9.1 no field of a protobuf message that is optional by its proto2 struct tag (`opt`) is dereferenced, and no function is handed an optional nested message, without a nil guard on that path (required fields are exempt: Unmarshal rejects their absence); " +
		"R9.2 for each codec pair every field of the Go struct is read by the encoder and written by the decoder (reviewed exclusions listed), every field the identifying hash covers is among them, and *big.Int fields are reconstructed under a nil (presence) test, not a length test, so that zero survives; " +
		"R9.3 discarded errors of time/JSON (un)marshalling inside the converters are listed. " +
		"Not decided: value equality after a round trip (nil-vs-empty slices, time zones)."
	r.Assume = []string{"golang/protobuf proto2 Unmarshal returns an error when a `req` field is absent", "generated GetX() accessors are nil-safe"}
	c09NilGuards(c, r)
	c09Coverage(c, r)
	c09Errors(c, r)
}

// pbFieldTag returns "opt", "req" or "rep" for field f of a pb struct type.
func pbFieldTag(st *types.Struct, i int) string {
	tag := reflect.StructTag(st.Tag(i)).Get("protobuf")
	for _, p := range strings.Split(tag, ",") {
		if p == "opt" || p == "req" || p == "rep" {
			return p
		}
	}
	return ""
}

func isPbStruct(t types.Type) (*types.Named, *types.Struct) {
	if p, ok := t.Underlying().(*types.Pointer); ok {
		t = p.Elem()
	}
	n, ok := t.(*types.Named)
	if !ok || n.Obj().Pkg() == nil || !strings.HasSuffix(n.Obj().Pkg().Path(), "/middleware/pb") {
		return nil, nil
	}
	st, ok := n.Underlying().(*types.Struct)
	if !ok {
		return nil, nil
	}
	return n, st
}

// codecFuncs: the decode side — functions that turn pb messages into domain objects.
func pbDecodeFuncs(c *eng.Ctx) []*ssa.Function {
	var out []*ssa.Function
	for _, pkg := range []string{typesPkg, "core", "consensus/net", "network"} {
		for _, fn := range c.PkgFuncs(pkg) {
			// any function that loads a field of a pb message
			uses := false
			for _, b := range fn.Blocks {
				for _, in := range b.Instrs {
					if fa, ok := in.(*ssa.FieldAddr); ok {
						if n, _ := isPbStruct(fa.X.Type()); n != nil {
							uses = true
						}
					}
				}
			}
			if uses {
				out = append(out, fn)
			}
		}
	}
	return out
}

func c09NilGuards(c *eng.Ctx, r *eng.Report) {
	const rule = "R9.1"
	r.Min(rule, 20)
	guardedNonNil := func(at ssa.Instruction, ptr ssa.Value) bool {
		want := eng.Desc(ptr)
		for _, cd := range eng.CondsAt(at) {
			m, ok := cd.Cmp()
			if !ok || m.Op != token.NEQ {
				continue
			}
			if eng.IsNilConst(m.Y) && (m.X == ptr || eng.Desc(m.X) == want) {
				return true
			}
			if eng.IsNilConst(m.X) && (m.Y == ptr || eng.Desc(m.Y) == want) {
				return true
			}
		}
		return false
	}
	// parameters of pb-message pointer type that a function dereferences without a nil test
	derefsParam := map[*ssa.Function]map[int]bool{}
	for _, fn := range pbDecodeFuncs(c) {
		for i, p := range fn.Params {
			if n, _ := isPbStruct(p.Type()); n == nil {
				continue
			}
			for _, b := range fn.Blocks {
				for _, in := range b.Instrs {
					if fa, ok := in.(*ssa.FieldAddr); ok && fa.X == ssa.Value(p) && !guardedNonNil(fa, p) {
						if derefsParam[fn] == nil {
							derefsParam[fn] = map[int]bool{}
						}
						derefsParam[fn][i] = true
					}
				}
			}
		}
	}
	seen := map[string]bool{}
	for _, fn := range pbDecodeFuncs(c) {
		for _, b := range fn.Blocks {
			for _, in := range b.Instrs {
				switch x := in.(type) {
				case *ssa.UnOp:
					// *(*(&msg.F)) : dereference of a pointer loaded from a pb field
					if x.Op != token.MUL {
						continue
					}
					inner, ok := x.X.(*ssa.UnOp)
					if !ok || inner.Op != token.MUL {
						continue
					}
					fa, ok := inner.X.(*ssa.FieldAddr)
					if !ok {
						continue
					}
					n, st := isPbStruct(fa.X.Type())
					if n == nil {
						continue
					}
					tag := pbFieldTag(st, fa.Field)
					fname := st.Field(fa.Field).Name()
					key := fmt.Sprintf("deref:%s.%s@%s", n.Obj().Name(), fname, eng.FuncName(fn))
					if seen[key] {
						continue
					}
					seen[key] = true
					switch {
					case tag == "req":
						r.Pass(rule, key, c.Pos(x.Pos()), "required field: absence is rejected by proto.Unmarshal")
					case guardedNonNil(x, inner):
						r.Pass(rule, key, c.Pos(x.Pos()), "optional field dereferenced under a nil guard")
					default:
						r.Fail(rule, key, c.Pos(x.Pos()), "optional protobuf field "+n.Obj().Name()+"."+fname+" is dereferenced without a nil guard: a peer-supplied message that omits it crashes the parser with a nil-pointer panic (use the generated Get"+fname+"() or test for nil)")
					}
				case *ssa.FieldAddr:
					// msg.Nested.X where Nested is an optional message pointer
					ld, ok := x.X.(*ssa.UnOp)
					if !ok || ld.Op != token.MUL {
						continue
					}
					fa, ok := ld.X.(*ssa.FieldAddr)
					if !ok {
						continue
					}
					n, st := isPbStruct(fa.X.Type())
					if n == nil {
						continue
					}
					if nn, _ := isPbStruct(st.Field(fa.Field).Type()); nn == nil {
						continue
					}
					tag := pbFieldTag(st, fa.Field)
					fname := st.Field(fa.Field).Name()
					key := fmt.Sprintf("nested:%s.%s@%s", n.Obj().Name(), fname, eng.FuncName(fn))
					if seen[key] {
						continue
					}
					seen[key] = true
					ok2 := tag == "req" || tag == "rep" || guardedNonNil(x, ld)
					r.Check(ok2, rule, key, c.Pos(x.Pos()), "nested message "+tag+" / nil-guarded", "fields of optional nested message "+n.Obj().Name()+"."+fname+" are accessed without a nil guard")
				case *ssa.Call:
					callee := x.Call.StaticCallee()
					if callee == nil || derefsParam[callee] == nil {
						continue
					}
					args := x.Call.Args
					for i := range derefsParam[callee] {
						if i >= len(args) {
							continue
						}
						ld, ok := args[i].(*ssa.UnOp)
						if !ok || ld.Op != token.MUL {
							continue
						}
						fa, ok := ld.X.(*ssa.FieldAddr)
						if !ok {
							continue
						}
						n, st := isPbStruct(fa.X.Type())
						if n == nil {
							continue
						}
						tag := pbFieldTag(st, fa.Field)
						fname := st.Field(fa.Field).Name()
						key := fmt.Sprintf("passed:%s.%s→%s", n.Obj().Name(), fname, eng.FuncName(callee))
						if seen[key] {
							continue
						}
						seen[key] = true
						ok2 := tag == "req" || guardedNonNil(x, ld)
						r.Check(ok2, rule, key, c.Pos(x.Pos()), "nested message is "+tag+" / nil-guarded before being handed to a function that dereferences it", n.Obj().Name()+"."+fname+" is "+tag+" (may be absent) but is passed unguarded to "+eng.FuncName(callee)+", which dereferences its parameter without a nil test: a message without that field crashes the parser")
					}
				}
			}
		}
	}
}

// codec pairs: Go struct, encoder, decoder, hash function (optional), exclusions.
type codecPair struct {
	goType   string
	encoders []string
	decoders []string
	hash     string
	exclude  map[string]string
}

var codecPairs = []codecPair{
	{"Transaction", []string{"transactionToPb"}, []string{"pbToTransaction"}, "(*Transaction).GenHash",
		map[string]string{"SocketRequestId": "per-connection routing tag set by the gateway layer; decoded when present but deliberately not relayed (F10: judged outside content)"}},
	{"BlockHeader", []string{"BlockHeaderToPb"}, []string{"PbToBlockHeader"}, "(*BlockHeader).GenHash", map[string]string{}},
	{"GroupHeader", []string{"GroupToPbHeader"}, []string{"PbToGroupHeader"}, "(*GroupHeader).GenHash", map[string]string{
		"ReadyHeight":   "derived locally (never assigned outside genesis JSON); not hashed",
		"WorkHeight":    "derived from CreateHeight when the group is added (core.(*groupChain).AddGroup); not hashed",
		"DismissHeight": "derived from CreateHeight when the group is added (core.(*groupChain).AddGroup); not hashed"}},
	{"Group", []string{"GroupToPb"}, []string{"PbToGroup"}, "", map[string]string{}},
	{"Member", []string{"memberToPb"}, []string{"pbToMember"}, "", map[string]string{}},
	{"Block", []string{"BlockToPb"}, []string{"PbToBlock"}, "", map[string]string{}},
}

func fieldsTouched(fn *ssa.Function, goType string, wantStore bool) map[string]bool {
	out := map[string]bool{}
	full := typesPkg + "." + goType
	for _, b := range fn.Blocks {
		for _, in := range b.Instrs {
			fa, ok := in.(*ssa.FieldAddr)
			if !ok {
				continue
			}
			t, f := eng.FieldOf(fa)
			if t != full {
				continue
			}
			stored, loaded := false, false
			for _, ref := range *fa.Referrers() {
				switch x := ref.(type) {
				case *ssa.Store:
					if x.Addr == ssa.Value(fa) {
						stored = true
					} else {
						loaded = true // &field stored elsewhere (pb pointer field) counts as read
					}
				case *ssa.UnOp:
					loaded = true
				case *ssa.Call, *ssa.MakeInterface:
					// &field handed to a function (json.Unmarshal(b, &h.F)): written by the callee
					stored = true
					loaded = true
				default:
					loaded = true
				}
			}
			if (wantStore && stored) || (!wantStore && loaded) {
				out[f] = true
			}
		}
	}
	return out
}

func c09Coverage(c *eng.Ctx, r *eng.Report) {
	const rule = "R9.2"
	r.Min(rule, 40)
	for _, cp := range codecPairs {
		st := c.Struct(typesPkg, cp.goType)
		if !r.Anchor(st != nil, rule, cp.goType) {
			continue
		}
		enc, dec := map[string]bool{}, map[string]bool{}
		okFns := true
		for _, n := range cp.encoders {
			fn := c.Func(typesPkg, n)
			if !r.Anchor(fn != nil, rule, n) {
				okFns = false
				continue
			}
			for f := range fieldsTouched(fn, cp.goType, false) {
				enc[f] = true
			}
		}
		for _, n := range cp.decoders {
			fn := c.Func(typesPkg, n)
			if !r.Anchor(fn != nil, rule, n) {
				okFns = false
				continue
			}
			for f := range fieldsTouched(fn, cp.goType, true) {
				dec[f] = true
			}
		}
		if !okFns {
			continue
		}
		hashed := map[string]bool{}
		if cp.hash != "" {
			if hf := c.Func(typesPkg, cp.hash); hf != nil {
				hashed = fieldsTouched(hf, cp.goType, false)
				// BlockHeader/GroupHeader hash their JSON form: every exported field is covered
				for _, s := range eng.Sites(hf) {
					if s.Name() == "encoding/json.Marshal" {
						for i := 0; i < st.NumFields(); i++ {
							if st.Field(i).Exported() && !strings.Contains(st.Tag(i), `json:"-"`) {
								hashed[st.Field(i).Name()] = true
							}
						}
					}
				}
			}
		}
		for i := 0; i < st.NumFields(); i++ {
			f := st.Field(i).Name()
			key := "field:" + cp.goType + "." + f
			if why, ex := cp.exclude[f]; ex {
				if hashed[f] {
					r.Fail(rule, key, c.Pos(st.Field(i).Pos()), "field is excluded from the codec ("+why+") but is covered by the identifying hash: the hash changes on a round trip")
				} else {
					r.Info(rule, key, c.Pos(st.Field(i).Pos()), "excluded: "+why)
				}
				continue
			}
			var miss []string
			if !enc[f] {
				miss = append(miss, "not read by the encoder "+strings.Join(cp.encoders, "/"))
			}
			if !dec[f] {
				miss = append(miss, "not written by the decoder "+strings.Join(cp.decoders, "/"))
			}
			note := "carried by encoder and decoder"
			if hashed[f] {
				note += "; covered by the identifying hash"
			}
			r.Check(len(miss) == 0, rule, key, c.Pos(st.Field(i).Pos()), note, "field "+cp.goType+"."+f+" is "+strings.Join(miss, " and ")+": the object does not survive a serialise/parse round trip"+map[bool]string{true: " and its hash changes", false: ""}[hashed[f]])
		}
	}
	// *big.Int fields: reconstructed under a presence (nil) test
	dec := c.Func(typesPkg, "PbToBlockHeader")
	if dec != nil {
		for _, b := range dec.Blocks {
			for _, in := range b.Instrs {
				call, ok := in.(*ssa.Call)
				if !ok || eng.CallName(&call.Call) != "(*math/big.Int).SetBytes" {
					continue
				}
				src := eng.Desc(call.Call.Args[1])
				okNil := false
				how := "unconditionally"
				for _, cd := range eng.CondsAt(call) {
					m, isM := cd.Cmp()
					if !isM {
						continue
					}
					if eng.Desc(m.X) == src && eng.IsNilConst(m.Y) && m.Op == token.NEQ {
						okNil = true
					}
					if strings.Contains(eng.Desc(m.X), "builtin:len(") && strings.Contains(eng.Desc(m.X), src) {
						how = "under a length test"
					}
				}
				r.Check(okNil, rule, "bigint-presence:"+src, c.Pos(call.Pos()), "big integer rebuilt whenever the bytes field is present (nil test), so zero survives", "big integer "+src+" is rebuilt "+how+" instead of under `!= nil`: a value of zero (empty but present bytes) comes back as nil, and the header's JSON-based hash changes")
			}
		}
	}
}

func c09Errors(c *eng.Ctx, r *eng.Report) {
	const rule = "R9.3"
	for _, n := range []string{"PbToBlockHeader", "PbToGroupHeader", "BlockHeaderToPb", "GroupToPbHeader", "pbToTransaction", "transactionToPb"} {
		fn := c.Func(typesPkg, n)
		if fn == nil {
			continue
		}
		for _, s := range eng.Sites(fn) {
			nm := s.Name()
			if !(strings.HasSuffix(nm, ".UnmarshalBinary") || strings.HasSuffix(nm, ".MarshalBinary") || nm == "encoding/json.Unmarshal" || nm == "encoding/json.Marshal") {
				continue
			}
			call, ok := s.Instr.(*ssa.Call)
			if !ok {
				continue
			}
			used := false
			for _, ref := range *call.Referrers() {
				switch x := ref.(type) {
				case *ssa.Extract:
					if x.Index == call.Call.Signature().Results().Len()-1 && len(*x.Referrers()) > 0 {
						used = true
					}
				case *ssa.DebugRef:
				default:
					if call.Call.Signature().Results().Len() == 1 {
						used = true
					}
				}
			}
			key := "err:" + nm + "@" + n
			if used {
				r.Pass(rule, key, c.Pos(call.Pos()), "error consumed")
			} else {
				r.Info(rule, key, c.Pos(call.Pos()), "error of "+nm+" is discarded (observation: the decoded value keeps its zero value; does not crash)")
			}
		}
	}
	var _ = sort.Strings
}
