package rules

import (
	"fmt"
	"go/token"
	"go/types"
	"reflect"
	"regexp"
	"sort"
	"strings"

	"golang.org/x/tools/go/ssa"

	"verif/checker/eng"
)

func init() { register("C09", c09) }

const typesPkg = "middleware/types"

func c09(c *eng.Ctx, r *eng.Report) {
	r.Explain = "Totality and field coverage of the protobuf wire codecs in middleware/types/serialization.go, decided on SSA and go/types: " +
		"R9.1 no field of a protobuf message that is optional by its proto2 struct tag (`opt`) is dereferenced, and no function is handed an optional nested message, without a nil guard on that path (required fields are exempt: Unmarshal rejects their absence); " +
		"R9.2 for each codec pair every field of the Go struct is read by the encoder and written by the decoder (reviewed exclusions listed), every field the identifying hash covers is among them, and *big.Int fields are reconstructed under a nil (presence) test, not a length test, so that zero survives; " +
		"R9.3 discarded errors of time/JSON (un)marshalling inside the converters are listed; " +
		"R9.4 values cross the codec verbatim — every call made by a codec function of middleware/types (and the same-package helpers it reaches) is a reviewed value-preserving conversion, a generated getter or a sibling codec function, and no output element aliases a loop variable that the next iteration overwrites; no floating-point value appears in a codec function (integers decoded through float64 are rounded above 2^53). " +
		"R9.5 inside the parsers (UnMarshal*, PbTo*) a Go-side pointer that a converter may have left nil — the result of a converter with a nil return, or a struct field such a result was stored in (Block.Header) — is dereferenced only under a nil test. " +
		"R9.6 an encoder sets every protobuf field that is `req` by its struct tag on every path (proto.Marshal fails for the whole message — and a block carrying it — when a required field is nil, and the pool ignores that error); " +
		"R9.9 whether an encoder writes a field depends on that field alone: in the xxxToPb encoders a value that reaches a protobuf field only under a condition is conditioned on source fields it is itself computed from (`if len(t.Target) != 0 { target = &t.Target }`), never on a sibling — a SubHash written only when SubTransactions is non-empty comes back zero for a transaction that has the one without the other; " +
		"R9.10 the content hashes take no time.Time through String()/Format(): those render the zone name and the monotonic clock reading, which the wire form (MarshalBinary) does not carry, so the same header hashes differently after transport; " +
		"R9.8 a decoded list owns one storage cell per entry: when a codec function hands out the address of an element of a slice it made (`append(out, &cells[i])`), that slice has exactly one cell per input entry (`make([]T, len(in))`) — a smaller, recycled block of cells makes later entries overwrite earlier ones through the pointers already handed out; " +
		"R9.7 no codec function appends to a slice it made with a non-zero length (`make([]T, len(src))` followed by append doubles the list: n zero values, then the real ones). " +
		"Not decided: value equality after a round trip (nil-vs-empty slices, time zones)."
	r.Assume = []string{"golang/protobuf proto2 Unmarshal returns an error when a `req` field is absent", "generated GetX() accessors are nil-safe"}
	c09NilGuards(c, r)
	c09Coverage(c, r)
	c09Errors(c, r)
	c09Verbatim(c, r)
	c09FloatFree(c, r)
	c09RequiredSet(c, r)
	c09MakeLenAppend(c, r)
	c09ElementStorage(c, r)
	c09FieldOwnCondition(c, r)
	c09HashNoTimeString(c, r)
	c09GoNil(c, r)
}

// pbFieldTag returns "opt", "req" or "rep" for field f of a pb struct type.
func pbFieldTag(st *types.Struct, i int) string {
	tag := reflect.StructTag(st.Tag(i)).Get("protobuf")
	for _, p := range strings.Split(tag, ",") {
		if p == "opt" || p == "req" || p == "rep" {
			return p
		}
	}
	return ""
}

func isPbStruct(t types.Type) (*types.Named, *types.Struct) {
	if p, ok := t.Underlying().(*types.Pointer); ok {
		t = p.Elem()
	}
	n, ok := t.(*types.Named)
	if !ok || n.Obj().Pkg() == nil || !strings.HasSuffix(n.Obj().Pkg().Path(), "/middleware/pb") {
		return nil, nil
	}
	st, ok := n.Underlying().(*types.Struct)
	if !ok {
		return nil, nil
	}
	return n, st
}

// codecFuncs: the decode side — functions that turn pb messages into domain objects.
func pbDecodeFuncs(c *eng.Ctx) []*ssa.Function {
	var out []*ssa.Function
	for _, pkg := range []string{typesPkg, "core", "consensus/net", "network"} {
		for _, fn := range c.PkgFuncs(pkg) {
			// any function that loads a field of a pb message
			uses := false
			for _, b := range fn.Blocks {
				for _, in := range b.Instrs {
					if fa, ok := in.(*ssa.FieldAddr); ok {
						if n, _ := isPbStruct(fa.X.Type()); n != nil {
							uses = true
						}
					}
				}
			}
			if uses {
				out = append(out, fn)
			}
		}
	}
	return out
}

func c09NilGuards(c *eng.Ctx, r *eng.Report) {
	const rule = "R9.1"
	r.Min(rule, 20)
	guardedNonNil := func(at ssa.Instruction, ptr ssa.Value) bool {
		want := eng.Desc(ptr)
		for _, cd := range eng.CondsAt(at) {
			m, ok := cd.Cmp()
			if !ok || m.Op != token.NEQ {
				continue
			}
			if eng.IsNilConst(m.Y) && (m.X == ptr || eng.Desc(m.X) == want) {
				return true
			}
			if eng.IsNilConst(m.X) && (m.Y == ptr || eng.Desc(m.Y) == want) {
				return true
			}
		}
		return false
	}
	// parameters of pb-message pointer type that a function dereferences without a nil test
	derefsParam := map[*ssa.Function]map[int]bool{}
	for _, fn := range pbDecodeFuncs(c) {
		for i, p := range fn.Params {
			if n, _ := isPbStruct(p.Type()); n == nil {
				continue
			}
			for _, b := range fn.Blocks {
				for _, in := range b.Instrs {
					if fa, ok := in.(*ssa.FieldAddr); ok && fa.X == ssa.Value(p) && !guardedNonNil(fa, p) {
						if derefsParam[fn] == nil {
							derefsParam[fn] = map[int]bool{}
						}
						derefsParam[fn][i] = true
					}
				}
			}
		}
	}
	seen := map[string]bool{}
	for _, fn := range pbDecodeFuncs(c) {
		for _, b := range fn.Blocks {
			for _, in := range b.Instrs {
				switch x := in.(type) {
				case *ssa.UnOp:
					// *(*(&msg.F)) : dereference of a pointer loaded from a pb field
					if x.Op != token.MUL {
						continue
					}
					inner, ok := x.X.(*ssa.UnOp)
					if !ok || inner.Op != token.MUL {
						continue
					}
					fa, ok := inner.X.(*ssa.FieldAddr)
					if !ok {
						continue
					}
					n, st := isPbStruct(fa.X.Type())
					if n == nil {
						continue
					}
					tag := pbFieldTag(st, fa.Field)
					fname := st.Field(fa.Field).Name()
					key := fmt.Sprintf("deref:%s.%s@%s", n.Obj().Name(), fname, eng.FuncName(fn))
					if seen[key] {
						continue
					}
					seen[key] = true
					switch {
					case tag == "req":
						r.Pass(rule, key, c.Pos(x.Pos()), "required field: absence is rejected by proto.Unmarshal")
					case guardedNonNil(x, inner):
						r.Pass(rule, key, c.Pos(x.Pos()), "optional field dereferenced under a nil guard")
					default:
						r.Fail(rule, key, c.Pos(x.Pos()), "optional protobuf field "+n.Obj().Name()+"."+fname+" is dereferenced without a nil guard: a peer-supplied message that omits it crashes the parser with a nil-pointer panic (use the generated Get"+fname+"() or test for nil)")
					}
				case *ssa.FieldAddr:
					// msg.Nested.X where Nested is an optional message pointer
					ld, ok := x.X.(*ssa.UnOp)
					if !ok || ld.Op != token.MUL {
						continue
					}
					fa, ok := ld.X.(*ssa.FieldAddr)
					if !ok {
						continue
					}
					n, st := isPbStruct(fa.X.Type())
					if n == nil {
						continue
					}
					if nn, _ := isPbStruct(st.Field(fa.Field).Type()); nn == nil {
						continue
					}
					tag := pbFieldTag(st, fa.Field)
					fname := st.Field(fa.Field).Name()
					key := fmt.Sprintf("nested:%s.%s@%s", n.Obj().Name(), fname, eng.FuncName(fn))
					if seen[key] {
						continue
					}
					seen[key] = true
					ok2 := tag == "req" || tag == "rep" || guardedNonNil(x, ld)
					r.Check(ok2, rule, key, c.Pos(x.Pos()), "nested message "+tag+" / nil-guarded", "fields of optional nested message "+n.Obj().Name()+"."+fname+" are accessed without a nil guard")
				case *ssa.Call:
					callee := x.Call.StaticCallee()
					if callee == nil || derefsParam[callee] == nil {
						continue
					}
					args := x.Call.Args
					for i := range derefsParam[callee] {
						if i >= len(args) {
							continue
						}
						ld, ok := args[i].(*ssa.UnOp)
						if !ok || ld.Op != token.MUL {
							continue
						}
						fa, ok := ld.X.(*ssa.FieldAddr)
						if !ok {
							continue
						}
						n, st := isPbStruct(fa.X.Type())
						if n == nil {
							continue
						}
						tag := pbFieldTag(st, fa.Field)
						fname := st.Field(fa.Field).Name()
						key := fmt.Sprintf("passed:%s.%s→%s", n.Obj().Name(), fname, eng.FuncName(callee))
						if seen[key] {
							continue
						}
						seen[key] = true
						ok2 := tag == "req" || guardedNonNil(x, ld)
						r.Check(ok2, rule, key, c.Pos(x.Pos()), "nested message is "+tag+" / nil-guarded before being handed to a function that dereferences it", n.Obj().Name()+"."+fname+" is "+tag+" (may be absent) but is passed unguarded to "+eng.FuncName(callee)+", which dereferences its parameter without a nil test: a message without that field crashes the parser")
					}
				}
			}
		}
	}
}

// codec pairs: Go struct, encoder, decoder, hash function (optional), exclusions.
type codecPair struct {
	goType   string
	encoders []string
	decoders []string
	hash     string
	exclude  map[string]string
}

var codecPairs = []codecPair{
	{"Transaction", []string{"transactionToPb"}, []string{"pbToTransaction"}, "(*Transaction).GenHash",
		map[string]string{"SocketRequestId": "per-connection routing tag set by the gateway layer; decoded when present but deliberately not relayed (F10: judged outside content)"}},
	{"BlockHeader", []string{"BlockHeaderToPb"}, []string{"PbToBlockHeader"}, "(*BlockHeader).GenHash", map[string]string{}},
	{"GroupHeader", []string{"GroupToPbHeader"}, []string{"PbToGroupHeader"}, "(*GroupHeader).GenHash", map[string]string{
		"ReadyHeight":   "derived locally (never assigned outside genesis JSON); not hashed",
		"WorkHeight":    "derived from CreateHeight when the group is added (core.(*groupChain).AddGroup); not hashed",
		"DismissHeight": "derived from CreateHeight when the group is added (core.(*groupChain).AddGroup); not hashed"}},
	{"Group", []string{"GroupToPb"}, []string{"PbToGroup"}, "", map[string]string{}},
	{"Member", []string{"memberToPb"}, []string{"pbToMember"}, "", map[string]string{}},
	{"Block", []string{"BlockToPb"}, []string{"PbToBlock"}, "", map[string]string{}},
}

func fieldsTouched(fn *ssa.Function, goType string, wantStore bool) map[string]bool {
	out := map[string]bool{}
	full := typesPkg + "." + goType
	for _, b := range fn.Blocks {
		for _, in := range b.Instrs {
			fa, ok := in.(*ssa.FieldAddr)
			if !ok {
				continue
			}
			t, f := eng.FieldOf(fa)
			if t != full {
				continue
			}
			stored, loaded := false, false
			for _, ref := range *fa.Referrers() {
				switch x := ref.(type) {
				case *ssa.Store:
					if x.Addr == ssa.Value(fa) {
						stored = true
					} else {
						loaded = true // &field stored elsewhere (pb pointer field) counts as read
					}
				case *ssa.UnOp:
					loaded = true
				case *ssa.Call, *ssa.MakeInterface:
					// &field handed to a function (json.Unmarshal(b, &h.F)): written by the callee
					stored = true
					loaded = true
				default:
					loaded = true
				}
			}
			if (wantStore && stored) || (!wantStore && loaded) {
				out[f] = true
			}
		}
	}
	return out
}

func c09Coverage(c *eng.Ctx, r *eng.Report) {
	const rule = "R9.2"
	r.Min(rule, 40)
	for _, cp := range codecPairs {
		st := c.Struct(typesPkg, cp.goType)
		if !r.Anchor(st != nil, rule, cp.goType) {
			continue
		}
		enc, dec := map[string]bool{}, map[string]bool{}
		okFns := true
		for _, n := range cp.encoders {
			fn := c.Func(typesPkg, n)
			if !r.Anchor(fn != nil, rule, n) {
				okFns = false
				continue
			}
			for f := range fieldsTouched(fn, cp.goType, false) {
				enc[f] = true
			}
		}
		for _, n := range cp.decoders {
			fn := c.Func(typesPkg, n)
			if !r.Anchor(fn != nil, rule, n) {
				okFns = false
				continue
			}
			for f := range fieldsTouched(fn, cp.goType, true) {
				dec[f] = true
			}
		}
		if !okFns {
			continue
		}
		hashed := map[string]bool{}
		if cp.hash != "" {
			if hf := c.Func(typesPkg, cp.hash); hf != nil {
				hashed = fieldsTouched(hf, cp.goType, false)
				// BlockHeader/GroupHeader hash their JSON form: every exported field is covered
				for _, s := range eng.Sites(hf) {
					if s.Name() == "encoding/json.Marshal" {
						for i := 0; i < st.NumFields(); i++ {
							if st.Field(i).Exported() && !strings.Contains(st.Tag(i), `json:"-"`) {
								hashed[st.Field(i).Name()] = true
							}
						}
					}
				}
			}
		}
		for i := 0; i < st.NumFields(); i++ {
			f := st.Field(i).Name()
			key := "field:" + cp.goType + "." + f
			if why, ex := cp.exclude[f]; ex {
				if hashed[f] {
					r.Fail(rule, key, c.Pos(st.Field(i).Pos()), "field is excluded from the codec ("+why+") but is covered by the identifying hash: the hash changes on a round trip")
				} else {
					r.Info(rule, key, c.Pos(st.Field(i).Pos()), "excluded: "+why)
				}
				continue
			}
			var miss []string
			if !enc[f] {
				miss = append(miss, "not read by the encoder "+strings.Join(cp.encoders, "/"))
			}
			if !dec[f] {
				miss = append(miss, "not written by the decoder "+strings.Join(cp.decoders, "/"))
			}
			note := "carried by encoder and decoder"
			if hashed[f] {
				note += "; covered by the identifying hash"
			}
			r.Check(len(miss) == 0, rule, key, c.Pos(st.Field(i).Pos()), note, "field "+cp.goType+"."+f+" is "+strings.Join(miss, " and ")+": the object does not survive a serialise/parse round trip"+map[bool]string{true: " and its hash changes", false: ""}[hashed[f]])
		}
	}
	// *big.Int fields: reconstructed under a presence (nil) test
	dec := c.Func(typesPkg, "PbToBlockHeader")
	if dec != nil {
		for _, b := range dec.Blocks {
			for _, in := range b.Instrs {
				call, ok := in.(*ssa.Call)
				if !ok || eng.CallName(&call.Call) != "(*math/big.Int).SetBytes" {
					continue
				}
				src := eng.Desc(call.Call.Args[1])
				okNil := false
				how := "unconditionally"
				for _, cd := range eng.CondsAt(call) {
					m, isM := cd.Cmp()
					if !isM {
						continue
					}
					if eng.Desc(m.X) == src && eng.IsNilConst(m.Y) && m.Op == token.NEQ {
						okNil = true
					}
					if strings.Contains(eng.Desc(m.X), "builtin:len(") && strings.Contains(eng.Desc(m.X), src) {
						how = "under a length test"
					}
				}
				r.Check(okNil, rule, "bigint-presence:"+src, c.Pos(call.Pos()), "big integer rebuilt whenever the bytes field is present (nil test), so zero survives", "big integer "+src+" is rebuilt "+how+" instead of under `!= nil`: a value of zero (empty but present bytes) comes back as nil, and the header's JSON-based hash changes")
			}
		}
	}
}

// codecCone: the codec functions of codecPairs and the helpers of the same package they call.
func codecCone(c *eng.Ctx) []*ssa.Function {
	var entries []*ssa.Function
	for _, cp := range codecPairs {
		for _, n := range append(append([]string{}, cp.encoders...), cp.decoders...) {
			if fn := c.Func(typesPkg, n); fn != nil {
				entries = append(entries, fn)
			}
		}
	}
	for _, n := range []string{"MarshalTransaction", "UnMarshalTransaction", "MarshalBlock", "UnMarshalBlock", "MarshalBlockHeader", "UnMarshalBlockHeader", "MarshalGroup", "UnMarshalGroup", "PbToTransactions", "TransactionsToPb", "MarshalTransactions", "UnMarshalTransactions"} {
		if fn := c.Func(typesPkg, n); fn != nil {
			entries = append(entries, fn)
		}
	}
	in := func(fn *ssa.Function) bool { return strings.HasSuffix(eng.FuncPkgPath(fn), "/"+typesPkg) }
	cone := c.ConeOf(entries, in)
	var out []*ssa.Function
	for _, fn := range cone.Sorted() {
		if in(fn) && fn.Blocks != nil {
			out = append(out, fn)
		}
	}
	return out
}

// codecCallees: what a codec function may call. Everything here hands the
// value on unchanged (conversion between equivalent representations) or does
// not touch it at all; anything else is an unreviewed transformation.
var codecCallees = map[string]string{
	"(*math/big.Int).Bytes":                    "big-endian magnitude",
	"(*math/big.Int).SetBytes":                 "inverse of Bytes",
	"(*time.Time).UnmarshalBinary":             "inverse of MarshalBinary (instant and zone offset)",
	"(time.Time).MarshalBinary":                "instant and zone offset",
	"(common.Hash).Bytes":                      "copy of the 32 bytes",
	"(common.Sign).Bytes":                      "r||s||v",
	"common.BytesToHash":                       "inverse of Hash.Bytes",
	"common.BytesToSign":                       "inverse of Sign.Bytes",
	"encoding/json.Marshal":                    "RequestIds map",
	"encoding/json.Unmarshal":                  "RequestIds map",
	"github.com/gogo/protobuf/proto.Marshal":   "wire encoding",
	"github.com/gogo/protobuf/proto.Unmarshal": "wire decoding",
	"fmt.Printf":                               "diagnostics",
	"iface:error.Error":                        "diagnostics",
	"iface:middleware/log.Logger.Errorf":       "diagnostics",
	"iface:middleware/log.Logger.Debugf":       "diagnostics",
	"iface:middleware/log.Logger.Warnf":        "diagnostics",
	"builtin:append":                           "", "builtin:len": "", "builtin:cap": "", "builtin:copy": "", "builtin:make": "", "builtin:new": "",
}

// c09Verbatim: values cross the codec unchanged.
func c09Verbatim(c *eng.Ctx, r *eng.Report) {
	const rule = "R9.4"
	r.Min(rule, 12)
	cone := codecCone(c)
	inCone := map[*ssa.Function]bool{}
	for _, fn := range cone {
		inCone[fn] = true
	}
	for _, fn := range cone {
		bad := 0
		for _, s := range eng.Sites(fn) {
			n := s.Name()
			if _, ok := codecCallees[n]; ok {
				continue
			}
			if st := s.Static(); st != nil && inCone[st] {
				continue
			}
			if strings.HasPrefix(n, "(*middleware/pb.") && strings.Contains(n, ").Get") {
				continue // generated nil-safe getter
			}
			bad++
			r.Fail(rule, fmt.Sprintf("transform:%s→%s", eng.FuncName(fn), n), c.Pos(s.Pos()), "codec function "+eng.FuncName(fn)+" calls "+n+", which is not one of the reviewed value-preserving conversions: the decoded (or encoded) content may differ from what was encoded (e.g. a time moved to another zone, a number re-scaled, bytes trimmed), and with it the content hash")
		}
		// no output element may alias storage that the next loop iteration overwrites
		for _, b := range fn.Blocks {
			for _, in := range b.Instrs {
				sl, ok := in.(*ssa.Slice)
				if !ok {
					continue
				}
				al, ok := sl.X.(*ssa.Alloc)
				if !ok || al.Block() == b {
					continue
				}
				if !cycleAvoiding(b, al.Block()) {
					continue // not in a loop, or the variable is per-iteration
				}
				rewritten := false
				for _, ref := range *al.Referrers() {
					if st, isSt := ref.(*ssa.Store); isSt && st.Addr == ssa.Value(al) && cycleAvoiding(st.Block(), al.Block()) {
						rewritten = true
					}
				}
				escapes := false
				for _, ref := range *sl.Referrers() {
					switch x := ref.(type) {
					case *ssa.Store:
						escapes = escapes || x.Val == ssa.Value(sl)
					case *ssa.MapUpdate:
						escapes = escapes || x.Value == ssa.Value(sl)
					case *ssa.MakeInterface:
						escapes = true
					}
				}
				if rewritten && escapes {
					bad++
					r.Fail(rule, fmt.Sprintf("alias:%s:%s", eng.FuncName(fn), al.Comment), c.Pos(sl.Pos()), "a slice of the loop variable `"+al.Comment+"` (one variable for the whole loop under this module's `go 1.13` semantics) is kept in the output of "+eng.FuncName(fn)+": every element ends up showing the last iteration's bytes, so a list with two or more distinct entries does not survive encoding")
				}
			}
		}
		if bad == 0 {
			r.Pass(rule, "verbatim:"+eng.FuncName(fn), c.Pos(fn.Pos()), "calls only reviewed value-preserving conversions, generated getters and sibling codec functions; keeps no slice of a reused loop variable")
		}
	}
}

// cycleAvoiding: b lies on a CFG cycle that does not pass through avoid.
// c09FloatFree: 64-bit integers (request ids, nonces, heights) do not survive a
// detour through float64 — generic JSON decoding into interface{} yields
// float64 for every number.
func c09FloatFree(c *eng.Ctx, r *eng.Report) {
	const rule = "R9.4"
	bad := ""
	n := 0
	for _, fn := range codecCone(c) {
		if fn.Blocks == nil {
			continue
		}
		n++
		if hf, pos := eng.HasFloat(fn); hf && bad == "" {
			if !pos.IsValid() {
				pos = fn.Pos()
			}
			bad = eng.FuncName(fn) + " (" + c.Pos(pos) + ")"
		}
		for _, b := range fn.Blocks {
			for _, in := range b.Instrs {
				if ta, ok := in.(*ssa.TypeAssert); ok && bad == "" {
					if bt, isB := ta.AssertedType.Underlying().(*types.Basic); isB && bt.Info()&types.IsFloat != 0 {
						bad = eng.FuncName(fn) + " (" + c.Pos(ta.Pos()) + ")"
					}
				}
			}
		}
	}
	r.Check(bad == "" && n >= 10, rule, "codec:float-free", "", fmt.Sprintf("no floating-point value in the %d codec functions", n), "a floating-point value appears in codec function "+bad+": an integer field that crosses the codec as float64 (JSON decoded into interface{}) is rounded above 2^53, so the parsed object differs from the serialised one and its hash no longer matches")
}

func cycleAvoiding(b, avoid *ssa.BasicBlock) bool {
	seen := map[*ssa.BasicBlock]bool{}
	var walk func(x *ssa.BasicBlock) bool
	walk = func(x *ssa.BasicBlock) bool {
		for _, s := range x.Succs {
			if s == avoid {
				continue
			}
			if s == b {
				return true
			}
			if !seen[s] {
				seen[s] = true
				if walk(s) {
					return true
				}
			}
		}
		return false
	}
	return walk(b)
}

func c09Errors(c *eng.Ctx, r *eng.Report) {
	const rule = "R9.3"
	for _, n := range []string{"PbToBlockHeader", "PbToGroupHeader", "BlockHeaderToPb", "GroupToPbHeader", "pbToTransaction", "transactionToPb"} {
		fn := c.Func(typesPkg, n)
		if fn == nil {
			continue
		}
		for _, s := range eng.Sites(fn) {
			nm := s.Name()
			if !(strings.HasSuffix(nm, ".UnmarshalBinary") || strings.HasSuffix(nm, ".MarshalBinary") || nm == "encoding/json.Unmarshal" || nm == "encoding/json.Marshal") {
				continue
			}
			call, ok := s.Instr.(*ssa.Call)
			if !ok {
				continue
			}
			used := false
			for _, ref := range *call.Referrers() {
				switch x := ref.(type) {
				case *ssa.Extract:
					if x.Index == call.Call.Signature().Results().Len()-1 && len(*x.Referrers()) > 0 {
						used = true
					}
				case *ssa.DebugRef:
				default:
					if call.Call.Signature().Results().Len() == 1 {
						used = true
					}
				}
			}
			key := "err:" + nm + "@" + n
			if used {
				r.Pass(rule, key, c.Pos(call.Pos()), "error consumed")
			} else {
				r.Info(rule, key, c.Pos(call.Pos()), "error of "+nm+" is discarded (observation: the decoded value keeps its zero value; does not crash)")
			}
		}
	}
	var _ = sort.Strings
}

// c09GoNil: R9.1 covers pointers that come out of the protobuf message; this
// covers the ones the converters themselves produce. PbToBlockHeader(nil)
// returns nil, PbToBlock stores that in Block.Header, and a parser that goes on
// to look inside the header it just built crashes on a block without one.
func c09GoNil(c *eng.Ctx, r *eng.Report) {
	const rule = "R9.5"
	isParser := func(fn *ssa.Function) bool {
		n := fn.Name()
		return strings.HasPrefix(n, "UnMarshal") || strings.HasPrefix(n, "PbTo") || strings.HasPrefix(n, "pbTo")
	}
	nilable := map[*ssa.Function]bool{}
	// onlyForNilArg[fn] = i: every nil return of fn sits on the `param i == nil` edge
	onlyForNilArg := map[*ssa.Function]int{}
	for _, fn := range c.PkgFuncs(typesPkg) {
		if c.IsTestFunc(fn) || !isParser(fn) || fn.Signature.Results().Len() == 0 {
			continue
		}
		if _, isPtr := fn.Signature.Results().At(0).Type().Underlying().(*types.Pointer); !isPtr {
			continue
		}
		for _, re := range eng.Returns(fn) {
			if eng.IsNilConst(re.Incoming(0)) {
				// a nil result that comes with a non-nil error is the caller's to check through the error
				if fn.Signature.Results().Len() > 1 {
					continue
				}
				nilable[fn] = true
				idx := -1
				blk := re.Ret.Block()
				if re.Pred != nil {
					blk = re.Pred
				}
				for _, cd := range eng.EdgeConds(blk) {
					if m, ok := cd.Cmp(); ok && m.Op == token.EQL {
						for i, prm := range fn.Params {
							if (m.X == ssa.Value(prm) && eng.IsNilConst(m.Y)) || (m.Y == ssa.Value(prm) && eng.IsNilConst(m.X)) {
								idx = i
							}
						}
					}
				}
				if prev, had := onlyForNilArg[fn]; had && prev != idx {
					idx = -1
				}
				onlyForNilArg[fn] = idx
			}
		}
	}
	// helpers of other module packages the parsers call (common.BytesToSign returns nil for a wrong length)
	helperNil := map[*ssa.Function]int{} // 0 unknown, 1 may return nil, 2 never
	mayReturnNil := func(f *ssa.Function) bool {
		if nilable[f] {
			return true
		}
		if helperNil[f] != 0 {
			return helperNil[f] == 1
		}
		helperNil[f] = 2
		if !eng.InMod(f) || f.Blocks == nil || f.Signature.Results().Len() != 1 {
			return false
		}
		if _, isPtr := f.Signature.Results().At(0).Type().Underlying().(*types.Pointer); !isPtr {
			return false
		}
		for _, re := range eng.Returns(f) {
			if eng.IsNilConst(re.Incoming(0)) {
				helperNil[f] = 1
				// nil only for a nil argument?
				idx := -1
				blk := re.Ret.Block()
				if re.Pred != nil {
					blk = re.Pred
				}
				for _, cd := range eng.EdgeConds(blk) {
					if m, ok := cd.Cmp(); ok && m.Op == token.EQL {
						for i, prm := range f.Params {
							if (m.X == ssa.Value(prm) && eng.IsNilConst(m.Y)) || (m.Y == ssa.Value(prm) && eng.IsNilConst(m.X)) {
								idx = i
							}
						}
					}
				}
				if prev, had := onlyForNilArg[f]; had && prev != idx {
					idx = -1
				}
				onlyForNilArg[f] = idx
			}
		}
		return helperNil[f] == 1
	}
	fromNilable := func(v ssa.Value) bool {
		call, ok := v.(*ssa.Call)
		if !ok || call.Call.StaticCallee() == nil || !mayReturnNil(call.Call.StaticCallee()) {
			return false
		}
		// nil only for a nil argument, and the argument is the address of a local: cannot be nil here
		if i := onlyForNilArg[call.Call.StaticCallee()]; i >= 0 && i < len(call.Call.Args) {
			if _, isAlloc := call.Call.Args[i].(*ssa.Alloc); isAlloc {
				return false
			}
		}
		return true
	}
	nilField := map[string]bool{}
	for _, fn := range c.PkgFuncs(typesPkg) {
		if c.IsTestFunc(fn) {
			continue
		}
		for _, b := range fn.Blocks {
			for _, in := range b.Instrs {
				if st, ok := in.(*ssa.Store); ok && fromNilable(st.Val) {
					if t, f := eng.FieldOf(st.Addr); t != "" {
						nilField[t+"."+f] = true
					}
				}
			}
		}
	}
	guarded := func(at ssa.Instruction, ptr ssa.Value) bool {
		want := eng.Desc(ptr)
		for _, cd := range eng.CondsAt(at) {
			m, ok := cd.Cmp()
			if !ok || m.Op != token.NEQ {
				continue
			}
			if eng.IsNilConst(m.Y) && (m.X == ptr || eng.Desc(m.X) == want) || eng.IsNilConst(m.X) && (m.Y == ptr || eng.Desc(m.Y) == want) {
				return true
			}
		}
		return false
	}
	n := 0
	seen := map[string]bool{}
	for _, fn := range c.PkgFuncs(typesPkg) {
		if c.IsTestFunc(fn) || !isParser(fn) {
			continue
		}
		for _, b := range fn.Blocks {
			for _, in := range b.Instrs {
				var base ssa.Value
				switch x := in.(type) {
				case *ssa.FieldAddr:
					base = x.X
				case *ssa.UnOp:
					// *p of a struct pointer: the implicit dereference of a value-receiver method call, or a copy
					if x.Op == token.MUL {
						if _, isCall := x.X.(*ssa.Call); isCall {
							base = x.X
						}
					}
				}
				if base == nil {
					continue
				}
				fa := &struct {
					X   ssa.Value
					pos token.Pos
				}{base, in.Pos()}
				if !fa.pos.IsValid() {
					fa.pos = base.Pos()
				}
				what := ""
				if fromNilable(fa.X) {
					what = "the result of " + eng.FuncName(fa.X.(*ssa.Call).Call.StaticCallee())
				} else if ld, isL := fa.X.(*ssa.UnOp); isL && ld.Op == token.MUL {
					if t, f := eng.FieldOf(ld.X); t != "" && nilField[t+"."+f] {
						what = "field " + t + "." + f + " (filled from a converter that returns nil for an absent message)"
					}
				}
				if what == "" {
					continue
				}
				key := "go-nil:" + eng.FuncName(fn) + ":" + eng.Desc(fa.X)
				if seen[key] {
					continue
				}
				seen[key] = true
				n++
				r.Check(guarded(in, fa.X), rule, key, c.Pos(fa.pos), "dereferenced under a nil test", eng.FuncName(fn)+" looks inside "+what+" without a nil test: bytes that omit (or garble) that part make the converter return nil and the parser dies with a nil-pointer panic instead of returning an object or an error")
			}
		}
	}
	r.Extra["nilable_converters"] = len(nilable)
	r.Check(len(nilable) >= 1 && len(nilField) >= 1, rule, "go-nil:sources", "", fmt.Sprintf("%d converters may return nil, %d struct fields are filled from them, %d dereferences inside parsers", len(nilable), len(nilField), n), "no converter with a nil return / no field filled from one was found (PbToBlockHeader → Block.Header expected): the rule has lost sight of the parsers")
}

// c09RequiredSet: proto2 required fields.
func c09RequiredSet(c *eng.Ctx, r *eng.Report) {
	const rule = "R9.6"
	r.Min(rule, 3)
	n := 0
	for _, fn := range c.PkgFuncs(typesPkg) {
		if c.IsTestFunc(fn) || fn.Blocks == nil {
			continue
		}
		// encoders: functions that build a pb struct (an Alloc of pb struct type whose fields they store)
		for _, b := range fn.Blocks {
			for _, in := range b.Instrs {
				al, ok := in.(*ssa.Alloc)
				if !ok {
					continue
				}
				named, st := isPbStruct(al.Type())
				if named == nil {
					continue
				}
				stores := map[int][]ssa.Instruction{}
				for _, ref := range *al.Referrers() {
					fa, isFA := ref.(*ssa.FieldAddr)
					if !isFA {
						continue
					}
					for _, r2 := range *fa.Referrers() {
						if s2, isS := r2.(*ssa.Store); isS && s2.Addr == ssa.Value(fa) && !eng.IsNilConst(s2.Val) {
							stores[fa.Field] = append(stores[fa.Field], s2)
						}
					}
				}
				if len(stores) == 0 {
					continue // a zero message (decode target), not an encoder
				}
				for i := 0; i < st.NumFields(); i++ {
					if pbFieldTag(st, i) != "req" {
						continue
					}
					n++
					key := fmt.Sprintf("required:%s.%s@%s", named.Obj().Name(), st.Field(i).Name(), eng.FuncName(fn))
					ok := len(stores[i]) > 0
					if ok {
						for _, re := range eng.Returns(fn) {
							if !eng.MustPassBefore(fn, re.Ret, stores[i]) {
								// only returns after the message was created matter
								if eng.Reaches(al, re.Ret) {
									ok = false
								}
							}
						}
					}
					r.Check(ok, rule, key, c.Pos(al.Pos()), "set on every path", eng.FuncName(fn)+" does not set the required protobuf field "+named.Obj().Name()+"."+st.Field(i).Name()+" on every path: proto.Marshal then fails (`required field not set`) for that object and for any block carrying it, and callers that drop the error keep partial bytes the parser rejects")
				}
			}
		}
	}
	if n < 3 {
		r.Fail(rule, "required:sites", "", fmt.Sprintf("only %d required fields found in encoder-built messages", n))
	}
}

// c09MakeLenAppend: make(len) + append.
func c09MakeLenAppend(c *eng.Ctx, r *eng.Report) {
	const rule = "R9.7"
	r.Min(rule, 1)
	n, bad := 0, 0
	var root func(v ssa.Value, d int) *ssa.MakeSlice
	root = func(v ssa.Value, d int) *ssa.MakeSlice {
		if d > 5 {
			return nil
		}
		switch x := v.(type) {
		case *ssa.MakeSlice:
			return x
		case *ssa.Phi:
			for _, e := range x.Edges {
				if m := root(e, d+1); m != nil {
					return m
				}
			}
		}
		return nil
	}
	for _, fn := range codecCone(c) {
		if fn.Blocks == nil {
			continue
		}
		for _, s := range eng.Sites(fn) {
			if s.Name() != "builtin:append" {
				continue
			}
			n++
			ms := root(s.Common().Args[0], 0)
			if ms == nil {
				continue
			}
			if k, isK := eng.ConstInt(ms.Len); isK && k == 0 {
				continue
			}
			bad++
			r.Fail(rule, fmt.Sprintf("make-len-append:%s", eng.FuncName(fn)), c.Pos(s.Pos()), eng.FuncName(fn)+" appends to a slice it made with length "+eng.Desc(ms.Len)+": the decoded list comes out with that many zero values in front of the real entries — content and recomputed hash change across the codec")
		}
	}
	if bad == 0 {
		r.Pass(rule, "make-len-append:none", "", fmt.Sprintf("%d appends in codec functions, none to a slice made with a non-zero length", n))
	}
}

// c09ElementStorage: see R9.8.
func c09ElementStorage(c *eng.Ctx, r *eng.Report) {
	const rule = "R9.8"
	r.Min(rule, 1)
	n, bad := 0, 0
	for _, fn := range codecCone(c) {
		if fn.Blocks == nil {
			continue
		}
		for _, s := range eng.Sites(fn) {
			if s.Name() != "builtin:append" || len(s.Common().Args) < 2 {
				continue
			}
			n++
			// the appended values: a varargs slice built from an array alloc
			sl, ok := s.Common().Args[1].(*ssa.Slice)
			if !ok {
				continue
			}
			arr, ok := sl.X.(*ssa.Alloc)
			if !ok {
				continue
			}
			for _, ref := range *arr.Referrers() {
				ia, isIA := ref.(*ssa.IndexAddr)
				if !isIA {
					continue
				}
				for _, r2 := range *ia.Referrers() {
					st, isSt := r2.(*ssa.Store)
					if !isSt {
						continue
					}
					cell, isCell := st.Val.(*ssa.IndexAddr)
					if !isCell {
						continue
					}
					mk, isMk := cell.X.(*ssa.MakeSlice)
					if !isMk {
						if phi, isPhi := cell.X.(*ssa.Phi); isPhi {
							for _, e := range phi.Edges {
								if m2, ok2 := e.(*ssa.MakeSlice); ok2 {
									mk, isMk = m2, true
								}
							}
						}
					}
					if !isMk {
						continue
					}
					if d := eng.Desc(mk.Len); strings.HasPrefix(d, "builtin:len(") {
						continue // one cell per input entry
					}
					bad++
					r.Fail(rule, "element-storage:"+eng.FuncName(fn), c.Pos(s.Pos()), eng.FuncName(fn)+" hands out the address of an element of a slice of "+eng.Desc(mk.Len)+" cells, not one cell per input entry: when the cells are reused the pointers already in the result alias later entries — a list longer than the block comes back with earlier entries replaced by later ones (different hashes and nonces, body no longer matching the header)")
				}
			}
		}
	}
	if bad == 0 {
		r.Pass(rule, "element-storage:none", "", fmt.Sprintf("%d appends in codec functions, no address of a recycled cell handed out", n))
	}
}

var fieldRefRe = regexp.MustCompile(`\b([A-Za-z_][A-Za-z0-9_]*)\.([A-Z][A-Za-z0-9_]*)`)

func srcFieldsOf(param string, v ssa.Value) map[string]bool {
	out := map[string]bool{}
	for _, m := range fieldRefRe.FindAllStringSubmatch(eng.Desc(v), -1) {
		if m[1] == param {
			out[m[2]] = true
		}
	}
	return out
}

// c09FieldOwnCondition: see R9.9.
func c09FieldOwnCondition(c *eng.Ctx, r *eng.Report) {
	const rule = "R9.9"
	r.Min(rule, 3)
	for _, cp := range codecPairs {
		for _, name := range cp.encoders {
			fn := c.Func(typesPkg, name)
			if fn == nil || fn.Blocks == nil || len(fn.Params) == 0 {
				continue
			}
			param := fn.Params[0].Name()
			n, bad := 0, ""
			reachable := func(from, to *ssa.BasicBlock) bool {
				seen := map[*ssa.BasicBlock]bool{}
				var walk func(b *ssa.BasicBlock) bool
				walk = func(b *ssa.BasicBlock) bool {
					if b == to {
						return true
					}
					if seen[b] {
						return false
					}
					seen[b] = true
					for _, x := range b.Succs {
						if walk(x) {
							return true
						}
					}
					return false
				}
				return walk(from)
			}
			var target *ssa.BasicBlock // the block of the field store under examination
			check := func(v ssa.Value, blk *ssa.BasicBlock, pbField string) {
				own := srcFieldsOf(param, v)
				if len(own) == 0 {
					return
				}
				for _, cd := range eng.EdgeConds(blk) {
					// a guard whose other outcome abandons the whole record (`if err != nil { return nil }`) is not a
					// per-field condition: the store is unreachable from that outcome
					other := cd.If.Block().Succs[0]
					if cd.True {
						other = cd.If.Block().Succs[1]
					}
					if target != nil && !reachable(other, target) {
						continue
					}
					// the exit test of a loop that stands before the store (`for _, x := range h.F { … }`) is not a
					// guard either: the other outcome is the loop body, which comes back to the same test
					if reachable(other, cd.If.Block()) {
						continue
					}
					for f := range srcFieldsOf(param, cd.V) {
						if !own[f] {
							bad = fmt.Sprintf("%s (from %s) is written under a condition on %s.%s", pbField, eng.Desc(v), param, f)
						}
					}
				}
			}
			for _, b := range fn.Blocks {
				for _, in := range b.Instrs {
					st, ok := in.(*ssa.Store)
					if !ok {
						continue
					}
					t, f := eng.FieldOf(st.Addr)
					if f == "" || !strings.Contains(t, "middleware_pb") && !strings.Contains(t, "pb.") {
						continue
					}
					n++
					target = b
					check(st.Val, b, f)
					if phi, isPhi := st.Val.(*ssa.Phi); isPhi {
						for i, e := range phi.Edges {
							if eng.IsNilConst(e) {
								continue
							}
							pred := phi.Block().Preds[i]
							// the edge itself: pred ends in an If whose outcome selects this edge
							check(e, pred, f)
							if iff, isIf := pred.Instrs[len(pred.Instrs)-1].(*ssa.If); isIf {
								own := srcFieldsOf(param, e)
								for fld := range srcFieldsOf(param, iff.Cond) {
									if len(own) > 0 && !own[fld] {
										bad = fmt.Sprintf("%s (from %s) is written under a condition on %s.%s", f, eng.Desc(e), param, fld)
									}
								}
							}
						}
					}
				}
			}
			if n == 0 {
				continue
			}
			r.Check(bad == "", rule, "own-condition:"+name, c.Pos(fn.Pos()), fmt.Sprintf("%d protobuf field stores, each conditioned only on its own source field", n), name+": "+bad+", a different field of the same record: a record that has the one without the other loses it on the wire — the decoded value differs from what was encoded, its content hash changes, and a re-serialised block body no longer matches the hashes listed in its own header")
		}
	}
}

// c09HashNoTimeString: see R9.10.
func c09HashNoTimeString(c *eng.Ctx, r *eng.Report) {
	const rule = "R9.10"
	r.Min(rule, 2)
	n := 0
	for _, fn := range c.PkgFuncs(typesPkg) {
		if fn.Name() != "GenHash" && fn.Name() != "GenHashes" {
			continue
		}
		n++
		bad := ""
		for _, s := range eng.Sites(fn) {
			switch s.Name() {
			case "(time.Time).String", "(time.Time).Format", "(time.Time).GoString", "(time.Time).Local", "(time.Time).Location", "(time.Time).Zone":
				bad = s.Name() + " at " + c.Pos(s.Pos())
			}
		}
		r.Check(bad == "", rule, "hash-time:"+eng.FuncName(fn), c.Pos(fn.Pos()), "no zone- or clock-dependent rendering of a time in the hashed bytes", eng.FuncName(fn)+" feeds "+bad+" into the content hash: the text includes the zone name and, for a fresh time.Now(), the monotonic clock reading, neither of which the wire form (MarshalBinary/UnmarshalBinary) carries — after MarshalGroup/UnMarshalGroup the record has the same instant and the same stored Hash but a different GenHash(), and the `Hash != GenHash()` check of the receivers rejects an honest group")
	}
	if n == 0 {
		r.Fail(rule, "hash-time:none", "", "no GenHash function found in middleware/types: the rule has lost its anchor")
	}
}
