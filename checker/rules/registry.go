// Package rules holds the per-property rule sets (DESIGN.md §3).
package rules

import "verif/checker/eng"

// Registry maps a property id to its rule set.
var Registry = map[string]func(*eng.Ctx, *eng.Report){}

func register(id string, f func(*eng.Ctx, *eng.Report)) { Registry[id] = f }
