package rules

import (
	"fmt"
	"go/token"
	"os"
	"sort"
	"strings"

	"golang.org/x/tools/go/ssa"

	"verif/checker/eng"
)

func init() { register("C07", c07) }

func c07(c *eng.Ctx, r *eng.Report) {
	r.Explain = "Completeness of the admission pipeline decided on the SSA of service/transaction_pool.go, eth_tx, common and the admission call sites: " +
		"R7.1 VerifyTransaction returns nil only through verifyETHTx (wrapped Ethereum tx) or after chain-id, hash and signature verification each returned nil; " +
		"R7.2 the signature step returns nil only after key recovery succeeded, PublicKey.Verify accepted (and Verify is implemented by the secp256k1 verification primitive, not by re-deriving the key from the same signature) and the declared source equals the recovered address; the hash step compares with GenHash(), the chain-id step with common.ChainId(height); " +
		"R7.3 for wrapped Ethereum transactions the sender is recovered with an EIP-155 signer built from this chain's id at the given height, the decoded payload is the one converted, every field ConvertTx fills is compared by compareTx, and nil is returned only when the comparison holds; " +
		"R7.4 every Transaction field read during execution is bound by GenHash or listed in the reviewed exclusion table; " +
		"R7.5 every call of TransactionPool.AddTransaction is dominated by a successful VerifyTransaction of the same transaction (one-level inlining through sendTransaction). " +
		"R7.10 an honest wrapped signature is rebuilt as it was made: recoverPlain right-aligns R and S each in its own 32-byte half (two copies to sig[W−len(b):W] from big.Int.Bytes) — padding their concatenation shifts R by a byte whenever S has a leading zero (1 signature in 128), another key is recovered and the honest transaction is rejected; " +
		"R7.11 a native transaction is admitted only for the chain id in force at its height: every nil return of verifyTxChainId lies behind tx.ChainId == common.ChainId(height) — a second accepted id (the pre-fork one, at any height) lets a transaction signed for the old chain pass on the new one; " +
		"R7.9 a protected payload has one signature: EIP155Signer.Sender passes recoverPlain the constant true as its homestead flag, so S > N/2 is rejected — without it the twin (S → N−S, V parity flipped) of every accepted wrapped transaction is accepted too; " +
		"R7.8 a protected payload is recovered only for this chain: in EIP155Signer.Sender the call that recovers the sender is reached only across the edge on which the chain id derived from V compared equal (big.Int.Cmp == 0) to the signer's — a test on the remainder of V after subtracting the chain id (its bit length, say) ignores the sign, and V = 2·chainId − 19 then recovers the honest sender from the same r, s: a second accepted transaction nobody signed; " +
		"R7.7 a signature has one accepted encoding: the signature check does not rewrite the recovery byte it is given (secp256k1.checkSignature maps 27..30 onto 0..3 in place, so v and v+27 are both accepted — finding F27, recorded; any further alias is reported separately); " +
		"R7.6 whether a transaction is authentic is a function of the transaction and the height: no cache, package-variable store or unreviewed shared object in the cone of VerifyTransaction and its steps (scratch pools that are Reset() by their taker and the type-keyed RLP codec table excepted). " +
		"Not decided: ECDSA soundness, bit-flip rejection, acceptance of every honestly signed transaction."
	r.Assume = []string{"secp256k1.VerifySignature / RecoverPubkey implement ECDSA over secp256k1 (libsecp256k1 via cgo)", "EIP-155 signer code in eth_tx is the upstream implementation"}
	c07Pipeline(c, r)
	c07Steps(c, r)
	c07Eth(c, r)
	c07HashBinds(c, r)
	c07Admission(c, r)
	c07Pure(c, r)
	c07OneSignatureEncoding(c, r)
	c07ChainIdBeforeRecover(c, r)
	c07SignatureHalvesAligned(c, r)
	c07ChainIdOfThisHeight(c, r)
}

// nilEdgesAt lists the call results known to be nil at instruction in (err == nil edges).
func nilEdgesAt(in ssa.Instruction) map[ssa.Value]bool {
	out := map[ssa.Value]bool{}
	for _, cd := range eng.CondsAt(in) {
		if m, ok := cd.Cmp(); ok && m.Op == token.EQL {
			if eng.IsNilConst(m.Y) {
				out[eng.ResolveLocal(m.X)] = true
				if ex, isE := m.X.(*ssa.Extract); isE {
					out[ex.Tuple] = true
				}
			} else if eng.IsNilConst(m.X) {
				out[eng.ResolveLocal(m.Y)] = true
				if ex, isE := m.Y.(*ssa.Extract); isE {
					out[ex.Tuple] = true
				}
			}
		}
	}
	return out
}

func c07Pipeline(c *eng.Ctx, r *eng.Report) {
	const rule = "R7.1"
	r.Min(rule, 1)
	fn := c.Func("service", "(*TxPool).VerifyTransaction")
	if !r.Anchor(fn != nil, rule, "(*TxPool).VerifyTransaction") {
		return
	}
	steps := map[string]*ssa.Call{}
	for _, n := range []string{"service.verifyTxChainId", "service.verifyTransactionHash", "service.verifyTransactionSign", "service.verifyETHTx"} {
		if cs := callsNamed(fn, n); len(cs) == 1 {
			steps[n] = cs[0]
		}
	}
	var bad []string
	if len(steps) != 4 {
		bad = append(bad, fmt.Sprintf("only %d of the 4 verification calls found", len(steps)))
	} else {
		for _, re := range eng.Returns(fn) {
			v := re.Incoming(0)
			if v == ssa.Value(steps["service.verifyETHTx"]) {
				// only for the wrapped type
				ok := false
				for _, cd := range eng.CondsAt(re.Ret) {
					if m, isM := cd.Cmp(); isM && m.Op == token.EQL && strings.HasSuffix(eng.Desc(m.X), ".Type") {
						ok = true
					}
				}
				if !ok {
					bad = append(bad, "verifyETHTx result is returned without the Type test")
				}
				continue
			}
			if !eng.IsNilConst(v) {
				continue // an error from one of the steps
			}
			nils := nilEdgesAt(re.Ret)
			for _, n := range []string{"service.verifyTxChainId", "service.verifyTransactionHash", "service.verifyTransactionSign"} {
				if !nils[ssa.Value(steps[n])] {
					bad = append(bad, "`return nil` is reachable without "+n+" having returned nil")
				}
			}
		}
	}
	r.Check(len(bad) == 0, rule, "(*service.TxPool).VerifyTransaction:pipeline", c.Pos(fn.Pos()), "nil is returned only via verifyETHTx (type 188) or after chain-id, hash and signature checks all passed", strings.Join(uniq(bad), "; "))
}

func c07Steps(c *eng.Ctx, r *eng.Report) {
	const rule = "R7.2"
	r.Min(rule, 4)
	// signature step
	fn := c.Func("service", "verifyTransactionSign")
	if r.Anchor(fn != nil, rule, "service.verifyTransactionSign") {
		rec := callsNamed(fn, "common.Sign).RecoverPubkey")
		ver := callsNamed(fn, "(common.PublicKey).Verify")
		var bad []string
		if len(rec) != 1 || len(ver) != 1 {
			bad = append(bad, fmt.Sprintf("RecoverPubkey calls=%d, PublicKey.Verify calls=%d", len(rec), len(ver)))
		} else {
			if !strings.HasSuffix(eng.Desc(rec[0].Call.Args[1]), "tx.Hash)") && !strings.Contains(eng.Desc(rec[0].Call.Args[1]), "tx.Hash") {
				bad = append(bad, "the key is not recovered over tx.Hash")
			}
			if ver[0].Call.Args[1] != rec[0].Call.Args[1] {
				bad = append(bad, "Verify and RecoverPubkey use different message bytes")
			}
			if !strings.HasSuffix(eng.Desc(ver[0].Call.Args[2]), "tx.Sign") {
				bad = append(bad, "Verify is not applied to tx.Sign")
			}
			for _, re := range eng.Returns(fn) {
				if !eng.IsNilConst(re.Incoming(0)) {
					continue
				}
				okRec, okVer, okSrc := false, false, false
				if nilEdgesAt(re.Ret)[ssa.Value(rec[0])] {
					okRec = true
				}
				for _, cd := range eng.CondsAt(re.Ret) {
					if cd.V == ssa.Value(ver[0]) && cd.True {
						okVer = true
					}
					if m, isM := cd.Cmp(); isM && m.Op == token.EQL {
						dx, dy := eng.Desc(m.X), eng.Desc(m.Y)
						if (strings.HasSuffix(dx, "tx.Source") && strings.Contains(dy, "GetAddress(") && strings.Contains(dy, "RecoverPubkey")) ||
							(strings.HasSuffix(dy, "tx.Source") && strings.Contains(dx, "GetAddress(") && strings.Contains(dx, "RecoverPubkey")) {
							okSrc = true
						}
					}
				}
				if !okRec {
					bad = append(bad, "nil returned without RecoverPubkey err == nil")
				}
				if !okVer {
					bad = append(bad, "nil returned without pk.Verify(hash, sign) == true")
				}
				if !okSrc {
					bad = append(bad, "nil returned without tx.Source == address of the recovered key")
				}
			}
		}
		r.Check(len(bad) == 0, rule, "service.verifyTransactionSign:accept-edge", c.Pos(fn.Pos()), "accepts only a recoverable, verifying signature whose key hashes to tx.Source", strings.Join(uniq(bad), "; "))
	}
	// PublicKey.Verify is the primitive, not a tautology
	pv := c.Func("common", "PublicKey.Verify")
	if r.Anchor(pv != nil, rule, "common.PublicKey.Verify") {
		prim := callsNamed(pv, "secp256k1.VerifySignature")
		ok := len(prim) == 1
		why := "PublicKey.Verify no longer calls secp256k1.VerifySignature"
		if ok {
			ok = false
			why = "PublicKey.Verify does not return the primitive's verdict"
			for _, re := range eng.Returns(pv) {
				if re.Incoming(0) == ssa.Value(prim[0]) {
					ok = true
				}
			}
			if ok && !strings.Contains(eng.Desc(prim[0].Call.Args[0]), "pk") {
				ok, why = false, "the key passed to VerifySignature is not the receiver's"
			}
			if len(callsNamed(pv, "RecoverPubkey")) > 0 || len(callsNamed(pv, "secp256k1.RecoverPubkey")) > 0 {
				ok, why = false, "PublicKey.Verify recovers a key from the signature: when the caller's key was itself recovered from that signature the check is a tautology"
			}
		}
		r.Check(ok, rule, "common.PublicKey.Verify:primitive", c.Pos(pv.Pos()), "Verify returns secp256k1.VerifySignature(pk, hash, sig[:64]) (rejects malleated high-S signatures)", why)
	}
	// hash step
	vh := c.Func("service", "verifyTransactionHash")
	if r.Anchor(vh != nil, rule, "service.verifyTransactionHash") {
		ok := false
		for _, re := range eng.Returns(vh) {
			if !eng.IsNilConst(re.Incoming(0)) {
				continue
			}
			for _, cd := range eng.CondsAt(re.Ret) {
				if m, isM := cd.Cmp(); isM && m.Op == token.EQL {
					dx, dy := eng.Desc(m.X), eng.Desc(m.Y)
					if (strings.HasSuffix(dx, "tx.Hash") && strings.Contains(dy, "GenHash(tx)")) || (strings.HasSuffix(dy, "tx.Hash") && strings.Contains(dx, "GenHash(tx)")) {
						ok = true
					}
				}
			}
		}
		r.Check(ok, rule, "service.verifyTransactionHash:compare", c.Pos(vh.Pos()), "nil only when tx.Hash == tx.GenHash()", "verifyTransactionHash no longer returns nil only on tx.Hash == tx.GenHash()")
	}
	vc := c.Func("service", "verifyTxChainId")
	if r.Anchor(vc != nil, rule, "service.verifyTxChainId") {
		ok := false
		for _, re := range eng.Returns(vc) {
			if !eng.IsNilConst(re.Incoming(0)) {
				continue
			}
			for _, cd := range eng.CondsAt(re.Ret) {
				if m, isM := cd.Cmp(); isM && m.Op == token.EQL {
					d := eng.Desc(m.X) + " " + eng.Desc(m.Y)
					if strings.Contains(d, "tx.ChainId") && strings.Contains(d, "common.ChainId(height)") {
						ok = true
					}
				}
			}
		}
		r.Check(ok, rule, "service.verifyTxChainId:compare", c.Pos(vc.Pos()), "nil only when tx.ChainId == common.ChainId(height)", "verifyTxChainId no longer compares tx.ChainId with this chain's id at the given height")
	}
}

func c07Eth(c *eng.Ctx, r *eng.Report) {
	const rule = "R7.3"
	r.Min(rule, 3)
	fn := c.Func("service", "verifyETHTx")
	if r.Anchor(fn != nil, rule, "service.verifyETHTx") {
		signer := callsNamed(fn, "eth_tx.NewEIP155Signer")
		dec := callsNamed(fn, "storage/rlp.DecodeBytes")
		conv := callsNamed(fn, "eth_tx.ConvertTx")
		cmp := callsNamed(fn, "service.compareTx")
		snd := callsNamed(fn, "eth_tx.Sender")
		var bad []string
		// the payload is decoded by a decoder that refuses bytes after the first value: rlp.DecodeBytes (C08 R8.3),
		// directly or in a helper; the stream form rlp.Decode reads one value and ignores the rest
		if len(dec) == 0 {
			for _, s2 := range eng.Sites(fn) {
				callee := s2.Common().StaticCallee()
				if callee == nil || !eng.InMod(callee) || callee.Blocks == nil {
					continue
				}
				if len(callsNamed(callee, "storage/rlp.Decode")) > 0 && len(callsNamed(callee, "storage/rlp.DecodeBytes")) == 0 {
					bad = append(bad, "the signed payload is decoded by "+eng.FuncName(callee)+" with the stream decoder rlp.Decode, which reads one RLP value and ignores whatever follows: tx.ExtraData = signed payload || arbitrary bytes is admitted under the original hash (the hash covers only the re-encoded signed fields)")
				}
			}
		}
		if len(bad) > 0 {
			// reported above
		} else if len(signer) != 1 || len(dec) != 1 || len(conv) != 1 || len(cmp) != 1 || len(snd) != 1 {
			bad = append(bad, fmt.Sprintf("shape not recognised: signer=%d decode=%d convert=%d compare=%d sender=%d", len(signer), len(dec), len(conv), len(cmp), len(snd)))
		} else {
			if d := eng.Desc(signer[0].Call.Args[0]); d != "common.GetChainId(height)" {
				bad = append(bad, "the EIP-155 signer is built from "+d+" instead of common.GetChainId(height): the chain id is no longer this chain's, so a payload signed for another chain recovers a sender and is admitted")
			}
			if snd[0].Call.Args[0] != nil && !strings.Contains(eng.Desc(snd[0].Call.Args[0]), "NewEIP155Signer") {
				bad = append(bad, "Sender is not given the EIP-155 signer")
			}
			if eng.Unwrap(dec[0].Call.Args[0]) != eng.Unwrap(conv[0].Call.Args[2]) {
				bad = append(bad, "ConvertTx is not given the bytes that were RLP-decoded")
			}
			if !strings.Contains(eng.Desc(dec[0].Call.Args[0]), "tx.ExtraData") {
				bad = append(bad, "the decoded payload is not tx.ExtraData")
			}
			if cmp[0].Call.Args[1] != ssa.Value(conv[0]) {
				bad = append(bad, "compareTx is not applied to the converted payload")
			}
			for _, re := range eng.Returns(fn) {
				if !eng.IsNilConst(re.Incoming(0)) {
					continue
				}
				nils := nilEdgesAt(re.Ret)
				okCmp := false
				for _, cd := range eng.CondsAt(re.Ret) {
					if cd.V == ssa.Value(cmp[0]) && cd.True {
						okCmp = true
					}
				}
				if !okCmp {
					bad = append(bad, "nil returned without compareTx == true")
				}
				if !nils[ssa.Value(dec[0])] {
					bad = append(bad, "nil returned without a successful RLP decode")
				}
				if !nils[ssa.Value(snd[0])] {
					bad = append(bad, "nil returned without successful sender recovery")
				}
			}
		}
		r.Check(len(bad) == 0, rule, "service.verifyETHTx:binding", c.Pos(fn.Pos()), "sender recovered under this chain's EIP-155 id; decoded payload converted and compared; nil only when all hold", strings.Join(uniq(bad), "; "))
		// "under EIP-155 for this chain": EIP155Signer.Sender falls back to the Homestead rule for a payload without
		// replay protection (V = 27/28), so acceptance must also rest on Protected() — or on the wrapper's chain id
		// being compared with the chain's, which for such a payload is "0"
		eip155 := false
		for _, re := range eng.Returns(fn) {
			if !eng.IsNilConst(re.Incoming(0)) {
				continue
			}
			for _, cd := range eng.CondsAt(re.Ret) {
				d := eng.Desc(cd.V)
				if strings.Contains(d, ".Protected(") && cd.True {
					eip155 = true
				}
				if call, isC := cd.V.(*ssa.Call); isC && strings.HasSuffix(eng.CallName(&call.Call), "verifyTxChainId") {
					eip155 = true
				}
			}
			nils := nilEdgesAt(re.Ret)
			for v := range nils {
				if call, isC := v.(*ssa.Call); isC && strings.HasSuffix(eng.CallName(&call.Call), "verifyTxChainId") {
					eip155 = true
				}
			}
		}
		// the fallback itself may have been removed from the signer
		if sd := c.Func("eth_tx", "(EIP155Signer).Sender"); sd != nil && len(callsNamed(sd, "(eth_tx.HomesteadSigner).Sender")) == 0 {
			eip155 = true
		}
		r.Check(eip155, rule, "service.verifyETHTx:eip155-only", c.Pos(fn.Pos()), "a payload without EIP-155 replay protection is refused", "verifyETHTx accepts a payload that is not signed under EIP-155: EIP155Signer.Sender recovers an unprotected (V = 27/28) transaction with the Homestead rule, ConvertTx derives chain id 0 from it, compareTx only compares the wrapper with that, and neither Protected() nor the chain-id step is consulted — the same signed bytes are valid on every chain")
	}
	// ConvertTx fields ⊆ compareTx fields
	conv := c.Func("eth_tx", "ConvertTx")
	cmp := c.Func("service", "compareTx")
	if r.Anchor(conv != nil, rule, "eth_tx.ConvertTx") && r.Anchor(cmp != nil, rule, "service.compareTx") {
		set := map[string]bool{}
		for _, b := range conv.Blocks {
			for _, in := range b.Instrs {
				if st, ok := in.(*ssa.Store); ok {
					if t, f := eng.FieldOf(st.Addr); t == "middleware/types.Transaction" {
						set[f] = true
					}
				}
			}
		}
		compared := map[string]bool{}
		for _, b := range cmp.Blocks {
			for _, in := range b.Instrs {
				bo, ok := in.(*ssa.BinOp)
				if !ok || (bo.Op != token.NEQ && bo.Op != token.EQL) {
					continue
				}
				fx := fieldLoaded(bo.X)
				fy := fieldLoaded(bo.Y)
				if fx != "" && fx == fy {
					compared[fx] = true
				}
			}
		}
		var missing []string
		for f := range set {
			if !compared[f] {
				missing = append(missing, f)
			}
		}
		sort.Strings(missing)
		r.Check(len(missing) == 0 && len(set) >= 6, rule, "service.compareTx:covers-ConvertTx", c.Pos(cmp.Pos()), fmt.Sprintf("all %d fields filled by ConvertTx are compared", len(set)), "compareTx does not compare field(s) "+strings.Join(missing, ", ")+" that ConvertTx derives from the signed payload: the wrapper can differ from what was signed")
		// compareTx returns true only when no comparison failed
		okRet := true
		for _, re := range eng.Returns(cmp) {
			if eng.RetClass(re.Ret, 0, re.Pred) != "true" {
				continue
			}
			n := 0
			for _, cd := range eng.CondsAt(re.Ret) {
				if m, isM := cd.Cmp(); isM && m.Op == token.EQL && fieldLoaded(m.X) != "" {
					n++
				}
			}
			if n < len(set) {
				okRet = false
			}
		}
		r.Check(okRet, rule, "service.compareTx:accept-edge", c.Pos(cmp.Pos()), "true is returned only on the all-equal edge", "compareTx can return true although a compared field differs")
	}
}

func fieldLoaded(v ssa.Value) string {
	u, ok := v.(*ssa.UnOp)
	if !ok || u.Op != token.MUL {
		return ""
	}
	t, f := eng.FieldOf(u.X)
	if t == "middleware/types.Transaction" {
		return f
	}
	return ""
}

// hashExclusions: Transaction fields execution may read although GenHash does not cover them.
var hashExclusions = map[string]string{
	"Hash": "the digest itself (compared with GenHash at admission)", "Sign": "signature over the hash",
	"RequestId": "gateway sequencing number assigned by the coiner", "SubTransactions": "gateway nonce carrier", "SubHash": "gateway sequencing",
	"SocketRequestId": "per-connection routing tag", "ExtraDataType": "gateway hint; not read by executors today",
}

func c07HashBinds(c *eng.Ctx, r *eng.Report) {
	const rule = "R7.4"
	r.Min(rule, 6)
	gh := c.Func("middleware/types", "(*Transaction).GenHash")
	if !r.Anchor(gh != nil, rule, "(*Transaction).GenHash") {
		return
	}
	// A field is bound when its value reaches a Write into the digest buffer through injective steps only:
	// the []byte/int conversions and the decimal formatters. Anything else (case folding, trimming,
	// truncation, parsing and re-printing) maps several field values to one digest.
	hashed := map[string]bool{}
	lossy := map[string]string{}
	verbatimAt := map[string][]ssa.Instruction{}
	lossyAt := map[string][]ssa.Instruction{}
	var cur ssa.Instruction
	var trace func(v ssa.Value, via string, d int)
	trace = func(v ssa.Value, via string, d int) {
		if v == nil || d > 8 {
			return
		}
		switch x := v.(type) {
		case *ssa.Convert:
			trace(x.X, via, d+1)
		case *ssa.ChangeType:
			trace(x.X, via, d+1)
		case *ssa.UnOp:
			if f := fieldLoaded(x); f != "" {
				if via == "" {
					hashed[f] = true
					verbatimAt[f] = append(verbatimAt[f], cur)
				} else {
					if lossy[f] == "" {
						lossy[f] = via
					}
					lossyAt[f] = append(lossyAt[f], cur)
				}
			}
		case *ssa.Call:
			nm := eng.CallName(&x.Call)
			switch nm {
			case "strconv.FormatUint", "strconv.Itoa", "strconv.FormatInt":
			default:
				if via == "" {
					via = nm
				}
			}
			for _, a := range x.Call.Args {
				trace(a, via, d+1)
			}
		case *ssa.BinOp:
			if via == "" {
				via = "operator " + x.Op.String()
			}
			trace(x.X, via, d+1)
			trace(x.Y, via, d+1)
		case *ssa.Slice:
			if via == "" {
				via = "a slice expression"
			}
			trace(x.X, via, d+1)
		}
	}
	for _, st := range eng.Sites(gh) {
		// a sink is any call that is handed the digest buffer / hash state; what else it is handed goes into the digest
		args := st.Common().Args
		sink := -1
		for i, a := range args {
			if t := a.Type().String(); strings.Contains(t, "bytes.Buffer") || strings.Contains(t, "hash.Hash") || strings.Contains(t, "strings.Builder") {
				sink = i
				break
			}
		}
		if sink < 0 || strings.HasSuffix(st.Name(), ".Bytes") || strings.HasSuffix(st.Name(), ".String") {
			continue
		}
		cur = st.Instr
		for i, a := range args {
			if i != sink {
				trace(a, "", 0)
			}
		}
	}
	var lf []string
	for f := range lossy {
		lf = append(lf, f)
	}
	sort.Strings(lf)
	for _, f := range lf {
		// a transformed copy next to the verbatim one is harmless; a path on which only the transformed copy is written is not
		covered := true
		for _, l := range lossyAt[f] {
			ok := false
			for _, v := range verbatimAt[f] {
				if eng.Dominates(v, l) {
					ok = true
				}
			}
			covered = covered && ok
		}
		if !covered {
			hashed[f] = false
			r.Fail(rule, "genhash-verbatim:Transaction."+f, c.Pos(gh.Pos()), "GenHash writes Transaction."+f+" into the digest only after passing it through "+lossy[f]+", which is not one of the injective steps (conversion, decimal formatting): different values of the field give the same hash, so the field can be altered in transit without invalidating hash or signature")
		}
	}
	r.Check(len(hashed) >= 6, rule, "genhash-verbatim:fields", c.Pos(gh.Pos()), fmt.Sprintf("%d fields reach the digest verbatim", len(hashed)), fmt.Sprintf("only %d Transaction fields reach the digest buffer of GenHash through injective steps (8 expected)", len(hashed)))
	cone := c01Cone(c, r, rule)
	if cone == nil {
		return
	}
	read := map[string]string{}
	for _, fn := range cone.Sorted() {
		if !eng.InMod(fn) || fn.Blocks == nil {
			continue
		}
		for _, b := range fn.Blocks {
			for _, in := range b.Instrs {
				var t, f string
				switch x := in.(type) {
				case *ssa.FieldAddr:
					t, f = eng.FieldOf(x)
				case *ssa.Field:
					t, f = eng.FieldOf(x)
				}
				if t == "middleware/types.Transaction" {
					if _, ok := read[f]; !ok {
						read[f] = eng.FuncName(fn) + " (" + c.Pos(in.Pos()) + ")"
					}
				}
			}
		}
	}
	var fields []string
	for f := range read {
		fields = append(fields, f)
	}
	sort.Strings(fields)
	for _, f := range fields {
		_, ex := hashExclusions[f]
		r.Check(hashed[f] || ex, rule, "field:Transaction."+f, "", "read during execution and bound by GenHash (or reviewed exclusion: "+hashExclusions[f]+")", "Transaction."+f+" is read during execution (first in "+read[f]+") but is neither written into the digest by GenHash nor in the reviewed exclusion table: it can be changed without invalidating hash and signature")
	}
	r.Extra["genhash_fields"] = len(hashed)
}

func c07Admission(c *eng.Ctx, r *eng.Report) {
	const rule = "R7.5"
	r.Min(rule, 4)
	isAdd := func(n string) bool {
		return n == "iface:service.TransactionPool.AddTransaction" || n == "(*service.TxPool).AddTransaction"
	}
	isVerify := func(n string) bool {
		return n == "iface:service.TransactionPool.VerifyTransaction" || n == "(*service.TxPool).VerifyTransaction"
	}
	verifiedAt := func(fn *ssa.Function, at ssa.Instruction, tx ssa.Value) bool {
		for _, s := range eng.Sites(fn) {
			if !isVerify(s.Name()) {
				continue
			}
			vc := s.Instr.(*ssa.Call)
			args := vc.Call.Args
			if !vc.Call.IsInvoke() {
				args = args[1:]
			}
			if args[0] != tx && eng.Desc(args[0]) != eng.Desc(tx) {
				continue
			}
			if nilEdgesAt(at)[ssa.Value(vc)] {
				return true
			}
		}
		return false
	}
	n := 0
	for _, fn := range c.ModFuncs() {
		for _, s := range eng.Sites(fn) {
			if !isAdd(s.Name()) {
				continue
			}
			call := s.Instr.(*ssa.Call)
			args := call.Call.Args
			if !call.Call.IsInvoke() {
				args = args[1:]
			}
			tx := args[0]
			name := eng.FuncName(fn)
			n++
			if verifiedAt(fn, call, tx) {
				r.Pass(rule, "admit:"+name, c.Pos(call.Pos()), "AddTransaction is on the nil edge of VerifyTransaction of the same transaction")
				continue
			}
			// wrapper: tx is a parameter → every caller must have verified it
			p, isParam := tx.(*ssa.Parameter)
			if !isParam {
				r.Fail(rule, "admit:"+name, c.Pos(call.Pos()), "AddTransaction("+eng.Desc(tx)+") is not dominated by a successful VerifyTransaction of that transaction: an unauthenticated transaction can enter the pool")
				continue
			}
			idx := -1
			for i, q := range fn.Params {
				if q == p {
					idx = i
				}
			}
			callers := c.Callers(fn)
			if len(callers) == 0 {
				r.Fail(rule, "admit:"+name, c.Pos(call.Pos()), "wrapper around AddTransaction has no caller that verifies")
			}
			for i, site := range callers {
				arg := site.Common().Args[idx]
				key := fmt.Sprintf("admit:%s<-%s#%d", name, eng.FuncName(site.Fn), i)
				r.Check(verifiedAt(site.Fn, site.Instr, arg), rule, key, c.Pos(site.Pos()), "the wrapper is called on the nil edge of VerifyTransaction of the same transaction", eng.FuncName(site.Fn)+" hands a transaction to "+name+" (→ AddTransaction) without a successful VerifyTransaction on that path")
			}
		}
	}
	if n < 2 {
		r.Fail(rule, "admit:sites", "", fmt.Sprintf("only %d AddTransaction call sites found", n))
	}
}

// c07Pure: whether a transaction is authentic is a function of the transaction
// and the height. A memo in the verification cone — the parsed chain id kept
// from the first call, a signer cached per process — makes the verdict depend
// on what was verified before.
func c07Pure(c *eng.Ctx, r *eng.Report) {
	const rule = "R7.6"
	r.Min(rule, 1)
	var entries []*ssa.Function
	for _, n := range []string{"VerifyTransaction", "verifyTransactionHash", "verifyTransactionSign", "verifyTransactionChainId", "verifyETHTx", "compareTx"} {
		if fn := c.Func("service", n); fn != nil {
			entries = append(entries, fn)
		}
	}
	if !r.Anchor(len(entries) >= 4, rule, "service.VerifyTransaction and its steps") {
		return
	}
	in := func(fn *ssa.Function) bool {
		p := eng.FuncPkgPath(fn)
		if strings.Contains(p, "/middleware/log") || strings.Contains(p, "/middleware/notify") {
			return false
		}
		return strings.HasPrefix(p, eng.Mod+"/src/")
	}
	cone := c.ConeOf(entries, in)
	bad := ""
	n := 0
	for _, fn := range cone.Sorted() {
		if !in(fn) || fn.Blocks == nil {
			continue
		}
		n++
		for _, h := range eng.ScanNondeterminism(fn) {
			switch h.Kind {
			case "cache", "syncmap-range":
			case "global-store":
				if _, ok := c07SharedOK["global-store:"+eng.FuncName(fn)]; ok {
					continue
				}
			case "shared-object":
				if _, ok := c07SharedOK[h.Recv]; ok {
					continue
				}
				// a sync.Pool of scratch objects whose taker re-initialises what it got (Reset()/reset() in the same function)
				if strings.Contains(h.Detail, "(*sync.Pool).") {
					resets := false
					for _, s2 := range eng.Sites(fn) {
						if n2 := s2.Name(); strings.HasSuffix(n2, ".Reset") || strings.HasSuffix(n2, ").reset") {
							resets = true
						}
					}
					if resets {
						continue
					}
				}
			default:
				continue
			}
			if bad == "" {
				bad = h.Detail + " in " + eng.FuncName(fn) + " (" + c.Pos(h.Pos) + "; " + cone.PathTo(fn) + ")"
			}
			if os.Getenv("RR_DEBUG") != "" {
				fmt.Fprintln(os.Stderr, "R7.6 HIT", h.Kind, h.Recv, "|", h.Detail, "|", eng.FuncName(fn))
			}
		}
	}
	r.Extra["verify_cone_functions"] = n
	r.Check(bad == "" && n >= 20, rule, "verify:pure", c.Pos(entries[0].Pos()), fmt.Sprintf("no process-local memo in the %d functions transaction verification reaches", n), "transaction verification consults process-local state: "+bad+" — whether a transaction is admitted then depends on what this process verified before (a chain id parsed at one height and reused at another lets a transaction signed for the old chain id through after the switch and rejects the honest one)")
}

// c07SharedOK: package-level objects the verification cone may call methods on (reviewed).
var c07SharedOK = map[string]string{
	"global-store:storage/rlp.cachedTypeInfo1": "RLP codec table memoised per Go type and struct tags (C08 R8.7 decides its key): a hit and a miss yield the same codec",
}

// c07OneSignatureEncoding: "changing the signature of an accepted transaction
// makes it rejected".
func c07OneSignatureEncoding(c *eng.Ctx, r *eng.Report) {
	const rule = "R7.7"
	r.Min(rule, 1)
	fn := c.Func("common/secp256k1", "checkSignature")
	if !r.Anchor(fn != nil, rule, "secp256k1.checkSignature") {
		return
	}
	sig := fn.Params[0]
	n := 0
	for _, b := range fn.Blocks {
		for _, in := range b.Instrs {
			st, ok := in.(*ssa.Store)
			if !ok {
				continue
			}
			ia, isIA := st.Addr.(*ssa.IndexAddr)
			if !isIA || ia.X != ssa.Value(sig) {
				continue
			}
			n++
			// name the alias by the test that guards it
			label := "unconditional"
			for _, cd := range eng.CondsAt(st) {
				if m, isM := cd.Cmp(); isM && strings.Contains(eng.Desc(m.X), "[") && !strings.HasPrefix(eng.Desc(m.X), "builtin:len(") {
					if k, isK := eng.ConstInt(m.Y); isK {
						label = fmt.Sprintf("%s%d", m.Op, k)
					}
				}
			}
			r.Fail(rule, "recid-alias:checkSignature:"+label, c.Pos(st.Pos()), "secp256k1.checkSignature rewrites byte "+eng.Desc(ia.Index)+" of the signature it checks (under `"+label+"`): two different 65-byte signatures are then accepted for the same hash and key, so the signature of an accepted transaction can be changed without the transaction being rejected")
		}
	}
	if n == 0 {
		r.Pass(rule, "recid-alias:none", c.Pos(fn.Pos()), "the signature bytes are checked as given")
	}
}

// c07ChainIdBeforeRecover: see R7.8.
func c07ChainIdBeforeRecover(c *eng.Ctx, r *eng.Report) {
	const rule = "R7.8"
	r.Min(rule, 1)
	r.Min("R7.9", 1)
	fn := c.Func("eth_tx", "(EIP155Signer).Sender")
	if fn == nil {
		fn = c.Func("eth_tx", "EIP155Signer.Sender")
	}
	if !r.Anchor(fn != nil, rule, "eth_tx.EIP155Signer.Sender") {
		return
	}
	n := 0
	for _, s := range eng.Sites(fn) {
		if !strings.HasSuffix(s.Name(), "eth_tx.recoverPlain") {
			continue
		}
		// the unprotected (pre-EIP-155) path has no chain id to compare: finding F25 is about that path, not this rule
		unprotected := false
		for _, cd := range eng.CondsAt(s.Instr) {
			d := eng.Desc(cd.V)
			if strings.Contains(d, ".Protected(") && ((!cd.True && !strings.HasPrefix(d, "!")) || (cd.True && strings.HasPrefix(d, "!"))) {
				unprotected = true
			}
			if u, isU := cd.V.(*ssa.UnOp); isU && u.Op == token.NOT && strings.Contains(eng.Desc(u.X), ".Protected(") && cd.True {
				unprotected = true
			}
		}
		if unprotected {
			continue
		}
		n++
		// the low-S rule applies to protected payloads: the homestead flag is the constant true
		args := s.Common().Args
		if k, isK := args[len(args)-1].(*ssa.Const); !isK || k.Value == nil || k.Value.String() != "true" {
			r.Fail("R7.9", "eip155:low-s", c.Pos(s.Pos()), "EIP155Signer.Sender recovers a protected payload with the homestead flag "+eng.Desc(args[len(args)-1])+" instead of the constant true: the S <= N/2 test is skipped, so anyone who sees a signed wrapped transaction can set S to N−S and flip the parity of V — a different payload with a different hash that VerifyTransaction admits for the same sender, nonce and content")
		} else {
			r.Pass("R7.9", "eip155:low-s", c.Pos(s.Pos()), "homestead flag is the constant true")
		}
		ok := false
		for _, cd := range eng.CondsAt(s.Instr) {
			m, isM := cd.Cmp()
			if !isM || m.Via != "Cmp" || m.Op != token.EQL {
				continue
			}
			dx, dy := eng.Desc(m.X), eng.Desc(m.Y)
			if (strings.Contains(dx, "ChainId(") && strings.Contains(dy, "chainId")) || (strings.Contains(dy, "ChainId(") && strings.Contains(dx, "chainId")) {
				ok = true
			}
		}
		r.Check(ok, rule, "eip155:chain-id-before-recover", c.Pos(s.Pos()), "recoverPlain is reached only across tx.ChainId().Cmp(s.chainId) == 0", "EIP155Signer.Sender recovers the sender of a protected payload without the edge tx.ChainId() == s.chainId in force: with the chain id only subtracted from V and the remainder tested loosely, V = 2·chainId − 19 leaves −27, whose magnitude recovers the honest sender from the same r and s — anyone can turn an accepted wrapped transaction into a second accepted one (new payload and hash, same sender, nonce and content) without the key")
	}
	if n == 0 {
		r.Fail(rule, "eip155:chain-id-before-recover", c.Pos(fn.Pos()), "EIP155Signer.Sender no longer calls recoverPlain: the rule has lost its anchor")
	}
}

// c07SignatureHalvesAligned: see R7.10.
func c07SignatureHalvesAligned(c *eng.Ctx, r *eng.Report) {
	const rule = "R7.10"
	r.Min(rule, 1)
	fn := c.Func("eth_tx", "recoverPlain")
	if !r.Anchor(fn != nil, rule, "eth_tx.recoverPlain") {
		return
	}
	aligned := 0
	// recoverPlain itself and the eth_tx helpers it calls directly (the 65-byte encoding may be a function of its own)
	scope := eng.Sites(fn)
	for _, s := range eng.Sites(fn) {
		if t := s.Common().StaticCallee(); t != nil && t.Blocks != nil && strings.HasSuffix(eng.FuncPkgPath(t), "/src/eth_tx") {
			scope = append(scope, eng.Sites(t)...)
		}
	}
	for _, s := range scope {
		if s.Name() != "builtin:copy" {
			continue
		}
		a := s.Common().Args
		if !strings.Contains(eng.Desc(a[1]), "big.Int).Bytes(") {
			continue
		}
		if sl, ok := a[0].(*ssa.Slice); ok && sl.Low != nil {
			if bo, isB := sl.Low.(*ssa.BinOp); isB && bo.Op == token.SUB && strings.Contains(eng.Desc(bo.Y), "builtin:len(") {
				if _, isK := eng.ConstInt(bo.X); isK {
					aligned++
				}
			}
		}
	}
	r.Check(aligned >= 2, rule, "recoverPlain:halves-right-aligned", c.Pos(fn.Pos()), "R and S are each copied to sig[W-len(b):W]", fmt.Sprintf("recoverPlain right-aligns %d of the two signature scalars in their own 32-byte halves: built any other way (the concatenation padded as a whole, say) a short S shifts R, a different public key is recovered, and an honestly signed wrapped transaction — about 1 in 128 — is rejected as illegal", aligned))
}

// c07ChainIdOfThisHeight: see R7.11.
func c07ChainIdOfThisHeight(c *eng.Ctx, r *eng.Report) {
	const rule = "R7.11"
	r.Min(rule, 1)
	fn := c.Func("service", "verifyTxChainId")
	if !r.Anchor(fn != nil, rule, "service.verifyTxChainId") {
		return
	}
	n, bad := 0, ""
	for _, re := range eng.Returns(fn) {
		if !eng.IsNilConst(re.Incoming(0)) {
			continue
		}
		n++
		blk := re.Ret.Block()
		if re.Pred != nil {
			blk = re.Pred
		}
		ok := false
		for _, cd := range eng.EdgeConds(blk) {
			m, isM := cd.Cmp()
			if !isM || m.Op != token.EQL {
				continue
			}
			d := eng.Desc(m.X) + "|" + eng.Desc(m.Y)
			if strings.Contains(d, ".ChainId") && strings.Contains(d, "common.ChainId(") {
				ok = true
			}
		}
		if !ok {
			bad = c.Pos(re.Ret.Pos())
		}
	}
	r.Check(bad == "" && n >= 1, rule, "chain-id:of-this-height", c.Pos(fn.Pos()), fmt.Sprintf("%d accepting return(s), each under tx.ChainId == common.ChainId(height)", n), "verifyTxChainId accepts (return nil at "+bad+") without tx.ChainId == common.ChainId(height) in force: a transaction whose declared chain id is not the one of this height is admitted — on the main-net configuration a transaction signed for 8888 passes after block 894116, where the chain's id is 2025")
}
