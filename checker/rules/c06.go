package rules

import (
	"fmt"
	"go/token"
	"go/types"
	"sort"
	"strings"

	"golang.org/x/tools/go/ssa"

	"verif/checker/eng"
)

func init() { register("C06", c06) }

// moneyMethods: methods of AccountDB / vm.StateDB that change a native balance.
var moneyMethods = map[string]string{
	"AddBalance": "credit", "SubBalance": "debit", "SetBalance": "set", "AddFT": "credit", "SubFT": "debit", "SetFT": "set", "Transfer": "move",
}

// moneyClass: caller function → class of its money sites (reviewed).
var moneyClass = map[string][2]string{
	"service.transferBalance":               {"move", "operator transfer: credit target, debit source, same amount"},
	"(*service.TxPool).ProcessFee":          {"move", "per-transaction fee to FeeAccount"},
	"core.deductGasFee":                     {"move", "gas fee of a failed contract tx, capped at the balance"},
	"(*executor.contractExecutor).Execute":  {"move", "gas fee of a contract tx to FeeAccount"},
	"vm.Transfer":                           {"move", "EVM value transfer"},
	"core.transfer":                         {"move", "sub-chain reward value transfer"},
	"(*service.MinerManager).AddStake":      {"lock", "stake locked: debit without credit, mirrored in miner.Stake (C20)"},
	"(*service.MinerManager).AddMiner":      {"lock", "stake locked: debit without credit, mirrored in miner.Stake (C20)"},
	"(*service.RefundManager).CheckAndMove": {"scheduled-credit", "block reward / stake refund scheduled earlier"},
	"(*executor.minerNodeExecutor).Execute": {"burn", "10 RPG debited with no credit"},
	"(*vm.EVM).StaticCall":                  {"touch", "AddBalance(addr, big0)"},
	"vm.opSuicide":                          {"selfdestruct", "credit beneficiary with the contract's balance, Suicide zeroes the contract"},
	"core.genGenesisBlock":                  {"genesis", "initial allocation"},
	"core.genDevGenesisBlock":               {"genesis", "initial allocation"},
	"core.genRobinGenesisBlock":             {"genesis", "initial allocation"},
	"core.genSubGenesisBlock":               {"genesis", "initial allocation"},
	"core.addDevTestAsset":                  {"genesis", "dev-net test allocation, called only from the dev genesis builder"},
	"core.addRobinTestAsset":                {"genesis", "robin test-net allocation, called only from the robin genesis builder"},
	"eth_rpc.doCall":                        {"state-override", "eth_call simulation on a throw-away state (no Commit reachable)"},
	"(*eth_rpc.StateOverride).Apply":        {"state-override", "eth_call simulation on a throw-away state (no Commit reachable)"},
}

type moneySite struct {
	fn     *ssa.Function
	call   *ssa.Call
	kind   string // credit / debit / set / move
	addr   ssa.Value
	amount ssa.Value
	method string
}

func moneySites(c *eng.Ctx) []moneySite {
	var out []moneySite
	for _, fn := range c.ModFuncs() {
		if strings.HasSuffix(eng.FuncPkgPath(fn), "/storage/account") {
			continue
		}
		for _, s := range eng.Sites(fn) {
			call, ok := s.Instr.(*ssa.Call)
			if !ok {
				continue
			}
			n := s.Name()
			var m string
			switch {
			case strings.HasPrefix(n, "(*storage/account.AccountDB)."):
				m = strings.TrimPrefix(n, "(*storage/account.AccountDB).")
			case strings.HasPrefix(n, "iface:vm.StateDB."):
				m = strings.TrimPrefix(n, "iface:vm.StateDB.")
			default:
				continue
			}
			kind, ok := moneyMethods[m]
			if !ok {
				continue
			}
			args := call.Call.Args
			if !call.Call.IsInvoke() {
				args = args[1:]
			}
			ms := moneySite{fn: fn, call: call, kind: kind, method: m}
			switch m {
			case "AddBalance", "SubBalance", "SetBalance":
				ms.addr, ms.amount = args[0], args[1]
			case "AddFT", "SubFT", "SetFT":
				ms.addr, ms.amount = args[0], args[2]
			case "Transfer":
				ms.addr, ms.amount = args[0], args[2]
			}
			out = append(out, ms)
		}
	}
	return out
}

func c06(c *eng.Ctx, r *eng.Report) {
	r.Explain = "Conservation and non-negativity of the native token as structural rules over every balance-changing call site outside storage/account: " +
		"R6.1 each site's function is in a reviewed class table; a `move` function has exactly one debit and one credit of the identical SSA amount value; SetBalance only in genesis builders and the eth_call state override (from which no Commit is reachable); " +
		"R6.2 AccountDB.SubBalance silently does nothing when funds are short, so every debit must be control-dependent on `GetBalance(sameAddress) >= sameAmount` computed in the same function with no debit of that account in between (or be the reviewed EVM Transfer behind CanTransfer), and a contract transaction's funds pre-check must not be followed by a further debit before execution; " +
		"R6.3 the bottom-level SubFT implementations subtract only on the sufficient-funds edge, transferBalance rejects negative amounts, CanTransfer rejects negative amounts; " +
		"R6.4 no floating-point value flows into an amount except through Float64ToBigInt at the reviewed stake sites. " +
		"R6.5 a failed transaction is rolled back through the journal, so the journal entries that carry balances (storageChange: balances and token slots live in account data; suicideChange: the balance a self-destruct zeroed) are undone by exactly their paired raw writes on every path through undo (the C04 pairing rule applied to these entries). " +
		"R6.7 the affordability pre-check of a contract transaction prices the gas limit the transaction asked for (raw.GasLimit as decoded, never a smaller, capped figure): execution only ever lowers that limit, so the fee it bills is covered — a pre-check that caps differently from execution lets a debit be refused silently (SubBalance does nothing when funds are short) while the fee account is credited in full; " +
		"R6.12 the gas the EVM may spend is the gas the sender is billed against: in contractExecutor.Execute the limit in vmCtx.GasLimit = limit − intrinsicGas and the limit in gasUsed = limit − leftOverGas are fed by the same values (the requested limit and every per-height ceiling) — a budget taken before the clamp and a bill taken after it make leftOverGas exceed the billed limit, gasUsed wraps, the sender's debit fails silently and the fee account is credited ~1.8e28 wei; " +
		"R6.13 (= R4.2) every raw setter of balances, nonces, storage and code is dominated by its journal append, so the revert of a failed transaction restores what the fee step and earlier writes left (an append skipped because the journal's top entry is 'the same slot' ignores the snapshot taken in between); " +
		"R6.11 the amount locked for a stake is the amount later refunded: Float64ToBigInt multiplies a float64 by 10^18 in a big.Float whose precision was set, before the multiplication, to a constant of at least 113 bits (53 bits of mantissa times the 60 bits of 10^18) — at the default 53 bits a stake of 2365 locks 2364999999999999737856 wei while the refund path pays back the exact integer; " +
		"R6.10 balances have one source of truth, the journaled storage: AccountDB/accountObject gain no field that is neither journaled nor reviewed (C04's R4.11 here — a cache of decoded balances that RevertToSnapshot does not drop lets a spend pass its affordability check on rolled-back funds); " +
		"R6.8 the free gas a value-bearing CALL/CALLCODE hands its callee is the constant CallStipend, which is below the CallValueTransferGas the caller was charged: a stipend that grows (scaled with proposal 026 while the price is not) lets a loop of 1-wei calls end with more gas than the limit, `gasLimit - leftOverGas` wraps, the sender's debit is refused and the fee account is still credited; " +
		"R6.9 the storage key of a balance is the caller's own: GetERC20Key returns a slice of an array allocated in that call, never of a buffer kept on the AccountDB — journal entries keep the key slice, so with a shared buffer every entry since a snapshot points at the key computed last and a revert writes all old balances into one slot; " +
		"R6.6 locked stake stays part of the conserved total: what GetRefundStake returns for payout is exactly what it subtracts from the miner's recorded stake, and its callers schedule that amount unchanged (C20's R20.3 under this property's id). " +
		"Not decided: the sums themselves; EVM-internal accounting beyond the CanTransfer/Transfer pairing."
	r.Assume = []string{"balances change only through the AccountDB/StateDB methods listed in rules/c06.go", "a storage slot of the bound wRPG contract is only written by that contract's own code (EVM SSTORE) besides these methods"}
	sites := moneySites(c)
	c06Classes(c, r, sites)
	c06Guards(c, r, sites)
	c06Bottom(c, r)
	c06Float(c, r, sites)
	c04UndoAs(c, r, "R6.5", map[string]bool{"storageChange": true, "suicideChange": true}, 4)
	c06PrecheckGas(c, r)
	c06Stipend(c, r)
	c06BalanceKeyFresh(c, r)
	// R6.10: no unjournaled mirror of balances on the state object (C04's struct census under this property's id)
	c04StructCensusAs(c, r, "R6.10")
	c06StakeConversionExact(c, r)
	c06GasBudgetIsBilledLimit(c, r)
	// R6.13: a failed transaction is rolled back to the snapshot taken before it — every raw state setter is preceded
	// by its journal entry on every path (C04's R4.2 re-run under this property's id)
	sub2 := eng.NewReport(r.Prop, r.Tier)
	c04Journaled(c, sub2)
	for _, o := range sub2.Obls {
		o.Rule = "R6.13"
		r.Obls = append(r.Obls, o)
	}
	r.Min("R6.13", 8)
	// R6.6: locked stake is part of the conserved total (the `lock` class of R6.1): what a refund pays out is exactly
	// what it takes off the miner's recorded stake (C20's R20.3 re-run under this property's id)
	sub := eng.NewReport(r.Prop, r.Tier)
	c20Refund(c, sub)
	for _, o := range sub.Obls {
		o.Rule = "R6.6"
		r.Obls = append(r.Obls, o)
	}
	r.Min("R6.6", 4)
}

func c06Classes(c *eng.Ctx, r *eng.Report, sites []moneySite) {
	const rule = "R6.1"
	r.Min(rule, 16)
	byFn := map[*ssa.Function][]moneySite{}
	var order []*ssa.Function
	for _, s := range sites {
		if _, ok := byFn[s.fn]; !ok {
			order = append(order, s.fn)
		}
		byFn[s.fn] = append(byFn[s.fn], s)
	}
	for _, fn := range order {
		name := eng.FuncName(fn)
		ss := byFn[fn]
		cls, ok := moneyClass[name]
		key := "money:" + name
		pos := c.Pos(ss[0].call.Pos())
		if !ok {
			r.Fail(rule, key, pos, fmt.Sprintf("%s changes native balances (%d call site(s): %s …) but is not in the reviewed class table: value may be created or destroyed", name, len(ss), ss[0].method))
			continue
		}
		var debits, credits, sets []moneySite
		for _, s := range ss {
			switch s.kind {
			case "debit":
				debits = append(debits, s)
			case "credit":
				credits = append(credits, s)
			case "set":
				sets = append(sets, s)
			}
		}
		msg := ""
		switch cls[0] {
		case "move":
			switch {
			case len(debits) != 1 || len(credits) != 1 || len(sets) != 0:
				msg = fmt.Sprintf("a move must have exactly one debit and one credit (found %d debit, %d credit, %d set)", len(debits), len(credits), len(sets))
			case debits[0].amount != credits[0].amount:
				msg = "debit and credit use different amount values (" + eng.Desc(debits[0].amount) + " vs " + eng.Desc(credits[0].amount) + ")"
			case sameAddrVal(debits[0].addr, credits[0].addr):
				msg = "debit and credit name the same account value"
			}
		case "lock", "burn":
			if len(debits) != 1 || len(credits) != 0 || len(sets) != 0 {
				msg = fmt.Sprintf("expected exactly one debit and nothing else (found %d debit, %d credit, %d set)", len(debits), len(credits), len(sets))
			}
		case "scheduled-credit":
			if len(debits) != 0 || len(credits) != 1 || len(sets) != 0 {
				msg = fmt.Sprintf("expected exactly one credit and nothing else (found %d debit, %d credit, %d set)", len(debits), len(credits), len(sets))
			}
		case "touch":
			for _, s := range ss {
				if d := eng.Desc(s.amount); s.kind != "credit" || !(d == "global:big0" || d == "global:Big0") {
					msg = "a touch must be AddBalance(addr, big0); found " + s.method + " of " + d
				}
			}
		case "selfdestruct":
			if len(credits) != 1 || len(debits) != 0 || len(sets) != 0 {
				msg = "expected exactly one credit (the beneficiary)"
			} else if !strings.Contains(eng.Desc(credits[0].amount), "GetBalance(") {
				msg = "beneficiary is not credited with the contract's own GetBalance()"
			} else if len(callsNamed(fn, ".Suicide")) != 1 {
				msg = "the contract is not zeroed with Suicide()"
			} else if su := callsNamed(fn, ".Suicide")[0]; len(eng.CondsAt(su)) != len(eng.CondsAt(credits[0].call)) || !(su.Block() == credits[0].call.Block() || credits[0].call.Block().Dominates(su.Block())) {
				msg = "the beneficiary is credited unconditionally but Suicide(), which zeroes the contract's balance, runs only under an additional condition: on the other branch the balance is paid out and kept"
			}
		case "genesis":
			if len(debits) != 0 {
				msg = "genesis builders only allocate"
			}
			// reachable only while building a genesis block
			for _, site := range c.Callers(fn) {
				cn := eng.FuncName(site.Fn)
				if moneyClass[cn][0] != "genesis" && !strings.Contains(strings.ToLower(cn), "genesis") {
					msg = "called from " + cn + ", which is not a genesis builder"
				}
			}
		case "state-override":
			// no Commit reachable from this function
			cone := c.ConeOf([]*ssa.Function{fn}, eng.StdBoundary)
			for f := range cone.Set {
				if n := eng.FuncName(f); n == "(*storage/account.AccountDB).Commit" || n == "(*storage/trie.NodeDatabase).Commit" {
					msg = "a Commit is reachable from the state-override function (" + cone.PathTo(f) + "): an overridden balance could be persisted"
				}
			}
		}
		if cls[0] == "burn" && msg == "" {
			r.Fail(rule, key, pos, "debit of "+eng.Desc(debits[0].amount)+" with no matching credit: the supply decreases by an amount the property does not allow ("+cls[1]+")")
			continue
		}
		r.Check(msg == "", rule, key, pos, cls[0]+": "+cls[1], name+" is reviewed as "+cls[0]+" but "+msg)
	}
	// SetBalance callers ⊆ genesis / state override
	for _, s := range sites {
		if s.kind != "set" {
			continue
		}
		cls := moneyClass[eng.FuncName(s.fn)][0]
		if cls != "genesis" && cls != "state-override" {
			r.Fail(rule, "set:"+eng.FuncName(s.fn), c.Pos(s.call.Pos()), "SetBalance/SetFT outside genesis and the eth_call state override: a balance is overwritten rather than moved")
		}
	}
}

func sameAddrVal(a, b ssa.Value) bool { return a == b }

// balanceGuard reports whether the debit d is control-dependent on
// GetBalance(sameAddr) >= sameAmount computed in the same function.
func balanceGuard(d moneySite) (bool, string) {
	isBalanceOf := func(v ssa.Value) bool {
		call, ok := v.(*ssa.Call)
		if !ok {
			return false
		}
		n := eng.CallName(&call.Call)
		if !(strings.HasSuffix(n, ".GetBalance")) {
			return false
		}
		args := call.Call.Args
		if !call.Call.IsInvoke() {
			args = args[1:]
		}
		return len(args) == 1 && (args[0] == d.addr || eng.Desc(args[0]) == eng.Desc(d.addr))
	}
	// the amount may be a phi min(fee, balance): accept when every non-balance edge is covered below
	why := "no dominating comparison of GetBalance(" + eng.Desc(d.addr) + ") with the debited amount"
	for _, cd := range eng.CondsAt(d.call) {
		m, ok := cd.Cmp()
		if !ok || m.Via != "Cmp" {
			continue
		}
		op, x, y := m.Op, m.X, m.Y
		if isBalanceOf(y) {
			op, x, y = eng.Flip(op), y, x
		}
		if !isBalanceOf(x) {
			// a comparison with something that is not a fresh balance of this account
			if y == d.amount || x == d.amount {
				why = "the amount is compared with " + eng.Desc(x) + "/" + eng.Desc(y) + ", which is not GetBalance(" + eng.Desc(d.addr) + ") read in this function (a stale or foreign balance)"
			}
			continue
		}
		if op != token.GEQ && op != token.GTR {
			continue
		}
		if y != d.amount && eng.Desc(y) != eng.Desc(d.amount) {
			why = "GetBalance is compared with " + eng.Desc(y) + " but " + eng.Desc(d.amount) + " is debited"
			continue
		}
		// no other debit of the same account between the balance read and this debit
		bal := x.(*ssa.Call)
		for _, s := range eng.Sites(d.call.Parent()) {
			other, isC := s.Instr.(*ssa.Call)
			if !isC || other == d.call {
				continue
			}
			if strings.HasSuffix(s.Name(), ".SubBalance") || strings.HasSuffix(s.Name(), ".SubFT") || strings.HasSuffix(s.Name(), ".ProcessFee") {
				if eng.Reaches(bal, other) && eng.Reaches(other, d.call) {
					return false, "another debit (" + s.Name() + ") lies between the balance check and this debit"
				}
			}
		}
		return true, "GetBalance(" + eng.Desc(d.addr) + ") >= " + eng.Desc(d.amount) + " on this edge"
	}
	// min(amount, balance) shape
	if phi, ok := d.amount.(*ssa.Phi); ok {
		hasBal := false
		for _, e := range phi.Edges {
			if isBalanceOf(e) {
				hasBal = true
			}
		}
		if hasBal {
			return true, "amount is capped at GetBalance(" + eng.Desc(d.addr) + ")"
		}
	}
	return false, why
}

func c06Guards(c *eng.Ctx, r *eng.Report, sites []moneySite) {
	const rule = "R6.2"
	r.Min(rule, 9)
	for _, s := range sites {
		if s.kind != "debit" {
			continue
		}
		name := eng.FuncName(s.fn)
		key := "debit:" + name
		pos := c.Pos(s.call.Pos())
		if name == "vm.Transfer" || name == "core.transfer" {
			// inter-procedural guard: every frame entry calls CanTransfer(sameAddr, sameValue) and returns on failure before Transfer
			ok, why := transferGuarded(c)
			r.Check(ok, rule, key, pos, "EVM transfer is preceded by CanTransfer(sender, value) in every frame entry", why)
			continue
		}
		ok, why := balanceGuard(s)
		r.Check(ok, rule, key, pos, "debit guarded: "+why, "debit of "+eng.Desc(s.amount)+" from "+eng.Desc(s.addr)+" is not guarded ("+why+"): SubBalance silently does nothing when funds are short while the paired credit still happens, creating value")
	}
	// stale pre-check: in every BeforeExecute that calls preCheckContractFee no debit may follow it
	for _, fn := range c.PkgFuncs("executor") {
		pre := callsNamed(fn, "executor.preCheckContractFee")
		if len(pre) == 0 {
			continue
		}
		key := "precheck-last:" + eng.FuncName(fn)
		ok := true
		why := ""
		for _, s := range eng.Sites(fn) {
			n := s.Name()
			if strings.HasSuffix(n, ".ProcessFee") || strings.HasSuffix(n, ".SubBalance") {
				for _, p := range pre {
					if eng.Reaches(p, s.Instr) {
						ok, why = false, n+" runs after the funds pre-check"
					}
				}
			}
		}
		r.Check(ok, rule, key, c.Pos(pre[0].Pos()), "the funds pre-check (gasLimit×price + value) is the last balance-affecting step before execution", "the contract transaction's funds pre-check is stale: "+why+", so a sender within one fee of the requirement passes the check and the later gas-fee debit fails silently while FeeAccount is still credited")
	}
}

func transferGuarded(c *eng.Ctx) (bool, string) {
	for _, name := range []string{"(*EVM).Call", "(*EVM).create", "(*EVM).AuthCall"} {
		fn := c.Func("vm", name)
		if fn == nil {
			return false, "frame entry " + name + " not found"
		}
		var tr, ct *ssa.Call
		for _, s := range eng.Sites(fn) {
			if s.Name() != "dyn" {
				continue
			}
			d := eng.Desc(s.Common().Value)
			if strings.HasSuffix(d, ".Transfer") {
				tr, _ = s.Instr.(*ssa.Call)
			}
			if strings.HasSuffix(d, ".CanTransfer") {
				ct, _ = s.Instr.(*ssa.Call)
			}
		}
		if tr == nil || ct == nil {
			return false, name + ": Transfer/CanTransfer call not found"
		}
		// same (addr, value)
		if eng.Desc(tr.Call.Args[1]) != eng.Desc(ct.Call.Args[1]) || tr.Call.Args[3] != ct.Call.Args[2] {
			return false, name + ": CanTransfer checks (" + eng.Desc(ct.Call.Args[1]) + ", " + eng.Desc(ct.Call.Args[2]) + ") but Transfer moves (" + eng.Desc(tr.Call.Args[1]) + ", " + eng.Desc(tr.Call.Args[3]) + ")"
		}
		// Transfer not reachable on the edge where CanTransfer is false (unless value.Sign()==0)
		okEdge := false
		for _, b := range fn.Blocks {
			iff, isI := b.Instrs[len(b.Instrs)-1].(*ssa.If)
			if !isI || iff.Cond != ssa.Value(ct) {
				continue
			}
			f := b.Succs[1]
			if _, isRet := f.Instrs[len(f.Instrs)-1].(*ssa.Return); isRet {
				okEdge = true
			}
		}
		if !okEdge {
			return false, name + ": the failing CanTransfer edge does not return"
		}
		if !eng.Reaches(ct, tr) {
			return false, name + ": CanTransfer does not precede Transfer"
		}
		// every path to Transfer has either seen CanTransfer answer yes or established that the value is zero
		cut := func(a *ssa.BasicBlock, succ int) bool {
			iff, ok := a.Instrs[len(a.Instrs)-1].(*ssa.If)
			if !ok {
				return false
			}
			for _, cd := range eng.Conjuncts(iff.Cond, succ == 0, iff) {
				if cd.V == ssa.Value(ct) && cd.True {
					return true
				}
				if m, isM := cd.Cmp(); isM && strings.Contains(eng.Desc(m.X), ".Sign(") && eng.Desc(m.X) == "(*math/big.Int).Sign("+eng.Desc(ct.Call.Args[2])+")" {
					if k, isK := eng.ConstInt(m.Y); isK && k == 0 && m.Op == token.EQL {
						return true
					}
				}
			}
			return false
		}
		if eng.PathToAvoiding(fn, tr, nil, cut) {
			return false, name + ": Transfer is reachable on a path on which neither CanTransfer answered yes nor the value was found to be zero (e.g. the check is skipped when caller and callee are the same account: SubBalance then fails silently and the credit still lands — a contract calling itself with more than it owns mints the difference)"
		}
	}
	return true, ""
}

func c06Bottom(c *eng.Ctx, r *eng.Report) {
	const rule = "R6.3"
	r.Min(rule, 4)
	for _, spec := range []struct{ pkg, fn string }{{acctPkg, "(*AccountDB).SubFT"}, {acctPkg, "(*accountObject).SubFT"}} {
		fn := c.Func(spec.pkg, spec.fn)
		if !r.Anchor(fn != nil, rule, spec.fn) {
			continue
		}
		n, ok := 0, true
		for _, s := range eng.Sites(fn) {
			if s.Name() != "(*math/big.Int).Sub" {
				continue
			}
			n++
			call := s.Instr.(*ssa.Call)
			guard := false
			for _, cd := range eng.CondsAt(call) {
				if m, isM := cd.Cmp(); isM && m.Via == "Cmp" && (m.Op == token.GEQ) && (m.X == call.Call.Args[1] || eng.Desc(m.X) == eng.Desc(call.Call.Args[1])) && m.Y == call.Call.Args[2] {
					guard = true
				}
				// mirrored: amount.Cmp(remain) <= 0
				if m, isM := cd.Cmp(); isM && m.Via == "Cmp" && (m.Op == token.LEQ) && (m.Y == call.Call.Args[1] || eng.Desc(m.Y) == eng.Desc(call.Call.Args[1])) && m.X == call.Call.Args[2] {
					guard = true
				}
			}
			ok = ok && guard
		}
		r.Check(ok && n >= 1, rule, "sub-guard:"+eng.FuncName(fn), c.Pos(fn.Pos()), "the subtraction happens only on the edge remain >= amount", "SubFT subtracts without the `remain >= amount` guard: a balance can go negative (wrap in its unsigned storage encoding)")
	}
	tb := c.Func("service", "transferBalance")
	if r.Anchor(tb != nil, rule, "service.transferBalance") {
		// every balance-changing call of transferBalance sits behind the sign test
		ok, nsites := true, 0
		for _, s := range eng.Sites(tb) {
			nm := s.Name()
			if i := strings.LastIndex(nm, "."); i < 0 || moneyMethods[nm[i+1:]] == "" || !strings.Contains(nm, "AccountDB") {
				continue
			}
			nsites++
			guarded := false
			for _, cd := range eng.CondsAt(s.Instr) {
				if m, isM := cd.Cmp(); isM && strings.Contains(eng.Desc(m.X), ".Sign(") {
					if k, isK := eng.ConstInt(m.Y); isK && (m.Op == token.NEQ && k == -1 || m.Op == token.GEQ && k == 0 || m.Op == token.GTR && k == -1) {
						guarded = true
					}
				}
			}
			ok = ok && guarded
		}
		ok = ok && nsites > 0
		r.Check(ok, rule, "negative-amount:service.transferBalance", c.Pos(tb.Pos()), "negative transfer amounts are rejected before any balance changes", "transferBalance no longer rejects negative amounts: a negative transfer moves value backwards")
	}
	ct := c.Func(acctPkg, "(*AccountDB).CanTransfer")
	if r.Anchor(ct != nil, rule, "(*AccountDB).CanTransfer") {
		ok := false
		for _, b := range ct.Blocks {
			if iff, isI := b.Instrs[len(b.Instrs)-1].(*ssa.If); isI {
				if m, isM := eng.DecodeCmp(iff.Cond); isM && strings.Contains(eng.Desc(m.X), ".Sign(") {
					ok = true
				}
			}
		}
		r.Check(ok, rule, "negative-amount:(*AccountDB).CanTransfer", c.Pos(ct.Pos()), "CanTransfer tests the sign of the amount", "CanTransfer no longer rejects negative amounts")
	}
}

func c06Float(c *eng.Ctx, r *eng.Report, sites []moneySite) {
	const rule = "R6.4"
	r.Min(rule, 10)
	allowed := map[string]bool{"(*service.MinerManager).AddStake": true, "(*service.MinerManager).AddMiner": true}
	isFloat := func(t types.Type) bool {
		b, ok := t.Underlying().(*types.Basic)
		return ok && b.Info()&types.IsFloat != 0
	}
	var hasFloat func(v ssa.Value, depth int, seen map[ssa.Value]bool) string
	hasFloat = func(v ssa.Value, depth int, seen map[ssa.Value]bool) string {
		if v == nil || depth > 10 || seen[v] {
			return ""
		}
		seen[v] = true
		if isFloat(v.Type()) {
			return eng.Desc(v)
		}
		in, ok := v.(ssa.Instruction)
		if !ok {
			return ""
		}
		var ops []*ssa.Value
		for _, o := range in.Operands(ops) {
			if *o == nil {
				continue
			}
			if _, isFn := (*o).(*ssa.Function); isFn {
				continue
			}
			if m := hasFloat(*o, depth+1, seen); m != "" {
				return m
			}
		}
		return ""
	}
	for _, s := range sites {
		name := eng.FuncName(s.fn)
		key := fmt.Sprintf("float:%s.%s", name, s.method)
		f := hasFloat(s.amount, 0, map[ssa.Value]bool{})
		switch {
		case f == "":
			r.Pass(rule, key, c.Pos(s.call.Pos()), "amount has no floating-point ancestor in this function")
		case allowed[name] && strings.Contains(eng.Desc(s.amount), "utility.Float64ToBigInt("):
			r.Pass(rule, key, c.Pos(s.call.Pos()), "stake amount: uint64 → float64 → Float64ToBigInt (reviewed; stake < 2^53)")
		default:
			r.Fail(rule, key, c.Pos(s.call.Pos()), "the amount derives from a floating-point value ("+f+"): binary rounding can create or destroy fractions of a token")
		}
	}
}

// c06PrecheckGas: the fee the pre-check covers is an upper bound of the fee
// execution bills.
func c06PrecheckGas(c *eng.Ctx, r *eng.Report) {
	const rule = "R6.7"
	r.Min(rule, 2)
	fn := c.Func("executor", "preCheckContractFee")
	if !r.Anchor(fn != nil, rule, "executor.preCheckContractFee") {
		return
	}
	bad, n := "", 0
	for _, s := range eng.Sites(fn) {
		if s.Name() != "(*math/big.Int).SetUint64" || len(s.Common().Args) < 2 {
			continue
		}
		v := s.Common().Args[1]
		// only the operand that is multiplied by the gas price matters
		n++
		if _, f := eng.FieldOf(unload(v)); f != "GasLimit" {
			bad = eng.Desc(v)
		}
	}
	// what the balance is compared with is the sum of both debits the transaction can cause
	sum := false
	for _, s := range eng.Sites(fn) {
		if s.Name() != "(*math/big.Int).Cmp" {
			continue
		}
		d := eng.Desc(s.Common().Args[1]) + "|" + eng.Desc(s.Common().Args[0])
		if strings.Contains(d, "big.Int).Add(") && strings.Contains(d, "TransferValue") && strings.Contains(d, "big.Int).Mul(") {
			sum = true
		}
	}
	r.Check(sum, rule, "precheck:fee-plus-value", c.Pos(fn.Pos()), "the balance is compared with gasLimit × price + transferValue", "preCheckContractFee no longer compares the balance with the sum of the gas fee and the transferred value: a sender who can afford either but not both passes, the value transfer empties the account, the fee debit is silently refused and FeeAccount is still credited — the total supply grows (1.001 RPG held, value 1 RPG, gas limit 1000000: +630000000000000 wei)")
	r.Check(bad == "" && n >= 1, rule, "precheck:gas-limit-uncapped", c.Pos(fn.Pos()), "the priced gas limit is raw.GasLimit as decoded", "preCheckContractFee prices "+bad+" instead of the gas limit the transaction asked for: where this figure is below what execution may run and bill (execution caps at 900M gas since proposal 026), a successful call that burns more than the sender holds has its debit silently refused while FeeAccount is credited the full fee — tokens are created")
}

// c06Stipend: gas is money here — what is left is refunded at the gas price.
func c06Stipend(c *eng.Ctx, r *eng.Report) {
	const rule = "R6.8"
	r.Min(rule, 2)
	for _, name := range []string{"opCall", "opCallCode"} {
		fn := c.Func("vm", name)
		if !r.Anchor(fn != nil, rule, "vm."+name) {
			continue
		}
		bad, n := "", 0
		for _, b := range fn.Blocks {
			for _, in := range b.Instrs {
				bo, ok := in.(*ssa.BinOp)
				if !ok || bo.Op != token.ADD || !strings.Contains(eng.Desc(bo.X), "callGasTemp") {
					continue
				}
				n++
				if k, isK := eng.ConstInt(bo.Y); !isK || k != 2300 {
					bad = eng.Desc(bo.Y)
				}
			}
		}
		r.Check(bad == "" && n == 1, rule, "stipend:"+name, c.Pos(fn.Pos()), "the stipend is the constant CallStipend (2300)", fmt.Sprintf("%s adds %s to the callee's gas instead of the constant CallStipend (sites=%d): gasCall charges a fixed CallValueTransferGas for the transfer, so a larger stipend returns more gas than the call cost — enough 1-wei calls leave more gas than the limit, the executor's `gasLimit - leftOverGas` wraps, the sender cannot pay the fee (debit silently refused) and FeeAccount is credited ~1.8e28 wei", name, bad, n))
	}
}

// c06BalanceKeyFresh: see R6.9.
func c06BalanceKeyFresh(c *eng.Ctx, r *eng.Report) { c06BalanceKeyFreshAs(c, r, "R6.9") }

func c06BalanceKeyFreshAs(c *eng.Ctx, r *eng.Report, rule string) {
	r.Min(rule, 1)
	fn := c.Func(acctPkg, "(*AccountDB).GetERC20Key")
	if !r.Anchor(fn != nil, rule, "(*AccountDB).GetERC20Key") {
		return
	}
	bad := ""
	for _, re := range eng.Returns(fn) {
		v := re.Incoming(0)
		ok := false
		if sl, isSl := v.(*ssa.Slice); isSl {
			if _, isAlloc := sl.X.(*ssa.Alloc); isAlloc {
				ok = true
			}
		}
		if _, isMk := v.(*ssa.MakeSlice); isMk {
			ok = true
		}
		if !ok {
			bad = eng.Desc(v)
		}
	}
	r.Check(bad == "", rule, "GetERC20Key:fresh", c.Pos(fn.Pos()), "returns a slice of an array allocated in the call", "GetERC20Key returns "+bad+", memory that outlives the call and is overwritten by the next one: accountObject.SetData journals the key slice it is given, so after two balance writes both journal entries name the second key — RevertToSnapshot restores both old balances into that one slot, the sender stays debited and the recipient keeps the sender's old balance")
}

// c06StakeConversionExact: see R6.11.
func c06StakeConversionExact(c *eng.Ctx, r *eng.Report) {
	const rule = "R6.11"
	r.Min(rule, 1)
	fn := c.Func("utility", "Float64ToBigInt")
	if !r.Anchor(fn != nil, rule, "utility.Float64ToBigInt") {
		return
	}
	var mul *eng.Site
	sites := eng.Sites(fn)
	for i := range sites {
		if sites[i].Name() == "(*math/big.Float).Mul" {
			mul = &sites[i]
		}
	}
	if !r.Anchor(mul != nil, rule, "Float64ToBigInt: (*big.Float).Mul") {
		return
	}
	z := eng.ResolveLocal(mul.Common().Args[0])
	ok, got := false, int64(53)
	for _, s := range sites {
		if s.Name() != "(*math/big.Float).SetPrec" || eng.ResolveLocal(s.Common().Args[0]) != z {
			continue
		}
		if k, isK := eng.ConstInt(s.Common().Args[1]); isK && eng.Dominates(s.Instr, mul.Instr) {
			got = k
			ok = k >= 113
		}
	}
	r.Check(ok, rule, "stake-conversion:exact", c.Pos(mul.Pos()), fmt.Sprintf("the product is computed at %d bits of precision", got), fmt.Sprintf("Float64ToBigInt multiplies by 10^18 in a big.Float of %d bits: the product of a 53-bit mantissa and 10^18 needs up to 113 bits, so it is rounded — AddMiner/AddStake lock 2364999999999999737856 wei for a stake of 2365 while the refund path (Uint64ToBigInt) pays back 2365·10^18: the round trip mints 262144 wei", got))
}

// c06GasBudgetIsBilledLimit: see R6.12.
func c06GasBudgetIsBilledLimit(c *eng.Ctx, r *eng.Report) {
	const rule = "R6.12"
	r.Min(rule, 1)
	fn := c.Func("executor", "(*contractExecutor).Execute")
	if !r.Anchor(fn != nil, rule, "executor.(*contractExecutor).Execute") {
		return
	}
	var budget, billed ssa.Value
	var billedPos token.Pos
	for _, b := range fn.Blocks {
		for _, in := range b.Instrs {
			switch x := in.(type) {
			case *ssa.Store:
				if t, f := eng.FieldOf(x.Addr); f == "GasLimit" && strings.HasSuffix(t, "vm.Context") {
					if bo, ok := x.Val.(*ssa.BinOp); ok && bo.Op == token.SUB {
						budget = eng.ResolveLocal(bo.X)
					}
				}
			case *ssa.BinOp:
				if x.Op != token.SUB {
					continue
				}
				// limit − leftOverGas: the subtrahend comes out of the EVM call
				if strings.Contains(eng.Desc(x.Y), ".Create(") || strings.Contains(eng.Desc(x.Y), ".Call(") {
					billed = eng.ResolveLocal(x.X)
					billedPos = x.Pos()
				}
			}
		}
	}
	if !r.Anchor(budget != nil && billed != nil, rule, "Execute: vmCtx.GasLimit = limit − intrinsicGas and gasUsed = limit − leftOverGas") {
		return
	}
	// the two sites sit under two separate IsProposal015() tests, so the billed value is a phi of the budget's value
	// and the untouched limit: compare what can flow into each (the requested limit and every ceiling)
	leaves := func(v ssa.Value) string {
		set := map[string]bool{}
		seen := map[ssa.Value]bool{}
		var walk func(v ssa.Value)
		walk = func(v ssa.Value) {
			if v == nil || seen[v] {
				return
			}
			seen[v] = true
			if phi, ok := v.(*ssa.Phi); ok {
				for _, e := range phi.Edges {
					walk(e)
				}
				return
			}
			set[eng.Desc(v)] = true
		}
		walk(v)
		var out []string
		for k := range set {
			out = append(out, k)
		}
		sort.Strings(out)
		return strings.Join(out, " | ")
	}
	lb, ll := leaves(budget), leaves(billed)
	r.Check(budget == billed || lb == ll, rule, "gas-budget:billed-limit", c.Pos(billedPos), "budget and bill are computed from the same limit and ceilings ("+lb+")", "contractExecutor.Execute gives the EVM a budget computed from {"+lb+"} but bills gasUsed against {"+ll+"}: when the requested limit exceeds the per-height ceiling by more than the gas actually used, leftOverGas is larger than the billed limit, gasUsed wraps around uint64, the fee (~1.8e28 wei) cannot be debited from the sender — SubBalance fails silently — and is still credited to the fee account")
}
