package rules

import (
	"fmt"
	"go/token"
	"go/types"
	"os"
	"sort"
	"strings"

	"golang.org/x/tools/go/ssa"

	"verif/checker/eng"
)

func init() { register("C01", c01) }

// c01Cone is the execution cone: everything reachable from the block executor,
// cut at logging/mysql/notify and at the clock helper (whose call sites are the hits).
func c01Cone(c *eng.Ctx, r *eng.Report, rule string) *eng.Cone {
	ex := c.Func("core", "(*VMExecutor).Execute")
	if !r.Anchor(ex != nil, rule, "core.(*VMExecutor).Execute") {
		return nil
	}
	// the roots a verifier compares are computed from the execution's output by
	// calcReceiptsTree / calcTxTree: part of the same function of the inputs
	entries := []*ssa.Function{ex}
	for _, n := range []string{"calcReceiptsTree", "calcTxTree"} {
		f := c.Func("core", n)
		if r.Anchor(f != nil, rule, "core."+n) {
			entries = append(entries, f)
		}
	}
	return c.ConeOf(entries, func(fn *ssa.Function) bool {
		if eng.FuncName(fn) == "utility.GetTime" {
			return false
		}
		return eng.StdBoundary(fn)
	})
}

// reviewedND: construct key → (class, reason). Classes are re-verified mechanically.
var reviewedND = map[string][2]string{
	"map-range:(*service.RefundManager).Add#0":                        {"keyed-commutative", "each iteration merges one height's refund list into the slot keyed by that height; slots of distinct keys are disjoint"},
	"map-range:(*service.RefundManager).CheckAndMove#0":               {"keyed-commutative", "credits each address by its own amount (commutative big.Int addition per distinct key) and removes the ranged key"},
	"map-range:(*service.RewardCalculator).CalculateReward#0":         {"keyed-commutative", "adds one RefundInfo per distinct address; the only consumer, RefundManager.Add, writes one slot per id"},
	"map-range:(*service.RewardCalculator).calculateRewardPerBlock#0": {"keyed-commutative", "writes result[addr] += share for the ranged proposer only"},
	"map-range:(*service.RewardCalculator).calculateRewardPerBlock#1": {"keyed-commutative", "writes result[addr] += share for the ranged validator only"},
	"map-range:(*storage/account.AccountDB).Finalise#0":               {"trie-order-independent", "feeds the account trie, whose root does not depend on insertion order (C02)"},
	"map-range:(*storage/account.accountObject).updateTrie#0":         {"trie-order-independent", "feeds the storage trie (C02); deletes the ranged key"},
	"map-range:(*storage/account.accountObject).getAllRefund#0":       {"keyed-commutative", "copies entries into a result map keyed by the same key"},
	"map-range:(*storage/trie.cachedNode).childs#0":                   {"order-insensitive-consumer", "child hash list is only used for reference counting in the node cache"},
	"map-range:service.ChangeAssets#0":                                {"sorted-after", "collects the keys, sorts them, and only then transfers (fix 9e782cd)"},
	"map-range:(*core.VMExecutor).generateCode#0":                     {"out-of-scope", "sub-chain only (common.IsSub()): builds call data for the genesis economy contract; effect on state depends on that contract's bytecode — excluded from the claim, listed"},
	"global-store:(*storage/account.AccountDB).loadContractCache#0":   {"write-once-cache", "lazy cache of the immutable RPG binding address read from state; AddERC20Binding refuses to overwrite the binding"},
	"global-store:storage/rlp.cachedTypeInfo1#0":                      {"type-keyed-memo", "RLP codec table memoised per Go type (and struct tags): a hit and a miss yield the same encoder/decoder, guarded by typeCacheMutex"},
	"global-store:common.GetBlocksPerEpoch#0":                         {"config-constant", "lazy initialisation of a constant derived from configuration"},
	"global-store:common.GetRefundBlocks#0":                           {"config-constant", "lazy initialisation of a constant derived from configuration"},
	"global-store:common.GetRewardBlocks#0":                           {"config-constant", "lazy initialisation of a constant derived from configuration"},
	"cache:core.blockChain.topBlocks":                                 {"store-cache", "LRU in front of the height index; entries are removed when a block is removed (remove → topBlocks.Remove), so it answers as the store does; the read itself is reviewed in storeReads (calcDifficulty)"},
	"cache:storage/account.AccountDB.accountObjects":                  {"state-local", "per-AccountDB object cache: part of the state object being executed on, not shared between states"},
	"cache:storage/account.storageDB.codeCache":                       {"content-addressed", "contract code keyed by its hash: a hit and a miss return the same bytes"},
	"cache:storage/account.storageDB.codeSizeCache":                   {"content-addressed", "code size keyed by code hash"},
	"shared-object:service.MinerManagerImpl":                          {"stateless-service", "façade over the AccountDB passed in; its methods called from the cone write none of its fields (re-checked)"},
	"shared-object:service.RefundManagerImpl":                         {"stateless-service", "façade over the AccountDB passed in"},
	"shared-object:service.RewardCalculatorImpl":                      {"stateless-service", "pure calculation over the block and the AccountDB passed in"},
	"shared-object:service.txpoolInstance":                            {"receiver-blind", "the transaction pool singleton; the only method executors call on it, ProcessFee, never looks at the pool — it moves the fee inside the AccountDB passed in (re-checked: no callee reads or writes its receiver)"},
	"shared-object:middleware.AccountDBManagerInstance":               {"chain-store", "GetLatestStateDB is only a nil-argument fallback of MinerManager getters; executors always pass the state under execution"},
	"shared-object:core.groupChainImpl":                               {"chain-store", "group lookups, reviewed call by call in storeReads (R1.1s)"},
	"shared-object:core.blockChainImpl":                               {"chain-store", "header lookup below the fork window, reviewed in storeReads (R1.1s)"},
	"shared-object:core.SyncProcessor":                                {"chain-store", "fork-aware group lookup (sub-chain reward), reviewed in storeReads (R1.1s)"},
	"shared-object:common.hasherPool":                                 {"reset-pool", "pool of sha256 states; Sha256 calls Reset() on the state right after Get"},
	"shared-object:rlp.encbufPool":                                    {"reset-pool", "pool of RLP encode buffers; Encode/EncodeToBytes/EncodeToReader call reset() right after Get"},
	"shared-object:trie.hasherPool":                                   {"reset-pool", "pool of trie hashers; newHasher re-assigns the per-call fields, the keccak state and the scratch buffer are Reset() at each use (hasher.store/makeHashNode)"},
	"shared-object:vm.stackPool":                                      {"reset-pool", "pool of operand stacks; returnStack truncates data before Put"},
	"shared-object:vm.rStackPool":                                     {"reset-pool", "pool of return stacks; returnRStack truncates data before Put"},
	"shared-object:bls12381.x":                                        {"immutable-value", "curve parameter, read with Bit/BitLen only"},
	"shared-object:bn256.curveLattice":                                {"stateless-service", "lattice constants for GLV decomposition; Multi allocates its result"},
	"shared-object:executor.ErrIntrinsicGas":                          {"immutable-value", "error value, Error() only"},
	"shared-object:executor.ten":                                      {"immutable-value", "big.Int constant, Cmp only"},
	"shared-object:vm.ErrNonceTooHigh":                                {"immutable-value", "error value, Error() only"},
	"shared-object:vm.ErrNonceTooLow":                                 {"immutable-value", "error value, Error() only"},
	"clock:(*core.VMExecutor).Execute#0":                              {"casting-only", "start time of block casting"},
	"clock:(*core.VMExecutor).Execute#1":                              {"casting-only", "casting time-out (the proposer's own packing limit; verifiers re-execute the packed list)"},
	"clock:(*core.VMExecutor).Execute#2":                              {"log-only", "elapsed time for the performance log"},
}

// trieLoopCallees: what one iteration of a reviewed trie-feeding map range may call.
var trieLoopCallees = map[string][]string{
	"(*storage/account.AccountDB).Finalise":       {"(*sync.Map).Load", "(*storage/account.accountObject).empty", "(*storage/account.AccountDB).deleteAccountObject", "(*storage/account.accountObject).updateRoot", "(*storage/account.AccountDB).updateAccountObject"},
	"(*storage/account.accountObject).updateTrie": {"(*storage/account.accountObject).setError", ".TryDelete", ".TryUpdate"},
}

// storeReads: reviewed reads of the block/group stores from inside the cone
// (caller → accessor); anything else consults process-local chain state.
var storeReads = map[string]string{
	"executor.getBlockHashFn$1→GetBlockHash":                               "BLOCKHASH: served by context[\"chain\"], which is the fork-aware SyncProcessor when situation == \"fork\"",
	"vm.opBlockhash→GetBlockHash":                                          "BLOCKHASH opcode: the GetHash function value installed by the contract executor from context[\"chain\"] (fork-aware on the fork edge)",
	"(*core.VMExecutor).calcDifficulty→QueryBlockHeaderByHeight":           "looks GetRewardBlocks() heights back, below any fork window, so both branches agree on that header",
	"(*service.RefundManager).getRefundHeight→GetAvailableGroupsByMinerId": "group lookup through groupChainHelper / forkHelper selected by situation",
	"(*core.VMExecutor).calcSubReward→GetGroupById":                        "sub-chain reward (IsSub only)",
	"(*service.RewardCalculator).calculateRewardPerBlock→GetGroupById":     "group of the block being executed, through forkHelper on the fork edge",
}

func c01(c *eng.Ctx, r *eng.Report) {
	r.Explain = "Replica determinism of block execution as cone purity plus ordering rules: " +
		"R1.1 the call-graph cone of VMExecutor.Execute and of the two root functions applied to its output, calcReceiptsTree and calcTxTree (≈1,090 functions, cut at logging/mysql/notify) contains no unreviewed nondeterminism source — map range, wall clock, goroutine, select/channel, sync.Map.Range, math/rand, crypto/rand, environment reads, package-variable stores — and every reviewed hit still has the mechanically checkable shape of its class (no early exit from a map range, appended slices sorted before use, clock value only on the casting edge or only into a logger); reads of the block/group stores from the cone are the reviewed ones; " +
		"R1.6 every module type whose methods write their own receiver inside the cone is a reviewed per-execution, state or value type (never an executor/manager/service instance that outlives the execution), and no package-level variable holds an instance of one; " +
		"R1.7 (= R11.17) what a contract call costs does not depend on how many EVMs this process built before: the jump table an interpreter re-prices for its fork is built for it by newInstructionSet(), from no package-level table or operation (the adjusters write through *operation pointers — a mutation of shared process state that no package-variable store reveals); R1.2 transactions are sorted before execution unless casting, and the proposer sorts before running them; R1.3 every failed executor run is followed by RevertToSnapshot of the snapshot taken immediately before it; R1.4 no fused multiply-add shape in floating-point code of the cone; R1.5 receipt JSON contains no order-unstable map. " +
		"Not decided: that the deterministic code computes the right root; the sub-chain reward call; float rounding across architectures beyond R1.4."
	r.Assume = []string{"VTA call graph over-approximates callees", "logging, mysql index and notify bus do not feed consensus state", "Go sorts map keys in encoding/json"}
	cone := c01Cone(c, r, "R1.1")
	if cone == nil {
		return
	}
	c01Purity(c, r, cone)
	c01ReceiverState(c, r, cone)
	// R1.7: the opcode price table belongs to one interpreter (C11's R11.17 under this property's id): the fork
	// adjusters write through the table's *operation pointers, which no store to a package variable shows
	sub := eng.NewReport(r.Prop, r.Tier)
	c11OwnJumpTable(c, sub)
	for _, o := range sub.Obls {
		o.Rule = "R1.7"
		r.Obls = append(r.Obls, o)
	}
	r.Min("R1.7", 2)
	c01StoreReads(c, r, cone)
	c01Order(c, r)
	c01Bracket(c, r)
	c01FMA(c, r, cone)
	c01JSON(c, r)
}

func c01Purity(c *eng.Ctx, r *eng.Report, cone *eng.Cone) {
	const rule = "R1.1"
	r.Min(rule, 16)
	nFn := 0
	seen := map[string]bool{}
	shared := map[string][]eng.NDHit{}
	for _, fn := range cone.Sorted() {
		if !eng.InMod(fn) || fn.Blocks == nil {
			continue
		}
		nFn++
		if eng.FuncName(fn) == "utility.GetTime" {
			continue // cone boundary: its call sites are the clock hits
		}
		for _, h := range eng.ScanNondeterminism(fn) {
			key := fmt.Sprintf("%s:%s#%d", h.Kind, eng.FuncName(fn), h.Seq)
			if h.Kind == "shared-object" {
				shared[h.Recv] = append(shared[h.Recv], h)
				continue
			}
			if h.Kind == "cache" {
				// keyed by the cache object (struct field), not by call site
				key = "cache:" + h.Recv
				if seen[key] {
					continue
				}
			}
			seen[key] = true
			pos := c.Pos(h.Pos)
			rv, ok := reviewedND[key]
			if !ok && h.Kind == "map-range" && c01CollectsAndSorts(h) {
				// decided by shape, wherever it stands: an iteration does nothing but append to a slice (no call, no
				// early exit, no carried condition) and the slice is handed to sort.* after the loop
				r.Pass(rule, key, pos, "collects into a slice that is sorted after the loop; an iteration calls nothing")
				continue
			}
			if !ok {
				r.Fail(rule, key, pos, h.Detail+" inside the execution cone ("+cone.PathTo(fn)+") is not in the reviewed table: a source of replica-local nondeterminism that can reach the state root, receipts or evicted list")
				continue
			}
			if msg := classHolds(c, h, rv[0]); msg != "" {
				r.Fail(rule, key, pos, "reviewed as "+rv[0]+" but no longer has that shape: "+msg)
				continue
			}
			if rv[0] == "out-of-scope" {
				r.Info(rule, key, pos, rv[1])
				continue
			}
			r.Pass(rule, key, pos, rv[0]+": "+rv[1])
		}
	}
	r.Extra["cone_functions"] = nFn
	if nFn < 600 {
		r.Fail(rule, "cone-size", "", fmt.Sprintf("execution cone has only %d functions (≈1,090 expected): the call graph lost sight of the executors", nFn))
	}
	c01Shared(c, r, cone, shared, seen)
	for k := range reviewedND {
		if !seen[k] {
			r.Info(rule, "stale:"+k, "", "reviewed entry matches nothing in the current tree")
		}
	}
}

// readOnlyMethods: methods that do not modify their receiver (math/big, error values).
var readOnlyMethods = map[string]bool{"Cmp": true, "CmpAbs": true, "Bit": true, "BitLen": true, "Sign": true, "Error": true, "IsUint64": true, "IsInt64": true,
	"Uint64": true, "Int64": true, "Bytes": true, "String": true, "Text": true, "Bits": true, "TrailingZeroBits": true, "ProbablyPrime": false}

// c01Shared decides the objects held in package-level variables that the
// execution cone calls methods on — one obligation per object.
func c01Shared(c *eng.Ctx, r *eng.Report, cone *eng.Cone, shared map[string][]eng.NDHit, seen map[string]bool) {
	const rule = "R1.1"
	var names []string
	for g := range shared {
		names = append(names, g)
	}
	sort.Strings(names)
	for _, g := range names {
		hits := shared[g]
		key := "shared-object:" + strings.TrimPrefix(g, "global:")
		seen[key] = true
		first := hits[0]
		rv, ok := reviewedND[key]
		if !ok {
			r.Fail(rule, key, c.Pos(first.Pos), first.Detail+" inside the execution cone ("+cone.PathTo(first.Fn)+"): the object is shared by every state and goroutine of the process and is not in the reviewed table; if the call changes it, what an execution computes depends on what else ran in this process")
			continue
		}
		msg := ""
		for _, h := range hits {
			call := &struct{ Call ssa.CallCommon }{*eng.HitCommon(h)}
			switch rv[0] {
			case "immutable-value":
				m := ""
				if call.Call.IsInvoke() {
					m = call.Call.Method.Name()
				} else if f := call.Call.StaticCallee(); f != nil {
					m = f.Name()
				}
				if !readOnlyMethods[m] {
					msg = "method " + m + " is not a read-only accessor (" + c.Pos(h.Pos) + ")"
				}
			case "reset-pool":
				// decided once for the whole pool below
			case "receiver-blind":
				// every method body the site can dispatch to ignores its receiver
				n := 0
				if node := c.CG().Nodes[h.Fn]; node != nil {
					for _, e := range node.Out {
						if e.Site != h.Instr || e.Callee.Func == nil {
							continue
						}
						f := e.Callee.Func
						for f.Synthetic != "" && len(f.Blocks) == 1 { // interface / bound thunk
							next := (*ssa.Function)(nil)
							for _, in := range f.Blocks[0].Instrs {
								if cl, isCl := in.(ssa.CallInstruction); isCl && cl.Common().StaticCallee() != nil {
									next = cl.Common().StaticCallee()
								}
							}
							if next == nil {
								break
							}
							f = next
						}
						n++
						if !eng.InMod(f) || f.Blocks == nil || len(f.Params) == 0 {
							msg = "call " + h.Detail + " dispatches to " + eng.FuncName(f) + ", which cannot be inspected (" + c.Pos(h.Pos) + ")"
							break
						}
						if refs := f.Params[0].Referrers(); refs != nil {
							for _, ref := range *refs {
								if _, dbg := ref.(*ssa.DebugRef); !dbg {
									msg = eng.FuncName(f) + " uses the shared object it is called on (" + c.Pos(ref.Pos()) + "): what it returns or does then depends on what this node's pool holds — transactions received, executed index, evicted set — not only on (parent state, header, transaction list)"
								}
							}
						}
					}
				}
				if n == 0 && msg == "" {
					msg = "call " + h.Detail + " has no resolved callee (" + c.Pos(h.Pos) + ")"
				}
			case "stateless-service", "chain-store":
				f := call.Call.StaticCallee()
				if f == nil || !eng.InMod(f) || len(f.Params) == 0 {
					msg = "call " + h.Detail + " cannot be resolved to a module method (" + c.Pos(h.Pos) + ")"
					break
				}
				// the method must not store into its own receiver
				for _, b := range f.Blocks {
					for _, in := range b.Instrs {
						var addr ssa.Value
						switch x := in.(type) {
						case *ssa.Store:
							addr = x.Addr
						case *ssa.MapUpdate:
							addr = x.Map
						default:
							continue
						}
						root := addr
						for i := 0; i < 6; i++ {
							switch y := root.(type) {
							case *ssa.FieldAddr:
								root = y.X
								continue
							case *ssa.IndexAddr:
								root = y.X
								continue
							case *ssa.UnOp:
								root = y.X
								continue
							}
							break
						}
						if root == ssa.Value(f.Params[0]) {
							if rv[0] == "chain-store" {
								continue // chain objects are governed by R1.1s (who may read) and C05 (who may write)
							}
							msg = eng.FuncName(f) + " writes a field of the shared object (" + c.Pos(in.Pos()) + ")"
						}
					}
				}
			}
		}
		if rv[0] == "reset-pool" {
			// a sync.Pool of scratch objects: whatever comes out is re-initialised right after Get (Reset()/reset()
			// or field assignments) in every taker, or emptied before Put in every giver
			resets := func(fn *ssa.Function, before ssa.Instruction) bool {
				for _, s2 := range eng.Sites(fn) {
					n2 := s2.Name()
					if strings.HasSuffix(n2, ").Reset") || strings.HasSuffix(n2, ").reset") || strings.HasSuffix(n2, ".Reset") {
						return true
					}
				}
				for _, b := range fn.Blocks {
					for _, in := range b.Instrs {
						if st, isSt := in.(*ssa.Store); isSt {
							if _, isFA := st.Addr.(*ssa.FieldAddr); isFA && (before == nil || eng.Dominates(st, before)) {
								return true
							}
						}
					}
				}
				return false
			}
			getOK, putOK, nGet, nPut := true, true, 0, 0
			for _, h := range hits {
				call := &struct{ Call ssa.CallCommon }{*eng.HitCommon(h)}
				f := call.Call.StaticCallee()
				switch {
				case f != nil && f.Name() == "Get":
					nGet++
					getOK = getOK && resets(h.Fn, nil)
				case f != nil && f.Name() == "Put":
					nPut++
					putOK = putOK && resets(h.Fn, h.Instr)
				default:
					msg = "unexpected pool operation " + h.Detail
				}
			}
			if msg == "" && !((nGet > 0 && getOK) || (nPut > 0 && putOK)) {
				msg = fmt.Sprintf("neither every taker re-initialises the object after Get (%d sites, ok=%v) nor every giver empties it before Put (%d sites, ok=%v)", nGet, getOK, nPut, putOK)
			}
		}
		if msg != "" {
			r.Fail(rule, key, c.Pos(first.Pos), "reviewed as "+rv[0]+" but "+msg+": the object is shared by the whole process")
			continue
		}
		r.Pass(rule, key, c.Pos(first.Pos), fmt.Sprintf("%s: %s (%d call sites in the cone)", rv[0], rv[1], len(hits)))
	}
}

// classHolds re-verifies the mechanical part of a class; "" = holds.
func classHolds(c *eng.Ctx, h eng.NDHit, class string) string {
	switch h.Kind {
	case "map-range":
		lp := eng.LoopOfRange(h.Instr.(*ssa.Range))
		if lp == nil {
			return "loop not recognised"
		}
		if class == "out-of-scope" {
			return ""
		}
		if len(lp.EarlyExits) > 0 {
			return fmt.Sprintf("the loop can exit early (return/break in block %d): which entries were processed depends on map order", lp.EarlyExits[0].Index)
		}
		if lp.StrConcat {
			return "the loop concatenates strings in map order"
		}
		if class == "trie-order-independent" {
			// the trie absorbs the order in which entries are fed to it — provided an iteration does nothing else:
			// every call in the loop body is one of the reviewed per-entry feeders of that loop
			allowed := trieLoopCallees[eng.FuncName(h.Fn)]
			for b := range lp.Body {
				for _, in := range b.Instrs {
					call, isCall := in.(ssa.CallInstruction)
					if !isCall {
						continue
					}
					nm := eng.CallName(call.Common())
					if strings.HasPrefix(nm, "builtin:") {
						continue
					}
					ok := false
					for _, a := range allowed {
						if nm == a || strings.HasSuffix(nm, a) {
							ok = true
						}
					}
					if !ok {
						return "an iteration now also calls " + nm + " (" + c.Pos(in.Pos()) + "), which is not one of the reviewed per-entry trie feeders of this loop: if it touches anything but the entry being visited (another account's storage, a counter), the result depends on which entries were visited before"
					}
				}
			}
		}
		if class != "trie-order-independent" {
			if m := lp.CarriedCond(); m != "" {
				return "the loop body takes a " + m + ": what an iteration does depends on which entries were visited before it"
			}
		}
		if len(lp.Appends) > 0 {
			switch class {
			case "sorted-after":
				if !sortedAfter(h.Fn, lp) {
					return "slice built in the loop is not passed to sort.* after the loop"
				}
			case "order-insensitive-consumer", "keyed-commutative":
				// reviewed: appended list's consumer is order-insensitive (reason recorded)
			default:
				return "the loop appends to a slice in map order"
			}
		}
	case "clock":
		call, isCall := h.Instr.(*ssa.Call)
		if !isCall {
			return "the clock is read in a deferred call"
		}
		switch class {
		case "casting-only":
			ok := false
			for _, cd := range eng.CondsAt(call) {
				if m, isM := cd.Cmp(); isM && m.Op == token.EQL && strings.HasSuffix(eng.Desc(m.X), ".situation") && eng.Desc(m.Y) == `"casting"` {
					ok = true
				}
			}
			if !ok {
				return "clock is read outside the edge situation == \"casting\""
			}
		case "log-only":
			if bad := flowsOutsideLog(call); bad != "" {
				return "clock value flows into " + bad
			}
		}
	case "cache":
		if class == "content-addressed" {
			// every keyed access to this cache object, anywhere in the module, uses the content hash as key
			for _, fn := range c.ModFuncs() {
				for _, h2 := range eng.ScanNondeterminism(fn) {
					if h2.Kind != "cache" || h2.Recv != h.Recv {
						continue
					}
					call := &struct{ Call ssa.CallCommon }{*eng.HitCommon(h2)}
					m := ""
					if f := call.Call.StaticCallee(); f != nil {
						m = f.Name()
					}
					switch m {
					case "Get", "Add", "Set", "Has", "HasGet", "Contains", "Peek", "Remove", "Del", "ContainsOrAdd", "PeekOrAdd":
						// the key is the first non-nil argument after the receiver (fastcache.Get takes a destination buffer first)
						var keyArg ssa.Value
						for _, a := range call.Call.Args[1:] {
							if !eng.IsNilConst(a) {
								keyArg = a
								break
							}
						}
						if keyArg == nil || !strings.Contains(strings.ToLower(eng.Desc(keyArg)), "codehash") {
							return eng.FuncName(fn) + " keys the cache by " + eng.Desc(keyArg) + " (" + c.Pos(h2.Pos) + "), which is not the content hash: a hit may return what another state stored under the same key"
						}
					}
				}
			}
		}
	case "global-store":
		// shape: the store is under a `== zero` test of the same variable (lazy init) or in a function only called under one
		st, isStore := h.Instr.(*ssa.Store)
		if class == "type-keyed-memo" {
			// a map keyed by a Go type: the key type of the written map must contain a reflect.Type
			mu, isMU := h.Instr.(*ssa.MapUpdate)
			if !isMU || !strings.Contains(mu.Map.Type().Underlying().(*types.Map).Key().Underlying().String(), "reflect.Type") {
				return "the written package-level map is no longer keyed by reflect.Type"
			}
			return ""
		}
		if !isStore {
			return "reviewed as a plain package-variable store but is now a map write"
		}
		g, isG := st.Addr.(*ssa.Global)
		if !isG {
			if class == "config-constant" {
				return "store is no longer to the package variable itself"
			}
			return ""
		}
		if class == "config-constant" {
			ok := false
			for _, cd := range eng.CondsAt(st) {
				if m, isM := cd.Cmp(); isM && m.Op == token.EQL && strings.Contains(eng.Desc(m.X), "global:"+g.Name()) {
					ok = true
				}
			}
			if !ok {
				return "store is no longer under a `" + g.Name() + " == 0` lazy-initialisation test"
			}
		}
	}
	return ""
}

func sortedAfter(fn *ssa.Function, lp *eng.RangeLoop) bool {
	for _, s := range eng.Sites(fn) {
		n := s.Name()
		if strings.HasPrefix(n, "sort.") && !lp.Body[s.Instr.Block()] {
			// the sort call is reachable only after the loop header
			if lp.Header.Dominates(s.Instr.Block()) {
				return true
			}
		}
	}
	return false
}

// flowsOutsideLog follows the uses of a clock value; returns a description of
// the first use that is not logging, or "".
func flowsOutsideLog(v ssa.Value) string {
	seen := map[ssa.Value]bool{}
	var walk func(v ssa.Value) string
	walk = func(v ssa.Value) string {
		if seen[v] {
			return ""
		}
		seen[v] = true
		refs := v.Referrers()
		if refs == nil {
			return ""
		}
		for _, ref := range *refs {
			switch x := ref.(type) {
			case *ssa.Call:
				n := eng.CallName(&x.Call)
				switch {
				case strings.Contains(n, "middleware/log") || strings.Contains(n, "seelog") || strings.HasPrefix(n, "iface:middleware/log") || strings.HasPrefix(n, "iface:github.com/cihub/seelog"):
					// sink
				case strings.HasPrefix(n, "(time.Time).") || strings.HasPrefix(n, "(time.Duration)."):
					if m := walk(x); m != "" {
						return m
					}
				default:
					return n
				}
			case *ssa.MakeInterface, *ssa.ChangeType, *ssa.Convert:
				if m := walk(x.(ssa.Value)); m != "" {
					return m
				}
			case *ssa.Store:
				// varargs slot of a logger call: follow the backing array
				if ia, ok := x.Addr.(*ssa.IndexAddr); ok {
					if m := walk(ia.X); m != "" {
						return m
					}
				} else if al, ok := x.Addr.(*ssa.Alloc); ok {
					if m := walk(al); m != "" {
						return m
					}
				} else {
					return "a store to " + eng.Desc(x.Addr)
				}
			case *ssa.Slice:
				if m := walk(x); m != "" {
					return m
				}
			case *ssa.UnOp:
				if m := walk(x); m != "" {
					return m
				}
			case *ssa.IndexAddr:
				// element address computed for a store handled above
			case *ssa.DebugRef:
			default:
				return fmt.Sprintf("%T", ref)
			}
		}
		return ""
	}
	return walk(v)
}

func isStoreType(fn *ssa.Function) bool {
	n := eng.FuncName(fn)
	if fn.Synthetic != "" && (strings.Contains(n, "core.") || strings.Contains(n, "Helper")) {
		return true // bound-method / interface thunks are transparent
	}
	for _, t := range []string{"(*core.blockChain).", "(*core.groupChain).", "(*core.syncProcessor).", "(*core.blockChainFork).", "(*core.groupChainFork).", "(*core.GroupIterator).", "(*core.GroupForkIterator)."} {
		if strings.HasPrefix(n, t) {
			return true
		}
	}
	return false
}

func c01StoreReads(c *eng.Ctx, r *eng.Report, cone *eng.Cone) {
	const rule = "R1.1s"
	r.Min(rule, 4)
	cg := c.CG()
	seen := map[string]bool{}
	for _, fn := range cone.Sorted() {
		if !isStoreType(fn) {
			continue
		}
		n := cg.Nodes[fn]
		if n == nil {
			continue
		}
		for _, e := range n.In {
			caller := e.Caller.Func
			if !cone.Set[caller] || isStoreType(caller) {
				continue
			}
			name := eng.FuncName(fn)
			method := strings.TrimSuffix(name[strings.LastIndex(name, ".")+1:], "$bound")
			key := eng.FuncName(caller) + "→" + method
			if seen[key] {
				continue
			}
			seen[key] = true
			why, ok := storeReads[key]
			pos := ""
			if e.Site != nil {
				pos = c.Pos(e.Site.Pos())
			}
			r.Check(ok, rule, "store-read:"+key, pos, "reviewed read of chain/group store: "+why, eng.FuncName(caller)+" reads the block/group store ("+name+") during block execution: the result depends on this node's local chain, not only on (parent state, header, transaction list)")
		}
	}
}

func c01Order(c *eng.Ctx, r *eng.Report) {
	const rule = "R1.2"
	r.Min(rule, 2)
	ex := c.Func("core", "(*VMExecutor).Execute")
	if ex != nil {
		var sortCall, first *ssa.Call
		for _, s := range eng.Sites(ex) {
			if s.Name() == "sort.Sort" {
				sortCall, _ = s.Instr.(*ssa.Call)
			}
			if strings.HasPrefix(s.Name(), "iface:") && strings.HasSuffix(s.Name(), ".BeforeExecute") && first == nil {
				first, _ = s.Instr.(*ssa.Call)
			}
		}
		ok := false
		why := "no sort.Sort(txs) call in VMExecutor.Execute"
		if sortCall != nil && first != nil {
			ok = true
			why = ""
			// the only conditions guarding the sort are len(txs) != 0 and situation != "casting"
			for _, cd := range eng.CondsAt(sortCall) {
				m, isM := cd.Cmp()
				d := eng.Desc(cd.V)
				switch {
				case isM && strings.Contains(eng.Desc(m.Y), "builtin:len(") || isM && strings.Contains(eng.Desc(m.X), "builtin:len("):
				case isM && m.Op == token.NEQ && strings.HasSuffix(eng.Desc(m.X), ".situation") && eng.Desc(m.Y) == `"casting"`:
				default:
					ok, why = false, "sort.Sort(txs) is additionally conditional on "+d
				}
			}
			if !eng.Reaches(sortCall, first) {
				ok, why = false, "sort.Sort(txs) does not precede the execution loop"
			}
			// sorted value is the list that is ranged
			if ok && !strings.Contains(eng.Desc(sortCall.Call.Args[0]), ".Transactions") {
				ok, why = false, "sort.Sort is applied to "+eng.Desc(sortCall.Call.Args[0])+", not to the block's transaction list"
			}
		}
		r.Check(ok, rule, "(*core.VMExecutor).Execute:sort", c.Pos(ex.Pos()), "transactions are sorted into canonical order before the execution loop unless casting", why)
	}
	cb := c.Func("core", "(*blockChain).CastBlock")
	if r.Anchor(cb != nil, rule, "core.(*blockChain).CastBlock") {
		var sortCall ssa.Instruction
		var runs []ssa.Instruction
		for _, s := range eng.Sites(cb) {
			if s.Name() == "sort.Sort" {
				sortCall = s.Instr
			}
			if strings.HasSuffix(s.Name(), ".runTransactions") {
				runs = append(runs, s.Instr)
			}
		}
		ok := sortCall != nil && len(runs) > 0
		why := "sort.Sort or runTransactions not found in CastBlock"
		if ok {
			for _, cd := range eng.CondsAt(sortCall) {
				if m, isM := cd.Cmp(); isM && (strings.Contains(eng.Desc(m.X), "builtin:len(") || strings.Contains(eng.Desc(m.Y), "builtin:len(")) {
					continue
				}
				// an early-exit guard is fine; a condition whose other branch still runs the transactions is not
				other := cd.If.Block().Succs[1]
				if !cd.True {
					other = cd.If.Block().Succs[0]
				}
				for _, run := range runs {
					if len(other.Instrs) > 0 && (other == run.Block() || eng.Reaches(other.Instrs[0], run)) {
						ok, why = false, "sort.Sort in CastBlock is skipped when "+eng.Desc(cd.V)+" while runTransactions still runs"
					}
				}
			}
			for _, run := range runs {
				if !eng.Reaches(sortCall, run) {
					ok, why = false, "runTransactions is not preceded by sort.Sort"
				}
			}
		}
		r.Check(ok, rule, "(*core.blockChain).CastBlock:sort", c.Pos(cb.Pos()), "the proposer sorts the packed transactions before running them", why)
	}
}

func c01Bracket(c *eng.Ctx, r *eng.Report) {
	const rule = "R1.3"
	r.Min(rule, 1)
	ex := c.Func("core", "(*VMExecutor).Execute")
	if ex == nil {
		return
	}
	var snap, exec, rev *ssa.Call
	for _, s := range eng.Sites(ex) {
		call, ok := s.Instr.(*ssa.Call)
		if !ok {
			continue
		}
		switch {
		case s.Name() == "(*storage/account.AccountDB).Snapshot":
			snap = call
		case strings.HasPrefix(s.Name(), "iface:") && strings.HasSuffix(s.Name(), ".Execute"):
			exec = call
		case s.Name() == "(*storage/account.AccountDB).RevertToSnapshot":
			rev = call
		}
	}
	key := "(*core.VMExecutor).Execute:snapshot-revert"
	if snap == nil || exec == nil || rev == nil {
		r.Fail(rule, key, c.Pos(ex.Pos()), fmt.Sprintf("bracket not found (Snapshot=%v, txExecutor.Execute=%v, RevertToSnapshot=%v)", snap != nil, exec != nil, rev != nil))
		return
	}
	var msgs []string
	if rev.Call.Args[1] != ssa.Value(snap) {
		msgs = append(msgs, "RevertToSnapshot is not given the id returned by the Snapshot() taken before Execute")
	}
	if !(snap.Block() == exec.Block() && eng.Dominates(snap, exec)) {
		msgs = append(msgs, "Snapshot() does not immediately precede txExecutor.Execute in the same block")
	} else {
		// no AccountDB mutator between snapshot and execute
		for i := eng.InstrIndex(snap) + 1; i < eng.InstrIndex(exec); i++ {
			if cc, ok := snap.Block().Instrs[i].(*ssa.Call); ok && strings.HasPrefix(eng.CallName(&cc.Call), "(*storage/account.AccountDB).") {
				msgs = append(msgs, "AccountDB call between Snapshot() and Execute: "+eng.CallName(&cc.Call))
			}
		}
	}
	// revert is on the false edge of the success result and every path from exec with success==false passes it
	var success ssa.Value
	for _, ref := range *exec.Referrers() {
		if e, ok := ref.(*ssa.Extract); ok && e.Index == 0 {
			success = e
		}
	}
	onFalse := false
	for _, cd := range eng.CondsAt(rev) {
		if cd.V == success && !cd.True {
			onFalse = true
		}
	}
	if !onFalse {
		msgs = append(msgs, "RevertToSnapshot is not on the `!success` edge of txExecutor.Execute's result")
	} else {
		// between the !success branch and the revert only fork-gate conditions (IsProposalNNN) may intervene
		for _, cd := range eng.CondsAt(rev) {
			if cd.V == success {
				continue
			}
			if eng.Dominates(exec, cd.If) {
				msgs = append(msgs, "RevertToSnapshot is additionally conditional on "+eng.Desc(cd.V))
			}
		}
	}
	r.Check(len(msgs) == 0, rule, key, c.Pos(rev.Pos()), "a failed executor run is reverted to the snapshot taken immediately before it", strings.Join(msgs, "; "))
}

func c01FMA(c *eng.Ctx, r *eng.Report, cone *eng.Cone) {
	const rule = "R1.4"
	n := 0
	for _, fn := range cone.Sorted() {
		if !eng.InMod(fn) || fn.Blocks == nil {
			continue
		}
		for _, b := range fn.Blocks {
			for _, in := range b.Instrs {
				bo, ok := in.(*ssa.BinOp)
				if !ok || (bo.Op != token.ADD && bo.Op != token.SUB) {
					continue
				}
				bt, ok := bo.Type().Underlying().(*types.Basic)
				if !ok || bt.Info()&types.IsFloat == 0 {
					continue
				}
				n++
				fused := false
				for _, op := range []ssa.Value{bo.X, bo.Y} {
					if m, ok := op.(*ssa.BinOp); ok && m.Op == token.MUL {
						fused = true // x*y ± z without an explicit conversion in between may be fused on arm64/ppc64/s390x
					}
				}
				r.Check(!fused, rule, fmt.Sprintf("float-addsub:%s@%d", eng.FuncName(fn), n), c.Pos(bo.Pos()), "no fusable multiply-add shape", "floating-point x*y±z without an explicit float64() around the product: the Go spec lets some architectures fuse it, giving replicas different rounded results")
			}
		}
	}
	if n == 0 {
		r.Pass(rule, "float-addsub:none", "", "no floating-point add/sub in the execution cone (the rule exists for regressions)")
	}
}

func c01JSON(c *eng.Ctx, r *eng.Report) {
	const rule = "R1.5"
	rec := c.Named("middleware/types", "Receipt")
	if !r.Anchor(rec != nil, rule, "middleware/types.Receipt") {
		return
	}
	var bad []string
	seen := map[types.Type]bool{}
	var walk func(t types.Type, path string)
	walk = func(t types.Type, path string) {
		if seen[t] {
			return
		}
		seen[t] = true
		switch x := t.Underlying().(type) {
		case *types.Struct:
			for i := 0; i < x.NumFields(); i++ {
				f := x.Field(i)
				if !f.Exported() {
					continue
				}
				walk(f.Type(), path+"."+f.Name())
			}
		case *types.Pointer:
			walk(x.Elem(), path)
		case *types.Slice:
			walk(x.Elem(), path+"[]")
		case *types.Array:
			walk(x.Elem(), path+"[]")
		case *types.Map:
			kb, ok := x.Key().Underlying().(*types.Basic)
			if !ok || kb.Info()&(types.IsString|types.IsInteger) == 0 {
				bad = append(bad, path+" (map with key "+x.Key().String()+")")
			}
			walk(x.Elem(), path+"{}")
		case *types.Interface:
			if x.NumMethods() == 0 {
				bad = append(bad, path+" (interface{}: may hold an order-unstable value)")
			}
		}
	}
	walk(rec, "Receipt")
	sort.Strings(bad)
	r.Check(len(bad) == 0, rule, "type:middleware/types.Receipt", c.Pos(rec.Obj().Pos()), "every type reachable from Receipt marshals deterministically (no map with non-string/int key, no interface{})", "receipt JSON is not order-stable: "+strings.Join(bad, ", "))
}

// c01CollectsAndSorts: the generic order-insensitive map walk.
func c01CollectsAndSorts(h eng.NDHit) bool {
	rg, ok := h.Instr.(*ssa.Range)
	if !ok {
		if os.Getenv("RR_DEBUG") != "" {
			fmt.Fprintf(os.Stderr, "collect-and-sort %s: instr is %T\n", eng.FuncName(h.Fn), h.Instr)
		}
		return false
	}
	lp := eng.LoopOfRange(rg)
	if lp == nil || len(lp.EarlyExits) > 0 || lp.StrConcat || lp.CarriedCond() != "" || len(lp.Appends) == 0 {
		if os.Getenv("RR_DEBUG") != "" {
			fmt.Fprintf(os.Stderr, "collect-and-sort %s: lp=%v exits=%d concat=%v carried=%q appends=%d\n", eng.FuncName(h.Fn), lp != nil, len(lp.EarlyExits), lp.StrConcat, lp.CarriedCond(), len(lp.Appends))
		}
		return false
	}
	for b := range lp.Body {
		for _, in := range b.Instrs {
			if call, isCall := in.(ssa.CallInstruction); isCall && !strings.HasPrefix(eng.CallName(call.Common()), "builtin:") {
				if os.Getenv("RR_DEBUG") != "" {
					fmt.Fprintf(os.Stderr, "collect-and-sort %s: body calls %s\n", eng.FuncName(h.Fn), eng.CallName(call.Common()))
				}
				return false
			}
			if st, isStore := in.(*ssa.Store); isStore {
				// the variadic argument array of append(s, k) is a fresh local
				if ia, isIA := st.Addr.(*ssa.IndexAddr); isIA {
					if _, isAl := ia.X.(*ssa.Alloc); isAl {
						continue
					}
				}
				if os.Getenv("RR_DEBUG") != "" {
					fmt.Fprintf(os.Stderr, "collect-and-sort %s: store %s\n", eng.FuncName(h.Fn), in)
				}
				return false
			}
			if _, isMU := in.(*ssa.MapUpdate); isMU {
				return false
			}
		}
	}
	if os.Getenv("RR_DEBUG") != "" {
		fmt.Fprintf(os.Stderr, "collect-and-sort %s: sortedAfter=%v\n", eng.FuncName(h.Fn), sortedAfter(h.Fn, lp))
	}
	return sortedAfter(h.Fn, lp)
}
