package rules

import (
	"fmt"

	"golang.org/x/tools/go/ssa"

	"verif/checker/eng"
)

// rowFx pairs a jump-table row with the abstract-interpretation result of its handler.
type rowFx struct {
	Row *eng.OpRow
	Fx  *eng.HandlerFx
}

func analyseRows(c *eng.Ctx, r *eng.Report, rule string) []rowFx {
	rows, probs := c.JumpTable()
	for _, p := range probs {
		r.Fail(rule, "jump-table-shape", "", p)
	}
	type ck struct {
		fn   *ssa.Function
		args string
	}
	cache := map[ck]*eng.HandlerFx{}
	var out []rowFx
	for _, row := range rows {
		if row.Exec == nil {
			r.Fail(rule, "row:"+row.Name, c.Pos(row.Pos), "row has no resolvable execute function")
			continue
		}
		k := ck{row.Exec, fmt.Sprint(row.MakerArgs)}
		fx := cache[k]
		if fx == nil {
			fx = c.HandlerStackFx(row.Exec, row.MakerArgs)
			cache[k] = fx
		}
		out = append(out, rowFx{row, fx})
	}
	return out
}

// yellowPaper is the (δ, α) table of the Ethereum Yellow Paper / EIPs for the
// standard opcodes — an oracle independent of the repository.
var yellowPaper = map[string][2]int64{
	"STOP": {0, 0}, "ADD": {2, 1}, "MUL": {2, 1}, "SUB": {2, 1}, "DIV": {2, 1}, "SDIV": {2, 1}, "MOD": {2, 1}, "SMOD": {2, 1},
	"ADDMOD": {3, 1}, "MULMOD": {3, 1}, "EXP": {2, 1}, "SIGNEXTEND": {2, 1},
	"LT": {2, 1}, "GT": {2, 1}, "SLT": {2, 1}, "SGT": {2, 1}, "EQ": {2, 1}, "ISZERO": {1, 1}, "AND": {2, 1}, "OR": {2, 1}, "XOR": {2, 1}, "NOT": {1, 1}, "BYTE": {2, 1},
	"SHL": {2, 1}, "SHR": {2, 1}, "SAR": {2, 1}, "SHA3": {2, 1},
	"ADDRESS": {0, 1}, "BALANCE": {1, 1}, "ORIGIN": {0, 1}, "CALLER": {0, 1}, "CALLVALUE": {0, 1}, "CALLDATALOAD": {1, 1}, "CALLDATASIZE": {0, 1}, "CALLDATACOPY": {3, 0},
	"CODESIZE": {0, 1}, "CODECOPY": {3, 0}, "GASPRICE": {0, 1}, "EXTCODESIZE": {1, 1}, "EXTCODECOPY": {4, 0}, "RETURNDATASIZE": {0, 1}, "RETURNDATACOPY": {3, 0}, "EXTCODEHASH": {1, 1},
	"BLOCKHASH": {1, 1}, "COINBASE": {0, 1}, "TIMESTAMP": {0, 1}, "NUMBER": {0, 1}, "DIFFICULTY": {0, 1}, "GASLIMIT": {0, 1}, "CHAINID": {0, 1}, "SELFBALANCE": {0, 1},
	"BASEFEE": {0, 1}, "BLOBHASH": {1, 1}, "BLOBBASEFEE": {0, 1},
	"POP": {1, 0}, "MLOAD": {1, 1}, "MSTORE": {2, 0}, "MSTORE8": {2, 0}, "SLOAD": {1, 1}, "SSTORE": {2, 0}, "JUMP": {1, 0}, "JUMPI": {2, 0}, "PC": {0, 1}, "MSIZE": {0, 1}, "GAS": {0, 1}, "JUMPDEST": {0, 0},
	"TLOAD": {1, 1}, "TSTORE": {2, 0}, "MCOPY": {3, 0}, "PUSH0": {0, 1},
	"CREATE": {3, 1}, "CALL": {7, 1}, "CALLCODE": {7, 1}, "RETURN": {2, 0}, "DELEGATECALL": {6, 1}, "CREATE2": {4, 1}, "STATICCALL": {6, 1}, "REVERT": {2, 0}, "SELFDESTRUCT": {1, 0},
}

func init() {
	for i := int64(1); i <= 32; i++ {
		yellowPaper[fmt.Sprintf("PUSH%d", i)] = [2]int64{0, 1}
	}
	for i := int64(1); i <= 16; i++ {
		yellowPaper[fmt.Sprintf("DUP%d", i)] = [2]int64{i, i + 1}
		yellowPaper[fmt.Sprintf("SWAP%d", i)] = [2]int64{i + 1, i + 1}
	}
	for i := int64(0); i <= 4; i++ {
		yellowPaper[fmt.Sprintf("LOG%d", i)] = [2]int64{i + 2, 0}
	}
}
