package rules

import (
	"fmt"
	"go/token"
	"go/types"
	"sort"
	"strings"

	"golang.org/x/tools/go/ssa"

	"verif/checker/eng"
)

func init() { register("C17", c17) }

func c17(c *eng.Ctx, r *eng.Report) {
	r.Explain = "Structural necessary conditions of at-most-once hand-over and nonce-ordered packing, on the SSA of service/transaction_pool.go and simple_container.go: " +
		"R17.1 a transaction is pushed into the pending container only on the not-existed edge of a test that consults both the pending container and the executed store; " +
		"R17.2 MarkExecuted writes and flushes the executed records before it removes the transactions from pending, UnMarkExecuted deletes the executed record before it re-adds the transaction; " +
		"R17.3 PackForCast never returns more than the per-block limit, checkNonce sorts first, never packs a transaction on the `expected < nonce` edge, and every transaction that advances its sender's expected nonce is packed; " +
		"R17.4 every field of TxPool/simpleContainer is of a thread-safe type, immutable after construction, or accessed only with its mutex held (lockset over all access sites, helper functions checked at their call sites). " +
		"R17.8 the pending container's remove takes out every hash it is handed: on every path to a return the whole parameter list — not a window of it — has been passed to the map's Removes (directly or through a helper of the container that does so); a transaction that is marked executed but stays pending is packed again; " +
		"R17.11 an executed record is keyed by the hash its receipt names: in MarkExecuted the key of every batch.Put and every hash queued for removal from the pending set is the ranged receipt's TxHash — receipts exist only for transactions that were not evicted, so the i-th receipt is not the i-th transaction of the block, and pairing by index records an evicted transaction as executed while the last executed one stays pending and is packed again; " +
		"R17.12 the pool's mutexes are always taken in one order: over the service package, if some function acquires mutex B (itself or through a callee) while it holds mutex A, no function acquires A while it holds B — AddTransaction holding an admission lock across refreshGateNonce (batchLock) while MarkExecuted holds batchLock (deferred) across the removal under the admission lock blocks both for ever; " +
		"R17.10 whether a transaction re-enters the pool depends on the pool alone: (*TxPool).add — the path UnMarkExecuted uses for the transactions of a removed block — and the service functions under it consult no account state (no AccountDBManager, no AccountDB getter); while a block is being removed the latest state is still the state after it, in which each of its nonce-checked transactions looks already used, so a state-dependent admission test there drops them: neither executed nor pending; " +
		"R17.9 MarkExecuted processes every block it is handed: no return of MarkExecuted depends on the pool's own state (a remembered `last marked` block, a cache) — after a reorg that comes back to the same block the second MarkExecuted must write the executed records again, UnMarkExecuted having deleted them; " +
		"R17.6 what the pool iterates over is one atomic snapshot of the pending map: every simpleContainer method that hands out a slice returns the result of a single call on the underlying map (possibly re-sliced), never a slice assembled from separate per-key lookups — between listing the keys and looking them up MarkExecuted or an eviction may remove an entry, and the hole is a nil the packer type-asserts; " +
		"R17.7 the executed-record batch, which lives as long as the pool, is Reset() after every Write() on every path (a batch that keeps its content replays old executed marks with the next block, undoing an UnMarkExecuted); " +
		"R17.5 the pending container's push stores the transaction unless the container is full — no other drop condition (the path a reorged block's transactions return through). " +
		"Not decided: linearizability of concurrent histories; behaviour of the third-party containers."
	r.Assume = []string{"hashicorp/golang-lru Cache, gogf gmap.ListMap(safe=true), sync.Map and LevelDB handles are safe for concurrent use", "chain-level callers hold middleware.LockBlockchain (not checked here)"}
	pkg := "service"
	add := c.Func(pkg, "(*TxPool).add")
	ex := c.Func(pkg, "(*TxPool).isTransactionExisted")
	if r.Anchor(add != nil, "R17.1", "(*TxPool).add") && r.Anchor(ex != nil, "R17.1", "(*TxPool).isTransactionExisted") {
		r.Min("R17.1", 2)
		pushes := callsNamed(add, "(*service.simpleContainer).push")
		ok := len(pushes) == 1
		if ok {
			ok = false
			for _, cd := range eng.CondsAt(pushes[0]) {
				if call, isC := cd.V.(*ssa.Call); isC && (call.Call.StaticCallee() == ex || forwardsTo(call.Call.StaticCallee(), ex)) && !cd.True {
					// same hash as the pushed transaction's
					if strings.HasSuffix(eng.Desc(call.Call.Args[1]), "tx.Hash") {
						ok = true
					}
				}
			}
		}
		r.Check(ok, "R17.1", "(*service.TxPool).add:push-guard", c.Pos(add.Pos()), "received.push(tx) only on the false edge of isTransactionExisted(tx.Hash)", "received.push is reachable without a negative isTransactionExisted(tx.Hash) test: a transaction already pending or already executed can be queued again")
		// isTransactionExisted: returns false only after both stores were consulted
		cont := callsNamed(ex, "(*service.simpleContainer).contains")
		var has []*ssa.Call
		for _, s := range eng.Sites(ex) {
			if call, isC := s.Instr.(*ssa.Call); isC && call.Call.IsInvoke() && call.Call.Method.Name() == "Has" && strings.HasSuffix(eng.Desc(call.Call.Value), ".executed") {
				has = append(has, call)
			}
		}
		ok = len(cont) == 1 && len(has) == 1
		if ok {
			// every return that can be false must come after both lookups: the value returned on the
			// not-in-pending path is the executed store's answer
			for _, re := range eng.Returns(ex) {
				cls := eng.RetClass(re.Ret, 0, re.Pred)
				if cls == "true" {
					continue
				}
				if cls == "false" {
					ok = false // a constant false would ignore the executed store
					continue
				}
				v := re.Incoming(0)
				if e, isE := v.(*ssa.Extract); !(isE && e.Tuple == ssa.Value(has[0])) {
					ok = false
				}
			}
		}
		r.Check(ok, "R17.1", "(*service.TxPool).isTransactionExisted:both-stores", c.Pos(ex.Pos()), "existence = pending.contains(hash) || executed.Has(hash)", "the existence test no longer consults both the pending container and the executed store before answering no")
	}
	c17Order(c, r)
	c17Pack(c, r)
	c17Lockset(c, r)
	c17PushTotal(c, r)
	c17Snapshot(c, r)
	c17RemoveAll(c, r)
	c17MarkEveryBlock(c, r)
	c17ReAddSeesOnlyThePool(c, r)
	c17MarkKeyedByReceipt(c, r)
	c17LockOrder(c, r)
	r.Min("R17.7", 2)
	batchResetAs(c, r, "R17.7", "service", 1)
}

// c17PushTotal: once add() decided that a transaction is neither pending nor
// executed, the pending store takes it unless it is full. A reorged block's
// transactions come back through this same path, so any further reason to drop
// one makes it neither executed nor pending.
func c17PushTotal(c *eng.Ctx, r *eng.Report) { c17PushTotalAs(c, r, "R17.5") }

func c17PushTotalAs(c *eng.Ctx, r *eng.Report, rule string) {
	r.Min(rule, 1)
	push := c.Func("service", "(*simpleContainer).push")
	if !r.Anchor(push != nil, rule, "(*simpleContainer).push") {
		return
	}
	var sets []*ssa.Call
	for _, s := range eng.Sites(push) {
		if strings.HasSuffix(s.Name(), "gmap.ListMap).Set") {
			if call, ok := s.Instr.(*ssa.Call); ok {
				sets = append(sets, call)
			}
		}
	}
	ok := len(sets) == 1
	why := fmt.Sprintf("%d data.Set calls", len(sets))
	if ok {
		conds := eng.CondsAt(sets[0])
		var extra []string
		room := false
		for _, cd := range conds {
			if m, isM := cd.Cmp(); isM {
				d := eng.Desc(m.X) + " " + m.Op.String() + " " + eng.Desc(m.Y)
				if strings.Contains(d, ".Size(") && strings.Contains(d, ".limit") {
					room = true
					continue
				}
				extra = append(extra, d)
				continue
			}
			extra = append(extra, fmt.Sprintf("%s=%v", eng.Desc(cd.V), cd.True))
		}
		if len(extra) > 0 {
			ok, why = false, "the transaction is stored only if additionally "+strings.Join(extra, " and ")
		}
		_ = room
		if !isParamNamed(sets[0].Call.Args[2], "tx") || !strings.HasSuffix(eng.Desc(sets[0].Call.Args[1]), "tx.Hash") {
			ok, why = false, "what is stored is not (tx.Hash, tx)"
		}
	}
	r.Check(ok, rule, "simpleContainer.push:total", c.Pos(push.Pos()), "push stores (tx.Hash, tx) unless the container is full; no other reason to drop", "simpleContainer.push can drop a transaction that add() accepted for a reason other than lack of room ("+why+"): UnMarkExecuted re-adds a reorged block's transactions through this path, so such a transaction ends up neither executed nor pending and can never be packed again")
}

func c17Order(c *eng.Ctx, r *eng.Report) {
	const rule = "R17.2"
	r.Min(rule, 2)
	me := c.Func("service", "(*TxPool).MarkExecuted")
	if r.Anchor(me != nil, rule, "(*TxPool).MarkExecuted") {
		var puts, writes []*ssa.Call
		for _, s := range eng.Sites(me) {
			call, ok := s.Instr.(*ssa.Call)
			if ok && !call.Call.IsInvoke() {
				// a service helper that flushes the batch (Write, then Reset) stands for the Write at its call site
				if h := call.Call.StaticCallee(); h != nil && h.Blocks != nil && strings.HasSuffix(eng.FuncPkgPath(h), "/src/service") {
					for _, s2 := range eng.Sites(h) {
						if c2, ok2 := s2.Instr.(*ssa.Call); ok2 && c2.Call.IsInvoke() && c2.Call.Method.Name() == "Write" && strings.HasSuffix(eng.Desc(c2.Call.Value), ".batch") {
							writes = append(writes, call)
						}
					}
				}
			}
			if !ok || !call.Call.IsInvoke() || !strings.HasSuffix(eng.Desc(call.Call.Value), ".batch") {
				continue
			}
			switch call.Call.Method.Name() {
			case "Put":
				puts = append(puts, call)
			case "Write":
				writes = append(writes, call)
			}
		}
		rem := callsNamed(me, "(*service.TxPool).remove")
		ok := len(puts) >= 1 && len(writes) >= 1 && len(rem) == 1
		why := fmt.Sprintf("batch.Put=%d batch.Write=%d pool.remove=%d", len(puts), len(writes), len(rem))
		if ok {
			for _, p := range append(puts, writes...) {
				if eng.Reaches(rem[0], p) {
					ok, why = false, "an executed-record "+p.Call.Method.Name()+" can run after pool.remove: in between the transaction is neither pending nor executed and a re-broadcast is accepted again"
				}
			}
			// the final flush (Write under ValueSize > 0) precedes the removal on the path that has receipts
			flushBefore := false
			for _, w := range writes {
				if eng.Reaches(w, rem[0]) {
					flushBefore = true
				}
			}
			if !flushBefore {
				ok, why = false, "no batch.Write precedes pool.remove"
			}
		}
		r.Check(ok, rule, "(*service.TxPool).MarkExecuted:record-before-remove", c.Pos(me.Pos()), "executed records are put and flushed before the transactions leave the pending container", why)
	}
	c17UnmarkAs(c, r, rule)
}

// c17UnmarkAs: UnMarkExecuted deletes the executed record before it re-adds the
// transaction (shared with C05, whose statement has the same clause).
func c17UnmarkAs(c *eng.Ctx, r *eng.Report, rule string) {
	um := c.Func("service", "(*TxPool).UnMarkExecuted")
	if r.Anchor(um != nil, rule, "(*TxPool).UnMarkExecuted") {
		delsOf := func(fn *ssa.Function) []*ssa.Call {
			var dels []*ssa.Call
			for _, s := range eng.Sites(fn) {
				if call, ok := s.Instr.(*ssa.Call); ok && call.Call.IsInvoke() && call.Call.Method.Name() == "Delete" && strings.HasSuffix(eng.Desc(call.Call.Value), ".executed") {
					dels = append(dels, call)
				}
			}
			return dels
		}
		dels := delsOf(um)
		adds := callsNamed(um, "(*service.TxPool).add")
		if len(dels) == 0 && len(adds) == 0 {
			// the per-transaction pair extracted into a private helper of the pool
			for _, s := range eng.Sites(um) {
				if h := s.Static(); h != nil && h.Pkg == um.Pkg && h.Blocks != nil && !token.IsExported(h.Name()) && len(delsOf(h)) > 0 {
					dels, adds = delsOf(h), callsNamed(h, "(*service.TxPool).add")
				}
			}
		}
		ok := len(dels) == 1 && len(adds) == 1 && dels[0].Block() == adds[0].Block() && eng.Dominates(dels[0], adds[0])
		if ok {
			// both use the same transaction
			// executed.Delete(tx.Hash.Bytes()) and pool.add(tx) with the same tx value
			same := false
			var walk func(v ssa.Value, d int)
			walk = func(v ssa.Value, d int) {
				if d > 8 || v == nil {
					return
				}
				if v == adds[0].Call.Args[1] {
					same = true
					return
				}
				var ops []*ssa.Value
				if in, isI := v.(ssa.Instruction); isI {
					for _, o := range in.Operands(ops) {
						if *o != nil {
							walk(*o, d+1)
						}
					}
				}
			}
			walk(dels[0].Call.Args[0], 0)
			ok = same
		}
		r.Check(ok, rule, "(*service.TxPool).UnMarkExecuted:delete-before-readd", c.Pos(um.Pos()), "the executed record of each transaction is deleted before that transaction is re-added", "executed.Delete(tx.Hash) no longer precedes pool.add(tx) for the same transaction: the re-add is refused as already executed, the transaction of a removed block is lost")
	}
}

func c17Pack(c *eng.Ctx, r *eng.Report) {
	const rule = "R17.3"
	r.Min(rule, 4)
	limit, _ := c.Obj("service", "txCountPerBlock").(*types.Const)
	pf := c.Func("service", "(*TxPool).PackForCast")
	if r.Anchor(pf != nil, rule, "(*TxPool).PackForCast") && r.Anchor(limit != nil, rule, "txCountPerBlock") {
		lim, _ := constInt64(limit)
		// every returned slice either is the empty initial slice, or passed `len > limit → [:limit]`
		ok := false
		for _, b := range pf.Blocks {
			for _, in := range b.Instrs {
				if sl, isS := in.(*ssa.Slice); isS && sl.High != nil {
					if k, isK := eng.ConstInt(sl.High); isK && k == lim {
						for _, cd := range eng.CondsAt(sl) {
							if m, isM := cd.Cmp(); isM && m.Op == token.GTR && strings.Contains(eng.Desc(m.X), "builtin:len(") {
								if kk, isKK := eng.ConstInt(m.Y); isKK && kk == lim {
									ok = true
								}
							}
						}
					}
				}
			}
		}
		// …and that test stands on every path to a non-empty return, not only on one fork-gate branch
		if ok {
			var limIf *ssa.If
			for _, b := range pf.Blocks {
				if iff, isI := b.Instrs[len(b.Instrs)-1].(*ssa.If); isI {
					if m, isM := eng.DecodeCmp(iff.Cond); isM && m.Op == token.GTR && strings.Contains(eng.Desc(m.X), "builtin:len(") {
						if kk, isKK := eng.ConstInt(m.Y); isKK && kk == lim {
							limIf = iff
						}
					}
				}
			}
			if limIf == nil {
				ok = false
			} else {
				for _, re := range eng.Returns(pf) {
					if cls := eng.RetClass(re.Ret, 0, re.Pred); cls == "nil" {
						continue
					}
					if !limIf.Block().Dominates(re.Ret.Block()) {
						// returns before anything was packed (empty pool) are fine: they return a fresh empty slice
						if _, isMk := eng.RetValue(re.Ret, 0).(*ssa.MakeSlice); isMk {
							continue
						}
						if sl, isS := eng.RetValue(re.Ret, 0).(*ssa.Slice); isS {
							if al, isA := sl.X.(*ssa.Alloc); isA && strings.Contains(al.Comment, "makeslice") {
								continue // `make([]T, 0)` returned as is: the early "nothing pending" exit
							}
						}
						ok = false
					}
				}
			}
		}
		r.Check(ok, rule, "(*service.TxPool).PackForCast:limit", c.Pos(pf.Pos()), fmt.Sprintf("a batch longer than txCountPerBlock (%d) is truncated to it", lim), "PackForCast no longer truncates the batch to txCountPerBlock")
	}
	cn := c.Func("service", "(*TxPool).checkNonce")
	if !r.Anchor(cn != nil, rule, "(*TxPool).checkNonce") {
		return
	}
	sorts := callsNamed(cn, "sort.Sort")
	var appendCall *ssa.Call
	for _, s := range eng.Sites(cn) {
		if call, ok := s.Instr.(*ssa.Call); ok && s.Name() == "builtin:append" {
			appendCall = call
		}
	}
	if appendCall == nil {
		r.Fail(rule, "(*service.TxPool).checkNonce:shape", c.Pos(cn.Pos()), "append(packedTxs, tx) not found")
		return
	}
	r.Check(len(sorts) == 1 && eng.Dominates(sorts[0], appendCall), rule, "(*service.TxPool).checkNonce:sort-first", c.Pos(cn.Pos()), "transactions are sorted (per sender by nonce) before the nonce walk", "checkNonce no longer sorts before walking the nonces")
	// the nonce-too-high test: an If comparing expected < tx.Nonce whose true edge cannot reach the append within the iteration
	var guard *ssa.If
	for _, b := range cn.Blocks {
		iff, ok := b.Instrs[len(b.Instrs)-1].(*ssa.If)
		if !ok {
			continue
		}
		if m, ok := eng.DecodeCmp(iff.Cond); ok && m.Op == token.LSS && strings.HasSuffix(eng.Desc(m.Y), ".Nonce") && !strings.HasSuffix(eng.Desc(m.X), ".Nonce") {
			guard = iff
		}
	}
	// the per-transaction nonce test extracted into a boolean helper of the package ("may this one be packed?"):
	// the two clauses are decided inside the helper, and the helper's verdict is tied to the append here
	if guard == nil {
		for _, b := range cn.Blocks {
			iff, isIf := b.Instrs[len(b.Instrs)-1].(*ssa.If)
			if !isIf {
				continue
			}
			call, isCall := iff.Cond.(*ssa.Call)
			if !isCall {
				continue
			}
			h := call.Call.StaticCallee()
			if h == nil || h.Pkg != cn.Pkg || h.Blocks == nil || loopHeaderOf(call) == nil || loopHeaderOf(call) != loopHeaderOf(appendCall) {
				continue
			}
			if gOK, aOK, found := c17AdmitHelper(h); found {
				hdr := loopHeaderOf(appendCall)
				refusedSkips := !reachWithin(b.Succs[1], appendCall.Block(), hdr)
				admittedPacked := !blockEscapesWithout(b.Succs[0], appendCall.Block(), hdr)
				r.Check(gOK && refusedSkips, rule, "(*service.TxPool).checkNonce:nonce-guard", c.Pos(call.Pos()), "a transaction whose nonce is ahead of the sender's expected nonce is refused by "+eng.FuncName(h)+" and skipped", fmt.Sprintf("%s answers false on `expectedNonce < tx.Nonce`=%v, a refused transaction is skipped=%v: a transaction ahead of its sender's next nonce is packed", eng.FuncName(h), gOK, refusedSkips))
				r.Check(aOK && admittedPacked, rule, "(*service.TxPool).checkNonce:advance-implies-packed", c.Pos(call.Pos()), "every transaction that advances its sender's expected nonce is admitted and packed", fmt.Sprintf("%s answers true after advancing the expected nonce=%v, an admitted transaction is always appended=%v: later transactions of that sender are then packed ahead of the state nonce", eng.FuncName(h), aOK, admittedPacked))
				c17Limit(c, r, cn, appendCall, rule)
				return
			}
		}
	}
	ok := guard != nil
	why := "no `expectedNonce < tx.Nonce` test found"
	if ok {
		// on the true edge the append of this iteration must not be reachable without passing the loop header again
		t := guard.Block().Succs[0]
		if reachWithin(t, appendCall.Block(), loopHeaderOf(appendCall)) {
			ok, why = false, "append(packedTxs, tx) is reachable on the `expectedNonce < tx.Nonce` edge: a transaction ahead of its sender's next nonce is packed"
		}
		if !eng.Dominates(guard, appendCall) && !guard.Block().Dominates(appendCall.Block()) {
			// the guard applies only to RequestId == 0 transactions: it need not dominate, but its block must be on the path
		}
	}
	r.Check(ok, rule, "(*service.TxPool).checkNonce:nonce-guard", c.Pos(cn.Pos()), "a transaction whose nonce is ahead of the sender's expected nonce is skipped", why)
	// advancing the expected nonce ⇒ packed
	var adv *ssa.MapUpdate
	for _, b := range cn.Blocks {
		for _, in := range b.Instrs {
			if mu, isMU := in.(*ssa.MapUpdate); isMU {
				if bo, isB := mu.Value.(*ssa.BinOp); isB && bo.Op == token.ADD {
					if k, isK := eng.ConstInt(bo.Y); isK && k == 1 {
						adv = mu
					}
				}
			}
		}
	}
	ok = adv != nil
	why = "no `nonceMap[source] = expected + 1` update found"
	if ok {
		hdr := loopHeaderOf(appendCall)
		if escapesWithout(adv, appendCall, hdr) {
			ok, why = false, "after the sender's expected nonce is advanced the transaction can be skipped (next iteration reached without append): later transactions of that sender are then packed ahead of the state nonce"
		}
	}
	r.Check(ok, rule, "(*service.TxPool).checkNonce:advance-implies-packed", c.Pos(cn.Pos()), "every transaction that advances its sender's expected nonce is packed", why)
	c17Limit(c, r, cn, appendCall, rule)
}

// c17Limit: packed count bound inside the walk.
func c17Limit(c *eng.Ctx, r *eng.Report, cn *ssa.Function, appendCall *ssa.Call, rule string) {
	okB := false
	for _, b := range cn.Blocks {
		iff, isI := b.Instrs[len(b.Instrs)-1].(*ssa.If)
		if !isI {
			continue
		}
		if m, isM := eng.DecodeCmp(iff.Cond); isM && m.Op == token.GEQ && strings.Contains(eng.Desc(m.X), "builtin:len(") {
			if eng.Dominates(appendCall, iff) || appendCall.Block() == b {
				okB = true
			}
		}
	}
	// every append in the walk is followed by that test before the next iteration starts
	if okB {
		var limIf ssa.Instruction
		for _, b := range cn.Blocks {
			if iff, isI := b.Instrs[len(b.Instrs)-1].(*ssa.If); isI {
				if m, isM := eng.DecodeCmp(iff.Cond); isM && m.Op == token.GEQ && strings.Contains(eng.Desc(m.X), "builtin:len(") {
					limIf = iff
				}
			}
		}
		hdr := loopHeaderOf(appendCall)
		for _, s := range eng.Sites(cn) {
			call, isC := s.Instr.(*ssa.Call)
			if !isC || s.Name() != "builtin:append" || loopHeaderOf(call) != hdr || hdr == nil {
				continue
			}
			if !strings.Contains(eng.ShortType(call.Type()), "Transaction") {
				continue
			}
			if limIf == nil || escapesWithout(call, limIf, hdr) {
				okB = false
			}
		}
	}
	r.Check(okB, rule, "(*service.TxPool).checkNonce:limit", c.Pos(cn.Pos()), "the walk stops once the per-block limit is reached, after every append", "a transaction can be appended in the nonce walk and the next iteration started without the per-block limit test: a batch can grow past txCountPerBlock")
}

// loopHeaderOf returns the header of the innermost natural loop containing in (nil if none).
func loopHeaderOf(in ssa.Instruction) *ssa.BasicBlock {
	b := in.Block()
	for d := b; d != nil; d = d.Idom() {
		// d is a loop header if some predecessor is dominated by d and can be reached from b
		for _, p := range d.Preds {
			if d.Dominates(p) && (p == b || blockReach(b, p, nil)) {
				return d
			}
		}
	}
	return nil
}

func blockReach(from, to, stop *ssa.BasicBlock) bool {
	seen := map[*ssa.BasicBlock]bool{}
	q := []*ssa.BasicBlock{from}
	for len(q) > 0 {
		x := q[0]
		q = q[1:]
		if x == to {
			return true
		}
		if seen[x] || x == stop {
			continue
		}
		seen[x] = true
		q = append(q, x.Succs...)
	}
	return false
}

// reachWithin: can control reach block `to` from `from` without passing the loop header `hdr`?
func reachWithin(from, to, hdr *ssa.BasicBlock) bool {
	if from == hdr {
		return false
	}
	return blockReach(from, to, hdr)
}

// escapesWithout: from instruction a, can the loop header (next iteration) or a
// function exit be reached without executing instruction must?
func escapesWithout(a ssa.Instruction, must ssa.Instruction, hdr *ssa.BasicBlock) bool {
	seen := map[*ssa.BasicBlock]bool{}
	type st struct {
		b     *ssa.BasicBlock
		start int
	}
	q := []st{{a.Block(), eng.InstrIndex(a) + 1}}
	first := true
	for len(q) > 0 {
		cur := q[0]
		q = q[1:]
		if !first && cur.b == hdr {
			return true
		}
		if !first {
			if seen[cur.b] {
				continue
			}
			seen[cur.b] = true
		}
		first = false
		hit := false
		for i := cur.start; i < len(cur.b.Instrs); i++ {
			if cur.b.Instrs[i] == must {
				hit = true
				break
			}
		}
		if hit {
			continue
		}
		if len(cur.b.Succs) == 0 {
			if _, isRet := cur.b.Instrs[len(cur.b.Instrs)-1].(*ssa.Return); isRet {
				return true
			}
		}
		for _, s := range cur.b.Succs {
			q = append(q, st{s, 0})
		}
	}
	return false
}

// threadSafeTypes: field types accepted without a lock.
var threadSafeTypes = map[string]string{
	"*github.com/hashicorp/golang-lru.Cache":     "internally locked",
	"*github.com/gogf/gf/container/gmap.ListMap": "created with safe=true (checked)",
	"sync.Map":                 "concurrent map",
	"sync.Mutex":               "the lock itself",
	"middleware/db.Database":   "LevelDB handle (goroutine-safe)",
	"*service.simpleContainer": "container whose own fields are checked by this rule",
	"*time.Ticker":             "read-only channel holder",
}

// guardedFields: field → mutex field that must be held at every access.
var guardedFields = map[string]string{"service.TxPool.batch": "batchLock"}

// immutableFields: written only by the constructor.
var immutableFields = map[string]string{"service.simpleContainer.limit": "newSimpleContainer"}

func c17Lockset(c *eng.Ctx, r *eng.Report) {
	const rule = "R17.4"
	r.Min(rule, 10)
	for _, tn := range []string{"TxPool", "simpleContainer"} {
		st := c.Struct("service", tn)
		if !r.Anchor(st != nil, rule, "service."+tn) {
			continue
		}
		for i := 0; i < st.NumFields(); i++ {
			f := st.Field(i)
			key := "field:service." + tn + "." + f.Name()
			ts := eng.ShortType(f.Type())
			full := "service." + tn + "." + f.Name()
			switch {
			case guardedFields[full] != "":
				// checked below
			case immutableFields[full] != "":
				okImm := true
				for _, fn := range c.PkgFuncs("service") {
					if len(eng.FieldStores(fn, "service."+tn, f.Name())) > 0 && !strings.HasSuffix(eng.FuncName(fn), immutableFields[full]) {
						okImm = false
					}
				}
				r.Check(okImm, rule, key, c.Pos(f.Pos()), "immutable after construction", "field is written outside its constructor but has no lock")
			default:
				why, ok := threadSafeTypes[ts]
				r.Check(ok, rule, key, c.Pos(f.Pos()), "thread-safe type "+ts+" ("+why+")", "field of type "+ts+" is shared between submission, packing and block bookkeeping but is neither of a thread-safe type nor listed with a guarding mutex")
			}
		}
	}
	// gmap.NewListMap(true)
	nsc := c.Func("service", "newSimpleContainer")
	if r.Anchor(nsc != nil, rule, "newSimpleContainer") {
		ok := false
		for _, s := range eng.Sites(nsc) {
			if strings.HasSuffix(s.Name(), "gmap.NewListMap") {
				// variadic safe ...bool: the argument slice holds the constant true
				d := eng.Desc(s.Common().Args[0])
				_ = d
				for _, b := range nsc.Blocks {
					for _, in := range b.Instrs {
						if st, isS := in.(*ssa.Store); isS && eng.Desc(st.Val) == "true" {
							if _, isIA := st.Addr.(*ssa.IndexAddr); isIA {
								ok = true
							}
						}
					}
				}
			}
		}
		r.Check(ok, rule, "newSimpleContainer:safe-listmap", c.Pos(nsc.Pos()), "the pending list map is created with safe=true", "gmap.NewListMap is no longer created with safe=true: the pending container is not goroutine-safe")
	}
	// lockset for guarded fields
	for full, lock := range guardedFields {
		parts := strings.Split(full, ".")
		tname, fname := parts[0]+"."+parts[1], parts[2]
		for _, fn := range c.PkgFuncs("service") {
			accesses := fieldLoads(fn, tname, fname)
			if len(accesses) == 0 {
				continue
			}
			name := eng.FuncName(fn)
			if strings.HasSuffix(name, "newTransactionPool") {
				continue // construction, before the pool is published
			}
			for i, a := range accesses {
				key := fmt.Sprintf("lockset:%s@%s#%d", full, name, i)
				ok, why := heldAt(c, fn, a, tname, lock, 0)
				r.Check(ok, rule, key, c.Pos(a.Pos()), lock+" is held ("+why+")", "access to "+full+" without "+lock+" held ("+why+"): concurrent submission and block bookkeeping can corrupt it")
			}
		}
	}
}

func fieldLoads(fn *ssa.Function, tname, fname string) []ssa.Instruction {
	var out []ssa.Instruction
	for _, b := range fn.Blocks {
		for _, in := range b.Instrs {
			switch x := in.(type) {
			case *ssa.UnOp:
				if x.Op == token.MUL {
					if t, f := eng.FieldOf(x.X); t == tname && f == fname {
						out = append(out, in)
					}
				}
			case *ssa.Store:
				if t, f := eng.FieldOf(x.Addr); t == tname && f == fname {
					out = append(out, in)
				}
			}
		}
	}
	return out
}

// heldAt: is tname.lock held at instruction at (in fn)? Either a Lock() call on
// the field dominates it with no intervening Unlock (a deferred Unlock keeps it
// held), or every production caller of fn holds it at the call site.
func heldAt(c *eng.Ctx, fn *ssa.Function, at ssa.Instruction, tname, lock string, depth int) (bool, string) {
	isLockCall := func(in ssa.Instruction, method string) bool {
		call, ok := in.(*ssa.Call)
		if !ok {
			return false
		}
		if eng.CallName(&call.Call) != "(*sync.Mutex)."+method {
			return false
		}
		t, f := eng.FieldOf(call.Call.Args[0])
		return t == tname && f == lock
	}
	var locks, unlocks []ssa.Instruction
	for _, b := range fn.Blocks {
		for _, in := range b.Instrs {
			if isLockCall(in, "Lock") {
				locks = append(locks, in)
			}
			if isLockCall(in, "Unlock") {
				unlocks = append(unlocks, in)
			}
		}
	}
	for _, l := range locks {
		if !eng.Dominates(l, at) {
			continue
		}
		released := false
		for _, u := range unlocks {
			// an Unlock that can execute between the Lock and the access
			if eng.Reaches(l, u) && eng.Reaches(u, at) {
				released = true
			}
		}
		if !released {
			return true, "Lock() in " + eng.FuncName(fn) + " dominates the access"
		}
	}
	if depth >= 2 {
		return false, "no dominating Lock() within 2 call levels"
	}
	callers := c.Callers(fn)
	if len(callers) == 0 {
		return false, "no dominating Lock() and no caller to establish it"
	}
	for _, site := range callers {
		if ok, why := heldAt(c, site.Fn, site.Instr, tname, lock, depth+1); !ok {
			return false, "caller " + eng.FuncName(site.Fn) + " does not hold it: " + why
		}
	}
	return true, "held by every caller"
}

// c17Snapshot: the linked map locks each call, so one Values() call is an
// atomic snapshot while Keys() followed by Get(key) is not.
func c17Snapshot(c *eng.Ctx, r *eng.Report) {
	const rule = "R17.6"
	r.Min(rule, 1)
	n := 0
	for _, fn := range c.PkgFuncs("service") {
		if c.IsTestFunc(fn) || fn.Signature.Recv() == nil || !strings.Contains(fn.Signature.Recv().Type().String(), "simpleContainer") {
			continue
		}
		if fn.Signature.Results().Len() != 1 {
			continue
		}
		if _, isSlice := fn.Signature.Results().At(0).Type().Underlying().(*types.Slice); !isSlice {
			continue
		}
		n++
		bad := ""
		var direct func(v ssa.Value, d int) bool
		direct = func(v ssa.Value, d int) bool {
			if d > 6 {
				return false
			}
			switch x := v.(type) {
			case *ssa.Call:
				// a call on the container's map (c.data.X()) — one locked operation
				if len(x.Call.Args) > 0 || x.Call.IsInvoke() {
					recv := x.Call.Value
					if !x.Call.IsInvoke() {
						recv = x.Call.Args[0]
					}
					return strings.HasSuffix(eng.Desc(recv), ".data")
				}
			case *ssa.Slice:
				return direct(x.X, d+1)
			case *ssa.Phi:
				for _, e := range x.Edges {
					if !direct(e, d+1) {
						return false
					}
				}
				return len(x.Edges) > 0
			case *ssa.Const:
				return x.Value == nil
			}
			return false
		}
		for _, re := range eng.Returns(fn) {
			if v := re.Incoming(0); !direct(v, 0) {
				bad = eng.Desc(v)
			}
		}
		r.Check(bad == "", rule, "snapshot:"+eng.FuncName(fn), c.Pos(fn.Pos()), "returns the result of one call on the pending map", eng.FuncName(fn)+" hands out a slice that is not the result of a single call on the pending map ("+bad+"): assembled from separate lookups it is not a snapshot — an entry removed in between (MarkExecuted, eviction, expiry) leaves a nil element, and PackForCast's `item.(*types.Transaction)` panics on the casting path, which has no recover")
	}
	r.Check(n >= 1, rule, "snapshot:sites", "", fmt.Sprintf("%d slice-returning container methods", n), "no slice-returning method of simpleContainer found (asSlice expected)")
}

// c17RemoveAll: MarkExecuted writes the executed records and then hands the
// block's hashes to received.remove. Whatever remove leaves behind is both
// executed and pending.
func c17RemoveAll(c *eng.Ctx, r *eng.Report) {
	const rule = "R17.8"
	r.Min(rule, 1)
	fn := c.Func("service", "(*simpleContainer).remove")
	if !r.Anchor(fn != nil, rule, "(*simpleContainer).remove") || !r.Anchor(len(fn.Params) >= 2, rule, "(*simpleContainer).remove parameters") {
		return
	}
	var whole func(f *ssa.Function, depth int) (bool, string)
	whole = func(f *ssa.Function, depth int) (bool, string) {
		list := f.Params[1]
		var barriers []ssa.Instruction
		for _, s := range eng.Sites(f) {
			args := s.Common().Args
			passesWhole := false
			for _, a := range args {
				if a == ssa.Value(list) {
					passesWhole = true
				}
			}
			if !passesWhole {
				continue
			}
			if strings.HasSuffix(s.Name(), ".Removes") {
				barriers = append(barriers, s.Instr)
				continue
			}
			if callee := s.Common().StaticCallee(); callee != nil && depth < 2 && callee.Signature.Recv() != nil && strings.Contains(callee.Signature.Recv().Type().String(), "simpleContainer") && len(callee.Params) >= 2 {
				if ok, _ := whole(callee, depth+1); ok {
					barriers = append(barriers, s.Instr)
				}
			}
		}
		for _, re := range eng.Returns(f) {
			if !eng.MustPassBefore(f, re.Ret, barriers) {
				return false, c.Pos(re.Ret.Pos())
			}
		}
		return len(barriers) > 0, ""
	}
	ok, where := whole(fn, 0)
	r.Check(ok, rule, "remove:whole-list", c.Pos(fn.Pos()), "every return is preceded by Removes(whole parameter list)", "(*simpleContainer).remove can return ("+where+") without having passed its whole hash list to the pending map's Removes — only windows of it, or nothing: the hashes left out stay pending although MarkExecuted has written their executed records, and the next PackForCast packs them again")
}

// c17MarkEveryBlock: see R17.9.
func c17MarkEveryBlock(c *eng.Ctx, r *eng.Report) {
	const rule = "R17.9"
	r.Min(rule, 1)
	fn := c.Func("service", "(*TxPool).MarkExecuted")
	if !r.Anchor(fn != nil, rule, "(*TxPool).MarkExecuted") {
		return
	}
	recv := fn.Params[0]
	bad := ""
	for _, re := range eng.Returns(fn) {
		for _, cd := range eng.EdgeConds(re.Ret.Block()) {
			// a condition computed from a field of the pool itself
			seen := map[ssa.Value]bool{}
			var walk func(v ssa.Value, d int) bool
			walk = func(v ssa.Value, d int) bool {
				if v == nil || d > 8 || seen[v] {
					return false
				}
				seen[v] = true
				if fa, ok := v.(*ssa.FieldAddr); ok && fa.X == ssa.Value(recv) {
					return true
				}
				if in, ok := v.(ssa.Instruction); ok {
					var ops []*ssa.Value
					for _, o := range in.Operands(ops) {
						if *o != nil && walk(*o, d+1) {
							return true
						}
					}
				}
				return false
			}
			if walk(cd.V, 0) {
				bad = c.Pos(re.Ret.Pos()) + " under " + eng.Desc(cd.V)
			}
		}
	}
	r.Check(bad == "", rule, "MarkExecuted:every-block", c.Pos(fn.Pos()), "no return depends on the pool's own state", "MarkExecuted returns at "+bad+", a condition on what the pool remembers rather than on the block it was handed: in the history MarkExecuted(B), UnMarkExecuted(B), MarkExecuted(B) — a one-block reorg that comes back — the second mark does nothing, B's transactions keep no executed record, stay pending and are packed again")
}

// c17ReAddSeesOnlyThePool: see R17.10.
func c17ReAddSeesOnlyThePool(c *eng.Ctx, r *eng.Report) {
	const rule = "R17.10"
	r.Min(rule, 1)
	add := c.Func("service", "(*TxPool).add")
	un := c.Func("service", "(*TxPool).UnMarkExecuted")
	if !r.Anchor(add != nil && un != nil, rule, "service.(*TxPool).add / UnMarkExecuted") {
		return
	}
	uses := c.ConeOf([]*ssa.Function{un}, func(fn *ssa.Function) bool { return strings.HasSuffix(eng.FuncPkgPath(fn), "/src/service") }).Set[add]
	if !r.Anchor(uses, rule, "UnMarkExecuted re-adds through (*TxPool).add") {
		return
	}
	cone := c.ConeOf([]*ssa.Function{add}, func(fn *ssa.Function) bool { return strings.HasSuffix(eng.FuncPkgPath(fn), "/src/service") })
	bad := ""
	n := 0
	for _, fn := range cone.Sorted() {
		if fn.Blocks == nil || !strings.HasSuffix(eng.FuncPkgPath(fn), "/src/service") {
			continue
		}
		n++
		for _, s := range eng.Sites(fn) {
			nm := s.Name()
			if strings.Contains(nm, "AccountDBManager") || strings.Contains(nm, "storage/account.AccountDB).Get") {
				bad = eng.FuncName(fn) + " calls " + nm + " at " + c.Pos(s.Pos())
			}
		}
	}
	r.Check(bad == "", rule, "re-add:pool-only", c.Pos(add.Pos()), fmt.Sprintf("%d service functions under (*TxPool).add, none reads account state", n), "the admission path shared by submission and by UnMarkExecuted consults account state ("+bad+"): blockChain.remove calls UnMarkExecuted while the latest state is still the one after the removed block, so the block's own nonce-checked transactions are judged against nonces they themselves advanced and are refused — after the reorg they are neither marked executed nor pending, and can never be packed again")
}

// forwardsTo: f's body is `return target(args...)` with f's own parameters, in
// order (the exported spelling of an unexported method).
func forwardsTo(f, target *ssa.Function) bool {
	if f == nil || target == nil || len(f.Blocks) != 1 {
		return false
	}
	var call *ssa.Call
	for _, in := range f.Blocks[0].Instrs {
		switch x := in.(type) {
		case *ssa.Call:
			if call != nil || x.Call.StaticCallee() != target {
				return false
			}
			call = x
		case *ssa.Return:
			if call == nil || len(x.Results) != 1 || x.Results[0] != ssa.Value(call) {
				return false
			}
		case *ssa.DebugRef:
		default:
			return false
		}
	}
	if call == nil || len(call.Call.Args) != len(f.Params) {
		return false
	}
	for i, a := range call.Call.Args {
		if a != ssa.Value(f.Params[i]) {
			return false
		}
	}
	return true
}

// c17MarkKeyedByReceipt: see R17.11.
func c17MarkKeyedByReceipt(c *eng.Ctx, r *eng.Report) {
	const rule = "R17.11"
	r.Min(rule, 1)
	fn := c.Func("service", "(*TxPool).MarkExecuted")
	if !r.Anchor(fn != nil, rule, "service.(*TxPool).MarkExecuted") {
		return
	}
	n := 0
	for _, s := range eng.Sites(fn) {
		if !strings.HasSuffix(s.Name(), "Batch.Put") || !strings.HasSuffix(eng.Desc(s.Common().Value), ".batch") && !(len(s.Common().Args) > 0 && strings.Contains(eng.Desc(s.Common().Args[0]), ".batch")) {
			continue
		}
		n++
		args := s.Common().Args
		key := args[len(args)-2]
		d := eng.Desc(key)
		r.Check(strings.Contains(d, ".TxHash"), rule, fmt.Sprintf("mark-key:receipt-hash#%d", n-1), c.Pos(s.Pos()), "the executed record is written under receipt.TxHash", "MarkExecuted writes the executed record under "+d+", not under the hash the receipt names: evicted transactions have no receipt, so with an evicted transaction ahead of executed ones the indexes shift — the evicted transaction is recorded as executed, and the last executed one gets no record, stays pending and is packed again for the next block")
	}
	if n == 0 {
		r.Fail(rule, "mark-key:none", c.Pos(fn.Pos()), "no batch.Put in MarkExecuted: the rule has lost its anchor")
	}
}

// c17LockOrder: see R17.12.
func c17LockOrder(c *eng.Ctx, r *eng.Report) {
	const rule = "R17.12"
	r.Min(rule, 1)
	fns := c.PkgFuncs("service")
	mutexOf := func(s eng.Site) (string, string) {
		nm := s.Name()
		var op string
		switch {
		case strings.HasSuffix(nm, "Mutex).Lock"), strings.HasSuffix(nm, "RWMutex).RLock"):
			op = "lock"
		case strings.HasSuffix(nm, "Mutex).Unlock"), strings.HasSuffix(nm, "RWMutex).RUnlock"):
			op = "unlock"
		default:
			return "", ""
		}
		if len(s.Common().Args) == 0 {
			return "", ""
		}
		t, f := eng.FieldOf(s.Common().Args[0])
		if f == "" {
			return "", ""
		}
		return t + "." + f, op
	}
	// direct acquisitions per function, then the transitive closure over package-local static calls
	acq := map[*ssa.Function]map[string]bool{}
	for _, fn := range fns {
		acq[fn] = map[string]bool{}
		for _, s := range eng.Sites(fn) {
			if m, op := mutexOf(s); op == "lock" {
				acq[fn][m] = true
			}
		}
	}
	for changed := true; changed; {
		changed = false
		for _, fn := range fns {
			for _, s := range eng.Sites(fn) {
				cal := s.Common().StaticCallee()
				if cal == nil || acq[cal] == nil || cal == fn {
					continue
				}
				if _, isGo := s.Instr.(*ssa.Go); isGo {
					continue
				}
				for m := range acq[cal] {
					if !acq[fn][m] {
						acq[fn][m] = true
						changed = true
					}
				}
			}
		}
	}
	type edge struct{ a, b string }
	edges := map[edge]string{}
	for _, fn := range fns {
		sites := eng.Sites(fn)
		for _, l := range sites {
			a, op := mutexOf(l)
			if op != "lock" {
				continue
			}
			_, isDefer := l.Instr.(*ssa.Defer)
			if isDefer {
				continue
			}
			// may-hold: some path leads from the Lock to `at` without a (non-deferred) Unlock of the same mutex
			isRelease := func(in ssa.Instruction) bool {
				if _, d := in.(*ssa.Defer); d {
					return false
				}
				call, ok := in.(ssa.CallInstruction)
				if !ok {
					return false
				}
				for _, u := range sites {
					if u.Instr == in {
						if m, op2 := mutexOf(u); op2 == "unlock" && m == a {
							return true
						}
					}
				}
				_ = call
				return false
			}
			reach := map[ssa.Instruction]bool{}
			{
				seenB := map[*ssa.BasicBlock]bool{}
				var scan func(b *ssa.BasicBlock, from int)
				scan = func(b *ssa.BasicBlock, from int) {
					for i := from; i < len(b.Instrs); i++ {
						in := b.Instrs[i]
						if isRelease(in) {
							return
						}
						reach[in] = true
					}
					for _, nx := range b.Succs {
						if !seenB[nx] {
							seenB[nx] = true
							scan(nx, 0)
						}
					}
				}
				scan(l.Instr.Block(), eng.InstrIndex(l.Instr)+1)
			}
			held := func(at ssa.Instruction) bool { return reach[at] }
			for _, s := range sites {
				if _, isGo := s.Instr.(*ssa.Go); isGo {
					continue
				}
				if _, isDefer2 := s.Instr.(*ssa.Defer); isDefer2 {
					continue
				}
				if !held(s.Instr) {
					continue
				}
				var bs []string
				if b, op2 := mutexOf(s); op2 == "lock" {
					bs = append(bs, b)
				} else if cal := s.Common().StaticCallee(); cal != nil && acq[cal] != nil {
					for b := range acq[cal] {
						bs = append(bs, b)
					}
				}
				for _, b := range bs {
					if b != a {
						if _, ok := edges[edge{a, b}]; !ok {
							edges[edge{a, b}] = eng.FuncName(fn) + " at " + c.Pos(s.Pos())
						}
					}
				}
			}
		}
	}
	var keys []edge
	for e := range edges {
		keys = append(keys, e)
	}
	sort.Slice(keys, func(i, j int) bool { return keys[i].a+keys[i].b < keys[j].a+keys[j].b })
	bad := 0
	for _, e := range keys {
		if w2, ok := edges[edge{e.b, e.a}]; ok && e.a < e.b {
			bad++
			r.Fail(rule, "lock-order:"+e.a+"<>"+e.b, "", e.a+" is held while "+e.b+" is acquired ("+edges[e]+") and "+e.b+" is held while "+e.a+" is acquired ("+w2+"): when the two sections overlap — a submission during MarkExecuted's batch write — each waits for the other for ever, and every later add, mark or unmark hangs behind them")
		}
	}
	if bad == 0 {
		r.Pass(rule, "lock-order:acyclic", "", fmt.Sprintf("%d held-while-acquiring pair(s) in package service, no pair in both orders", len(keys)))
	}
}

// blockEscapesWithout: from block from, can the loop header (next iteration) or
// a return be reached without entering block must?
func blockEscapesWithout(from, must, hdr *ssa.BasicBlock) bool {
	seen := map[*ssa.BasicBlock]bool{}
	q := []*ssa.BasicBlock{from}
	for len(q) > 0 {
		b := q[0]
		q = q[1:]
		if b == must || seen[b] {
			continue
		}
		seen[b] = true
		if b == hdr {
			return true
		}
		if _, isRet := b.Instrs[len(b.Instrs)-1].(*ssa.Return); isRet {
			return true
		}
		q = append(q, b.Succs...)
	}
	return false
}

// c17AdmitHelper decides the two nonce clauses inside a boolean helper: every
// return reachable from the true edge of `expected < tx.Nonce` answers false,
// and every return reachable after `nonceMap[source] = expected + 1` answers true.
func c17AdmitHelper(h *ssa.Function) (guardOK, advanceOK, found bool) {
	res := h.Signature.Results()
	if res.Len() != 1 || res.At(0).Type().String() != "bool" {
		return
	}
	allReturn := func(from *ssa.BasicBlock, want string) bool {
		seen := map[*ssa.BasicBlock]bool{}
		q := []*ssa.BasicBlock{from}
		n := 0
		for len(q) > 0 {
			b := q[0]
			q = q[1:]
			if seen[b] {
				continue
			}
			seen[b] = true
			if ret, isRet := b.Instrs[len(b.Instrs)-1].(*ssa.Return); isRet {
				k, isK := ret.Results[0].(*ssa.Const)
				if !isK || k.Value == nil || k.Value.ExactString() != want {
					return false
				}
				n++
			}
			q = append(q, b.Succs...)
		}
		return n > 0
	}
	for _, b := range h.Blocks {
		if iff, ok := b.Instrs[len(b.Instrs)-1].(*ssa.If); ok {
			if m, ok := eng.DecodeCmp(iff.Cond); ok && m.Op == token.LSS && strings.HasSuffix(eng.Desc(m.Y), ".Nonce") && !strings.HasSuffix(eng.Desc(m.X), ".Nonce") {
				found = true
				guardOK = allReturn(b.Succs[0], "false")
			}
		}
		for _, in := range b.Instrs {
			if mu, isMU := in.(*ssa.MapUpdate); isMU {
				if bo, isB := mu.Value.(*ssa.BinOp); isB && bo.Op == token.ADD {
					if k, isK := eng.ConstInt(bo.Y); isK && k == 1 {
						found = true
						advanceOK = len(b.Succs) > 0 || allReturn(b, "true")
						for _, sc := range b.Succs {
							if !allReturn(sc, "true") {
								advanceOK = false
							}
						}
						if len(b.Succs) == 0 {
							advanceOK = allReturn(b, "true")
						}
					}
				}
			}
		}
	}
	return
}
