package rules

import (
	"fmt"
	"go/token"
	"go/types"
	"sort"
	"strings"

	"golang.org/x/tools/go/ssa"

	"verif/checker/eng"
)

func init() { register("C08", c08) }

const rlpPkg = "storage/rlp"

func c08(c *eng.Ctx, r *eng.Report) {
	r.Explain = "Totality and the canonical-error skeleton of the RLP decoder, decided on the SSA of storage/rlp: " +
		"R8.1 every allocation whose size comes from the input is made only after Stream.Kind() accepted that size (error checked), the slice-growth in decodeSliceElems being the one reviewed exception; " +
		"R8.2 every read goes through willRead first, and every bound test on an input-derived length is written in subtraction form (`n > limit - pos`) so it cannot wrap; raw.go compares lengths before slicing; " +
		"R8.3 DecodeBytes returns nil only after the trailing-data test; R8.4 the only explicit panics reachable from the decode entry points are the reviewed programmer-error ones; " +
		"R8.5/R8.6 the two tag parsers (Stream.readKind, raw.go readKind) keep the same case boundaries and the census of canonical-form guards (sentinel error, operator, constant) contains the reference set; " +
		"R8.7 the encoder/decoder cache is keyed by the Go type together with its struct tags; R8.8 every function of decode.go that pulls a string payload from the stream itself (readFull/readByte) carries the single-byte canonical-form guard, header/size readers and Raw exempt by a reviewed table. " +
		"R8.9 every comparison of a size with the short/long header boundary, in encoder and decoder alike, is equivalent to `size < 56`. " +
		"R8.10 every string header the encoder writes (call of encodeStringHeader) is reached only on paths that excluded the single-byte form (`len != 1` or `b[0] > 0x7f`), or has a constant size other than 1 — the decoder rejects a one-byte string below 0x80 behind a header, so a writer without the guard produces encodings that do not decode; " +
		"R8.12 Stream.Kind() reports size 0 for a single byte below 0x80 as well as for the empty string/list, so wherever its size result is tested for zero the kind result of the same call is tested too on that path (`size == 0 && kind != Byte`) — otherwise a one-byte value is taken for an empty one; " +
		"R8.13 no function of the package hands out or stores the address of an element of a slice field that the package also appends to (the pointer goes stale when the slice grows — list headers are written through such pointers); " +
		"R8.14 what EncodeToBytes hands out is the caller's own: encbuf.toBytes returns a slice it allocated on every path, never (a re-slice of) a field of the pooled encbuf, which the next encoding overwrites; " +
		"R8.18 a decoded byte string owns its bytes: every non-nil slice (*Stream).Bytes returns is allocated in that call (make, or a fresh literal) — never a window on the Stream's scratch buffer, which the next single-byte value overwrites and readUint zeroes, so that c3010203 decodes to [03 03 03]; " +
		"R8.20 the codec of a recursive type is the one its own closures captured: cachedTypeInfo1 puts a placeholder into the type cache before it generates the codec and afterwards fills that placeholder in place — no second map update replaces the pointer the generated closures hold, or a type that refers to itself (struct{V uint64; Kids []*T}) keeps nil writer and decoder behind its self-reference and EncodeToBytes/DecodeBytes panic on the 5 bytes c4 07 c2 c1 05; " +
		"R8.18 a tail slice is written without a list of its own: in the slice writer every piece of list framing (the encbuf.list() that opens one, a literal 0xC0) sits under the test that the field is not a tail — an empty `rlp:\"tail\"` slice otherwise adds an element (c50782aabbc0 for c40782aabb) that the decoder rejects or returns as an extra entry; " +
		"R8.17 what a decode returns depends on its input alone: the rlp functions reachable from Decode, DecodeBytes and (*Stream).Decode keep no state between calls other than the reviewed per-type codec table — no pool of Streams, no package-level scratch (a pooled Stream that is not reset completely starts the next decode inside the list a failed one left open: a valid encoding is rejected with `rlp: end of list`); " +
		"R8.15 readUint converts its 8-byte scratch buffer as a whole, so every byte of it is written in that call: the unused high-order bytes are zeroed before the value bytes are read (the buffer lives as long as the Stream; a narrower integer after a wider one must not inherit its high bytes); " +
		"R8.16 a nil pointer is written as the empty form of what it points to — 0x80 for a byte array, 0xC0 for other arrays, structs and slices: makePtrWriter tests the element type of the pointed-to array (typ.Elem().Elem()), the decoder's `rlp:\"nil\"` rule accepts exactly that; " +
		"R8.11 willRead returns nil only on paths that charged the read to both budgets: the enclosing list's position (or no list is open) and the stream's remaining input limit (or the stream is unlimited). " +
		"Not decided: round-trip equality and uniqueness of encodings for all values; the rest of the encoder."
	r.Assume = []string{"reflect and io.Reader behave as documented"}
	c08Alloc(c, r)
	c08Bounds(c, r)
	c08Trailing(c, r)
	c08Panics(c, r)
	c08Census(c, r)
	c08CacheKey(c, r)
	c08PayloadReaders(c, r)
	c08ShortLongBoundary(c, r)
	c08EncoderSingleByte(c, r)
	c08WillReadAccounting(c, r)
	c08EmptyNotByte(c, r)
	c08NoElementPointers(c, r)
	c08FreshOutput(c, r)
	c08UintScratch(c, r)
	c08NilPointerForm(c, r)
	c08DecoderPure(c, r)
	c08BytesOwnMemory(c, r)
	c08TailHasNoHeader(c, r)
	c08PlaceholderFilledInPlace(c, r)
}

// payloadExempt: functions that pull bytes from the input without being the
// decoder of a string payload.
var payloadExempt = map[string]string{
	"(*Stream).readKind": "reads the tag byte only",
	"(*Stream).readUint": "reads size bytes / integer bytes; the callers (readKind, uint) hold the canonical-form guards checked by R8.6",
	"(*Stream).Raw":      "re-emits the value still encoded (RawValue); whoever decodes it later applies the checks",
	"(*Stream).readFull": "the primitive itself",
	"(*Stream).readByte": "the primitive itself",
}

// c08PayloadReaders: whoever consumes a string payload from the stream itself
// must reject the one-byte string that should have been a single byte.
func c08PayloadReaders(c *eng.Ctx, r *eng.Report) {
	const rule = "R8.8"
	r.Min(rule, 2)
	for _, fn := range rlpDecodeFuncs(c) {
		if !strings.HasSuffix(c.FileOf(fn.Pos()), "/decode.go") {
			continue
		}
		calls := callsNamed(fn, "Stream).readFull", "Stream).readByte")
		if len(calls) == 0 {
			continue
		}
		name := strings.TrimPrefix(eng.FuncName(fn), "storage/rlp.")
		name = strings.Replace(name, "storage/rlp.", "", 1)
		if why, ok := payloadExempt[name]; ok {
			r.Pass(rule, "reader:"+name, c.Pos(fn.Pos()), "exempt: "+why)
			continue
		}
		has := false
		for _, g := range guardTriples(c, fn) {
			if g == "ErrCanonSize when < 128" {
				has = true
			}
		}
		r.Check(has, rule, "reader:"+name, c.Pos(calls[0].Pos()), "reads a string payload and rejects a one-byte string below 0x80 (ErrCanonSize)", name+" reads a string payload straight from the stream (readFull/readByte) but has no `size == 1 && b[0] < 128 → ErrCanonSize` guard: the two-byte form 0x81 0xNN (NN < 0x80) is accepted next to the canonical single byte, so a value has two accepted encodings")
	}
}

func rlpDecodeFuncs(c *eng.Ctx) []*ssa.Function {
	var out []*ssa.Function
	for _, fn := range c.PkgFuncs(rlpPkg) {
		f := c.FileOf(fn.Pos())
		if strings.HasSuffix(f, "/decode.go") || strings.HasSuffix(f, "/raw.go") {
			out = append(out, fn)
		}
	}
	return out
}

func c08Alloc(c *eng.Ctx, r *eng.Report) {
	const rule = "R8.1"
	r.Min(rule, 3)
	for _, fn := range rlpDecodeFuncs(c) {
		idx := 0
		for _, b := range fn.Blocks {
			for _, in := range b.Instrs {
				var size ssa.Value
				what := ""
				switch x := in.(type) {
				case *ssa.MakeSlice:
					if _, isConst := x.Len.(*ssa.Const); isConst {
						continue
					}
					size, what = x.Len, "make([]T, n)"
				case *ssa.Call:
					if eng.CallName(&x.Call) == "reflect.MakeSlice" {
						if _, isConst := x.Call.Args[1].(*ssa.Const); !isConst {
							size, what = x.Call.Args[1], "reflect.MakeSlice"
						}
					}
				}
				if size == nil {
					continue
				}
				idx++
				key := fmt.Sprintf("alloc:%s#%d", eng.FuncName(fn), idx)
				pos := c.Pos(in.Pos())
				if eng.FuncName(fn) == "storage/rlp.decodeSliceElems" {
					// reviewed: capacity grows by half of the elements already decoded; never from a declared size
					ok := !strings.Contains(eng.Desc(size), "Kind(") && !strings.Contains(eng.Desc(size), ".size")
					r.Check(ok, rule, key, pos, "geometric growth from the number of decoded elements (reviewed)", "slice growth in decodeSliceElems now depends on a declared size")
					continue
				}
				// the size must be the size result of a Kind() call whose error is nil on this path
				d := eng.Desc(size)
				var kindCall *ssa.Call
				for _, s := range eng.Sites(fn) {
					if s.Name() == "(*storage/rlp.Stream).Kind" {
						call := s.Instr.(*ssa.Call)
						if strings.Contains(d, eng.Desc(call)+"#1") || derivesFrom(size, call) {
							kindCall = call
						}
					}
				}
				ok := kindCall != nil && nilEdgesAt(in)[ssa.Value(kindCall)]
				r.Check(ok, rule, key, pos, what+" of a size that Stream.Kind() accepted (err == nil on this path)", what+" of "+d+" is not dominated by a successful Stream.Kind(): memory proportional to a declared (not actual) length is allocated")
			}
		}
	}
}

func derivesFrom(v ssa.Value, call *ssa.Call) bool {
	seen := map[ssa.Value]bool{}
	var walk func(v ssa.Value, d int) bool
	walk = func(v ssa.Value, d int) bool {
		if v == nil || d > 6 || seen[v] {
			return false
		}
		seen[v] = true
		if ex, ok := v.(*ssa.Extract); ok && ex.Tuple == ssa.Value(call) && ex.Index == 1 {
			return true
		}
		in, ok := v.(ssa.Instruction)
		if !ok {
			return false
		}
		var ops []*ssa.Value
		for _, o := range in.Operands(ops) {
			if *o != nil && walk(*o, d+1) {
				return true
			}
		}
		return false
	}
	return walk(v, 0)
}

func c08Bounds(c *eng.Ctx, r *eng.Report) {
	const rule = "R8.2"
	r.Min(rule, 6)
	// readFull / readByte: the underlying read is on the nil edge of willRead
	for _, name := range []string{"(*Stream).readFull", "(*Stream).readByte"} {
		fn := c.Func(rlpPkg, name)
		if !r.Anchor(fn != nil, rule, name) {
			continue
		}
		wr := callsNamed(fn, "(*storage/rlp.Stream).willRead")
		ok := len(wr) == 1
		n := 0
		if ok {
			for _, s := range eng.Sites(fn) {
				call, isC := s.Instr.(*ssa.Call)
				if !isC || !call.Call.IsInvoke() {
					continue
				}
				if m := call.Call.Method.Name(); m == "Read" || m == "ReadByte" {
					n++
					if !nilEdgesAt(call)[ssa.Value(wr[0])] {
						ok = false
					}
				}
			}
		}
		r.Check(ok && n > 0, rule, "read-after-willRead:"+eng.FuncName(fn), c.Pos(fn.Pos()), "the reader is touched only after willRead accepted the length", "the underlying reader is read without a successful willRead: input beyond the declared limit / enclosing list can be consumed")
	}
	// bound tests on input-derived lengths must not add
	isLenish := func(v ssa.Value) bool {
		d := eng.Desc(v)
		return strings.HasSuffix(d, ".size") || strings.HasSuffix(d, ".pos") || strings.HasSuffix(d, ".remaining") || d == "n" || strings.Contains(d, "size") && !strings.Contains(d, "(")
	}
	nCmp := 0
	for _, fn := range rlpDecodeFuncs(c) {
		for _, b := range fn.Blocks {
			for _, in := range b.Instrs {
				bo, ok := in.(*ssa.BinOp)
				if !ok {
					continue
				}
				switch bo.Op {
				case token.GTR, token.LSS, token.GEQ, token.LEQ:
				default:
					continue
				}
				bt, ok := bo.X.Type().Underlying().(*types.Basic)
				if !ok || bt.Kind() != types.Uint64 {
					continue
				}
				nCmp++
				for _, op := range []ssa.Value{bo.X, bo.Y} {
					if a, isA := op.(*ssa.BinOp); isA && a.Op == token.ADD && (isLenish(a.X) || isLenish(a.Y)) {
						if _, k := eng.ConstInt(a.Y); k {
							continue // + small constant on a value already bounded by 8 bytes of header is reviewed per site below
						}
						r.Fail(rule, "overflowing-bound:"+eng.FuncName(fn), c.Pos(bo.Pos()), "bound test "+eng.Desc(bo)+" adds input-derived lengths: the sum wraps for sizes near 2^64 and the test passes; write it as `n > limit - pos`")
					}
				}
			}
		}
	}
	// the two in-list / top-level bound tests of Kind and willRead exist in subtraction form
	for _, spec := range []struct{ fn, errName string }{
		{"(*Stream).Kind", "ErrElemTooLarge"}, {"(*Stream).Kind", "ErrValueTooLarge"},
		{"(*Stream).willRead", "ErrElemTooLarge"}, {"(*Stream).willRead", "ErrValueTooLarge"},
	} {
		fn := c.Func(rlpPkg, spec.fn)
		if fn == nil {
			continue
		}
		ok := false
		for _, b := range fn.Blocks {
			iff, isI := b.Instrs[len(b.Instrs)-1].(*ssa.If)
			if !isI {
				continue
			}
			bo, isB := iff.Cond.(*ssa.BinOp)
			if !isB || bo.Op != token.GTR {
				continue
			}
			// true edge yields the sentinel
			t := b.Succs[0]
			yields := false
			for _, in := range t.Instrs {
				switch x := in.(type) {
				case *ssa.Store:
					if strings.Contains(eng.Desc(x.Val), spec.errName) {
						yields = true
					}
				case *ssa.Return:
					for i := range x.Results {
						if strings.Contains(eng.Desc(eng.RetValue(x, i)), spec.errName) {
							yields = true
						}
					}
				}
			}
			if !yields {
				continue
			}
			if spec.errName == "ErrElemTooLarge" {
				if s, isS := bo.Y.(*ssa.BinOp); isS && s.Op == token.SUB {
					ok = true
				}
			} else {
				if strings.HasSuffix(eng.Desc(bo.Y), ".remaining") {
					ok = true
				}
			}
		}
		r.Check(ok, rule, "bound:"+spec.fn+":"+spec.errName, c.Pos(fn.Pos()), "length compared against the remaining room ("+spec.errName+") in non-wrapping form", spec.fn+" no longer rejects a length larger than the remaining room with "+spec.errName+" (in `x > limit - pos` / `x > remaining` form)")
	}
	// raw.go: every slice of the input buffer is preceded by a length test in the function
	for _, name := range []string{"readKind", "readSize"} {
		fn := c.Func(rlpPkg, name)
		if !r.Anchor(fn != nil, rule, "raw.go:"+name) {
			continue
		}
		ok := false
		for _, b := range fn.Blocks {
			if iff, isI := b.Instrs[len(b.Instrs)-1].(*ssa.If); isI {
				if strings.Contains(eng.Desc(iff.Cond), "builtin:len(") {
					ok = true
				}
			}
		}
		r.Check(ok, rule, "raw-len-test:"+name, c.Pos(fn.Pos()), "the buffer length is tested before indexing", "raw.go "+name+" indexes the input without a length test")
	}
	r.Extra["uint64_bound_comparisons"] = nCmp
}

func c08Trailing(c *eng.Ctx, r *eng.Report) {
	const rule = "R8.3"
	r.Min(rule, 1)
	fn := c.Func(rlpPkg, "DecodeBytes")
	if !r.Anchor(fn != nil, rule, "DecodeBytes") {
		return
	}
	ok := false
	for _, re := range eng.Returns(fn) {
		if !eng.IsNilConst(re.Incoming(0)) {
			continue
		}
		for _, cd := range eng.CondsAt(re.Ret) {
			if m, isM := cd.Cmp(); isM && strings.Contains(eng.Desc(m.X), ".Len(") && m.Op == token.LEQ {
				if k, isK := eng.ConstInt(m.Y); isK && k == 0 {
					ok = true
				}
			}
		}
	}
	r.Check(ok, rule, "DecodeBytes:trailing", c.Pos(fn.Pos()), "nil is returned only when no input is left over", "DecodeBytes returns nil although bytes may remain after the value: one value has several accepted encodings")
}

var rlpPanics = map[string]string{
	"storage/rlp.decodeRawValue":   "none expected",
	"(*storage/rlp.Stream).Decode": "programmer error: non-pointer / nil destination",
	"storage/rlp.cachedTypeInfo1":  "none expected",
	"storage/rlp.makeDecoder":      "none expected",
}

func c08Panics(c *eng.Ctx, r *eng.Report) {
	const rule = "R8.4"
	var entries []*ssa.Function
	for _, n := range []string{"Decode", "DecodeBytes", "Split", "SplitString", "SplitList", "CountValues", "(*Stream).Decode", "(*Stream).Bytes", "(*Stream).Raw", "(*Stream).Uint", "(*Stream).Bool", "(*Stream).List", "(*Stream).ListEnd", "(*Stream).Kind"} {
		if f := c.Func(rlpPkg, n); f != nil {
			entries = append(entries, f)
		}
	}
	cone := c.ConeOf(entries, func(fn *ssa.Function) bool { return strings.HasSuffix(eng.FuncPkgPath(fn), "/"+rlpPkg) })
	n := 0
	for _, fn := range cone.Sorted() {
		if !strings.HasSuffix(eng.FuncPkgPath(fn), "/"+rlpPkg) || fn.Blocks == nil {
			continue
		}
		for _, b := range fn.Blocks {
			for _, in := range b.Instrs {
				if _, ok := in.(*ssa.Panic); !ok || !in.Pos().IsValid() {
					continue
				}
				n++
				name := eng.FuncName(fn)
				why, ok := rlpPanics[name]
				r.Check(ok, rule, "panic:"+name, c.Pos(in.Pos()), "reviewed: "+why, "explicit panic reachable from the decode entry points ("+cone.PathTo(fn)+") is not in the reviewed table: arbitrary input bytes could crash the node")
			}
		}
	}
	r.Pass(rule, "panic-scan", "", fmt.Sprintf("%d explicit panics in the decode cone of %d functions", n, len(cone.Set)))
}

// guardTriple: a sentinel error returned under a comparison with a constant.
func guardTriples(c *eng.Ctx, fn *ssa.Function) []string {
	var out []string
	sentinels := []string{"ErrCanonSize", "ErrCanonInt", "ErrValueTooLarge", "ErrElemTooLarge", "ErrExpectedString", "ErrExpectedList", "errUintOverflow", "ErrMoreThanOneValue", "errNotAtEOL"}
	for _, b := range fn.Blocks {
		iff, ok := b.Instrs[len(b.Instrs)-1].(*ssa.If)
		if !ok {
			continue
		}
		for si, succ := range b.Succs {
			var found []string
			for _, in := range succ.Instrs {
				var vals []ssa.Value
				switch x := in.(type) {
				case *ssa.Return:
					for i := range x.Results {
						vals = append(vals, eng.RetValue(x, i))
					}
				case *ssa.Store:
					vals = append(vals, x.Val)
				case *ssa.Phi:
					continue
				}
				for _, v := range vals {
					d := eng.Desc(v)
					for _, s := range sentinels {
						if strings.Contains(d, "global:"+s) {
							found = append(found, s)
						}
					}
				}
			}
			if len(found) == 0 {
				continue
			}
			// the facts that hold on this edge (short-circuit conditions expanded)
			for _, cd := range eng.Conjuncts(iff.Cond, si == 0, iff) {
				bo, isB := cd.V.(*ssa.BinOp)
				if !isB {
					continue
				}
				k, isK := eng.ConstInt(bo.Y)
				if !isK {
					continue
				}
				op := bo.Op
				if !cd.True {
					op = negOp(op)
				}
				for _, s := range found {
					out = append(out, fmt.Sprintf("%s when %s %d", s, op, k))
				}
			}
		}
	}
	// phi-carried sentinels: `if err == nil && size < 56 { err = ErrCanonSize }`
	for _, b := range fn.Blocks {
		for _, in := range b.Instrs {
			phi, ok := in.(*ssa.Phi)
			if !ok {
				continue
			}
			for i, e := range phi.Edges {
				d := eng.Desc(e)
				for _, s := range sentinels {
					if !strings.Contains(d, "global:"+s) {
						continue
					}
					p := b.Preds[i]
					for _, cd := range append(eng.EdgeConds(p), edgeCond(p, b)...) {
						if m, isM := cd.Cmp(); isM {
							if k, isK := eng.ConstInt(m.Y); isK {
								out = append(out, fmt.Sprintf("%s when %s %d", s, m.Op, k))
							}
						}
					}
				}
			}
		}
	}
	sort.Strings(out)
	return uniq(out)
}

func edgeCond(p, s *ssa.BasicBlock) []eng.Cond {
	iff, ok := p.Instrs[len(p.Instrs)-1].(*ssa.If)
	if !ok || len(p.Succs) != 2 {
		return nil
	}
	return []eng.Cond{{V: iff.Cond, True: p.Succs[0] == s, If: iff}}
}

func negOp(op token.Token) token.Token {
	switch op {
	case token.LSS:
		return token.GEQ
	case token.GEQ:
		return token.LSS
	case token.GTR:
		return token.LEQ
	case token.LEQ:
		return token.GTR
	case token.EQL:
		return token.NEQ
	case token.NEQ:
		return token.EQL
	}
	return op
}

// canonReference: guards that make encodings canonical, per function (from today's tree).
var canonReference = map[string][]string{
	"(*Stream).readKind": {"ErrCanonSize when < 56"},
	"(*Stream).readUint": {"ErrCanonSize when == 0"},
	"(*Stream).Bytes":    {"ErrCanonSize when < 128"},
	"(*Stream).uint":     {"ErrCanonInt when == 0", "ErrCanonSize when < 128"},
	"readSize":           {"ErrCanonSize when < 56", "ErrCanonSize when == 0"},
	"readKind":           {"ErrCanonSize when < 128"},
	"decodeBigInt":       {"ErrCanonInt when == 0"},
}

func c08Census(c *eng.Ctx, r *eng.Report) {
	const rule = "R8.6"
	r.Min(rule, 7)
	var names []string
	for n := range canonReference {
		names = append(names, n)
	}
	sort.Strings(names)
	for _, n := range names {
		fn := c.Func(rlpPkg, n)
		if !r.Anchor(fn != nil, rule, n) {
			continue
		}
		got := guardTriples(c, fn)
		// a guard that moved into a private helper of the package (one that has no
		// reference row of its own) still guards the function that calls it
		for _, cs := range eng.Sites(fn) {
			h := cs.Common().StaticCallee()
			if h == nil || h.Pkg != fn.Pkg || h == fn || h.Blocks == nil {
				continue
			}
			hn := strings.Replace(eng.FuncName(h), h.Pkg.Pkg.Name()+".", "", 1)
			hn = strings.Replace(hn, "storage/", "", 1)
			if _, own := canonReference[hn]; own || token.IsExported(h.Name()) {
				continue
			}
			got = append(got, guardTriples(c, h)...)
		}
		has := map[string]bool{}
		for _, g := range got {
			has[g] = true
		}
		var missing []string
		for _, w := range canonReference[n] {
			if !has[w] {
				missing = append(missing, w)
			}
		}
		r.Check(len(missing) == 0, rule, "canon-guards:"+n, c.Pos(fn.Pos()), "canonical-form guards present: "+strings.Join(canonReference[n], "; "), n+" lost canonical-form guard(s) "+strings.Join(missing, "; ")+" (found: "+strings.Join(got, "; ")+"): a non-minimal encoding would be accepted")
	}
	// R8.5 sibling agreement on case boundaries
	const rule5 = "R8.5"
	r.Min(rule5, 1)
	bounds := func(fn *ssa.Function) []int64 {
		set := map[int64]bool{}
		for _, b := range fn.Blocks {
			if iff, ok := b.Instrs[len(b.Instrs)-1].(*ssa.If); ok {
				if bo, isB := iff.Cond.(*ssa.BinOp); isB && bo.Op == token.LSS {
					if k, isK := eng.ConstInt(bo.Y); isK && (k == 0x80 || k == 0xB8 || k == 0xC0 || k == 0xF8) {
						set[k] = true
					}
				}
			}
		}
		var out []int64
		for k := range set {
			out = append(out, k)
		}
		sort.Slice(out, func(i, j int) bool { return out[i] < out[j] })
		return out
	}
	a, b := c.Func(rlpPkg, "(*Stream).readKind"), c.Func(rlpPkg, "readKind")
	if a != nil && b != nil {
		ba, bb := bounds(a), bounds(b)
		r.Check(fmt.Sprint(ba) == fmt.Sprint(bb) && len(ba) == 4, rule5, "tag-boundaries", c.Pos(a.Pos()), "both tag parsers split at 0x80, 0xB8, 0xC0, 0xF8", fmt.Sprintf("the two tag parsers disagree on the case boundaries: Stream.readKind %v vs raw readKind %v (expected [128 184 192 248])", ba, bb))
	}
}

func c08CacheKey(c *eng.Ctx, r *eng.Report) {
	const rule = "R8.7"
	r.Min(rule, 2)
	for _, name := range []string{"cachedTypeInfo", "cachedTypeInfo1"} {
		fn := c.Func(rlpPkg, name)
		if !r.Anchor(fn != nil, rule, name) {
			continue
		}
		// every lookup/update of typeCache uses a key whose Type and tags fields are stored from the two parameters
		keyed := map[string]bool{}
		for _, b := range fn.Blocks {
			for _, in := range b.Instrs {
				st, ok := in.(*ssa.Store)
				if !ok {
					continue
				}
				if t, f := eng.FieldOf(st.Addr); strings.HasSuffix(t, "rlp.typekey") {
					if p, isP := st.Val.(*ssa.Parameter); isP {
						keyed[f+"="+p.Name()] = true
					}
				}
			}
		}
		usesCache := false
		for _, b := range fn.Blocks {
			for _, in := range b.Instrs {
				switch x := in.(type) {
				case *ssa.Lookup:
					if strings.Contains(eng.Desc(x.X), "typeCache") {
						usesCache = true
					}
				case *ssa.MapUpdate:
					if strings.Contains(eng.Desc(x.Map), "typeCache") {
						usesCache = true
					}
				}
			}
		}
		ok := usesCache && keyed["Type=typ"] && keyed["tags=tags"]
		r.Check(ok, rule, "cache-key:"+name, c.Pos(fn.Pos()), "typeCache is keyed by (type, tags)", name+" does not key typeCache by both the type and its struct tags: a slice type used with and without `tail`/`nil` would share one encoder/decoder, so encoding depends on process history")
	}
	// the key type carries both components
	tk := c.Struct(rlpPkg, "typekey")
	if r.Anchor(tk != nil, rule, "typekey") {
		names := []string{}
		for i := 0; i < tk.NumFields(); i++ {
			names = append(names, tk.Field(i).Name())
		}
		sort.Strings(names)
		r.Check(strings.Join(names, ",") == "Type,tags", rule, "cache-key:typekey", "", "typekey = {Type, tags}", "typekey fields are "+strings.Join(names, ","))
	}
}

// c08ShortLongBoundary: encoder and decoder agree that payloads up to 55 bytes
// take the one-byte header. Every comparison of a size with 55/56/57 in the
// package must be equivalent to `size < 56`; the sibling sites (headsize,
// puthead, encodeStringHeader, listEnd, readKind, readSize) have to move
// together or not at all.
func c08ShortLongBoundary(c *eng.Ctx, r *eng.Report) {
	const rule = "R8.9"
	r.Min(rule, 6)
	n := 0
	for _, fn := range c.PkgFuncs(rlpPkg) {
		if c.IsTestFunc(fn) {
			continue
		}
		i := 0
		for _, b := range fn.Blocks {
			for _, in := range b.Instrs {
				bo, ok := in.(*ssa.BinOp)
				if !ok {
					continue
				}
				switch bo.Op {
				case token.LSS, token.LEQ, token.GTR, token.GEQ:
				default:
					continue
				}
				k, isK := eng.ConstInt(bo.Y)
				if !isK || k < 54 || k > 57 {
					continue
				}
				if bt, isB := bo.X.Type().Underlying().(*types.Basic); !isB || bt.Info()&types.IsInteger == 0 {
					continue
				}
				n++
				ok56 := (bo.Op == token.LSS && k == 56) || (bo.Op == token.LEQ && k == 55) || (bo.Op == token.GEQ && k == 56) || (bo.Op == token.GTR && k == 55)
				key := fmt.Sprintf("boundary:%s#%d", strings.TrimPrefix(eng.FuncName(fn), "storage/rlp."), i)
				i++
				r.Check(ok56, rule, key, c.Pos(bo.Pos()), "short form iff size < 56", fmt.Sprintf("%s compares a size with `%s %d`, which is not the short/long boundary `< 56` used by its sibling sites: for a payload of exactly 55 (or 56) bytes the header size this site assumes differs from the header another site writes or accepts — the encoding gains or loses a byte and no longer decodes to the value", eng.FuncName(fn), bo.Op, k))
			}
		}
	}
	r.Check(n >= 6, rule, "boundary:sites", "", fmt.Sprintf("%d boundary comparisons", n), fmt.Sprintf("only %d comparisons with the 55/56 boundary found (headsize, puthead, encodeStringHeader, listEnd, both readKind, readSize expected)", n))
}

// c08EncoderSingleByte: the canonical form has exactly one encoding for a
// one-byte string below 0x80 — the byte itself. encodeStringHeader writes a
// header for any size, so each of its callers has to exclude that case first.
func c08EncoderSingleByte(c *eng.Ctx, r *eng.Report) {
	const rule = "R8.10"
	r.Min(rule, 2)
	hdr := c.Func(rlpPkg, "(*encbuf).encodeStringHeader")
	if !r.Anchor(hdr != nil, rule, "(*encbuf).encodeStringHeader") {
		return
	}
	n := 0
	for _, fn := range c.PkgFuncs(rlpPkg) {
		if c.IsTestFunc(fn) {
			continue
		}
		i := 0
		for _, s := range eng.Sites(fn) {
			if s.Static() != hdr {
				continue
			}
			n++
			key := fmt.Sprintf("string-header:%s#%d", strings.TrimPrefix(eng.FuncName(fn), "storage/rlp."), i)
			i++
			if k, isK := eng.ConstInt(s.Common().Args[len(s.Common().Args)-1]); isK && k != 1 {
				r.Check(true, rule, key, c.Pos(s.Pos()), fmt.Sprintf("constant size %d", k), "")
				continue
			}
			// edges on which the single-byte form is excluded
			cut := func(a *ssa.BasicBlock, succ int) bool {
				iff, ok := a.Instrs[len(a.Instrs)-1].(*ssa.If)
				if !ok {
					return false
				}
				for _, cd := range eng.Conjuncts(iff.Cond, succ == 0, iff) {
					m, ok := cd.Cmp()
					if !ok {
						continue
					}
					if k, isK := eng.ConstInt(m.X); isK {
						m.X, m.Y, m.Op = m.Y, m.X, eng.Flip(m.Op)
						_ = k
					}
					k, isK := eng.ConstInt(m.Y)
					if !isK {
						continue
					}
					d := eng.Desc(m.X)
					isLen := strings.HasPrefix(d, "builtin:len(") || strings.HasSuffix(d, ".Len()") || strings.Contains(d, ").Len(")
					switch {
					case isLen && m.Op == token.NEQ && k == 1:
						return true
					case isLen && (m.Op == token.GTR && k >= 1 || m.Op == token.GEQ && k >= 2):
						return true
					case isLen && (m.Op == token.LSS && k <= 1 || m.Op == token.LEQ && k <= 0 || m.Op == token.EQL && k != 1):
						return true
					case !isLen && isByte(m.X.Type()) && (m.Op == token.GTR && k >= 0x7f || m.Op == token.GEQ && k >= 0x80):
						return true
					}
				}
				return false
			}
			open := eng.PathToAvoiding(fn, s.Instr, nil, cut)
			r.Check(!open, rule, key, c.Pos(s.Pos()), "reached only after the single-byte form was excluded", fmt.Sprintf("%s writes a string header on a path that never excluded the single-byte form (`len == 1 && b[0] <= 0x7f`): a one-byte value below 0x80 is encoded as 0x81 b instead of b — two encodings of one value, and the decoder of this package rejects the longer one as non-canonical, so what the node encodes no longer decodes", eng.FuncName(fn)))
		}
	}
	r.Check(n >= 2, rule, "string-header:sites", "", fmt.Sprintf("%d header writers", n), fmt.Sprintf("only %d callers of encodeStringHeader found (encodeString and writeString expected)", n))
}

func isByte(t types.Type) bool {
	b, ok := t.Underlying().(*types.Basic)
	return ok && (b.Kind() == types.Uint8 || b.Kind() == types.Byte)
}

// c08WillReadAccounting: willRead is the one place where a read is charged to
// the enclosing list and to the input limit. A path that returns nil without
// charging one of them lets an element run past its list (sibling data is read
// as payload) or lets a limited stream allocate beyond its input.
func c08WillReadAccounting(c *eng.Ctx, r *eng.Report) {
	const rule = "R8.11"
	r.Min(rule, 2)
	fn := c.Func(rlpPkg, "(*Stream).willRead")
	if !r.Anchor(fn != nil, rule, "(*Stream).willRead") {
		return
	}
	type budget struct {
		name, field, exemptField string
		exemptTrue               bool // which outcome of the exempting test means "nothing to charge"
	}
	for _, bd := range []budget{
		{"input-limit", "remaining", "limited", false},
		{"list-position", "pos", "stack", false},
	} {
		isStore := func(in ssa.Instruction) bool {
			st, ok := in.(*ssa.Store)
			if !ok {
				return false
			}
			_, f := eng.FieldOf(st.Addr)
			if f != bd.field {
				return false
			}
			bo, ok := st.Val.(*ssa.BinOp)
			return ok && (bo.Op == token.SUB || bo.Op == token.ADD)
		}
		cut := func(a *ssa.BasicBlock, succ int) bool {
			iff, ok := a.Instrs[len(a.Instrs)-1].(*ssa.If)
			if !ok {
				return false
			}
			for _, cd := range eng.Conjuncts(iff.Cond, succ == 0, iff) {
				d := eng.Desc(cd.V)
				switch bd.exemptField {
				case "limited":
					if strings.HasSuffix(d, ".limited") && !cd.True {
						return true
					}
				case "stack":
					if m, ok := cd.Cmp(); ok && strings.Contains(eng.Desc(m.X), ".stack") {
						if k, isK := eng.ConstInt(m.Y); isK && (m.Op == token.LEQ && k == 0 || m.Op == token.EQL && k == 0 || m.Op == token.LSS && k == 1) {
							return true
						}
					}
				}
			}
			return false
		}
		bad := ""
		nret := 0
		for _, re := range eng.Returns(fn) {
			if !eng.IsNilConst(re.Incoming(0)) {
				continue
			}
			nret++
			if eng.PathToAvoiding(fn, re.Ret, isStore, cut) {
				bad = c.Pos(re.Ret.Pos())
			}
		}
		r.Check(bad == "" && nret > 0, rule, "willRead:"+bd.name, c.Pos(fn.Pos()), "every nil return charged the "+bd.name+" budget (or it does not apply)", fmt.Sprintf("(*Stream).willRead can return nil at %s on a path that neither updated s.%s nor established that the budget does not apply: the read is not charged to the %s, so a crafted element may claim more bytes than its enclosing list or the input limit holds and the decoder reads/allocates past them instead of failing with the canonical error", bad, bd.field, bd.name))
	}
}

// c08EmptyNotByte: the (kind, size) pair of Stream.Kind() encodes three cases
// in size == 0: empty string, empty list and — with kind Byte — a one-byte
// value whose payload is the tag itself.
func c08EmptyNotByte(c *eng.Ctx, r *eng.Report) {
	const rule = "R8.12"
	r.Min(rule, 1)
	kindFn := c.Func(rlpPkg, "(*Stream).Kind")
	if !r.Anchor(kindFn != nil, rule, "(*Stream).Kind") {
		return
	}
	n := 0
	for _, fn := range c.PkgFuncs(rlpPkg) {
		if c.IsTestFunc(fn) || fn == kindFn {
			continue
		}
		i := 0
		for _, s := range eng.Sites(fn) {
			call, ok := s.Instr.(*ssa.Call)
			if !ok || call.Call.StaticCallee() != kindFn || call.Referrers() == nil {
				continue
			}
			var kindV, sizeV ssa.Value
			for _, ref := range *call.Referrers() {
				if ex, isE := ref.(*ssa.Extract); isE {
					switch ex.Index {
					case 0:
						kindV = ex
					case 1:
						sizeV = ex
					}
				}
			}
			if sizeV == nil {
				continue
			}
			// every branch edge on which size == 0 is established
			for _, b := range fn.Blocks {
				iff, isIf := b.Instrs[len(b.Instrs)-1].(*ssa.If)
				if !isIf {
					continue
				}
				for succ := 0; succ < 2; succ++ {
					conj := eng.Conjuncts(iff.Cond, succ == 0, iff)
					zero := false
					for _, cd := range conj {
						if m, ok := cd.Cmp(); ok && m.X == sizeV {
							if k, isK := eng.ConstInt(m.Y); isK && k == 0 && (m.Op == token.EQL || m.Op == token.LEQ) {
								zero = true
							}
						}
					}
					if !zero {
						continue
					}
					n++
					withKind := false
					for _, cd := range append(conj, eng.EdgeConds(b)...) {
						if m, ok := cd.Cmp(); ok && kindV != nil && (m.X == kindV || m.Y == kindV) {
							withKind = true
						}
					}
					// `size == 0 && kind != Byte`: the kind test is the very next branch on that edge
					if nb := b.Succs[succ]; !withKind && len(nb.Preds) == 1 {
						if i2, isIf2 := nb.Instrs[len(nb.Instrs)-1].(*ssa.If); isIf2 {
							if m, ok := eng.DecodeCmp(i2.Cond); ok && kindV != nil && (m.X == kindV || m.Y == kindV) {
								withKind = true
							}
						}
					}
					key := fmt.Sprintf("empty-test:%s#%d", strings.TrimPrefix(eng.FuncName(fn), "storage/rlp."), i)
					i++
					r.Check(withKind, rule, key, c.Pos(call.Pos()), "size == 0 is read together with the kind of the same Kind() call", eng.FuncName(fn)+" takes `size == 0` of Stream.Kind() for an empty value without looking at the kind: Kind() also reports size 0 for a single byte below 0x80 (kind Byte), so a one-byte value — uint 1..127, a one-byte string — is decoded as the empty/nil value and its byte is consumed; the round trip loses the value and two different inputs decode to the same thing")
				}
			}
		}
	}
	r.Check(n >= 1, rule, "empty-test:sites", "", fmt.Sprintf("%d zero-size tests on Kind() results", n), "no `size == 0` test on a Stream.Kind() result found (makeOptionalPtrDecoder expected)")
}

// c08NoElementPointers: &slice[i] of a growing slice.
func c08NoElementPointers(c *eng.Ctx, r *eng.Report) {
	const rule = "R8.13"
	r.Min(rule, 1)
	// slice fields the package appends to
	grown := map[string]bool{}
	for _, fn := range c.PkgFuncs(rlpPkg) {
		if c.IsTestFunc(fn) {
			continue
		}
		for _, b := range fn.Blocks {
			for _, in := range b.Instrs {
				st, ok := in.(*ssa.Store)
				if !ok {
					continue
				}
				t, f := eng.FieldOf(st.Addr)
				if t == "" {
					continue
				}
				if call, isC := st.Val.(*ssa.Call); isC && eng.CallName(&call.Call) == "builtin:append" {
					grown[t+"."+f] = true
				}
			}
		}
	}
	elemOfGrown := func(v ssa.Value) string {
		ia, ok := v.(*ssa.IndexAddr)
		if !ok {
			return ""
		}
		if _, isSlice := ia.X.Type().Underlying().(*types.Slice); !isSlice {
			return ""
		}
		t, f := eng.FieldOf(unloadV(ia.X))
		if t != "" && grown[t+"."+f] {
			return t + "." + f
		}
		return ""
	}
	bad := ""
	for _, fn := range c.PkgFuncs(rlpPkg) {
		if c.IsTestFunc(fn) {
			continue
		}
		for _, re := range eng.Returns(fn) {
			for i := range re.Ret.Results {
				if w := elemOfGrown(re.Incoming(i)); w != "" {
					bad = eng.FuncName(fn) + " returns the address of an element of " + w + " (" + c.Pos(re.Ret.Pos()) + ")"
				}
			}
		}
		for _, b := range fn.Blocks {
			for _, in := range b.Instrs {
				if st, ok := in.(*ssa.Store); ok {
					if w := elemOfGrown(st.Val); w != "" {
						if t, _ := eng.FieldOf(st.Addr); t != "" {
							bad = eng.FuncName(fn) + " stores the address of an element of " + w + " in a struct field (" + c.Pos(st.Pos()) + ")"
						}
					}
				}
			}
		}
	}
	r.Check(bad == "" && len(grown) >= 2, rule, "element-pointers", "", fmt.Sprintf("%d slice fields are grown by append; no function hands out or keeps the address of one of their elements", len(grown)), bad+": the package appends to that slice, and when append reallocates the pointer refers to the old array — a list header written through it (listEnd stores the size) is lost, the list is emitted with size 0 and the encoding no longer decodes to the value")
}

func unloadV(v ssa.Value) ssa.Value {
	if u, ok := v.(*ssa.UnOp); ok && u.Op == token.MUL {
		return u.X
	}
	return v
}

// c08FreshOutput: encbufs are pooled.
func c08FreshOutput(c *eng.Ctx, r *eng.Report) {
	const rule = "R8.14"
	r.Min(rule, 1)
	fn := c.Func(rlpPkg, "(*encbuf).toBytes")
	if !r.Anchor(fn != nil, rule, "(*encbuf).toBytes") {
		return
	}
	bad := ""
	var fresh func(v ssa.Value, d int) bool
	fresh = func(v ssa.Value, d int) bool {
		if d > 5 {
			return false
		}
		switch x := v.(type) {
		case *ssa.MakeSlice:
			return true
		case *ssa.Slice:
			return fresh(x.X, d+1)
		case *ssa.Phi:
			for _, e := range x.Edges {
				if !fresh(e, d+1) {
					return false
				}
			}
			return len(x.Edges) > 0
		case *ssa.Call:
			n := eng.CallName(&x.Call)
			return n == "builtin:append" && len(x.Call.Args) > 0 && (eng.IsNilConst(x.Call.Args[0]) || fresh(x.Call.Args[0], d+1))
		}
		return false
	}
	for _, re := range eng.Returns(fn) {
		if v := re.Incoming(0); !fresh(v, 0) {
			bad = c.Pos(re.Ret.Pos()) + " returns " + eng.Desc(v)
		}
	}
	r.Check(bad == "", rule, "toBytes:fresh", c.Pos(fn.Pos()), "every return is a slice allocated in toBytes", "(*encbuf).toBytes at "+bad+", memory that belongs to the pooled encoder buffer: EncodeToBytes puts the buffer back into the pool, the next encoding overwrites the bytes the earlier caller still holds — an encoded value no longer decodes to what was encoded once another value has been encoded")
}

// c08UintScratch: see R8.15.
func c08UintScratch(c *eng.Ctx, r *eng.Report) {
	const rule = "R8.15"
	r.Min(rule, 1)
	fn := c.Func(rlpPkg, "(*Stream).readUint")
	if !r.Anchor(fn != nil, rule, "(*Stream).readUint") {
		return
	}
	var conv ssa.Instruction
	for _, s := range eng.Sites(fn) {
		if strings.HasSuffix(s.Name(), "bigEndian).Uint64") {
			conv = s.Instr
		}
	}
	if conv == nil {
		r.Pass(rule, "readUint:scratch-zeroed", c.Pos(fn.Pos()), "no whole-buffer conversion in readUint")
		return
	}
	if a := conv.(ssa.CallInstruction).Common().Args; len(a) == 0 || !strings.Contains(eng.Desc(a[len(a)-1]), "uintbuf") {
		r.Pass(rule, "readUint:scratch-zeroed", c.Pos(fn.Pos()), "the converted buffer is not the Stream's scratch buffer")
		return
	}
	zeroed := false
	for _, s := range eng.Sites(fn) {
		if (s.Name() == "builtin:clear" || s.Name() == "builtin:copy") && strings.Contains(eng.Desc(s.Common().Args[0]), "uintbuf") && eng.Reaches(s.Instr, conv) {
			zeroed = true
		}
	}
	for _, b := range fn.Blocks {
		for _, in := range b.Instrs {
			st, ok := in.(*ssa.Store)
			if !ok {
				continue
			}
			ia, isIA := st.Addr.(*ssa.IndexAddr)
			if !isIA {
				continue
			}
			if _, f := eng.FieldOf(eng.Unwrap(ia.X)); f != "uintbuf" {
				continue
			}
			if k, isK := eng.ConstInt(st.Val); isK && k == 0 && eng.Reaches(st, conv) {
				zeroed = true
			}
		}
	}
	// or the converted slice is exactly the bytes read
	r.Check(zeroed, rule, "readUint:scratch-zeroed", c.Pos(fn.Pos()), "the high-order bytes of the scratch buffer are zeroed before the whole buffer is converted", "readUint converts all 8 bytes of Stream.uintbuf but no longer zeroes the bytes it does not read: inside one stream a multi-byte integer (or long-form length) that is narrower than an earlier one inherits the earlier one's high bytes — []uint64{1<<40, 300} decodes wrong, a transaction with nonce 70000 decodes gas 21000 as 86536 and its hash changes")
}

// c08NilPointerForm: see R8.16.
func c08NilPointerForm(c *eng.Ctx, r *eng.Report) {
	const rule = "R8.16"
	r.Min(rule, 1)
	fn := c.Func(rlpPkg, "makePtrWriter")
	if !r.Anchor(fn != nil, rule, "rlp.makePtrWriter") {
		return
	}
	n, bad := 0, ""
	for _, s := range eng.Sites(fn) {
		if s.Name() != "storage/rlp.isByte" {
			continue
		}
		n++
		d := eng.Desc(s.Common().Args[0])
		if strings.Count(d, ".Elem(") < 2 {
			bad = d
		}
	}
	r.Check(bad == "" && n >= 1, rule, "nil-pointer:byte-array-form", c.Pos(fn.Pos()), "the byte test is applied to the element type of the pointed-to array", "makePtrWriter applies isByte to "+bad+" — the pointed-to type itself, not the element type of the array it points to: the byte-array case never matches, a nil *[N]byte (*common.Address, *common.Hash) is written as 0xC0 instead of 0x80, accepted bytes no longer re-encode to themselves and a contract-creation transaction (nil recipient) changes its hash")
}

// c08DecoderPure: see R8.17.
func c08DecoderPure(c *eng.Ctx, r *eng.Report) {
	const rule = "R8.17"
	r.Min(rule, 1)
	reviewed := map[string]string{
		"global-store:storage/rlp.cachedTypeInfo1": "codec table memoised per Go type and tags under typeCacheMutex: a hit and a miss yield the same decoder",
		"global-store:storage/rlp.cachedTypeInfo":  "read side of the same table",
	}
	var entries []*ssa.Function
	for _, n := range []string{"Decode", "DecodeBytes", "(*Stream).Decode"} {
		if f := c.Func(rlpPkg, n); f != nil {
			entries = append(entries, f)
		}
	}
	if !r.Anchor(len(entries) == 3, rule, "rlp.Decode, rlp.DecodeBytes, (*Stream).Decode") {
		return
	}
	in := func(fn *ssa.Function) bool { return strings.HasSuffix(eng.FuncPkgPath(fn), "/"+rlpPkg) }
	cone := c.ConeOf(entries, in)
	hits, n := 0, 0
	for _, fn := range cone.Sorted() {
		if !in(fn) || fn.Blocks == nil {
			continue
		}
		n++
		for _, h := range eng.ScanNondeterminism(fn) {
			switch h.Kind {
			case "shared-object", "global-store", "cache":
			default:
				continue
			}
			key := h.Kind + ":" + eng.FuncName(fn)
			if why, ok := reviewed[key]; ok {
				r.Pass(rule, key, c.Pos(h.Pos), "reviewed: "+why)
				continue
			}
			hits++
			r.Fail(rule, key, c.Pos(h.Pos), h.Detail+" in the cone of the decoder ("+cone.PathTo(fn)+"): decoder state then outlives the call — a Stream taken from a pool and reset incompletely keeps the list stack of an earlier, failed decode, and the next well-formed input is rejected (or bounded by the old list instead of its own length)")
		}
	}
	if hits == 0 {
		r.Pass(rule, "decoder:pure", "", fmt.Sprintf("%d rlp functions under the decode entry points keep nothing between calls beyond the reviewed type table", n))
	}
}

// c08BytesOwnMemory: see R8.18.
func c08BytesOwnMemory(c *eng.Ctx, r *eng.Report) {
	const rule = "R8.18"
	r.Min(rule, 1)
	fn := c.Func(rlpPkg, "(*Stream).Bytes")
	if !r.Anchor(fn != nil, rule, "(*Stream).Bytes") {
		return
	}
	n, bad := 0, ""
	var own func(v ssa.Value, d int) bool
	own = func(v ssa.Value, d int) bool {
		if d > 6 {
			return false
		}
		switch x := v.(type) {
		case *ssa.Const:
			return true
		case *ssa.MakeSlice:
			return true
		case *ssa.Slice:
			if al, ok := x.X.(*ssa.Alloc); ok && al.Heap {
				return true
			}
			return false
		case *ssa.Phi:
			for _, e := range x.Edges {
				if !own(e, d+1) {
					return false
				}
			}
			return true
		}
		return false
	}
	for _, re := range eng.Returns(fn) {
		v := re.Incoming(0)
		if eng.IsNilConst(v) {
			continue
		}
		n++
		if !own(eng.ResolveLocal(v), 0) {
			bad = eng.Desc(v) + " at " + c.Pos(re.Ret.Pos())
		}
	}
	r.Check(bad == "" && n >= 1, rule, "Bytes:own-memory", c.Pos(fn.Pos()), fmt.Sprintf("%d non-nil results, each allocated in the call", n), "(*Stream).Bytes returns "+bad+", memory that belongs to the Stream: decodeByteSlice and decodeInterface keep the slice, so every single-byte string decoded from one input shares one byte, overwritten by the next such value and zeroed by readUint — c3010203 decodes to [03 03 03], struct{Flag []byte{5}; Count 1000} comes back with Flag={0}")
}

// c08TailHasNoHeader: see R8.19.
func c08TailHasNoHeader(c *eng.Ctx, r *eng.Report) {
	const rule = "R8.19"
	r.Min(rule, 1)
	mk := c.Func(rlpPkg, "makeSliceWriter")
	if !r.Anchor(mk != nil, rule, "rlp.makeSliceWriter") {
		return
	}
	n, bad := 0, ""
	underNotTail := func(in ssa.Instruction) bool {
		for _, cd := range eng.CondsAt(in) {
			if strings.HasSuffix(eng.Desc(cd.V), ".tail") && !cd.True {
				return true
			}
			if u, ok := cd.V.(*ssa.UnOp); ok && u.Op == token.NOT && strings.HasSuffix(eng.Desc(u.X), ".tail") && cd.True {
				return true
			}
		}
		return false
	}
	for _, fn := range mk.AnonFuncs {
		for _, b := range fn.Blocks {
			for _, in := range b.Instrs {
				framing := ""
				switch x := in.(type) {
				case ssa.CallInstruction:
					nm := eng.CallName(x.Common())
					if strings.HasSuffix(nm, "encbuf).list") { // listEnd needs the head that list() returned
						framing = nm
					}
				case *ssa.Store:
					if k, ok := eng.ConstInt(x.Val); ok && k == 0xC0 {
						framing = "the literal 0xC0"
					}
				}
				if framing == "" {
					continue
				}
				n++
				if !underNotTail(in) {
					bad = framing + " at " + c.Pos(in.Pos())
				}
			}
		}
	}
	r.Check(bad == "" && n >= 1, rule, "slice-writer:tail-unframed", c.Pos(mk.Pos()), fmt.Sprintf("%d piece(s) of list framing, each under !tail", n), "the slice writer emits list framing ("+bad+") without having tested that the field is not a tail: a struct whose `rlp:\"tail\"` slice is empty at encode time gets an extra empty-list element — {A; B; Tail} encodes as c50782aabbc0 instead of c40782aabb, which DecodeBytes rejects for a []uint64 tail and returns with one extra element for a []RawValue tail")
}

// c08PlaceholderFilledInPlace: see R8.20.
func c08PlaceholderFilledInPlace(c *eng.Ctx, r *eng.Report) {
	const rule = "R8.20"
	r.Min(rule, 1)
	fn := c.Func(rlpPkg, "cachedTypeInfo1")
	if !r.Anchor(fn != nil, rule, "rlp.cachedTypeInfo1") {
		return
	}
	var gen ssa.Instruction
	for _, s := range eng.Sites(fn) {
		if strings.HasSuffix(s.Name(), "rlp.genTypeInfo") {
			gen = s.Instr
		}
	}
	if !r.Anchor(gen != nil, rule, "cachedTypeInfo1: genTypeInfo call") {
		return
	}
	before, after := 0, ""
	for _, b := range fn.Blocks {
		for _, in := range b.Instrs {
			mu, ok := in.(*ssa.MapUpdate)
			if !ok || !strings.Contains(eng.Desc(mu.Map), "typeCache") {
				continue
			}
			if eng.Reaches(gen, in) {
				after = c.Pos(in.Pos())
			} else {
				before++
			}
		}
	}
	r.Check(before >= 1 && after == "", rule, "typecache:placeholder-in-place", c.Pos(fn.Pos()), "one placeholder entry before the codec is generated, none replaces it afterwards", "cachedTypeInfo1 replaces the cache entry after the codec was generated (map update at "+after+"): the closures generated for a self-referential type captured the placeholder pointer, which now stays empty — encoding or decoding such a type panics with a nil dereference as soon as the recursive field is reached")
}
