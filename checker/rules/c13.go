package rules

import (
	"fmt"
	"go/token"
	"go/types"
	"strings"

	"golang.org/x/tools/go/ssa"

	"verif/checker/eng"
)

func init() { register("C13", c13) }

// C13 — any threshold subset yields the same valid group signature.
//
// The algebraic identity (Lagrange interpolation in the exponent) is not a
// shape of the code and is not decided. What is decided are the agreement
// clauses without which the identity cannot apply to this node's data: the
// dealer, the combiner and the bookkeeping in between must talk about the same
// threshold, the same evaluation points, the same modulus, the same constant
// coefficient, and must leave the collected shares untouched.
func c13(c *eng.Ctx, r *eng.Report) {
	r.Explain = "Threshold-signature agreement clauses (necessary conditions of subset/order independence, not the algebra itself): " +
		"R13.1 every threshold in play — the number of polynomial coefficients a dealer draws, the size of every share-recovery set, the k handed to RecoverGroupSignature — is model.Param.GetGroupK(member count), and recovery runs only once at least that many shares are held; " +
		"R13.2 evaluation points agree: ShareSeckey evaluates at ID.GetBigInt(), recoverSignature interpolates at ID.GetBigInt() of the id stored at the same index as its share, the dealer files share f(id) under key id.GetHexString(), the collector files a share under the sender's id.GetHexString(), the combiner re-parses that key with SetHexString, and ID.Serialize (behind GetHexString) is value-preserving (raw big-endian bytes or left padding only); " +
		"R13.3 every Mod/ModInverse of the sharing and recovery arithmetic uses the package variable curveOrder (initialised from bn256.Order), and the Lagrange loop has the shape L_i(0)=Π_{j≠i} x_j/(x_j−x_i): skips exactly j==i, multiplies x_j into the numerator, (x_j−x_i) into the denominator, inverts the denominator, and scales share i by that coefficient; " +
		"R13.4 dealer and group key agree on the constant coefficient: the public key a dealer publishes is that of secretSeed.Deri(0), coefficient i is secretSeed.Deri(i), ShareSeckey treats msec[0] as the constant term, the member key is AggregateSeckeys over every received share and the group key AggregatePubkeys over every received dealer key, aggregated only once all member pieces arrived, and the member's published share key is GeneratePubkey of that aggregated secret; " +
		"R13.5 recovery and aggregation do not write through their inputs: every in-place curve/signature operation in recoverSignature, RecoverGroupSignature, AggregatePubkeys and GroupSignGenerator works on a value allocated in that function and never initialised by a shallow struct copy of an input (Signature and Pubkey wrap a pointer). " +
		"R13.6 a dealer deals one polynomial per group: the seed, the coefficients, the shares and the published dealer key are computed from the miner's long-term secret and the group hash with no randomness, clock or environment source in their cone, so a dealer whose context is rebuilt (restart, re-delivered init) hands the remaining members pieces of the same polynomial the others already hold. " +
		"R13.7 recovery keeps nothing between calls and runs sequentially: no cache, package-variable store, shared object or goroutine in the cone of recoverSignature/RecoverGroupSignature (a memo keyed by the signer *set* and holding per-*position* coefficients is right for the first arrival order only). " +
		"R13.8 a member signs with the key the DKG gave it, also after a restart: the record written for the signing key is exactly SignSecKey.Serialize() (a variable-length big-endian integer) and what is read back is handed to Deserialize whole — no re-slicing at a fixed width, nothing appended to the same record; " +
		"R13.13 (= R14.4) a member's share over a message depends on key and message only: Sign, VerifySig, hash-to-curve and the codecs read no process-local cache — a hashed point remembered under a cropped key makes the share for message B a share over H(A) whenever A and B share their last 32 bytes (two 64-byte beacon messages), and the recovered signature is then invalid for B; " +
		"R13.12 a sign key or id handed over as hex is the key that was written: BnInt.getHexString writes (*big.Int).Text(16), which drops leading zeros, and BnInt.setHexString reads the digits back with (*big.Int).SetString(_, 16) on the same field — a byte-wise hex decoder mis-reads the one key in sixteen that has an odd number of digits (value >> 4), and that member's shares then fail under its public share; " +
		"R13.11 the recovered group signature is brought to its final representation before it is published: in genGroupSign every store to GroupSignGenerator.groupSign is followed, before the function returns and so under the caller's write lock, by a Serialize of that field — serialising a point makes it affine in place, and the readers (SignRecovered under the read lock, GetGroupSign().Serialize() under none) share the point through the Signature's pointer, so an un-normalised point is rewritten by several readers at once and one of them hands out garbage; " +
		"R13.9 a share piece reaches only the member it was evaluated for: the two senders of share pieces (the initial deal and the answer to a re-request) use the unicast SendToStranger with the receiver's id — a ResponseSharePiece carries no receiver field, so a group-wide spread lets another member that still misses this dealer's piece adopt f(requester). " +
		"R13.10 all members sign the same curve point H(m): the big-endian encodings between message and point (HashToPoint's coordinates, id and scalar encoders) are right-aligned, each in a buffer of its own (C14's R14.5 under this property's id — a coordinate with a leading zero byte must not inherit bytes of the previous one); " +
		"Not decided: that interpolation over any ≥k points yields the same group element (algebra), DKG secrecy/robustness, hash-to-curve, anything about the pairing."
	r.Trusted = append(r.Trusted, "math/big arithmetic", "consensus/groupsig/bn256 curve arithmetic (Add, ScalarMult are the group law)", "common.ToHex is an injective hex rendering of its byte argument")
	r.Assume = append(r.Assume, "member ids are distinct and non-zero modulo the curve order (ids are SHA3 of public keys)")
	c13Threshold(c, r)
	c13Points(c, r)
	c13Modulus(c, r)
	c13Dealer(c, r)
	c13ReadOnly(c, r)
	c13DealerDeterminism(c, r)
	c13RecoveryPure(c, r)
	c13KeyAtRest(c, r)
	c13PieceRouting(c, r)
	c13PublishNormalised(c, r)
	hexCodecAgreeAs(c, r, "R13.12")
	// R13.13: a share is a function of (key, message): Sign, VerifySig and hash-to-curve consult no process-local
	// memo (C14's R14.4 re-run under this property's id)
	sub := eng.NewReport(r.Prop, r.Tier)
	c14Purity(c, sub)
	for _, o := range sub.Obls {
		o.Rule = "R13.13"
		r.Obls = append(r.Obls, o)
	}
	r.Min("R13.13", 1)
	// R13.10: every member signs the same point H(m): the fixed-width encodings on the way from message to curve
	// point (HashToPoint, the id and scalar encoders) are right-aligned in a buffer of their own (C14's R14.5 here)
	c14LeftPadAs(c, r, "R13.10")
}

func isGetGroupK(v ssa.Value) *ssa.Call {
	call, ok := eng.Unwrap(v).(*ssa.Call)
	if ok && strings.HasSuffix(eng.CallName(&call.Call), "ConsensusParam).GetGroupK") {
		return call
	}
	return nil
}

func memberCountish(v ssa.Value) bool {
	d := eng.Desc(v)
	return strings.Contains(d, "GetMemberCount(") || strings.Contains(d, ".GroupMembers") || strings.Contains(d, ".groupMemberNum") || strings.Contains(d, "MemberSize(") || strings.Contains(d, ".Members")
}

func c13Threshold(c *eng.Ctx, r *eng.Report) {
	const rule = "R13.1"
	r.Min(rule, 6)
	newGen := c.Func("consensus/model", "NewGroupSignGenerator")
	newGenL := c.Func("consensus/logical", "newGroupSignGenerator")
	recover := c.Func("consensus/groupsig", "RecoverGroupSignature")
	secList := c.Func("consensus/logical/group_create", "(*groupNodeInfo).genSecKeyList")
	thr := c.Func("consensus/logical/group_create", "(*groupNodeInfo).threshold")
	if !r.Anchor(newGen != nil && newGenL != nil && recover != nil && secList != nil, rule, "NewGroupSignGenerator/RecoverGroupSignature/genSecKeyList/threshold") {
		return
	}
	// (a) every recovery set is sized by GetGroupK(member count)
	n := 0
	for _, s := range append(c.Callers(newGen), c.Callers(newGenL)...) {
		if c.IsTestFunc(s.Fn) {
			continue
		}
		n++
		key := fmt.Sprintf("%s@%s#%d", s.Static().Name(), eng.FuncName(s.Fn), n)
		k := isGetGroupK(s.Common().Args[0])
		ok := k != nil && memberCountish(k.Call.Args[len(k.Call.Args)-1])
		r.Check(ok, rule, key, c.Pos(s.Pos()), "threshold is Param.GetGroupK("+descOr(k)+")", "a share-recovery set is created with threshold "+eng.Desc(s.Common().Args[0])+", which is not model.Param.GetGroupK(member count): dealers draw GetGroupK(n) coefficients, so a smaller k interpolates a polynomial of too low a degree and the recovered signature is not the group's (and differs per subset)")
	}
	r.Check(n >= 2, rule, "NewGroupSignGenerator:callers", "", fmt.Sprintf("%d production call sites", n), fmt.Sprintf("only %d production call sites of NewGroupSignGenerator found (block signing and parent-group signing expected)", n))

	// (b) the polynomial has GetGroupK(member count) coefficients: through nodeInfo.threshold(), or directly
	for _, s := range c.Callers(secList) {
		if c.IsTestFunc(s.Fn) {
			continue
		}
		arg := eng.Unwrap(s.Common().Args[1])
		call, _ := arg.(*ssa.Call)
		ok := false
		why := eng.Desc(arg)
		switch {
		case call != nil && thr != nil && call.Call.StaticCallee() == thr:
			ok = true
		case isGetGroupK(arg) != nil:
			x := isGetGroupK(arg).Call.Args[len(isGetGroupK(arg).Call.Args)-1]
			if memberCountish(x) {
				ok = true
			} else if lc, isL := x.(*ssa.Call); isL && eng.CallName(&lc.Call) == "builtin:len" {
				// len(param): every caller of this function must pass the group's member list for that parameter
				if p, isP := lc.Call.Args[0].(*ssa.Parameter); isP {
					idx := -1
					for i, fp := range s.Fn.Params {
						if fp == p {
							idx = i
						}
					}
					ok = idx >= 0
					for _, cs := range c.Callers(s.Fn) {
						if c.IsTestFunc(cs.Fn) {
							continue
						}
						if a := cs.Common().Args[idx]; !memberCountish(a) {
							ok = false
							why = "GetGroupK(len(" + p.Name() + ")) where " + eng.FuncName(cs.Fn) + " passes " + eng.Desc(a) + " (not the group's member list)"
						}
					}
				}
			}
		}
		r.Check(ok, rule, "coefficients@"+eng.FuncName(s.Fn), c.Pos(s.Pos()), "number of coefficients is GetGroupK(member count)", "the dealer draws "+why+" coefficients instead of model.Param.GetGroupK(number of group members): the polynomial degree no longer matches the k used at recovery, so threshold-sized subsets recover different, invalid signatures")
	}
	okThr := thr == nil
	if thr != nil {
		okThr = false
		for _, re := range eng.Returns(thr) {
			if k := isGetGroupK(eng.RetValue(re.Ret, 0)); k != nil && strings.HasSuffix(eng.Desc(k.Call.Args[len(k.Call.Args)-1]), ".groupMemberNum") {
				okThr = true
			} else {
				okThr = false
				break
			}
		}
	}
	r.Check(okThr, rule, "groupNodeInfo.threshold", "", "returns Param.GetGroupK(groupMemberNum) (or is gone, its callers checked directly)", "groupNodeInfo.threshold no longer returns model.Param.GetGroupK(nodeInfo.groupMemberNum)")
	// groupMemberNum is written once, from the constructor argument, and the constructor is fed len(GroupMembers)
	ctor := c.Func("consensus/logical/group_create", "NewGroupNodeInfo")
	if r.Anchor(ctor != nil, rule, "NewGroupNodeInfo") {
		writers := 0
		for _, fn := range c.PkgFuncs("consensus/logical/group_create") {
			if c.IsTestFunc(fn) {
				continue
			}
			for _, st := range eng.FieldStores(fn, "consensus/logical/group_create.groupNodeInfo", "groupMemberNum") {
				writers++
				v := st.(*ssa.Store).Val
				_, isParam := v.(*ssa.Parameter)
				r.Check(fn == ctor && isParam, rule, "groupMemberNum-writer:"+eng.FuncName(fn), c.Pos(st.Pos()), "set from the constructor argument", "groupNodeInfo.groupMemberNum is written in "+eng.FuncName(fn)+" from "+eng.Desc(v)+": the member count behind the dealer's threshold can drift from the group's")
			}
		}
		for _, s := range c.Callers(ctor) {
			if c.IsTestFunc(s.Fn) {
				continue
			}
			a := s.Common().Args[2]
			r.Check(memberCountish(a), rule, "NewGroupNodeInfo@"+eng.FuncName(s.Fn), c.Pos(s.Pos()), "member count is "+eng.Desc(a), "NewGroupNodeInfo is given "+eng.Desc(a)+" as member count, not the number of group members")
		}
	}

	// (c) RecoverGroupSignature: k is the generator's threshold field, written only by the constructor,
	//     and recovery is attempted only with at least that many shares
	for _, s := range c.Callers(recover) {
		if c.IsTestFunc(s.Fn) {
			continue
		}
		key := "RecoverGroupSignature@" + eng.FuncName(s.Fn)
		a := s.Common().Args[1]
		r.Check(strings.HasSuffix(eng.Desc(a), "gs.threshold"), rule, key, c.Pos(s.Pos()), "k is the generator's threshold", "RecoverGroupSignature is called with k="+eng.Desc(a)+" rather than the generator's threshold")
	}
	for _, fn := range c.ModFuncs() {
		if c.IsTestFunc(fn) {
			continue
		}
		for _, st := range append(eng.FieldStores(fn, "consensus/model.GroupSignGenerator", "threshold"), eng.FieldStores(fn, "consensus/logical.groupSignGenerator", "threshold")...) {
			r.Check(fn == newGen || fn == newGenL, rule, "threshold-writer:"+eng.FuncName(fn), c.Pos(st.Pos()), "only the constructor sets the threshold", eng.FuncName(fn)+" rewrites GroupSignGenerator.threshold after construction")
		}
	}
	// (d) when more than k shares are held, k *distinct* ones are selected: indices come from a permutation
	pick := c.Func("consensus/groupsig", "getRandomKSignInfo")
	if r.Anchor(pick != nil, rule, "groupsig.getRandomKSignInfo") {
		okPerm := false
		for _, call := range callsNamed(pick, ".RandomPerm") {
			a := call.Call.Args
			if len(a) >= 3 && strings.HasPrefix(eng.Desc(a[1]), "builtin:len(") && isParamNamed(a[2], "k") {
				okPerm = true
			}
		}
		r.Check(okPerm, rule, "getRandomKSignInfo:distinct", c.Pos(pick.Pos()), "the k indices are RandomPerm(len(shares), k): distinct by construction", "getRandomKSignInfo no longer takes its k indices from RandomPerm(len(shares), k): independently drawn indices can repeat, fewer than k distinct shares reach the interpolation and the recovered signature is wrong for some draws")
		// and recovery uses the selected subset only when more than k shares are present
		okUse := false
		for _, s := range c.Callers(pick) {
			for _, cd := range eng.CondsAt(s.Instr) {
				if m, isM := cd.Cmp(); isM && strings.Contains(eng.Desc(m.X)+eng.Desc(m.Y), "thresholdValue") && strings.Contains(eng.Desc(m.X)+eng.Desc(m.Y), "builtin:len(") {
					okUse = true
				}
			}
		}
		r.Check(okUse, rule, "RecoverGroupSignature:subset-only-when-more", c.Pos(pick.Pos()), "a random k-subset is drawn only when more than k shares are held", "RecoverGroupSignature draws a subset without comparing the number of shares with k")
	}
	gen := c.Func("consensus/model", "(*GroupSignGenerator).genGroupSign")
	genL := c.Func("consensus/logical", "(*groupSignGenerator).genGroupSign")
	if r.Anchor(gen != nil && genL != nil, rule, "genGroupSign (model and logical)") {
		for _, s := range append(c.Callers(gen), c.Callers(genL)...) {
			if c.IsTestFunc(s.Fn) {
				continue
			}
			ok := false
			for _, cd := range eng.CondsAt(s.Instr) {
				m, isM := cd.Cmp()
				if !isM {
					continue
				}
				x, y, op := eng.Desc(m.X), eng.Desc(m.Y), m.Op
				if strings.HasSuffix(y, ".witnessSignMap)") {
					x, y, op = y, x, eng.Flip(op)
				}
				if strings.Contains(x, "len(") && strings.HasSuffix(x, ".witnessSignMap)") && strings.HasSuffix(y, ".threshold") && (op == token.GEQ || op == token.EQL) {
					ok = true
				}
			}
			r.Check(ok, rule, "recover-guard@"+eng.FuncName(s.Fn), c.Pos(s.Pos()), "recovery only when len(witnessSignMap) >= threshold", "the group signature is recovered without first testing len(witnessSignMap) >= threshold: with fewer shares RecoverGroupSignature interpolates over zero-valued ids and yields an invalid signature that depends on which shares arrived")
		}
	}
}

// soleVararg: the single element of a `f(x...)`-style one-element varargs slice.
func soleVararg(v ssa.Value) ssa.Value {
	sl, ok := v.(*ssa.Slice)
	if !ok {
		return nil
	}
	al, ok := sl.X.(*ssa.Alloc)
	if !ok {
		return nil
	}
	var out ssa.Value
	n := 0
	for _, ref := range *al.Referrers() {
		if ia, isIA := ref.(*ssa.IndexAddr); isIA {
			for _, r2 := range *ia.Referrers() {
				if st, isSt := r2.(*ssa.Store); isSt {
					out = st.Val
					n++
				}
			}
		}
	}
	if n != 1 {
		return nil
	}
	return out
}

func descOr(k *ssa.Call) string {
	if k == nil {
		return "?"
	}
	return eng.Desc(k.Call.Args[len(k.Call.Args)-1])
}

// loadIndex: v is `*(&base[idx])` → (base, idx)
func loadIndex(v ssa.Value) (ssa.Value, ssa.Value) {
	u, ok := v.(*ssa.UnOp)
	if !ok || u.Op != token.MUL {
		return nil, nil
	}
	ia, ok := u.X.(*ssa.IndexAddr)
	if !ok {
		return nil, nil
	}
	return ia.X, ia.Index
}

func c13Points(c *eng.Ctx, r *eng.Report) {
	const rule = "R13.2"
	r.Min(rule, 7)
	share := c.Func("consensus/groupsig", "ShareSeckey")
	rec := c.Func("consensus/groupsig", "recoverSignature")
	recG := c.Func("consensus/groupsig", "RecoverGroupSignature")
	genPiece := c.Func("consensus/logical/group_create", "(*groupNodeInfo).genSharePiece")
	force := c.Func("consensus/model", "(*GroupSignGenerator).addWitnessForce")
	forceL := c.Func("consensus/logical", "(*groupSignGenerator).addWitnessForce")
	ser := c.Func("consensus/groupsig", "ID.Serialize")
	getHex := c.Func("consensus/groupsig", "ID.GetHexString")
	if !r.Anchor(share != nil && rec != nil && recG != nil && genPiece != nil && force != nil && forceL != nil && ser != nil && getHex != nil, rule, "ShareSeckey/recoverSignature/RecoverGroupSignature/genSharePiece/addWitnessForce/ID.Serialize/ID.GetHexString") {
		return
	}
	// (a) ShareSeckey evaluates at id.GetBigInt()
	{
		ok, n := true, 0
		for _, call := range callsNamed(share, "big.Int).Mul") {
			n++
			x := call.Call.Args[2]
			xc, isC := x.(*ssa.Call)
			if !(isC && eng.CallName(&xc.Call) == "(consensus/groupsig.ID).GetBigInt" && isParamNamed(xc.Call.Args[0], "id")) {
				// the other operand may be x
				x = call.Call.Args[1]
				xc, isC = x.(*ssa.Call)
				if !(isC && eng.CallName(&xc.Call) == "(consensus/groupsig.ID).GetBigInt" && isParamNamed(xc.Call.Args[0], "id")) {
					ok = false
				}
			}
		}
		r.Check(ok && n >= 1, rule, "ShareSeckey:point", c.Pos(share.Pos()), "the polynomial is evaluated at id.GetBigInt()", "ShareSeckey no longer multiplies by id.GetBigInt() of its id argument at every Horner step: the share handed to a member is not f(member id)")
	}
	// (b) recoverSignature: xs[n] = ids[n].GetBigInt()
	{
		ok, n := false, 0
		for _, call := range callsNamed(rec, "ID).GetBigInt") {
			n++
			base, idx := loadIndex(call.Call.Args[0])
			if base == nil || !isParamNamed(base, "ids") {
				continue
			}
			for _, ref := range *call.Referrers() {
				if st, isSt := ref.(*ssa.Store); isSt {
					if ia, isIA := st.Addr.(*ssa.IndexAddr); isIA && ia.Index == idx {
						ok = true
					}
				}
			}
		}
		r.Check(ok && n == 1, rule, "recoverSignature:points", c.Pos(rec.Pos()), "x-coordinate n is ids[n].GetBigInt()", "recoverSignature no longer takes x-coordinate n from ids[n].GetBigInt(): interpolation points differ from the points the shares were dealt at")
	}
	// (c) dealer files f(id) under id.GetHexString(): key and value from the same id
	{
		ok := false
		for _, b := range genPiece.Blocks {
			for _, in := range b.Instrs {
				mu, isMU := in.(*ssa.MapUpdate)
				if !isMU {
					continue
				}
				kc, isK := mu.Key.(*ssa.Call)
				if !isK || eng.CallName(&kc.Call) != "(consensus/groupsig.ID).GetHexString" {
					continue
				}
				var sc *ssa.Call
				if u, isU := mu.Value.(*ssa.UnOp); isU {
					sc, _ = u.X.(*ssa.Call)
				}
				if sc != nil && sc.Call.StaticCallee() != nil && sc.Call.StaticCallee().Name() == "ShareSeckey" && sameValue(sc.Call.Args[1], kc.Call.Args[0]) {
					ok = true
				}
			}
		}
		r.Check(ok, rule, "genSharePiece:key=id", c.Pos(genPiece.Pos()), "shares[id.GetHexString()] = ShareSeckey(secs, id) for the same id", "genSharePiece no longer files ShareSeckey(secs, id) under that same id's GetHexString(): members receive shares evaluated at another member's point")
	}
	// (d) collector: witnessSignMap[id.GetHexString()] = signature (both parameters)
	for _, force := range []*ssa.Function{force, forceL} {
		ok, n := true, 0
		for _, b := range force.Blocks {
			for _, in := range b.Instrs {
				mu, isMU := in.(*ssa.MapUpdate)
				if !isMU || !strings.HasSuffix(eng.Desc(mu.Map), ".witnessSignMap") {
					continue
				}
				n++
				kc, isK := mu.Key.(*ssa.Call)
				if !(isK && eng.CallName(&kc.Call) == "(consensus/groupsig.ID).GetHexString" && isParamNamed(kc.Call.Args[0], "id") && isParamNamed(mu.Value, "signature")) {
					ok = false
				}
			}
		}
		ok = ok && n > 0
		r.Check(ok, rule, "addWitnessForce:key=id:"+eng.FuncName(force), c.Pos(force.Pos()), "witnessSignMap[id.GetHexString()] = signature", "addWitnessForce no longer files the sender's share under the sender's id.GetHexString()")
	}
	// (e) combiner: ids[n] parsed from the key of the entry whose value goes to sigs[n]
	{
		var keyIdx, valIdx ssa.Value
		var keyNext, valNext ssa.Value
		for _, b := range recG.Blocks {
			for _, in := range b.Instrs {
				st, isSt := in.(*ssa.Store)
				if !isSt {
					continue
				}
				ia, isIA := st.Addr.(*ssa.IndexAddr)
				if !isIA {
					continue
				}
				switch eng.ShortType(st.Val.Type()) {
				case "consensus/groupsig.ID":
					// value is a load of a local on which SetHexString(key) was called
					if u, isU := st.Val.(*ssa.UnOp); isU {
						for _, ref := range *u.X.Referrers() {
							if call, isC := ref.(*ssa.Call); isC && strings.HasSuffix(eng.CallName(&call.Call), "ID).SetHexString") {
								if ex, isE := call.Call.Args[1].(*ssa.Extract); isE && ex.Index == 1 {
									keyIdx, keyNext = ia.Index, ex.Tuple
								}
							}
						}
					}
				case "consensus/groupsig.Signature":
					if ex, isE := st.Val.(*ssa.Extract); isE && ex.Index == 2 {
						valIdx, valNext = ia.Index, ex.Tuple
					}
				}
			}
		}
		ok := keyIdx != nil && keyIdx == valIdx && keyNext == valNext
		if !ok && keyIdx != nil && valIdx != nil && keyNext == valNext {
			// append style: both go into one-element varargs arrays (index 0) in the same iteration
			k1, isK1 := eng.ConstInt(keyIdx)
			k2, isK2 := eng.ConstInt(valIdx)
			ok = isK1 && isK2 && k1 == 0 && k2 == 0
		}
		r.Check(ok, rule, "RecoverGroupSignature:pairing", c.Pos(recG.Pos()), "ids[n] is parsed (SetHexString) from the key of the very map entry whose signature is stored at sigs[n]", "RecoverGroupSignature no longer stores the id parsed from a map key and that entry's signature at the same index: shares are combined with other members' coefficients")
		// and what it passes on is (sigs, ids) in that order, both sized k
		ok2 := false
		for _, call := range callsNamed(recG, "groupsig.recoverSignature") {
			if eng.ShortType(call.Call.Args[0].Type()) == "[]consensus/groupsig.Signature" {
				ok2 = true
			}
		}
		r.Check(ok2, rule, "RecoverGroupSignature:handoff", c.Pos(recG.Pos()), "recoverSignature(sigs, ids)", "RecoverGroupSignature no longer hands the collected (sigs, ids) to recoverSignature")
	}
	// (f) the key survives the round trip: GetHexString = ToHex(Serialize()), Serialize value-preserving
	{
		ok := false
		for _, re := range eng.Returns(getHex) {
			v := eng.RetValue(re.Ret, 0)
			if call, isC := v.(*ssa.Call); isC && strings.HasSuffix(eng.CallName(&call.Call), "common.ToHex") {
				if in, isI := call.Call.Args[0].(*ssa.Call); isI && in.Call.StaticCallee() == ser {
					ok = true
				}
			}
		}
		r.Check(ok, rule, "ID.GetHexString", c.Pos(getHex.Pos()), "common.ToHex(id.Serialize())", "ID.GetHexString is no longer common.ToHex(id.Serialize()); the key format the combiner re-parses is unreviewed")
		bad := ""
		nret := 0
		for _, re := range eng.Returns(ser) {
			nret++
			v := eng.RetValue(re.Ret, 0)
			if msg := valuePreservingBytes(v); msg != "" {
				bad = msg
			}
		}
		r.Check(bad == "" && nret > 0, rule, "ID.Serialize:value-preserving", c.Pos(ser.Pos()), "returns the big-endian bytes unchanged or left-padded", "ID.Serialize returns "+bad+": the hex key of a short id no longer parses back (SetHexString) to the id the share was dealt at, so that member's share is interpolated at the wrong x-coordinate")
	}
}

// valuePreservingBytes: "" when v is the raw (*BnInt).serialize() result, a
// buffer into whose tail [L-len(b):] it was copied, or a LeftPadBytes call.
func valuePreservingBytes(v ssa.Value) string {
	v = eng.Unwrap(v)
	if call, ok := v.(*ssa.Call); ok {
		n := eng.CallName(&call.Call)
		if strings.HasSuffix(n, "BnInt).serialize") || strings.HasSuffix(n, "big.Int).Bytes") {
			return ""
		}
		if strings.HasSuffix(n, ".LeftPadBytes") || strings.HasSuffix(n, "big.Int).FillBytes") {
			return ""
		}
		return "the result of " + n
	}
	// slice of a fresh array into which src was copied at offset L-len(src)
	if sl, ok := v.(*ssa.Slice); ok {
		for _, ref := range *sl.Referrers() {
			dst, isS := ref.(*ssa.Slice)
			if !isS {
				continue
			}
			for _, r2 := range *dst.Referrers() {
				call, isC := r2.(*ssa.Call)
				if !isC || eng.CallName(&call.Call) != "builtin:copy" || call.Call.Args[0] != ssa.Value(dst) {
					continue
				}
				src := call.Call.Args[1]
				// low bound = const - len(src)
				if bo, isB := dst.Low.(*ssa.BinOp); isB && bo.Op == token.SUB {
					if lc, isL := bo.Y.(*ssa.Call); isL && eng.CallName(&lc.Call) == "builtin:len" && lc.Call.Args[0] == src {
						return valuePreservingBytes(src)
					}
				}
				return "a buffer filled by copy at offset " + eng.Desc(dst.Low) + " (not length-len(bytes), i.e. not left padding)"
			}
		}
		return "a buffer not filled by a recognised left-padding copy"
	}
	return eng.Desc(v)
}

func isParamNamed(v ssa.Value, name string) bool {
	v = eng.Unwrap(v)
	if p, ok := v.(*ssa.Parameter); ok {
		return p.Name() == name
	}
	// value receivers / address-taken params are spilled: *alloc with a store of the parameter
	if u, ok := v.(*ssa.UnOp); ok && u.Op == token.MUL {
		if a, isA := u.X.(*ssa.Alloc); isA {
			for _, ref := range *a.Referrers() {
				if st, isSt := ref.(*ssa.Store); isSt && st.Addr == ssa.Value(a) {
					if p, isP := st.Val.(*ssa.Parameter); isP && p.Name() == name {
						return true
					}
				}
			}
		}
	}
	return false
}

// groupsigScalarField: every modular reduction in consensus/groupsig is modulo
// the order of the signature group (curveOrder = bn256.Order), wherever it is.
func groupsigScalarField(c *eng.Ctx, r *eng.Report, rule string) {
	for _, fn := range c.PkgFuncs("consensus/groupsig") {
		if c.IsTestFunc(fn) {
			continue
		}
		i := 0
		for _, call := range callsNamed(fn, "big.Int).Mod", "big.Int).ModInverse", "big.Int).Exp", "big.Int).ModSqrt") {
			m := call.Call.Args[len(call.Call.Args)-1]
			d := eng.Desc(m)
			ok := d == "global:curveOrder" || d == "global:Order"
			r.Check(ok, rule, fmt.Sprintf("scalar-modulus:%s#%d", eng.FuncName(fn), i), c.Pos(call.Pos()), "reduces modulo the group order", eng.FuncName(fn)+" reduces a scalar modulo "+d+" instead of the group order: the scalar used for signing (or sharing) is no longer the one the public key was derived from, so honest signatures fail or a key has two signatures")
			i++
		}
	}
}

func c13Modulus(c *eng.Ctx, r *eng.Report) {
	const rule = "R13.3"
	r.Min(rule, 8)
	groupsigScalarField(c, r, rule)
	names := []string{"ShareSeckey", "AggregateSeckeys", "recoverSignature", "NewSeckeyFromBigInt"}
	for _, n := range names {
		fn := c.Func("consensus/groupsig", n)
		if !r.Anchor(fn != nil, rule, "groupsig."+n) {
			continue
		}
		i := 0
		for _, call := range callsNamed(fn, "big.Int).Mod", "big.Int).ModInverse") {
			m := call.Call.Args[len(call.Call.Args)-1]
			ok := eng.Desc(m) == "global:curveOrder"
			r.Check(ok, rule, fmt.Sprintf("modulus:%s#%d", n, i), c.Pos(call.Pos()), "modulus is curveOrder", n+" reduces modulo "+eng.Desc(m)+" instead of curveOrder: dealer and combiner no longer compute in the same field, so interpolated coefficients are wrong")
			i++
		}
		if n != "NewSeckeyFromBigInt" {
			r.Check(i > 0, rule, "modulus:"+n+":present", c.Pos(fn.Pos()), "arithmetic is reduced", n+" no longer reduces modulo curveOrder at all")
		}
	}
	// curveOrder is bn256.Order and nothing else writes it
	okInit, writers := false, 0
	gfns := c.PkgFuncs("consensus/groupsig")
	if p := c.Pkg("consensus/groupsig"); p != nil && p.Func("init") != nil {
		gfns = append(gfns, p.Func("init"))
	}
	for _, fn := range gfns {
		for _, b := range fn.Blocks {
			for _, in := range b.Instrs {
				st, isSt := in.(*ssa.Store)
				if !isSt {
					continue
				}
				if g, isG := st.Addr.(*ssa.Global); isG && g.Name() == "curveOrder" {
					writers++
					if fn.Name() == "init" && eng.Desc(st.Val) == "global:Order" {
						okInit = true
					}
				}
			}
		}
	}
	r.Check(okInit && writers == 1, rule, "curveOrder:init", "", "curveOrder = bn256.Order, written once", fmt.Sprintf("curveOrder is not initialised exactly once from bn256.Order (init ok=%v, writers=%d): the scalar field of the shares is not the order of the signature group", okInit, writers))

	// Lagrange shape
	rec := c.Func("consensus/groupsig", "recoverSignature")
	if rec == nil {
		return
	}
	var I, J ssa.Value // outer / inner loop variables
	var guard *ssa.If
	for _, b := range rec.Blocks {
		iff, ok := b.Instrs[len(b.Instrs)-1].(*ssa.If)
		if !ok {
			continue
		}
		bo, ok := iff.Cond.(*ssa.BinOp)
		if !ok || (bo.Op != token.NEQ && bo.Op != token.EQL) {
			continue
		}
		px, okx := bo.X.(*ssa.Phi)
		py, oky := bo.Y.(*ssa.Phi)
		if okx && oky {
			guard = iff
			// the inner variable's phi block is dominated by the outer one's
			if px.Block().Dominates(py.Block()) {
				I, J = px, py
			} else {
				I, J = py, px
			}
		}
	}
	if !r.Anchor(guard != nil, rule, "recoverSignature: `j != i` guard of the Lagrange product") {
		return
	}
	gbo := guard.Cond.(*ssa.BinOp)
	prodBlk := guard.Block().Succs[0]
	if gbo.Op == token.EQL {
		prodBlk = guard.Block().Succs[1]
	}
	var numAcc, denAcc, diff ssa.Value
	shape := ""
	for _, call := range callsNamed(rec, "big.Int).Sub") {
		b1, i1 := loadIndex(call.Call.Args[1])
		b2, i2 := loadIndex(call.Call.Args[2])
		if b1 == nil || b2 == nil || b1 != b2 {
			shape = "the difference is not between two entries of the x-coordinate slice"
			continue
		}
		switch {
		case i1 == J && i2 == I:
			diff = call.Call.Args[0]
		case i1 == I && i2 == J:
			shape = "the denominator multiplies (x_i − x_j) while the numerator multiplies x_j: every coefficient is off by (−1)^(k−1), wrong for even k"
		default:
			shape = "the difference does not use the loop variables (x_j − x_i)"
		}
		if call.Block() != prodBlk && !prodBlk.Dominates(call.Block()) {
			shape = "the difference is computed outside the j != i branch"
		}
	}
	for _, call := range callsNamed(rec, "big.Int).Mul") {
		if call.Block() != prodBlk && !prodBlk.Dominates(call.Block()) {
			continue
		}
		a2 := call.Call.Args[2]
		if _, idx := loadIndex(a2); idx != nil {
			if idx == J && call.Call.Args[0] == call.Call.Args[1] {
				numAcc = call.Call.Args[0]
			} else {
				shape = "the numerator multiplies x[" + eng.Desc(idx) + "], not x_j of the inner loop"
			}
		} else if diff != nil && a2 == diff && call.Call.Args[0] == call.Call.Args[1] {
			denAcc = call.Call.Args[0]
		}
	}
	okInv, okDelta, okScale := false, false, false
	var delta ssa.Value
	for _, call := range callsNamed(rec, "big.Int).ModInverse") {
		if denAcc != nil && call.Call.Args[0] == denAcc && call.Call.Args[1] == denAcc && !guardDominated(prodBlk, call) {
			okInv = true
		}
	}
	for _, call := range callsNamed(rec, "big.Int).Mul") {
		a1, a2 := call.Call.Args[1], call.Call.Args[2]
		if numAcc != nil && denAcc != nil && ((a1 == numAcc && a2 == denAcc) || (a1 == denAcc && a2 == numAcc)) {
			okDelta, delta = true, call.Call.Args[0]
		}
	}
	// scaling: a Signature whose value was Set from &sigs[I].value is multiplied by delta
	for _, call := range callsNamed(rec, "Signature).mul", "G1).ScalarMult") {
		last := call.Call.Args[len(call.Call.Args)-1]
		if delta != nil && last == delta {
			okScale = true
		}
	}
	// the share scaled in iteration i is sigs[i]: sigs is indexed by the outer loop variable and by nothing else
	okSrc := false
	for _, b := range rec.Blocks {
		for _, in := range b.Instrs {
			if ia, isIA := in.(*ssa.IndexAddr); isIA && isParamNamed(ia.X, "sigs") {
				if ia.Index == I {
					okSrc = true
				} else {
					shape = "sigs is indexed by " + eng.Desc(ia.Index) + ", not by the outer loop variable whose coefficient is applied"
				}
			}
		}
	}
	ok := shape == "" && numAcc != nil && denAcc != nil && okInv && okDelta && okScale && okSrc
	why := shape
	if why == "" {
		why = fmt.Sprintf("numerator Π x_j recognised=%v, denominator Π (x_j−x_i) recognised=%v, denominator inverted after the product=%v, coefficient = num·den⁻¹=%v, share scaled by the coefficient=%v, scaled share is sigs[i]=%v", numAcc != nil, denAcc != nil, okInv, okDelta, okScale, okSrc)
	}
	r.Check(ok, rule, "recoverSignature:lagrange-shape", c.Pos(guard.Cond.Pos()), "L_i(0) = Π_{j≠i} x_j · (Π_{j≠i} (x_j − x_i))⁻¹ mod curveOrder, applied to sigs[i]", "the Lagrange coefficient in recoverSignature no longer has the shape Π_{j≠i} x_j/(x_j−x_i): "+why)
	// the loops cover every index 0..k-1
	okRange := true
	for _, v := range []ssa.Value{I, J} {
		phi := v.(*ssa.Phi)
		init, step := false, false
		for _, e := range phi.Edges {
			if k, isK := eng.ConstInt(e); isK && k == 0 {
				init = true
			}
			if bo, isB := e.(*ssa.BinOp); isB && bo.Op == token.ADD && bo.X == ssa.Value(phi) {
				if k, isK := eng.ConstInt(bo.Y); isK && k == 1 {
					step = true
				}
			}
		}
		bound := false
		for _, ref := range *phi.Referrers() {
			if bo, isB := ref.(*ssa.BinOp); isB && bo.Op == token.LSS && bo.X == ssa.Value(phi) && strings.HasPrefix(eng.Desc(bo.Y), "builtin:len(") {
				bound = true
			}
		}
		okRange = okRange && init && step && bound
	}
	r.Check(okRange, rule, "recoverSignature:loop-range", c.Pos(guard.Cond.Pos()), "i and j both run over 0..k-1 in steps of one", "a Lagrange loop in recoverSignature no longer runs over every index 0..len-1: a share is left out of the product or the sum")
}

func guardDominated(blk *ssa.BasicBlock, in ssa.Instruction) bool {
	return in.Block() == blk || blk.Dominates(in.Block())
}

func c13Dealer(c *eng.Ctx, r *eng.Report) {
	const rule = "R13.4"
	r.Min(rule, 7)
	pkg := "consensus/logical/group_create"
	seed := c.Func(pkg, "(*groupNodeInfo).genSeedSecKey")
	list := c.Func(pkg, "(*groupNodeInfo).genSecKeyList")
	seedPub := c.Func(pkg, "(*groupNodeInfo).getSeedPubKey")
	aggr := c.Func(pkg, "(*groupNodeInfo).aggregateKeys")
	handle := c.Func(pkg, "(*groupNodeInfo).handleSharePiece")
	gsk := c.Func(pkg, "(*groupNodeInfo).genMinerSignSecKey")
	gpk := c.Func(pkg, "(*groupNodeInfo).genGroupPubKey")
	share := c.Func("consensus/groupsig", "ShareSeckey")
	if !r.Anchor(seed != nil && list != nil && seedPub != nil && aggr != nil && handle != nil && gsk != nil && gpk != nil && share != nil, rule, "groupNodeInfo dealer functions") {
		return
	}
	// (a) published dealer key = key of Deri(0); coefficient i = Deri(i) stored at secs[i]
	{
		ok := false
		for _, call := range callsNamed(seed, ".Deri") {
			if k, isK := eng.ConstInt(soleVararg(call.Call.Args[len(call.Call.Args)-1])); isK && k == 0 && strings.HasSuffix(eng.Desc(call.Call.Args[0]), ".secretSeed") {
				ok = true
			}
		}
		r.Check(ok, rule, "genSeedSecKey:coefficient0", c.Pos(seed.Pos()), "dealer key is derived from secretSeed.Deri(0)", "the dealer's published key is no longer derived from secretSeed.Deri(0), the constant coefficient of its polynomial: the sum of dealer public keys is not the public key of the shared secret, so no recovered signature verifies under the group key")
		ok = false
		for _, call := range callsNamed(list, ".Deri") {
			idx := soleVararg(call.Call.Args[len(call.Call.Args)-1])
			if idx == nil || !strings.HasSuffix(eng.Desc(call.Call.Args[0]), ".secretSeed") {
				continue
			}
			// result flows into secs[idx]
			for _, b := range list.Blocks {
				for _, in := range b.Instrs {
					if st, isSt := in.(*ssa.Store); isSt {
						if ia, isIA := st.Addr.(*ssa.IndexAddr); isIA && ia.Index == idx && valueDerivesFrom(st.Val, call) {
							if _, isPhi := idx.(*ssa.Phi); isPhi {
								ok = true
							}
						}
					}
				}
			}
		}
		r.Check(ok, rule, "genSecKeyList:coefficient-i", c.Pos(list.Pos()), "secs[i] is derived from secretSeed.Deri(i)", "genSecKeyList no longer stores the key derived from secretSeed.Deri(i) at secs[i]: coefficient 0 is not the key whose public half the dealer publishes")
		ok = false
		for _, re := range eng.Returns(seedPub) {
			d := eng.Desc(eng.RetValue(re.Ret, 0))
			if strings.Contains(d, "GeneratePubkey(") && strings.Contains(d, "genSeedSecKey(") {
				ok = true
			}
		}
		r.Check(ok, rule, "getSeedPubKey", c.Pos(seedPub.Pos()), "GeneratePubkey(genSeedSecKey())", "getSeedPubKey no longer returns GeneratePubkey(genSeedSecKey())")
	}
	// (b) ShareSeckey: Horner from msec[len-1] down to msec[0]
	{
		var jphi *ssa.Phi
		okTop, okDown, okCond, okAdd := false, false, false, false
		for _, call := range callsNamed(share, "big.Int).Add") {
			for _, a := range call.Call.Args[1:] {
				if gc, isC := a.(*ssa.Call); isC && strings.HasSuffix(eng.CallName(&gc.Call), "Seckey).GetBigInt") {
					if base, idx := loadIndex(gc.Call.Args[0]); base != nil && isParamNamed(base, "msec") {
						if p, isP := idx.(*ssa.Phi); isP {
							jphi, okAdd = p, true
						}
					}
				}
			}
		}
		if jphi != nil {
			for _, e := range jphi.Edges {
				if bo, isB := e.(*ssa.BinOp); isB && bo.Op == token.SUB {
					if k, isK := eng.ConstInt(bo.Y); isK && k == 1 {
						if bo.X == ssa.Value(jphi) {
							okDown = true
						} else if strings.Contains(eng.Desc(bo.X), "builtin:len(msec)") {
							okTop = true // starts at (len-1)-1
						}
					}
				}
			}
			for _, ref := range *jphi.Referrers() {
				if bo, isB := ref.(*ssa.BinOp); isB && bo.Op == token.GEQ && bo.X == ssa.Value(jphi) {
					if k, isK := eng.ConstInt(bo.Y); isK && k == 0 {
						okCond = true
					}
				}
			}
		}
		r.Check(okAdd && okTop && okDown && okCond, rule, "ShareSeckey:constant-term", c.Pos(share.Pos()), "Horner evaluation adds msec[j] for j = len-2 … 0", fmt.Sprintf("ShareSeckey no longer folds the coefficients from the highest down to msec[0] (adds msec[j]=%v, starts below the top=%v, steps down by one=%v, runs while j >= 0=%v): the constant term of the evaluated polynomial is not the secret whose public key the dealer published", okAdd, okTop, okDown, okCond))
	}
	// (c) aggregation over every received piece, only once all arrived
	{
		chk := func(fn *ssa.Function, field, agg string) {
			okField, okAgg, early := false, false, false
			for _, h := range eng.ScanNondeterminism(fn) {
				if h.Kind != "map-range" {
					continue
				}
				if lp := eng.LoopOfRange(h.Instr.(*ssa.Range)); lp != nil && len(lp.EarlyExits) > 0 {
					early = true
				}
				if strings.HasSuffix(eng.Desc(h.Instr.(*ssa.Range).X), ".receivedSharePiece") {
					okField = true
				}
			}
			okSel := false
			for _, b := range fn.Blocks {
				for _, in := range b.Instrs {
					if v, isV := in.(ssa.Value); isV {
						if tn, name := eng.FieldOf(v); name == field && strings.HasSuffix(tn, "SharePiece") {
							okSel = true
						}
					}
				}
			}
			for _, call := range callsNamed(fn, "groupsig."+agg) {
				_ = call
				okAgg = true
			}
			r.Check(okField && okSel && okAgg && !early, rule, fn.Name()+":all-pieces", c.Pos(fn.Pos()), agg+" over ."+field+" of every received piece", fmt.Sprintf("%s no longer aggregates .%s of every entry of receivedSharePiece with %s (ranges the pool=%v, selects the field=%v, aggregates=%v, leaves the loop early=%v): member keys and group key stop corresponding to the same summed polynomial", fn.Name(), field, agg, okField, okSel, okAgg, early))
		}
		chk(gsk, "Share", "AggregateSeckeys")
		chk(gpk, "Pub", "AggregatePubkeys")
		ok := false
		for _, s := range c.Callers(aggr) {
			if s.Fn != handle {
				continue
			}
			for _, cd := range eng.CondsAt(s.Instr) {
				if call, isC := cd.V.(*ssa.Call); isC && cd.True && strings.HasSuffix(eng.CallName(&call.Call), "gotAllSharePiece") {
					ok = true
				}
			}
		}
		all := c.Func(pkg, "(*groupNodeInfo).gotAllSharePiece")
		okAll := false
		if all != nil {
			for _, re := range eng.Returns(all) {
				if m, isM := eng.DecodeCmp(eng.RetValue(re.Ret, 0)); isM && m.Op == token.EQL {
					d := eng.Desc(m.X) + "|" + eng.Desc(m.Y)
					okAll = strings.Contains(d, "receivedSharePieceCount(") && strings.Contains(d, ".groupMemberNum")
				}
			}
		}
		r.Check(ok && okAll, rule, "aggregate-after-all-pieces", c.Pos(handle.Pos()), "aggregateKeys only once receivedSharePieceCount() == groupMemberNum", fmt.Sprintf("keys are aggregated before every member's piece has arrived (guarded by gotAllSharePiece=%v, which compares the piece count with groupMemberNum=%v): members would sum different sets of dealers and hold shares of different polynomials", ok, okAll))
	}
	// (d) the share key a member publishes is the public half of its aggregated secret
	msg := c.Func(pkg, "(*groupCreateProcessor).handleSharePieceMessage")
	if r.Anchor(msg != nil, rule, "handleSharePieceMessage") {
		ok := false
		for _, call := range callsNamed(msg, "groupsig.GeneratePubkey") {
			d := eng.Desc(call.Call.Args[0])
			if strings.HasSuffix(d, ".SignSecKey") && strings.Contains(d, "NewJoindGroupInfo(") && strings.Contains(d, "getSignSecKey(") {
				ok = true
			}
		}
		r.Check(ok, rule, "published-share-key", c.Pos(msg.Pos()), "SignPK = GeneratePubkey(aggregated sign secret)", "the share public key a member publishes is no longer GeneratePubkey of the secret aggregated by its groupNodeInfo: other members verify its shares under a key that does not match")
	}
}

// c13ReadOnly: no in-place curve operation through an input.
func c13ReadOnly(c *eng.Ctx, r *eng.Report) {
	const rule = "R13.5"
	r.Min(rule, 4)
	inputsUntouched(c, r, rule, []roEnt{
		{"consensus/groupsig", "recoverSignature"},
		{"consensus/groupsig", "RecoverGroupSignature"},
		{"consensus/groupsig", "getRandomKSignInfo"},
		{"consensus/groupsig", "AggregatePubkeys"},
		{"consensus/model", "(*GroupSignGenerator).genGroupSign"},
		{"consensus/model", "(*GroupSignGenerator).addWitnessForce"},
		{"consensus/model", "(*GroupSignGenerator).GetWitnessSign"},
		{"consensus/logical", "(*groupSignGenerator).genGroupSign"},
		{"consensus/logical", "(*groupSignGenerator).addWitnessForce"},
	})
}

type roEnt struct{ pkg, name string }

func inputsUntouched(c *eng.Ctx, r *eng.Report, rule string, fns []roEnt) {
	mutators := func(n string) bool {
		for _, s := range []string{"G1).ScalarMult", "G1).Add", "G1).Neg", "G1).Set", "G1).ScalarBaseMult", "G1).Unmarshal", "G1).HashToPoint",
			"G2).ScalarMult", "G2).Add", "G2).Neg", "G2).Set", "G2).ScalarBaseMult", "G2).Unmarshal",
			"Signature).mul", "Signature).add", "Signature).Deserialize", "Signature).unmarshalExact", "Signature).SetHexString",
			"Pubkey).add", "Pubkey).Deserialize", "Pubkey).SetHexString",
			"twistPoint).MakeAffine", "curvePoint).MakeAffine", "twistPoint).Set", "curvePoint).Set", "twistPoint).Neg", "curvePoint).Neg",
			"twistPoint).Double", "curvePoint).Double", "twistPoint).Add", "curvePoint).Add", "twistPoint).Mul", "curvePoint).Mul",
			"twistPoint).SetInfinity", "curvePoint).SetInfinity"} {
			if strings.HasSuffix(n, s) {
				return true
			}
		}
		return false
	}
	for _, e := range fns {
		fn := c.Func(e.pkg, e.name)
		if !r.Anchor(fn != nil, rule, e.pkg+"."+e.name) {
			continue
		}
		bad := ""
		var badPos token.Pos
		n := 0
		for _, s := range eng.Sites(fn) {
			name := s.Name()
			if !mutators(name) {
				continue
			}
			n++
			if why := freshRoot(s.Common().Args[0], 0); why != "" {
				bad, badPos = name+" writes through "+why, s.Pos()
			}
		}
		// a slot of the shares map may be replaced, never edited in place: no store through a pointer read from it
		r.Check(bad == "", rule, "inputs-untouched:"+eng.FuncName(fn), c.Pos(pick(badPos, fn.Pos())), fmt.Sprintf("%d in-place curve operations, all on values allocated here and deep-copied", n), e.name+": "+bad+". Signature/Pubkey wrap a pointer to the curve point, so the collected share (or dealer key) itself is modified: it no longer verifies under its member's key and any later combination that includes it yields a different signature")
	}
}

func pick(a, b token.Pos) token.Pos {
	if a != token.NoPos {
		return a
	}
	return b
}

// freshRoot returns "" when the address v is rooted at an allocation made in
// this function that is never initialised by a whole-struct copy of a
// pointer-wrapping value; otherwise a description of the foreign root.
func freshRoot(v ssa.Value, depth int) string {
	if depth > 8 {
		return "an address too deep to classify"
	}
	switch x := v.(type) {
	case *ssa.FieldAddr:
		return freshRoot(x.X, depth+1)
	case *ssa.IndexAddr:
		return freshRoot(x.X, depth+1)
	case *ssa.Alloc:
		for _, ref := range *x.Referrers() {
			st, ok := ref.(*ssa.Store)
			if !ok || st.Addr != ssa.Value(x) {
				continue
			}
			if u, isU := st.Val.(*ssa.UnOp); isU && u.X == ssa.Value(x) {
				continue // `*p = *p` (named-result spill)
			}
			if holdsPointer(st.Val.Type()) {
				if _, isAlloc := st.Val.(*ssa.Alloc); !isAlloc {
					if cl, isC := st.Val.(*ssa.Call); isC && cl.Call.StaticCallee() != nil && strings.HasPrefix(cl.Call.StaticCallee().Name(), "new") {
						continue
					}
					return "local `" + x.Comment + "`, a shallow copy of " + eng.Desc(st.Val)
				}
			}
		}
		return ""
	case *ssa.Call:
		if f := x.Call.StaticCallee(); f != nil && (f.Name() == "new" || strings.HasPrefix(f.Name(), "New")) {
			return ""
		}
		return "the result of " + eng.CallName(&x.Call)
	case *ssa.Parameter:
		if x.Parent() != nil && x.Parent().Signature.Recv() != nil && x.Parent().Params[0] == x {
			return "the receiver's own storage"
		}
		return "parameter " + x.Name()
	case *ssa.UnOp:
		return "a pointer loaded from " + eng.Desc(x.X)
	case *ssa.Phi:
		for _, e := range x.Edges {
			if w := freshRoot(e, depth+1); w != "" {
				return w
			}
		}
		return ""
	case *ssa.MakeSlice, *ssa.Slice:
		return "a slice element"
	}
	return eng.Desc(v)
}

func holdsPointer(t types.Type) bool {
	st, ok := t.Underlying().(*types.Struct)
	if !ok {
		return false
	}
	for i := 0; i < st.NumFields(); i++ {
		ft := st.Field(i).Type().Underlying()
		switch f := ft.(type) {
		case *types.Pointer:
			return true
		case *types.Struct:
			if holdsPointer(f) {
				return true
			}
		}
	}
	return false
}

// c13DealerDeterminism: members keep the first piece they received from a
// dealer and refuse a second one. All pieces a dealer ever sends for a group
// therefore have to come from one polynomial, whichever incarnation of its
// context sent them.
func c13DealerDeterminism(c *eng.Ctx, r *eng.Report) {
	const rule = "R13.6"
	r.Min(rule, 1)
	var entries []*ssa.Function
	for _, n := range []string{"NewGroupNodeInfo", "(*groupNodeInfo).genSharePiece", "(*groupNodeInfo).getSeedPubKey", "(*groupNodeInfo).genSecKeyList", "(*groupNodeInfo).genSeedSecKey"} {
		fn := c.Func("consensus/logical/group_create", n)
		if !r.Anchor(fn != nil, rule, "group_create."+n) {
			return
		}
		entries = append(entries, fn)
	}
	cone := c.ConeOf(entries, func(fn *ssa.Function) bool {
		p := eng.FuncPkgPath(fn)
		return strings.HasPrefix(p, eng.Mod+"/src/consensus/") || strings.HasPrefix(p, eng.Mod+"/src/common")
	})
	bad := ""
	nfn := 0
	for _, fn := range cone.Sorted() {
		if fn.Blocks == nil || strings.Contains(eng.FuncPkgPath(fn), "/middleware/log") {
			continue
		}
		nfn++
		for _, h := range eng.ScanNondeterminism(fn) {
			switch h.Kind {
			case "rand", "clock", "env":
				if bad == "" {
					bad = h.Detail + " in " + eng.FuncName(fn) + " (" + c.Pos(h.Pos) + "; " + cone.PathTo(fn) + ")"
				}
			}
		}
	}
	r.Extra["dealer_cone_functions"] = nfn
	r.Check(bad == "" && nfn >= 10, rule, "dealer:deterministic", c.Pos(entries[0].Pos()), fmt.Sprintf("no randomness, clock or environment source in the %d functions that compute a dealer's seed, coefficients, shares and public key", nfn), "the dealer's polynomial depends on "+bad+": a dealer whose group context is rebuilt deals a different polynomial, members that kept its first piece refuse the new one while the others accept it, the members' signing keys no longer lie on one polynomial and no k-subset recovers a signature that verifies under the group key")
}

// c13RecoveryPure: same conservative purity rule as R14.4/R15.5, for recovery.
func c13RecoveryPure(c *eng.Ctx, r *eng.Report) {
	const rule = "R13.7"
	r.Min(rule, 1)
	var entries []*ssa.Function
	for _, n := range []string{"recoverSignature", "RecoverGroupSignature"} {
		fn := c.Func("consensus/groupsig", n)
		if !r.Anchor(fn != nil, rule, "groupsig."+n) {
			return
		}
		entries = append(entries, fn)
	}
	cone := c.ConeOf(entries, func(fn *ssa.Function) bool {
		return strings.HasPrefix(eng.FuncPkgPath(fn), eng.Mod+"/src/consensus/")
	})
	bad := ""
	nfn := 0
	for _, fn := range cone.Sorted() {
		if fn.Blocks == nil {
			continue
		}
		nfn++
		for _, h := range eng.ScanNondeterminism(fn) {
			switch h.Kind {
			case "go":
				// a goroutine per share: the scratch values of the sequential loop become shared
				if strings.Contains(eng.FuncName(fn), "recoverSignature") || strings.Contains(eng.FuncName(fn), "RecoverGroupSignature") {
					if bad == "" {
						bad = "a goroutine is started in " + eng.FuncName(fn) + " (" + c.Pos(h.Pos) + "): the combination was written as a sequential loop whose scratch point is declared outside it, so concurrent terms overwrite each other"
					}
				}
			case "cache", "global-store", "shared-object", "syncmap-range":
				if h.Kind == "shared-object" && (strings.Contains(h.Detail, "curveOrder") || strings.Contains(h.Detail, "math/big.Int") && strings.Contains(h.Detail, "Cmp")) {
					continue
				}
				if bad == "" {
					bad = h.Detail + " in " + eng.FuncName(fn) + " (" + c.Pos(h.Pos) + ")"
				}
			}
		}
	}
	r.Check(bad == "" && nfn >= 5, rule, "recovery:pure", c.Pos(entries[0].Pos()), fmt.Sprintf("no process-local memo in the %d functions of the recovery cone", nfn), "signature recovery consults process-local state: "+bad+" — what a recovery computes then depends on the recoveries that ran before it in this process (e.g. Lagrange coefficients cached for the same signers in another arrival order), so the same k-subset can give a signature that does not verify")
}

// c13KeyAtRest: Seckey.Serialize() is big.Int.Bytes() — 31 bytes for one key in
// 256 — so the record has no fixed width to split at.
func c13KeyAtRest(c *eng.Ctx, r *eng.Report) {
	const rule = "R13.8"
	r.Min(rule, 2)
	save := c.Func("consensus/access", "(*JoinedGroupStorage).saveSignSecKey")
	load := c.Func("consensus/access", "(*JoinedGroupStorage).load")
	if !r.Anchor(save != nil, rule, "access.(*JoinedGroupStorage).saveSignSecKey") || !r.Anchor(load != nil, rule, "access.(*JoinedGroupStorage).load") {
		return
	}
	// writer: SaveJoinedGroup(signKeySuffix(..), X) with X the direct result of Seckey.Serialize
	okW, nW := true, 0
	for _, s := range eng.Sites(save) {
		if !strings.HasSuffix(s.Name(), ".SaveJoinedGroup") {
			continue
		}
		nW++
		args := s.Common().Args
		v := args[len(args)-1]
		call, isC := v.(*ssa.Call)
		if !isC || !strings.HasSuffix(eng.CallName(&call.Call), "Seckey).Serialize") {
			okW = false
		}
	}
	r.Check(okW && nW == 1, rule, "sign-key:stored-verbatim", c.Pos(save.Pos()), "the record is Seckey.Serialize() itself", "saveSignSecKey stores something other than SignSecKey.Serialize() under the sign-key record (e.g. the key with more data appended): Serialize() is a variable-length integer encoding, so the reader cannot tell where the key ends — a key with a leading zero byte (1 in 256) is read back with foreign bytes shifted in, the member's shares stop verifying and every subset that includes it recovers an invalid group signature")
	// reader: SignSecKey.Deserialize(bs) with bs the direct result of the load call
	okR, nR := true, 0
	for _, s := range eng.Sites(load) {
		if !strings.HasSuffix(s.Name(), "Seckey).Deserialize") {
			continue
		}
		nR++
		v := s.Common().Args[len(s.Common().Args)-1]
		ex, isE := v.(*ssa.Extract)
		if !isE {
			okR = false
			continue
		}
		if call, isC := ex.Tuple.(*ssa.Call); !isC || !strings.Contains(eng.CallName(&call.Call), "GetJoinedGroup") {
			okR = false
		}
	}
	r.Check(okR && nR >= 1, rule, "sign-key:read-whole", c.Pos(load.Pos()), "Deserialize is given the stored record whole", "load() hands SignSecKey.Deserialize a re-sliced or otherwise processed record instead of the bytes it read: the stored key has no fixed width, so a split at a fixed offset changes keys whose encoding is shorter")
}

// c13PieceRouting: who gets to see f_dealer(id).
func c13PieceRouting(c *eng.Ctx, r *eng.Report) {
	const rule = "R13.9"
	r.Min(rule, 2)
	for _, spec := range []struct{ fn, recv string }{
		{"(*NetworkServerImpl).SendKeySharePiece", "ReceiverId"},
		{"(*NetworkServerImpl).ResponseSharePiece", "receiver"},
	} {
		fn := c.Func("consensus/net", spec.fn)
		if !r.Anchor(fn != nil, rule, "net."+spec.fn) {
			continue
		}
		var sends []string
		ok := true
		for _, b := range fn.Blocks {
			for _, in := range b.Instrs {
				ci, isCall := in.(ssa.CallInstruction)
				if !isCall || !ci.Common().IsInvoke() || !strings.HasSuffix(eng.Desc(ci.Common().Value), ".net") {
					continue
				}
				m := ci.Common().Method.Name()
				sends = append(sends, m)
				if m != "SendToStranger" || len(ci.Common().Args) == 0 || !strings.Contains(eng.Desc(ci.Common().Args[0]), spec.recv) {
					ok = false
				}
			}
		}
		r.Check(ok && len(sends) == 1, rule, "share-piece-route:"+spec.fn, c.Pos(fn.Pos()), "one unicast SendToStranger to the receiver's id", fmt.Sprintf("%s sends the share piece with %v instead of one SendToStranger to the receiver it was evaluated for: any other member that still misses this dealer's piece keeps the first one it sees, sums a key that is not on the group polynomial, and every subset that includes it recovers an invalid group signature", spec.fn, sends))
	}
}

// c13PublishNormalised: see R13.11.
func c13PublishNormalised(c *eng.Ctx, r *eng.Report) {
	const rule = "R13.11"
	r.Min(rule, 1)
	fn := c.Func("consensus/model", "(*GroupSignGenerator).genGroupSign")
	if !r.Anchor(fn != nil, rule, "(*GroupSignGenerator).genGroupSign") {
		return
	}
	normalises := func(in ssa.Instruction) bool {
		call, ok := in.(ssa.CallInstruction)
		if !ok {
			return false
		}
		n := eng.CallName(call.Common())
		if !(strings.HasSuffix(n, ".Serialize") || strings.HasSuffix(n, ".Marshal") || strings.HasSuffix(n, ".MakeAffine") || strings.HasSuffix(n, ".GetHexString")) {
			return false
		}
		for _, a := range call.Common().Args {
			if strings.Contains(eng.Desc(a), "groupSign") {
				return true
			}
		}
		return false
	}
	n := 0
	for _, b := range fn.Blocks {
		for _, in := range b.Instrs {
			st, ok := in.(*ssa.Store)
			if !ok {
				continue
			}
			if t, f := eng.FieldOf(st.Addr); f != "groupSign" || !strings.HasSuffix(t, "GroupSignGenerator") {
				continue
			}
			n++
			leak := ""
			for _, re := range eng.Returns(fn) {
				if !eng.Reaches(st, re.Ret) {
					continue
				}
				if ok2, _ := eng.ReachAvoiding(fn, st, re, normalises); ok2 {
					leak = c.Pos(re.Ret.Pos())
				}
			}
			r.Check(leak == "", rule, "publish-normalised:genGroupSign", c.Pos(st.Pos()), "the stored signature is serialised once before genGroupSign returns", "genGroupSign stores the recovered signature and returns (at "+leak+") without serialising it once: the point is still in projective form when the write lock is released, and the first readers — SignRecovered under the read lock, GetGroupSign().Serialize() under none — each make it affine in place through the pointer all Signature copies share; overlapping readers corrupt the coordinates and the signature handed out differs from what any other threshold subset yields and fails under the group key")
		}
	}
	if n == 0 {
		r.Fail(rule, "publish-normalised:none", c.Pos(fn.Pos()), "genGroupSign no longer stores GroupSignGenerator.groupSign: the rule has lost its anchor")
	}
}

// hexCodecAgreeAs: writer and reader of BnInt's hex form agree (R13.12, R14.14).
func hexCodecAgreeAs(c *eng.Ctx, r *eng.Report, rule string) {
	r.Min(rule, 1)
	get := c.Func("consensus/groupsig", "(*BnInt).getHexString")
	set := c.Func("consensus/groupsig", "(*BnInt).setHexString")
	if !r.Anchor(get != nil && set != nil, rule, "groupsig.(*BnInt).getHexString / setHexString") {
		return
	}
	wbase, rbase := int64(-1), int64(-1)
	for _, s := range eng.Sites(get) {
		if s.Name() == "(*math/big.Int).Text" {
			if k, ok := eng.ConstInt(s.Common().Args[1]); ok {
				wbase = k
			}
		}
	}
	other := ""
	for _, s := range eng.Sites(set) {
		switch {
		case s.Name() == "(*math/big.Int).SetString":
			if _, f := eng.FieldOf(s.Common().Args[0]); f == "v" {
				if k, ok := eng.ConstInt(s.Common().Args[2]); ok {
					rbase = k
				}
			}
		case strings.Contains(s.Name(), "Hex2Bytes") || strings.Contains(s.Name(), "FromHex") || strings.Contains(s.Name(), "hex.Decode"):
			other = s.Name()
		}
	}
	if wbase < 0 {
		r.Pass(rule, "hex-codec:agree", c.Pos(get.Pos()), "getHexString does not use the minimal-digit writer big.Int.Text; nothing to compare")
		return
	}
	msg := fmt.Sprintf("getHexString writes big.Int.Text(%d) — minimal digits, leading zeros dropped — but setHexString does not read them back with big.Int.SetString(_, %d) on the same value", wbase, wbase)
	if other != "" {
		msg += " (it decodes with " + other + ", which works on whole bytes)"
	}
	r.Check(rbase == wbase && other == "", rule, "hex-codec:agree", c.Pos(set.Pos()), fmt.Sprintf("writer Text(%d), reader SetString(_, %d)", wbase, rbase), msg+": a key or id whose hex form has an odd number of digits (one in sixteen) loads as value >> 4 — a member whose sign key was provisioned as hex signs shares that fail under its public share, and threshold subsets containing it recover a different, invalid group signature")
}
