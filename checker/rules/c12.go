package rules

import (
	"fmt"
	"go/token"
	"strings"

	"golang.org/x/tools/go/ssa"

	"verif/checker/eng"
)

func init() { register("C12", c12) }

// frameEntries are the functions of vm/evm.go that open an EVM call frame.
var frameEntries = []string{"(*EVM).Call", "(*EVM).CallCode", "(*EVM).DelegateCall", "(*EVM).StaticCall", "(*EVM).create", "(*EVM).AuthCall"}

// rawSetters are the lowest-level writers of observable account state in
// storage/account; everything that changes balances, nonces, storage, code,
// self-destruct marks, logs or transient storage ends in one of them.
var rawSetters = []string{
	"(*accountObject).setData", "(*accountObject).setNonce", "(*accountObject).setNFTSetDefinition",
	"(*accountObject).markSuicided", "(*AccountDB).setTransientState", "(*AccountDB).AddLog",
}

func c12(c *eng.Ctx, r *eng.Report) {
	r.Explain = "Structural necessary conditions of C12 decided on the SSA/CFG of the current source: " +
		"R12.1 every EVM frame entry takes a state snapshot before its first state mutation and every path that returns a possibly non-nil error after the snapshot passes RevertToSnapshot (value-sensitive CFG search); " +
		"R12.2 every jump-table row whose handler can reach a raw state setter (call-graph cone cut at the nested-frame boundary run()) is write-protected (writes flag, own readOnly test, or the reviewed CALL-with-value test in Run), and the interpreter refuses `writes` rows when readOnly before execute; " +
		"R12.3 the readOnly flag is only set/reset inside Run under `readOnly && !in.readOnly`; " +
		"R12.4 AccountDB.Prepare re-initialises every per-transaction scratch field and the block executor calls it before each transaction's BeforeExecute and reads logs by the same hash; " +
		"R12.5 every raw state mutation is preceded by its journal entry on every path (C04's R4.2 re-run: RevertToSnapshot can only undo what was journaled). " +
		"R12.11 a call frame's memory is allocated for that frame: the memory bound to the frame in (*EVMInterpreter).Run is the result of NewMemory() in that call — RETURN hands out a window on the frame's memory and create() stores it as the new contract's code, so a recycled buffer lets a later frame of the transaction (even a static or a failing one) overwrite code that was deployed earlier, outside the journal; " +
		"R12.10 a creation that cannot pay the code deposit installs no code: in (*EVM).create SetCode(address, ret) is reached only across the edge on which contract.UseGas(createDataGas) answered true (this code base does not revert the frame on ErrCodeStoreOutOfGas, so code stored before the charge would stay installed and callable while CREATE reports failure); " +
		"R12.9 a creation that is refused before it has a frame changes nothing: the creator's nonce is written only inside (*EVM).create (and AuthCall's reviewed bump), there only after the call-depth test and the CanTransfer test have passed, and the wrappers Create/Create2 write no state themselves — a CREATE with an endowment above the balance, or at depth 1025, leaves the nonce and the state root as they were; " +
		"R12.7 a frame's snapshot is taken before the frame changes anything: in Call, CallCode, DelegateCall, StaticCall, AuthCall and create every call that can reach a raw state setter (value transfer, account creation — directly or through a helper) is dominated by StateDB.Snapshot(); the reviewed exceptions are the nonce bumps of create and AuthCall and create's access-list entry, which survive a failed frame by design; " +
		"R12.8 journal entries do not alias a reusable buffer: GetERC20Key returns a slice of an array allocated in that call (C06's R6.9 here: the journal keeps the key slice, so a shared buffer makes every entry of a failing frame point at the key derived last and the revert restores balances into the wrong slot); " +
		"R12.6 every journal entry's undo performs exactly its paired raw writes, each on every path, and nothing else (C04's R4.3 re-run: a failed frame leaves no trace only if the undo neither skips a restore nor edits state the entry did not record, such as the set of slots still to be flushed). " +
		"Not decided: value equality of the state before/after a failed frame."
	r.Assume = []string{
		"VTA call graph over-approximates dynamic callees (sound for reachability rules)",
		"all observable account-state mutation ends in one of the raw setters listed in rules/c12.go (re-checked by C04 R4.1 writer table)",
		"gas-refund counter and access-list warm-ups are not observable state (reverted with the frame; excluded with reason)",
	}
	c12Frames(c, r)
	c12WriteProtection(c, r)
	c12Sticky(c, r)
	c12Prepare(c, r)
	// R12.5: a failed frame is undone by the journal, so every raw state mutation must be journaled
	// (the rule is C04's R4.2, re-run here because frame isolation depends on it)
	sub := eng.NewReport(r.Prop, r.Tier)
	c04Journaled(c, sub)
	for _, o := range sub.Obls {
		o.Rule = "R12.5"
		r.Obls = append(r.Obls, o)
	}
	r.Min("R12.5", 12)
	// R12.6: …and undone exactly — each entry's undo performs its paired raw writes, all of them on every path,
	// and nothing else (C04's R4.3 under this property's id: a frame that fails leaves no trace only if the
	// undo neither skips a restore nor touches state the entry did not record, e.g. the flush set)
	c04UndoAs(c, r, "R12.6", nil, 12)
	c12SnapshotFirst(c, r)
	c12NonceAfterChecks(c, r)
	c12CodeAfterDeposit(c, r)
	c12FrameOwnsItsMemory(c, r)
	// R12.8: what the journal records must stay what it was when recorded — the key slice of a balance write is
	// the caller's own (C06's R6.9 under this property's id: a frame that moved value and fails is undone slot by slot)
	c06BalanceKeyFreshAs(c, r, "R12.8")
}

func isStateDBCall(s eng.Site, method string) bool {
	n := s.Name()
	return n == "iface:vm.StateDB."+method || n == "(*storage/account.AccountDB)."+method
}

// ---------------------------------------------------------------- R12.1

func c12Frames(c *eng.Ctx, r *eng.Report) {
	const rule = "R12.1"
	r.Min(rule, 6+6)
	for _, name := range frameEntries {
		fn := c.Func("vm", name)
		if !r.Anchor(fn != nil, rule, "vm."+name) {
			continue
		}
		key := eng.FuncName(fn)
		var snaps []eng.Site
		for _, s := range eng.Sites(fn) {
			if isStateDBCall(s, "Snapshot") {
				snaps = append(snaps, s)
			}
		}
		if len(snaps) != 1 {
			r.Fail(rule, key+":snapshot", c.Pos(fn.Pos()), fmt.Sprintf("expected exactly one StateDB.Snapshot() call in the frame entry, found %d", len(snaps)))
			continue
		}
		snap := snaps[0]
		snapVal, _ := snap.Instr.(*ssa.Call)
		// (a) every Revert uses the snapshot id taken here
		barrier := func(in ssa.Instruction) bool {
			ci, ok := in.(*ssa.Call)
			if !ok {
				return false
			}
			s := eng.Site{Fn: fn, Instr: ci}
			if !isStateDBCall(s, "RevertToSnapshot") {
				// a vm helper that reverts to its snapshot argument whenever its error argument is non-nil, handed
				// this frame's snapshot (the tail shared by the frame functions, extracted)
				if h := ci.Call.StaticCallee(); h != nil {
					if si, ei, ok := revertsWhenErr(h); ok && si < len(ci.Call.Args) && ei < len(ci.Call.Args) && ci.Call.Args[si] == ssa.Value(snapVal) {
						return true
					}
				}
				return false
			}
			args := ci.Call.Args
			return len(args) > 0 && args[len(args)-1] == ssa.Value(snapVal)
		}
		// error result index = last result
		errIdx := fn.Signature.Results().Len() - 1
		escs := eng.NonNilEscapes(fn, snap.Instr, errIdx, barrier)
		if len(escs) == 0 {
			r.Pass(rule, key+":bracket", c.Pos(snap.Pos()), "every path from Snapshot() to a return with a possibly non-nil error passes RevertToSnapshot(snapshot)")
		}
		for _, e := range escs {
			r.Fail(rule, key+":bracket:"+e.Key(), c.Pos(e.Edge.Ret.Pos()),
				fmt.Sprintf("a path from Snapshot() reaches `return …, err` with err possibly non-nil (%s) without RevertToSnapshot: blocks %v — the failed frame keeps its state changes", e.Key(), e.Path))
		}
		// (b) mutators and the nested run are dominated by the snapshot
		nMut := 0
		for _, s := range eng.Sites(fn) {
			n := s.Name()
			isMut := false
			what := ""
			switch {
			case isStateDBCall(s, "CreateAccount"), isStateDBCall(s, "SetCode"), isStateDBCall(s, "SubBalance"), isStateDBCall(s, "SetState"), isStateDBCall(s, "Suicide"):
				isMut, what = true, n
			case isStateDBCall(s, "AddBalance"):
				isMut, what = true, n
			case n == "vm.run":
				isMut, what = true, "run"
			case n == "dyn" && strings.HasSuffix(eng.Desc(s.Common().Value), ".Transfer"):
				isMut, what = true, "Context.Transfer"
			case isStateDBCall(s, "SetNonce"):
				// nonce of the *new* account inside the frame must follow the snapshot; the
				// caller's nonce bump before the snapshot is a parent-frame effect (listed).
				if !eng.Reaches(snap.Instr, s.Instr) {
					r.Info(rule, key+":pre-snapshot-nonce", c.Pos(s.Pos()), "caller-side nonce bump before the frame snapshot (parent-frame effect, survives a failed frame by design)")
					continue
				}
				isMut, what = true, n
			}
			if !isMut {
				continue
			}
			nMut++
			if !eng.Dominates(snap.Instr, s.Instr) {
				r.Fail(rule, key+":mutator-before-snapshot:"+what, c.Pos(s.Pos()), what+" is not dominated by Snapshot(): a state change made before the snapshot is not undone when the frame fails")
			}
		}
		if nMut == 0 {
			r.Fail(rule, key+":mutators", c.Pos(fn.Pos()), "no run()/mutator call recognised in frame entry (rule lost sight of the code)")
		} else {
			r.Pass(rule, key+":order", c.Pos(snap.Pos()), fmt.Sprintf("%d in-frame mutator/run call sites are all dominated by Snapshot()", nMut))
		}
	}
}

// ---------------------------------------------------------------- R12.2

// mutationCone computes the functions reachable from a handler without
// entering a nested interpreter frame or the lazy-create getters.
func mutationCone(c *eng.Ctx, h *ssa.Function) *eng.Cone {
	cut := map[string]bool{
		"vm.run": true,
		"(*storage/account.AccountDB).getAccountObject":      true,
		"(*storage/account.AccountDB).getOrNewAccountObject": true,
		"(*storage/account.AccountDB).RevertToSnapshot":      true,
	}
	big0 := func(v ssa.Value) bool {
		u, ok := v.(*ssa.UnOp)
		if !ok || u.Op != token.MUL {
			return false
		}
		g, ok := u.X.(*ssa.Global)
		return ok && (g.Name() == "big0" || g.Name() == "Big0")
	}
	return c.ConeOfX([]*ssa.Function{h},
		func(fn *ssa.Function) bool { return eng.StdBoundary(fn) && !cut[eng.FuncName(fn)] },
		func(caller *ssa.Function, site ssa.CallInstruction, callee *ssa.Function) bool {
			if site == nil {
				return false
			}
			// zero-value "touch": AddBalance(addr, big0)
			cc := site.Common()
			if strings.HasSuffix(eng.CallName(cc), ".AddBalance") && len(cc.Args) > 0 && big0(cc.Args[len(cc.Args)-1]) {
				return true
			}
			return false
		})
}

func c12WriteProtection(c *eng.Ctx, r *eng.Report) {
	const rule = "R12.2"
	rows, probs := c.JumpTable()
	for _, p := range probs {
		r.Fail(rule, "jump-table-shape", "", p)
	}
	r.Min(rule, 140)
	setters := map[*ssa.Function]bool{}
	for _, n := range rawSetters {
		f := c.Func("storage/account", n)
		if r.Anchor(f != nil, rule, "storage/account."+n) {
			setters[f] = true
		}
	}
	run := c.Func("vm", "(*EVMInterpreter).Run")
	if !r.Anchor(run != nil, rule, "vm.(*EVMInterpreter).Run") {
		return
	}
	callSpecial := c12RunGuards(c, r, run)

	coneCache := map[*ssa.Function]*eng.Cone{}
	nMut := 0
	for _, row := range rows {
		key := "row:" + row.Name
		if row.Exec == nil {
			r.Fail(rule, key, c.Pos(row.Pos), "row has no resolvable execute function")
			continue
		}
		cone := coneCache[row.Exec]
		if cone == nil {
			cone = mutationCone(c, row.Exec)
			coneCache[row.Exec] = cone
		}
		var hit *ssa.Function
		for s := range setters {
			if cone.Set[s] {
				if hit == nil || s.String() < hit.String() {
					hit = s
				}
			}
		}
		if hit == nil {
			r.Pass(rule, key, c.Pos(row.Pos), "handler "+eng.FuncName(row.Exec)+" reaches no raw state setter (cone of "+fmt.Sprint(len(cone.Set))+" functions, cut at run())")
			continue
		}
		nMut++
		path := cone.PathTo(hit)
		switch {
		case row.Flags["writes"]:
			r.Pass(rule, key, c.Pos(row.Pos), "mutating handler ("+path+") and row has writes:true")
		case handlerChecksReadOnly(row.Exec, cone, setters, row.Name == "CALL"):
			r.Pass(rule, key, c.Pos(row.Pos), "mutating handler ("+path+") returns ErrWriteProtection under interpreter.readOnly before any mutator")
		case row.Name == "CALL" && callSpecial:
			r.Pass(rule, key, c.Pos(row.Pos), "CALL: value transfer refused in Run when readOnly (op == CALL && stack.Back(2).Sign() != 0)")
		default:
			r.Fail(rule, key, c.Pos(row.Pos), "handler can mutate state ("+path+") but the row has neither writes:true nor a readOnly test: reachable inside STATICCALL")
		}
	}
	r.Extra["mutating_rows"] = nMut
	if nMut < 10 {
		r.Fail(rule, "mutating-rows", "", fmt.Sprintf("only %d mutating rows recognised (SSTORE, LOG0-4, CREATE, CREATE2, SELFDESTRUCT, CALL, TSTORE … expected)", nMut))
	}
}

// handlerChecksReadOnly: the handler returns ErrWriteProtection on the true
// edge of a load of interpreter.readOnly, and that test dominates every call
// in the handler that leads to a raw setter.
// valueTransferOnly: for CALL the refusal may be limited to calls that carry
// value (`readOnly && !value.IsZero()`), the only way a plain CALL writes.
func handlerChecksReadOnly(h *ssa.Function, cone *eng.Cone, setters map[*ssa.Function]bool, valueTransferOnly bool) bool {
	var guard *ssa.If
	for _, b := range h.Blocks {
		if len(b.Instrs) == 0 {
			continue
		}
		iff, ok := b.Instrs[len(b.Instrs)-1].(*ssa.If)
		if !ok {
			continue
		}
		if _, f := eng.FieldOf(derefLoad(iff.Cond)); f != "readOnly" {
			continue
		}
		// true successor returns ErrWriteProtection
		t := b.Succs[0]
		if ret, ok := t.Instrs[len(t.Instrs)-1].(*ssa.Return); ok && len(ret.Results) == 2 {
			if strings.Contains(eng.Desc(eng.RetValue(ret, 1)), "ErrWriteProtection") {
				guard = iff
			}
		}
		// readOnly && <the call carries value>: the refusal sits one test further down
		if guard == nil && valueTransferOnly {
			if i2, ok := t.Instrs[len(t.Instrs)-1].(*ssa.If); ok {
				d := eng.Desc(i2.Cond)
				for si, t2 := range t.Succs {
					ret, isR := t2.Instrs[len(t2.Instrs)-1].(*ssa.Return)
					if !isR || len(ret.Results) != 2 || !strings.Contains(eng.Desc(eng.RetValue(ret, 1)), "ErrWriteProtection") {
						continue
					}
					// the refusing side is the one on which the value is non-zero
					nonZero := (strings.Contains(d, ".IsZero(") && si == 1 && !strings.HasPrefix(d, "!")) || (strings.Contains(d, ".IsZero(") && si == 0 && strings.HasPrefix(d, "!")) || (strings.Contains(d, ".Sign(") && si == 0)
					if nonZero {
						guard = iff
					}
				}
			}
		}
	}
	if guard == nil {
		return false
	}
	for _, s := range eng.Sites(h) {
		if _, isCall := s.Instr.(*ssa.Call); !isCall {
			continue
		}
		n := s.Name()
		if strings.HasPrefix(n, "builtin:") {
			continue
		}
		// any non-trivial call must come after the guard unless it is a pure stack/log helper
		if !guard.Block().Dominates(s.Instr.Block()) || guard.Block() == s.Instr.Block() {
			if strings.Contains(n, "Stack") || strings.Contains(n, "middleware/log") || strings.Contains(n, "stack") || strings.Contains(n, "holiman/uint256.Int)") {
				continue
			}
			return false
		}
	}
	return true
}

func derefLoad(v ssa.Value) ssa.Value {
	if u, ok := v.(*ssa.UnOp); ok && u.Op == token.MUL {
		return u.X
	}
	return v
}

// c12RunGuards checks the interpreter side of write protection and returns
// whether the CALL-with-value special case is present.
func c12RunGuards(c *eng.Ctx, r *eng.Report, run *ssa.Function) bool {
	return c12RunGuardsAs(c, r, run, "R12.2")
}

func c12RunGuardsAs(c *eng.Ctx, r *eng.Report, run *ssa.Function, rule string) bool {
	// locate operation.execute(...) dynamic call
	var exec ssa.Instruction
	for _, s := range eng.Sites(run) {
		if s.Name() == "dyn" && strings.HasSuffix(eng.Desc(s.Common().Value), ".execute") {
			exec = s.Instr
		}
	}
	if exec == nil {
		r.Fail(rule, "Run:execute", c.Pos(run.Pos()), "operation.execute call not found in Run")
		return false
	}
	// find the ErrWriteProtection return blocks and the conditions that lead there
	writesGuard, callGuard := false, false
	for _, b := range run.Blocks {
		if len(b.Instrs) == 0 {
			continue
		}
		ret, ok := b.Instrs[len(b.Instrs)-1].(*ssa.Return)
		if !ok || len(ret.Results) != 3 || !strings.Contains(eng.Desc(eng.RetValue(ret, 2)), "ErrWriteProtection") {
			continue
		}
		for _, p := range b.Preds {
			if len(p.Instrs) == 0 {
				continue
			}
			iff, ok := p.Instrs[len(p.Instrs)-1].(*ssa.If)
			if !ok || p.Succs[0] != b {
				continue
			}
			// the test extracted into a predicate of the package: decided inside the predicate
			if call, isCall := iff.Cond.(*ssa.Call); isCall && iff.Block().Dominates(exec.Block()) {
				if h := call.Call.StaticCallee(); h != nil && h.Pkg == run.Pkg && h.Blocks != nil {
					sameRow := false
					for _, a := range call.Call.Args {
						if eng.Desc(a)+".execute" == eng.Desc(exec.(ssa.CallInstruction).Common().Value) {
							sameRow = true
						}
					}
					if sameRow && c12PredicateTrueWhen(h, true, false) {
						writesGuard = true
					}
					if c12PredicateTrueWhen(h, false, true) {
						callGuard = true
					}
					continue
				}
			}
			conds := append(eng.EdgeConds(p), eng.Cond{V: iff.Cond, True: true, If: iff})
			hasRO, hasWrites, hasCall, hasSign := false, false, false, false
			roDominates := false
			for _, cd := range conds {
				d := eng.Desc(cd.V)
				if cd.True && strings.HasSuffix(d, ".readOnly") {
					hasRO = true
					roDominates = cd.If.Block().Dominates(exec.Block())
				}
				if cd.True && strings.HasSuffix(d, ".writes") {
					hasWrites = true
				}
				if m, ok := cd.Cmp(); ok && m.Op == token.EQL {
					if k, isK := eng.ConstInt(m.Y); isK && k == 0xf1 {
						hasCall = true
					}
				}
				if m, ok := cd.Cmp(); ok && m.Op == token.NEQ && strings.Contains(eng.Desc(m.X), "Back(") && strings.Contains(eng.Desc(m.X), ".Sign(") {
					if strings.Contains(eng.Desc(m.X), ",2)") {
						hasSign = true
					}
				}
			}
			if hasRO && hasWrites && roDominates {
				writesGuard = true
			}
			if hasRO && hasCall && hasSign {
				callGuard = true
			}
		}
	}
	// the central test matters only while some row relies on its `writes` flag; a table whose mutating handlers
	// all refuse for themselves (upstream's later layout) is decided row by row in R12.2
	relies := 0
	if rows, _ := c.JumpTable(); rows != nil {
		for _, row := range rows {
			if row.Flags["writes"] {
				relies++
			}
		}
	}
	if relies == 0 && !writesGuard {
		r.Pass(rule, "Run:writes-guard", c.Pos(run.Pos()), "no jump-table row carries writes:true: write protection is decided per handler")
		return callGuard
	}
	r.Check(writesGuard, rule, "Run:writes-guard", c.Pos(run.Pos()),
		"Run returns ErrWriteProtection on in.readOnly && operation.writes, and that test dominates operation.execute",
		fmt.Sprintf("Run no longer refuses operation.writes rows under in.readOnly before operation.execute, while %d rows still rely on that flag", relies))
	return callGuard
}

// ---------------------------------------------------------------- R12.3

func c12Sticky(c *eng.Ctx, r *eng.Report) { c12StickyAs(c, r, "R12.3") }

func c12StickyAs(c *eng.Ctx, r *eng.Report, rule string) {
	r.Min(rule, 2)
	run := c.Func("vm", "(*EVMInterpreter).Run")
	if !r.Anchor(run != nil, rule, "vm.(*EVMInterpreter).Run") {
		return
	}
	okConds := func(b *ssa.BasicBlock) bool {
		hasParam, hasNotField := false, false
		for _, cd := range eng.EdgeConds(b) {
			if p, ok := cd.V.(*ssa.Parameter); ok && p.Name() == "readOnly" && cd.True {
				hasParam = true
			}
			if _, f := eng.FieldOf(derefLoad(cd.V)); f == "readOnly" && !cd.True {
				hasNotField = true
			}
		}
		return hasParam && hasNotField
	}
	for _, fn := range c.ModFuncs() {
		for _, st := range eng.FieldStores(fn, "vm.EVMInterpreter", "readOnly") {
			store := st.(*ssa.Store)
			key := eng.FuncName(fn) + ":store-readOnly"
			pos := c.Pos(store.Pos())
			isTrue := eng.Desc(store.Val) == "true"
			isFalse := eng.Desc(store.Val) == "false"
			switch {
			case fn == run && isTrue:
				r.Check(okConds(store.Block()), rule, key+"=true", pos,
					"readOnly is set only on the edge `readOnly && !in.readOnly`",
					"readOnly is set outside the `readOnly && !in.readOnly` edge")
			case fn.Parent() == run && isFalse:
				// the closure must be deferred in Run under the same condition
				ok := false
				for _, b := range run.Blocks {
					for _, in := range b.Instrs {
						if d, isD := in.(*ssa.Defer); isD {
							if mc, isMC := d.Call.Value.(*ssa.MakeClosure); isMC && mc.Fn == fn && okConds(b) {
								ok = true
							}
						}
					}
				}
				r.Check(ok, rule, key+"=false", pos,
					"readOnly is reset only by a closure deferred on the edge `readOnly && !in.readOnly` (the frame that set it)",
					"readOnly is reset by a closure that is not deferred under `readOnly && !in.readOnly`: a nested non-static call would lift the protection of an enclosing STATICCALL")
			default:
				r.Fail(rule, key, pos, "unreviewed store to EVMInterpreter.readOnly (value "+eng.Desc(store.Val)+"): the static flag must be sticky for the whole nested call tree")
			}
		}
	}
}

// ---------------------------------------------------------------- R12.4

// perTxScratch are the AccountDB fields the property names as per-transaction.
var perTxScratch = []string{"accessList", "transientStorage"}

func c12Prepare(c *eng.Ctx, r *eng.Report) {
	const rule = "R12.4"
	r.Min(rule, 4)
	prep := c.Func("storage/account", "(*AccountDB).Prepare")
	if !r.Anchor(prep != nil, rule, "storage/account.(*AccountDB).Prepare") {
		return
	}
	for _, f := range perTxScratch {
		key := "Prepare:field:" + f
		stores := eng.FieldStores(prep, "storage/account.AccountDB", f)
		fresh, conditional := false, ""
		for _, st := range stores {
			v := st.(*ssa.Store).Val
			isFresh := false
			if call, ok := v.(*ssa.Call); ok && call.Call.StaticCallee() != nil && len(call.Call.Args) == 0 {
				isFresh = true
			}
			if _, ok := v.(*ssa.MakeMap); ok {
				isFresh = true
			}
			if !isFresh {
				continue
			}
			// on every path: the store dominates every return of Prepare
			every := true
			for _, re := range eng.Returns(prep) {
				if !eng.Dominates(st, re.Ret) {
					every = false
				}
			}
			if every {
				fresh = true
			} else {
				conditional = c.Pos(st.Pos())
			}
		}
		if !fresh && conditional != "" {
			r.Fail(rule, key, conditional, "Prepare re-initialises AccountDB."+f+" only on some paths (the assignment at "+conditional+" is conditional): whatever the condition overlooks — addresses recorded without any slot, say — stays warm for the next transaction of the block, which then starts with a non-empty access list")
			continue
		}
		// the field must exist at all
		st := c.Struct("storage/account", "AccountDB")
		exists := false
		if st != nil {
			for i := 0; i < st.NumFields(); i++ {
				if st.Field(i).Name() == f {
					exists = true
				}
			}
		}
		if !r.Anchor(exists, rule, "AccountDB."+f) {
			continue
		}
		r.Check(fresh, rule, key, c.Pos(prep.Pos()),
			"Prepare assigns a freshly constructed value to AccountDB."+f,
			"Prepare does not re-initialise AccountDB."+f+": per-transaction scratch state leaks into the next transaction of the block")
	}
	// whatever Prepare assigns is a value of its own: a parameter, a constant or a fresh object — never a
	// re-slice (or alias) of what the previous transaction left in the same AccountDB
	for i, b := range prep.Blocks {
		for _, in := range b.Instrs {
			st, ok := in.(*ssa.Store)
			if !ok {
				continue
			}
			t, f := eng.FieldOf(st.Addr)
			if t != "storage/account.AccountDB" {
				continue
			}
			reuse := ""
			var walk func(v ssa.Value, d int)
			walk = func(v ssa.Value, d int) {
				if v == nil || d > 4 || reuse != "" {
					return
				}
				switch x := v.(type) {
				case *ssa.Slice:
					walk(x.X, d+1)
				case *ssa.UnOp:
					if t2, f2 := eng.FieldOf(x.X); t2 == "storage/account.AccountDB" {
						reuse = f2
					}
				case *ssa.Phi:
					for _, e := range x.Edges {
						walk(e, d+1)
					}
				}
			}
			walk(st.Val, 0)
			_ = i
			r.Check(reuse == "", rule, "Prepare:fresh-value:"+f, c.Pos(st.Pos()), "assigned from a parameter, a constant or a fresh object", "Prepare sets AccountDB."+f+" to a value derived from the previous contents of AccountDB."+reuse+" ("+eng.Desc(st.Val)+"): a truncated slice keeps its backing array, so what the previous transaction handed out (e.g. its receipt's logs) is overwritten by the next transaction")
		}
	}
	// executor side
	ex := c.Func("core", "(*VMExecutor).Execute")
	if !r.Anchor(ex != nil, rule, "core.(*VMExecutor).Execute") {
		return
	}
	var prepCall, before, getLogs []eng.Site
	for _, s := range eng.Sites(ex) {
		switch {
		case s.Static() == prep:
			prepCall = append(prepCall, s)
		case strings.HasPrefix(s.Name(), "iface:") && strings.HasSuffix(s.Name(), ".BeforeExecute"):
			before = append(before, s)
		case s.Name() == "(*storage/account.AccountDB).GetLogs":
			getLogs = append(getLogs, s)
		}
	}
	key := "core.(*VMExecutor).Execute:Prepare-before-BeforeExecute"
	if len(prepCall) == 0 || len(before) == 0 {
		r.Fail(rule, key, c.Pos(ex.Pos()), fmt.Sprintf("Prepare calls=%d BeforeExecute calls=%d in VMExecutor.Execute: each transaction must be prepared before it runs", len(prepCall), len(before)))
	} else {
		ok := true
		for _, b := range before {
			// every path from loop head to BeforeExecute passes Prepare under the Proposal013 gate:
			// Prepare's block is entered on the gate's true edge and the gate block dominates BeforeExecute.
			dom := false
			for _, p := range prepCall {
				gate := p.Instr.Block().Idom()
				if gate != nil && gate.Dominates(b.Instr.Block()) && sameLoop(p.Instr.Block(), b.Instr.Block()) {
					// hash argument is the transaction's Hash
					if strings.HasSuffix(eng.Desc(p.Common().Args[1]), ".Hash") {
						dom = true
					}
				}
			}
			ok = ok && dom
		}
		r.Check(ok, rule, key, c.Pos(prepCall[0].Pos()),
			"AccountDB.Prepare(tx.Hash, …) precedes BeforeExecute in the per-transaction loop (under the Proposal013 fork gate)",
			"BeforeExecute is reachable in the transaction loop without a preceding Prepare(tx.Hash, …)")
	}
	key = "core.(*VMExecutor).Execute:receipt-logs-by-hash"
	ok := len(getLogs) > 0
	for _, g := range getLogs {
		if !strings.HasSuffix(eng.Desc(g.Common().Args[1]), ".Hash") {
			ok = false
		}
	}
	r.Check(ok, rule, key, c.Pos(ex.Pos()),
		"receipt.Logs is read with GetLogs(transaction.Hash), the hash given to Prepare",
		"receipt logs are not read by the transaction's own hash")
}

// sameLoop: b is reachable from a without leaving through the function exit —
// approximated as "a's immediate dominator dominates b" which the caller has
// established; kept as a hook for stricter loop membership.
func sameLoop(a, b *ssa.BasicBlock) bool { return a != nil && b != nil }

// c12SnapshotFirst: what happens before Snapshot() stays when the frame fails.
func c12SnapshotFirst(c *eng.Ctx, r *eng.Report) {
	const rule = "R12.7"
	r.Min(rule, 5)
	setters := map[*ssa.Function]bool{}
	for _, n := range rawSetters {
		if f := c.Func("storage/account", n); f != nil {
			setters[f] = true
		}
	}
	// writes that deliberately precede the snapshot (they survive a failed frame by design; the code says so)
	reviewedBefore := map[string][]string{
		"(*vm.EVM).create":   {"SetNonce", "AddAddressToAccessList"}, // creator's nonce bump; EIP-2929: "even if the creation fails, the access-list change should not be rolled back"
		"(*vm.EVM).AuthCall": {"SetNonce"},                           // "authcall caller's nonce increase": replay protection of the authorisation, kept on failure
	}
	for _, name := range []string{"(*EVM).Call", "(*EVM).CallCode", "(*EVM).DelegateCall", "(*EVM).StaticCall", "(*EVM).AuthCall", "(*EVM).create"} {
		fn := c.Func("vm", name)
		if !r.Anchor(fn != nil, rule, "vm."+name) {
			continue
		}
		var snap ssa.Instruction
		for _, s := range eng.Sites(fn) {
			if s.Common().IsInvoke() && s.Common().Method.Name() == "Snapshot" {
				snap = s.Instr
			}
		}
		if snap == nil {
			r.Fail(rule, "snapshot-first:"+name, c.Pos(fn.Pos()), name+" takes no snapshot")
			continue
		}
		bad := ""
		for _, s := range eng.Sites(fn) {
			if s.Instr == snap || eng.Dominates(snap, s.Instr) {
				continue
			}
			mutates := ""
			if s.Common().IsInvoke() {
				// StateDB interface methods that write
				m := s.Common().Method.Name()
				switch m {
				case "CreateAccount", "AddBalance", "SubBalance", "SetBalance", "SetNonce", "SetCode", "SetState", "SetData", "Suicide", "AddLog", "AddRefund", "SubRefund", "SetTransientState", "AddAddressToAccessList", "AddSlotToAccessList":
					mutates = "StateDB." + m
				}
			} else if s.Common().StaticCallee() == nil {
				// a call through a function value (evm.Transfer, evm.Context.Transfer)
				if d := eng.Desc(s.Common().Value); strings.HasSuffix(d, ".Transfer") {
					mutates = d
				}
			} else if callee := s.Common().StaticCallee(); eng.InMod(callee) && strings.HasSuffix(eng.FuncPkgPath(callee), "/src/vm") {
				cone := mutationCone(c, callee)
				for st := range setters {
					if cone.Set[st] {
						mutates = eng.FuncName(callee) + " (→ " + cone.PathTo(st) + ")"
					}
				}
				// helpers that call the Transfer function value
				for _, f2 := range cone.Sorted() {
					if f2.Blocks == nil {
						continue
					}
					for _, s2 := range eng.Sites(f2) {
						if s2.Common().StaticCallee() == nil && !s2.Common().IsInvoke() && strings.HasSuffix(eng.Desc(s2.Common().Value), ".Transfer") {
							mutates = eng.FuncName(callee) + " (→ Transfer)"
						}
						if s2.Common().IsInvoke() && s2.Common().Method.Name() == "CreateAccount" {
							mutates = eng.FuncName(callee) + " (→ CreateAccount)"
						}
					}
				}
			}
			if mutates == "" {
				continue
			}
			skip := false
			for _, ex := range reviewedBefore[eng.FuncName(fn)] {
				if strings.Contains(mutates, ex) {
					skip = true
				}
			}
			if skip {
				continue
			}
			bad = mutates + " at " + c.Pos(s.Pos())
		}
		r.Check(bad == "", rule, "snapshot-first:"+name, c.Pos(fn.Pos()), "every state change of the frame set-up is dominated by Snapshot()", name+" changes state before taking the frame snapshot: "+bad+" is not dominated by StateDB.Snapshot() — when the callee fails, RevertToSnapshot rolls its writes back but not this one (the callee keeps the value it was sent, or an account created for it stays)")
	}
}

// c12NonceAfterChecks: see R12.9.
func c12NonceAfterChecks(c *eng.Ctx, r *eng.Report) {
	const rule = "R12.9"
	r.Min(rule, 3)
	allowed := map[string]string{
		"(*vm.EVM).create":   "the creator's nonce bump, after the pre-flight checks",
		"(*vm.EVM).AuthCall": "replay protection of the authorisation (reviewed in R12.7)",
	}
	isWrite := func(m string) bool {
		switch m {
		case "CreateAccount", "AddBalance", "SubBalance", "SetBalance", "SetNonce", "SetCode", "SetState", "SetData", "Suicide", "AddLog", "SetTransientState":
			return true
		}
		return false
	}
	n := 0
	for _, fn := range c.PkgFuncs("vm") {
		for _, s := range eng.Sites(fn) {
			if !s.Common().IsInvoke() || s.Common().Method.Name() != "SetNonce" || !strings.HasSuffix(s.Common().Value.Type().String(), "StateDB") {
				continue
			}
			n++
			why, ok := allowed[eng.FuncName(fn)]
			r.Check(ok, rule, "nonce-writer:"+eng.FuncName(fn), c.Pos(s.Pos()), why, eng.FuncName(fn)+" writes an account nonce outside the frame functions: a helper called before create()'s depth, balance and whitelist checks bumps the creator's nonce for a creation that is then refused without a frame — the nonce and the state root change across a failed CREATE and later CREATE addresses shift")
		}
	}
	if n == 0 {
		r.Fail(rule, "nonce-writer:none", "", "no StateDB.SetNonce call in package vm: the rule has lost its anchor")
	}
	if create := c.Func("vm", "(*EVM).create"); r.Anchor(create != nil, rule, "vm.(*EVM).create") {
		for _, s := range eng.Sites(create) {
			if !s.Common().IsInvoke() || s.Common().Method.Name() != "SetNonce" {
				continue
			}
			afterSnap := false
			for _, s2 := range eng.Sites(create) {
				if s2.Common().IsInvoke() && s2.Common().Method.Name() == "Snapshot" && eng.Dominates(s2.Instr, s.Instr) {
					afterSnap = true
				}
			}
			if afterSnap {
				continue // the new account's own nonce, inside the frame
			}
			depth, funds := false, false
			for _, cd := range eng.CondsAt(s.Instr) {
				d := eng.Desc(cd.V)
				if strings.Contains(d, ".depth") {
					depth = true
				}
				v := cd.V
				if u, isU := v.(*ssa.UnOp); isU && u.Op == token.NOT {
					v = u.X
				}
				if call, isCall := v.(*ssa.Call); isCall && strings.Contains(eng.Desc(call.Call.Value), "CanTransfer") {
					funds = true
				}
			}
			r.Check(depth && funds, rule, "nonce-after-checks:create", c.Pos(s.Pos()), "the nonce bump is dominated by the depth test and the CanTransfer test", fmt.Sprintf("create() bumps the creator's nonce before its pre-flight checks have passed (depth test in force: %v, CanTransfer test in force: %v): a creation refused for depth or insufficient balance has no frame to revert, so the bump stays", depth, funds))
		}
	}
	for _, name := range []string{"(*EVM).Create", "(*EVM).Create2"} {
		fn := c.Func("vm", name)
		if !r.Anchor(fn != nil, rule, "vm."+name) {
			continue
		}
		bad := ""
		for _, s := range eng.Sites(fn) {
			if s.Common().IsInvoke() && isWrite(s.Common().Method.Name()) {
				bad = "StateDB." + s.Common().Method.Name() + " at " + c.Pos(s.Pos())
			}
			if callee := s.Common().StaticCallee(); callee != nil && eng.InMod(callee) && strings.HasSuffix(eng.FuncPkgPath(callee), "/src/vm") && callee.Name() != "create" && callee.Blocks != nil {
				for _, s2 := range eng.Sites(callee) {
					if s2.Common().IsInvoke() && isWrite(s2.Common().Method.Name()) {
						bad = eng.FuncName(callee) + " → StateDB." + s2.Common().Method.Name() + " at " + c.Pos(s2.Pos())
					}
				}
			}
		}
		r.Check(bad == "", rule, "wrapper-writes-nothing:"+name, c.Pos(fn.Pos()), "the wrapper only derives the address and calls create", name+" changes state before create() has run its pre-flight checks ("+bad+"): a creation refused there keeps the change")
	}
}

// c12CodeAfterDeposit: see R12.10.
func c12CodeAfterDeposit(c *eng.Ctx, r *eng.Report) {
	const rule = "R12.10"
	r.Min(rule, 1)
	create := c.Func("vm", "(*EVM).create")
	if !r.Anchor(create != nil, rule, "vm.(*EVM).create") {
		return
	}
	n := 0
	for _, s := range eng.Sites(create) {
		if !s.Common().IsInvoke() || s.Common().Method.Name() != "SetCode" {
			continue
		}
		n++
		paid := false
		for _, cd := range eng.CondsAt(s.Instr) {
			if call, ok := cd.V.(*ssa.Call); ok && cd.True && strings.HasSuffix(eng.CallName(&call.Call), "Contract).UseGas") {
				paid = true
			}
		}
		r.Check(paid, rule, "create:code-after-deposit", c.Pos(s.Pos()), "SetCode only after UseGas(createDataGas) succeeded", "create() stores the returned code without the code-deposit charge having succeeded first: when the remaining gas is below the deposit the creation reports ErrCodeStoreOutOfGas, but this code base does not revert the frame for that error, so the full runtime code stays installed and callable at the address while CREATE pushed 0")
	}
	if n == 0 {
		r.Fail(rule, "create:code-after-deposit", c.Pos(create.Pos()), "create() no longer calls StateDB.SetCode: the rule has lost its anchor")
	}
}

// c12FrameOwnsItsMemory: see R12.11.
func c12FrameOwnsItsMemory(c *eng.Ctx, r *eng.Report) {
	const rule = "R12.11"
	r.Min(rule, 1)
	run := c.Func("vm", "(*EVMInterpreter).Run")
	if !r.Anchor(run != nil, rule, "vm.(*EVMInterpreter).Run") {
		return
	}
	n := 0
	for _, b := range run.Blocks {
		for _, in := range b.Instrs {
			st, ok := in.(*ssa.Store)
			if !ok {
				continue
			}
			if t, f := eng.FieldOf(st.Addr); f != "memory" || !strings.HasSuffix(t, "callCtx") {
				continue
			}
			n++
			call, isCall := eng.ResolveLocal(st.Val).(*ssa.Call)
			fresh := isCall && call.Call.StaticCallee() != nil && call.Call.StaticCallee().Name() == "NewMemory"
			r.Check(fresh, rule, "frame-memory:fresh", c.Pos(st.Pos()), "the frame's memory is NewMemory()", "Run binds "+eng.Desc(st.Val)+" as the frame's memory instead of a Memory allocated for this frame: opReturn returns a window on that memory and create() installs it as code, so the code of a contract created earlier in the transaction aliases a buffer that later frames write — a STATICCALL callee or a frame that fails afterwards changes the deployed code, and no journal entry restores it")
		}
	}
	if n == 0 {
		r.Fail(rule, "frame-memory:none", c.Pos(run.Pos()), "Run no longer stores callCtx.memory: the rule has lost its anchor")
	}
}

// revertsWhenErr: h's entry block ends in `if errParam != nil`, and the true
// successor calls RevertToSnapshot(snapParam). Returns the argument indexes
// (in call order, receiver included) of the snapshot and the error.
func revertsWhenErr(h *ssa.Function) (snapIdx, errIdx int, ok bool) {
	if h.Blocks == nil || !strings.HasSuffix(eng.FuncPkgPath(h), "/src/vm") || len(h.Blocks[0].Instrs) == 0 {
		return 0, 0, false
	}
	iff, isIf := h.Blocks[0].Instrs[len(h.Blocks[0].Instrs)-1].(*ssa.If)
	if !isIf {
		return 0, 0, false
	}
	m, isM := eng.DecodeCmp(iff.Cond)
	if !isM || (m.Op != token.NEQ && m.Op != token.EQL) {
		return 0, 0, false
	}
	errBranch := h.Blocks[0].Succs[0]
	if m.Op == token.EQL {
		errBranch = h.Blocks[0].Succs[1]
	}
	var ep *ssa.Parameter
	if p, isP := m.X.(*ssa.Parameter); isP && eng.IsNilConst(m.Y) {
		ep = p
	} else if p, isP := m.Y.(*ssa.Parameter); isP && eng.IsNilConst(m.X) {
		ep = p
	}
	if ep == nil {
		return 0, 0, false
	}
	var sp *ssa.Parameter
	for _, in := range errBranch.Instrs {
		ci, isC := in.(*ssa.Call)
		if !isC {
			continue
		}
		s := eng.Site{Fn: h, Instr: ci}
		if isStateDBCall(s, "RevertToSnapshot") {
			if p, isP := ci.Call.Args[len(ci.Call.Args)-1].(*ssa.Parameter); isP {
				sp = p
			}
		}
	}
	if sp == nil {
		return 0, 0, false
	}
	for i, p := range h.Params {
		if p == sp {
			snapIdx = i
		}
		if p == ep {
			errIdx = i
		}
	}
	return snapIdx, errIdx, true
}

// c12PredicateTrueWhen decides a boolean helper of the interpreter: on every
// path on which readOnly holds and (needWrites: the row's writes flag holds /
// needCall: the opcode is CALL) the helper returns true — or, for needCall, the
// very test "third stack item is non-zero". Paths over an edge that contradicts
// the assumption are not followed. Anything not understood answers false.
func c12PredicateTrueWhen(h *ssa.Function, needWrites, needCall bool) bool {
	contradicts := func(b *ssa.BasicBlock, succ int) bool {
		iff, ok := b.Instrs[len(b.Instrs)-1].(*ssa.If)
		if !ok {
			return false
		}
		v, taken := iff.Cond, succ == 0
		for {
			u, isU := v.(*ssa.UnOp)
			if !isU || u.Op != token.NOT {
				break
			}
			v, taken = u.X, !taken
		}
		d := eng.Desc(v)
		if strings.HasSuffix(d, ".readOnly") && !taken {
			return true
		}
		if needWrites && strings.HasSuffix(d, ".writes") && !taken {
			return true
		}
		if needCall {
			if m, isM := (eng.Cond{V: v, True: taken, If: iff}).Cmp(); isM && m.Op == token.NEQ {
				if k, isK := eng.ConstInt(m.Y); isK && k == 0xf1 {
					return true
				}
			}
		}
		return false
	}
	isValueTest := func(v ssa.Value) bool {
		m, ok := eng.DecodeCmp(v)
		return ok && needCall && m.Op == token.NEQ && strings.Contains(eng.Desc(m.X), "Back(") && strings.Contains(eng.Desc(m.X), ",2)") && strings.Contains(eng.Desc(m.X), ".Sign(")
	}
	type edge struct{ from, to *ssa.BasicBlock }
	seen := map[*ssa.BasicBlock]map[*ssa.BasicBlock]bool{}
	queue := []edge{{nil, h.Blocks[0]}}
	sawReturn := false
	for len(queue) > 0 {
		e := queue[0]
		queue = queue[1:]
		if seen[e.to] == nil {
			seen[e.to] = map[*ssa.BasicBlock]bool{}
		}
		if seen[e.to][e.from] {
			continue
		}
		seen[e.to][e.from] = true
		b := e.to
		if ret, ok := b.Instrs[len(b.Instrs)-1].(*ssa.Return); ok {
			if len(ret.Results) != 1 {
				return false
			}
			v := ret.Results[0]
			if phi, isPhi := v.(*ssa.Phi); isPhi && phi.Block() == b && e.from != nil {
				for i, p := range b.Preds {
					if p == e.from {
						v = phi.Edges[i]
					}
				}
			}
			k, isK := v.(*ssa.Const)
			if !(isK && k.Value != nil && k.Value.ExactString() == "true") && !isValueTest(v) {
				return false
			}
			sawReturn = true
			continue
		}
		for i, s := range b.Succs {
			if !contradicts(b, i) {
				queue = append(queue, edge{b, s})
			}
		}
	}
	return sawReturn
}
