package rules

import (
	"fmt"
	"go/token"
	"go/types"
	"strings"

	"golang.org/x/tools/go/ssa"

	"verif/checker/eng"
)

func init() { register("C19", c19) }

func c19(c *eng.Ctx, r *eng.Report) {
	r.Explain = "Structural invariants of the group chain store (core/groupchain.go) decided on SSA: " +
		"R19.1 save and remove are inverses key family by key family — the group record, the last-group pointer, the height index entry of exactly the added/removed group (index = count before the addition = count-1 before the removal) and the count; both update the in-memory count and last group; " +
		"R19.2 every caller of save (AddGroup today; start-up excepted) saves only under the chain lock, after the parent exists and the predecessor equals the current last group, and only for an id the store does not hold yet (groups.Has(group.Id) false on every path to save); " +
		"R19.3 start-up reloads exactly the keys save writes and height lookups use the same key derivation; " +
		"R19.4 count, lastGroup and the groups store are written only by save, remove and initGroupChain; " +
		"R19.5 every caller of remove walks from the current top downwards (remove is only correct for the last group) inside one critical section of the chain lock, with the starting height read inside it; " +
		"R19.9 a height lookup answers from the index alone: outside save, remove, the unwind loop (R19.5), the start-up load and the counter's own accessors no method of groupChain branches on the group count (chain.count, height(), Count()) — the index is what save/remove keep exact; a window clamped by a separately computed bound (height() is count-1) drops the last group whenever the requested range reaches the top of the chain; " +
		"R19.8 a removal completes or stops the process: remove() reports failure (`return false`) only on conditions over the chain's own records (a missing group or predecessor), never on the outcome of an external call — its callers walk on to the next lower group whatever it returns, so a removal that gives up half-way (an index delete that failed) is followed by removals of groups that are not last; " +
		"R19.6 no process-local cache sits in front of the group store unless remove() evicts from it. " +
		"R19.7 no write batch outlives a save unreset: every Write() on a batch kept in a struct field of package core is followed by Reset() on every path (none exists today; the rule is armed for the day save() is batched). " +
		"Not decided: a crash between the un-batched Puts of one save/remove (no intent mark exists)."
	r.Assume = []string{"groupChain methods that mutate run under chain.lock (checked for AddGroup; removeFromCommonAncestor takes it itself)"}
	save := c.Func("core", "(*groupChain).save")
	remove := c.Func("core", "(*groupChain).remove")
	if !r.Anchor(save != nil, "R19.1", "(*groupChain).save") || !r.Anchor(remove != nil, "R19.1", "(*groupChain).remove") {
		return
	}
	for name, dst := range map[string]*string{"lastGroupKey": &c19LastKey, "groupCountKey": &c19CountKey} {
		if k, ok := c.Obj("core", name).(*types.Const); ok {
			*dst = k.Val().ExactString()
		} else {
			r.Anchor(false, "R19.1", "core."+name)
		}
	}
	c19Inverse(c, r, save, remove)
	c19RemoveTopDown(c, r, remove)
	c19RemoveFailStop(c, r, remove)
	c19Caches(c, r, remove)
	c19AddGroup(c, r)
	c19Keys(c, r, save)
	c19Writers(c, r)
	batchResetAs(c, r, "R19.7", "core", 0)
	c19LookupsReadTheIndex(c, r)
}

type gcOp struct {
	method string // Put / Delete
	key    string // classified key family
	idx    int    // for height keys: index relative to the count at function entry
	val    string
	call   *ssa.Call
}

// groupOps lists Put/Delete on chain.groups in fn with classified keys.
var c19LastKey, c19CountKey string

func groupOps(fn *ssa.Function) []gcOp {
	var countStore *ssa.Store
	delta := 0
	for _, b := range fn.Blocks {
		for _, in := range b.Instrs {
			if st, ok := in.(*ssa.Store); ok {
				if t, f := eng.FieldOf(st.Addr); t == "core.groupChain" && f == "count" {
					countStore = st
					if bo, isB := st.Val.(*ssa.BinOp); isB {
						if k, isK := eng.ConstInt(bo.Y); isK && k == 1 {
							if bo.Op == token.ADD {
								delta = 1
							} else if bo.Op == token.SUB {
								delta = -1
							}
						}
					}
				}
			}
		}
	}
	var out []gcOp
	type opSite struct {
		call *ssa.Call // the Put/Delete
		at   *ssa.Call // where it happens in fn: the call itself, or fn's call of the private helper that holds it
	}
	var sites []opSite
	for _, s := range eng.Sites(fn) {
		call, ok := s.Instr.(*ssa.Call)
		if !ok {
			continue
		}
		sites = append(sites, opSite{call, call})
		// a private helper of the chain that only writes the store (no update of the in-memory count) is
		// read as if its writes stood at the call
		if h := s.Static(); h != nil && h != fn && h.Pkg == fn.Pkg && h.Blocks != nil && !token.IsExported(h.Name()) && strings.Contains(eng.FuncName(h), "groupChain).") &&
			len(eng.FieldStores(h, "core.groupChain", "count")) == 0 {
			for _, hs := range eng.Sites(h) {
				if hc, isC := hs.Instr.(*ssa.Call); isC {
					sites = append(sites, opSite{hc, call})
				}
			}
		}
	}
	for _, os := range sites {
		call, at := os.call, os.at
		if !call.Call.IsInvoke() || !strings.HasSuffix(eng.Desc(call.Call.Value), ".groups") {
			continue
		}
		m := call.Call.Method.Name()
		if m != "Put" && m != "Delete" {
			continue
		}
		kd := eng.Desc(call.Call.Args[0])
		op := gcOp{method: m, call: at}
		if len(call.Call.Args) > 1 {
			op.val = eng.Desc(call.Call.Args[1])
		}
		switch {
		case strings.Contains(kd, "generateKey("):
			op.key = "height-index"
			off := 0
			if strings.Contains(kd, ".count - 1") {
				off = -1
			} else if strings.Contains(kd, ".count + 1") {
				off = 1
			} else if !strings.Contains(kd, ".count)") {
				op.key = "height-index(?)" + kd
			}
			if countStore != nil && eng.Reaches(countStore, at) {
				off += delta
			}
			op.idx = off
		case c19LastKey != "" && strings.Contains(kd, c19LastKey):
			op.key = "last-group"
		case c19CountKey != "" && strings.Contains(kd, c19CountKey):
			op.key = "count"
			// value written must be the count *after* the in-memory update
			if countStore == nil || !eng.Reaches(countStore, at) {
				op.key = "count(stale)"
			}
		case strings.HasSuffix(kd, ".Id"):
			op.key = "record"
		default:
			op.key = "?" + kd
		}
		out = append(out, op)
	}
	return out
}

func c19Inverse(c *eng.Ctx, r *eng.Report, save, remove *ssa.Function) {
	const rule = "R19.1"
	r.Min(rule, 5)
	so, ro := groupOps(save), groupOps(remove)
	find := func(ops []gcOp, method, key string) *gcOp {
		for i := range ops {
			if ops[i].method == method && ops[i].key == key {
				return &ops[i]
			}
		}
		return nil
	}
	sig := func(ops []gcOp) string {
		var p []string
		for _, o := range ops {
			s := o.method + "(" + o.key
			if o.key == "height-index" {
				s += fmt.Sprintf("@entryCount%+d", o.idx)
			}
			p = append(p, s+")")
		}
		return strings.Join(p, ", ")
	}
	// record
	r.Check(find(so, "Put", "record") != nil && find(ro, "Delete", "record") != nil, rule, "inverse:record", c.Pos(remove.Pos()), "save puts the group under its id, remove deletes it", "group record: save ["+sig(so)+"] vs remove ["+sig(ro)+"]")
	// last pointer
	sl, rl := find(so, "Put", "last-group"), find(ro, "Put", "last-group")
	okLast := sl != nil && rl != nil && strings.HasSuffix(sl.val, "group.Id") && strings.Contains(rl.val, "getGroupById(") && strings.HasSuffix(rl.val, ".Id")
	r.Check(okLast, rule, "inverse:last-group", c.Pos(remove.Pos()), "save points last-group at the new group, remove re-points it at the predecessor", "last-group pointer is not maintained as an inverse pair: save ["+sig(so)+"] vs remove ["+sig(ro)+"]")
	// height index
	sh := find(so, "Put", "height-index")
	rh := find(ro, "Delete", "height-index")
	okH := sh != nil && rh != nil && sh.idx == 0 && rh.idx == -1
	why := "save [" + sig(so) + "] vs remove [" + sig(ro) + "]"
	if sh != nil && rh == nil {
		why = "remove does not delete the height-index entry of the removed group (" + why + "): a lookup at or above the new count still resolves"
	}
	r.Check(okH, rule, "groupChain.remove:height-index", c.Pos(remove.Pos()), "save writes index[count] before incrementing, remove deletes index[count-1] before decrementing: the entry of exactly the removed group", why)
	// no other height-index write in remove
	extra := false
	for _, o := range ro {
		if strings.HasPrefix(o.key, "height-index") && !(o.method == "Delete" && o.idx == -1) {
			extra = true
		}
	}
	r.Check(!extra, rule, "groupChain.remove:no-stray-index-write", c.Pos(remove.Pos()), "remove touches no other height-index entry", "remove writes a height-index entry other than deleting the removed group's: "+sig(ro))
	// count
	r.Check(find(so, "Put", "count") != nil && find(ro, "Put", "count") != nil, rule, "inverse:count", c.Pos(remove.Pos()), "both persist the count after updating it in memory", "persisted count is not maintained: save ["+sig(so)+"] vs remove ["+sig(ro)+"]")
	// in-memory fields
	for _, fn := range []*ssa.Function{save, remove} {
		okMem := len(eng.FieldStores(fn, "core.groupChain", "count")) == 1 && len(eng.FieldStores(fn, "core.groupChain", "lastGroup")) == 1
		r.Check(okMem, rule, "memory:"+eng.FuncName(fn), c.Pos(fn.Pos()), "in-memory count and lastGroup are updated", eng.FuncName(fn)+" does not update both the in-memory count and lastGroup")
	}
}

// c19RemoveTopDown: remove() re-points the last-group pointer at the removed
// group's predecessor and deletes index[count-1]; it is only correct for the
// current last group, so every caller must walk from the top downwards.
func c19RemoveTopDown(c *eng.Ctx, r *eng.Report, remove *ssa.Function) {
	const rule = "R19.5"
	r.Min(rule, 1)
	for i, site := range c.Callers(remove) {
		fn := site.Fn
		key := fmt.Sprintf("remove-caller:%s#%d", eng.FuncName(fn), i)
		arg := site.Common().Args[1]
		// the group comes from getGroupByHeight(h) with h a loop variable initialised from the top and decremented
		var h ssa.Value
		if call, ok := arg.(*ssa.Call); ok && strings.HasSuffix(strings.ToLower(eng.CallName(&call.Call)), ".getgroupbyheight") {
			h = call.Call.Args[1]
		}
		phi, _ := h.(*ssa.Phi)
		okInit, okStep := false, false
		// equivalent idiom: the group is re-read from chain.lastGroup before every call
		isLast := func(v ssa.Value) bool {
			u, isU := v.(*ssa.UnOp)
			return isU && u.Op == token.MUL && strings.HasSuffix(eng.Desc(u), ".lastGroup")
		}
		if u, isU := arg.(*ssa.UnOp); isU && isLast(u) && u.Block() == site.Instr.Block() {
			okInit, okStep = true, true
		}
		if gp, isP := arg.(*ssa.Phi); isP {
			all := len(gp.Edges) > 0
			for _, e := range gp.Edges {
				all = all && isLast(e)
			}
			if all {
				okInit, okStep = true, true
			}
		}
		if phi != nil {
			for _, e := range phi.Edges {
				d := eng.Desc(e)
				if bo, isB := e.(*ssa.BinOp); isB && bo.Op == token.SUB && bo.X == ssa.Value(phi) {
					if k, isK := eng.ConstInt(bo.Y); isK && k == 1 {
						okStep = true
					}
				} else if strings.Contains(d, ".height(") || strings.Contains(d, ".count - 1") {
					okInit = true
					// …and the top is sampled inside the critical section: a height read before Lock() is stale by
					// the time the walk starts if an AddGroup got in between
					if ein, isI := e.(ssa.Instruction); isI {
						locked := false
						for _, s2 := range eng.Sites(fn) {
							if (s2.Name() == "(*sync.RWMutex).Lock" || s2.Name() == "(*sync.Mutex).Lock") && strings.HasSuffix(eng.Desc(s2.Common().Args[0]), ".lock") && eng.Dominates(s2.Instr, ein) {
								locked = true
							}
						}
						r.Check(locked, rule, key+":top-sampled-under-lock", c.Pos(ein.Pos()), "the starting height is read after chain.lock was taken", eng.FuncName(fn)+" reads the top height before taking chain.lock and starts the unwinding from that stale value: an AddGroup that extends the tip in between makes the walk start one below the real top, remove() is applied to groups that are not last, and count, predecessor list and height index diverge (persisted)")
					}
				}
			}
		}
		// the whole unwinding is one critical section: the write lock is taken before the walk starts and released by a
		// deferred Unlock (or after the loop) — a lock per removed group lets an AddGroup slip in between two removals
		span := false
		for _, s2 := range eng.Sites(fn) {
			if (s2.Name() == "(*sync.RWMutex).Lock" || s2.Name() == "(*sync.Mutex).Lock") && strings.HasSuffix(eng.Desc(s2.Common().Args[0]), ".lock") {
				if eng.Dominates(s2.Instr, site.Instr) && loopHeaderOf(s2.Instr) == nil {
					span = true
				}
			}
		}
		r.Check(span, rule, key+":one-critical-section", c.Pos(site.Pos()), "chain.lock is taken once, before the walk", eng.FuncName(fn)+" does not hold chain.lock across the whole unwinding (no Lock() outside the loop dominates the remove call): an AddGroup that arrives between two removals is accepted against the momentary last group, and the next removal deletes its index entry — count, list and index diverge")
		r.Check(okInit && okStep, rule, key, c.Pos(site.Pos()), "groups are removed from the current top downwards (height starts at chain.height() and decreases by one)", eng.FuncName(fn)+" does not call remove() on the groups from the top downwards (starts at the top="+fmt.Sprint(okInit)+", steps by -1="+fmt.Sprint(okStep)+"): remove() assumes it is given the current last group, so with two or more groups to drop the wrong index entry is deleted and count, list and height index diverge")
	}
}

// c19Caches: a cache in front of the group store answers as the store does
// only if remove() evicts what it removes.
func c19Caches(c *eng.Ctx, r *eng.Report, remove *ssa.Function) {
	const rule = "R19.6"
	r.Min(rule, 1)
	evicted := map[string]bool{}
	for _, h := range eng.ScanNondeterminism(remove) {
		if h.Kind != "cache" {
			continue
		}
		if f := eng.HitCommon(h).StaticCallee(); f != nil && (f.Name() == "Remove" || f.Name() == "Purge" || f.Name() == "Delete" || f.Name() == "Del" || f.Name() == "Reset") {
			evicted[h.Recv] = true
		}
	}
	seen := map[string]bool{}
	for _, fn := range c.PkgFuncs("core") {
		if c.IsTestFunc(fn) || fn.Signature.Recv() == nil || !strings.HasSuffix(eng.ShortType(fn.Signature.Recv().Type()), "core.groupChain") {
			continue
		}
		for _, h := range eng.ScanNondeterminism(fn) {
			if h.Kind != "cache" || seen[h.Recv] {
				continue
			}
			seen[h.Recv] = true
			r.Check(evicted[h.Recv], rule, "cache:"+h.Recv, c.Pos(h.Pos), "entries are evicted by remove()", eng.FuncName(fn)+" answers from the process-local cache "+h.Recv+", but groupChain.remove evicts nothing from it: after a group is removed (fork switch) a lookup still returns the removed group, and after a different group is added at that height the height index no longer matches the list")
		}
	}
	if len(seen) == 0 {
		r.Pass(rule, "cache:none", "", "no process-local cache sits in front of the group store (every lookup reads the database)")
	}
}

func c19AddGroup(c *eng.Ctx, r *eng.Report) {
	const rule = "R19.2"
	r.Min(rule, 1)
	save := c.Func("core", "(*groupChain).save")
	if !r.Anchor(save != nil, rule, "(*groupChain).save") {
		return
	}
	n := 0
	// every path that appends a group — AddGroup today, any additional entry point tomorrow — carries the guards
	for _, site := range c.Callers(save) {
		fn := site.Fn
		if c.IsTestFunc(fn) || fn.Name() == "initGroupChain" {
			continue // start-up writes the genesis groups onto an empty store
		}
		n++
		sv, _ := site.Instr.(*ssa.Call)
		if sv == nil {
			r.Fail(rule, eng.FuncName(fn)+":save", c.Pos(site.Pos()), "save is not called directly")
			continue
		}
		okParent, okPre, okLock := false, false, false
		okNew := false
		for _, cd := range eng.CondsAt(sv) {
			if ex, isE := cd.V.(*ssa.Extract); isE && !cd.True {
				if call, isC := ex.Tuple.(*ssa.Call); isC && call.Call.IsInvoke() && call.Call.Method.Name() == "Has" && strings.HasSuffix(eng.Desc(call.Call.Args[0]), ".Id") && !strings.Contains(eng.Desc(call.Call.Args[0]), "lastGroup") {
					okNew = true
				}
			}
			if ex, isE := cd.V.(*ssa.Extract); isE && cd.True {
				if call, isC := ex.Tuple.(*ssa.Call); isC && call.Call.IsInvoke() && call.Call.Method.Name() == "Has" && strings.HasSuffix(eng.Desc(call.Call.Args[0]), ".Header.Parent") {
					okParent = true
				}
			}
			if m, isM := cd.Cmp(); isM && m.Via == "bytes.Equal" && m.Op == token.EQL {
				dd := eng.Desc(m.X) + "|" + eng.Desc(m.Y)
				if strings.Contains(dd, ".lastGroup.Id") && strings.Contains(dd, ".Header.PreGroup") {
					okPre = true
				}
			}
		}
		for _, s := range eng.Sites(fn) {
			if s.Name() == "(*sync.RWMutex).Lock" || s.Name() == "(*sync.Mutex).Lock" {
				if strings.HasSuffix(eng.Desc(s.Common().Args[0]), ".lock") && eng.Dominates(s.Instr, sv) {
					okLock = true
				}
			}
		}
		name := strings.TrimPrefix(eng.FuncName(fn), "(*core.groupChain).")
		r.Check(okNew, rule, name+":not-yet-listed", c.Pos(sv.Pos()), "save only for an id the store does not hold yet (groups.Has(group.Id) == false on every path)",
			eng.FuncName(fn)+" can save a group whose id is already stored: the test `groups.Has(group.Id)` is not in force on every path to save — a group announced again with the current last group as its predecessor is appended a second time: count and height index grow, the id record is overwritten with a new height, and the predecessor list contains the same id twice")
		r.Check(okParent && okPre && okLock, rule, name+":guards", c.Pos(sv.Pos()), "save only under chain.lock, with the parent present and PreGroup == lastGroup.Id",
			fmt.Sprintf("%s can save a group that does not extend the list (parent exists=%v, predecessor == last group=%v, under lock=%v): count and height index grow while the predecessor list does not, or two additions interleave", eng.FuncName(fn), okParent, okPre, okLock))
	}
	r.Check(n >= 1, rule, "save:callers", "", fmt.Sprintf("%d callers of save besides start-up", n), "no caller of save besides start-up (AddGroup expected)")
}

func c19Keys(c *eng.Ctx, r *eng.Report, save *ssa.Function) {
	const rule = "R19.3"
	r.Min(rule, 2)
	keysIn := func(fn *ssa.Function, method string) map[string]bool {
		out := map[string]bool{}
		for _, s := range eng.Sites(fn) {
			call, ok := s.Instr.(*ssa.Call)
			if ok && call.Call.IsInvoke() && call.Call.Method.Name() == method && strings.HasSuffix(eng.Desc(call.Call.Value), ".groups") {
				out[eng.Desc(call.Call.Args[0])] = true
			}
		}
		return out
	}
	init := c.Func("core", "initGroupChain")
	if r.Anchor(init != nil, rule, "initGroupChain") {
		written := keysIn(save, "Put")
		read := keysIn(init, "Get")
		var miss []string
		for k := range written {
			if strings.HasPrefix(k, "conv:[]byte(\"") && !read[k] {
				miss = append(miss, k)
			}
		}
		r.Check(len(miss) == 0 && len(read) >= 2, rule, "init:reloads-save-keys", c.Pos(init.Pos()), "start-up reads the constant keys save writes (last group, count)", "initGroupChain does not reload key(s) "+strings.Join(miss, ", ")+" that save writes")
	}
	g := c.Func("core", "(*groupChain).getGroupByHeight")
	if r.Anchor(g != nil, rule, "getGroupByHeight") {
		ok := false
		for k := range keysIn(g, "Get") {
			if strings.Contains(k, "core.generateKey(height)") {
				ok = true
			}
		}
		r.Check(ok, rule, "getGroupByHeight:key", c.Pos(g.Pos()), "height lookups derive the key with generateKey(height), as save does", "getGroupByHeight no longer uses generateKey(height)")
	}
}

func c19Writers(c *eng.Ctx, r *eng.Report) {
	const rule = "R19.4"
	r.Min(rule, 3)
	allowed := map[string]bool{"(*core.groupChain).save": true, "(*core.groupChain).remove": true, "core.initGroupChain": true}
	for _, fn := range c.PkgFuncs("core") {
		name := eng.FuncName(fn)
		n := len(eng.FieldStores(fn, "core.groupChain", "count")) + len(eng.FieldStores(fn, "core.groupChain", "lastGroup")) + len(eng.FieldStores(fn, "core.groupChain", "groups"))
		for _, s := range eng.Sites(fn) {
			if call, ok := s.Instr.(*ssa.Call); ok && call.Call.IsInvoke() && strings.HasSuffix(eng.Desc(call.Call.Value), ".groups") {
				if m := call.Call.Method.Name(); m == "Put" || m == "Delete" {
					if strings.HasSuffix(eng.ShortType(call.Call.Value.Type()), "db.Database") {
						n++
					}
				}
			}
		}
		if n == 0 {
			continue
		}
		okW := allowed[name]
		if !okW && !token.IsExported(fn.Name()) {
			// a private helper all of whose callers are reviewed writers is part of them (R19.1 reads its writes at the call)
			callers := c.Callers(fn)
			okW = len(callers) > 0
			for _, cs := range callers {
				if !allowed[eng.FuncName(cs.Fn)] {
					okW = false
				}
			}
		}
		r.Check(okW, rule, "writer:"+name, c.Pos(fn.Pos()), "reviewed writer of the group store / count / last group", name+" writes the group store, the count or the last-group pointer outside save/remove/init: the list and its index can diverge")
	}
}

// batchResetAs: a write batch that outlives the function using it (it is
// loaded from a struct field) replays whatever it still holds with the next
// Write(). Every Write() on such a batch is followed, on every path to a
// return, by Reset() on the same batch.
func batchResetAs(c *eng.Ctx, r *eng.Report, rule, pkg string, min int) {
	n := 0
	for _, fn := range c.PkgFuncs(pkg) {
		if c.IsTestFunc(fn) {
			continue
		}
		i := 0
		for _, s := range eng.Sites(fn) {
			call, ok := s.Instr.(*ssa.Call)
			if !ok || !call.Call.IsInvoke() || call.Call.Method.Name() != "Write" || !strings.HasSuffix(call.Call.Value.Type().String(), "db.Batch") {
				continue
			}
			ld, isLoad := call.Call.Value.(*ssa.UnOp)
			if !isLoad {
				continue // a batch made in this function dies with it
			}
			if _, isField := ld.X.(*ssa.FieldAddr); !isField {
				continue
			}
			n++
			which := eng.Desc(call.Call.Value)
			isReset := func(in ssa.Instruction) bool {
				c2, ok := in.(*ssa.Call)
				return ok && c2.Call.IsInvoke() && c2.Call.Method.Name() == "Reset" && eng.Desc(c2.Call.Value) == which
			}
			leak := ""
			for _, re := range eng.Returns(fn) {
				if reach, _ := eng.ReachAvoiding(fn, call, re, isReset); reach {
					leak = c.Pos(re.Ret.Pos())
				}
			}
			key := fmt.Sprintf("batch-reset:%s#%d", eng.FuncName(fn), i)
			i++
			r.Check(leak == "", rule, key, c.Pos(call.Pos()), which+".Write() is followed by Reset() on every path", eng.FuncName(fn)+" writes the long-lived batch "+which+" and can return (at "+leak+") without resetting it: the next Write() replays everything written since start-up — harmless while entries are only added, but after a removal it puts the removed records and index entries back")
		}
	}
	if n < min {
		r.Fail(rule, "batch-reset:sites", "", fmt.Sprintf("only %d Write() calls on long-lived batches found in %s (%d expected)", n, pkg, min))
	} else {
		r.Pass(rule, "batch-reset:sites", "", fmt.Sprintf("%d Write() calls on long-lived batches in %s", n, pkg))
	}
}

// c19RemoveFailStop: the unwind loops ignore remove()'s result.
func c19RemoveFailStop(c *eng.Ctx, r *eng.Report, remove *ssa.Function) {
	const rule = "R19.8"
	r.Min(rule, 1)
	bad := ""
	n := 0
	for _, re := range eng.Returns(remove) {
		if eng.RetClass(re.Ret, 0, re.Pred) != "false" {
			continue
		}
		n++
		blk := re.Ret.Block()
		if re.Pred != nil {
			blk = re.Pred
		}
		for _, cd := range eng.EdgeConds(blk) {
			// does the condition rest on a call outside package core?
			var walk func(v ssa.Value, d int) string
			seen := map[ssa.Value]bool{}
			walk = func(v ssa.Value, d int) string {
				if v == nil || d > 6 || seen[v] {
					return ""
				}
				seen[v] = true
				if call, ok := v.(*ssa.Call); ok {
					if f := call.Call.StaticCallee(); f != nil && eng.InMod(f) && !strings.HasSuffix(eng.FuncPkgPath(f), "/src/core") {
						return eng.FuncName(f)
					}
				}
				if in, ok := v.(ssa.Instruction); ok {
					var ops []*ssa.Value
					for _, o := range in.Operands(ops) {
						if *o != nil {
							if w := walk(*o, d+1); w != "" {
								return w
							}
						}
					}
				}
				return ""
			}
			if w := walk(cd.V, 0); w != "" {
				bad = "returns false at " + c.Pos(re.Ret.Pos()) + " depending on " + w
			}
		}
	}
	// callers that do test the result make the rule moot
	allTest := true
	for _, site := range c.Callers(remove) {
		if v, isV := site.Instr.(ssa.Value); !isV || v.Referrers() == nil || len(*v.Referrers()) == 0 {
			allTest = false
		}
	}
	r.Check(bad == "" || allTest, rule, "remove:fail-stop", c.Pos(remove.Pos()), fmt.Sprintf("%d failing exits, all on the chain's own records", n), "groupChain.remove "+bad+" while its callers ignore the result and go on removing lower groups: after one removal that gave up, remove() — correct only for the last group — is applied to groups that are not last; count, predecessor list and height index diverge and the damage is persisted")
}

// c19LookupsReadTheIndex: see R19.9.
func c19LookupsReadTheIndex(c *eng.Ctx, r *eng.Report) {
	const rule = "R19.9"
	r.Min(rule, 1)
	allowed := map[string]bool{"save": true, "remove": true, "Count": true, "height": true, "refreshCache": true, "init": true, "removeFromCommonAncestor": true /* the unwind loop itself starts at height(): decided by R19.5 */}
	derivesFromCount := func(v ssa.Value) bool {
		seen := map[ssa.Value]bool{}
		var walk func(v ssa.Value, d int) bool
		walk = func(v ssa.Value, d int) bool {
			if v == nil || d > 8 || seen[v] {
				return false
			}
			seen[v] = true
			if u, ok := v.(*ssa.UnOp); ok && u.Op == token.MUL {
				if t, f := eng.FieldOf(u.X); f == "count" && strings.HasSuffix(t, "groupChain") {
					return true
				}
			}
			if call, ok := v.(*ssa.Call); ok {
				n := eng.CallName(&call.Call)
				if strings.HasSuffix(n, "groupChain).height") || strings.HasSuffix(n, "groupChain).Count") {
					return true
				}
				return false
			}
			if in, ok := v.(ssa.Instruction); ok {
				var ops []*ssa.Value
				for _, o := range in.Operands(ops) {
					if *o != nil && walk(*o, d+1) {
						return true
					}
				}
			}
			return false
		}
		return walk(v, 0)
	}
	n, hits := 0, 0
	for _, fn := range c.PkgFuncs("core") {
		if fn.Signature.Recv() == nil || !strings.HasSuffix(fn.Signature.Recv().Type().String(), "core.groupChain") {
			continue
		}
		n++
		for _, b := range fn.Blocks {
			iff, ok := b.Instrs[len(b.Instrs)-1].(*ssa.If)
			if !ok || !derivesFromCount(iff.Cond) {
				continue
			}
			if allowed[fn.Name()] {
				continue
			}
			hits++
			r.Fail(rule, "lookup-branches-on-count:"+eng.FuncName(fn), c.Pos(iff.Cond.Pos()), eng.FuncName(fn)+" branches on the group count ("+eng.Desc(iff.Cond)+"): a lookup bounded by a count-derived limit instead of by what the height index holds is off by one as soon as the two spellings of the top (count, height() = count-1) are mixed — the last group of the chain is missing from every window that reaches it, after additions, after a fork switch and after restart")
		}
	}
	if hits == 0 {
		r.Pass(rule, "lookup-branches-on-count:none", "", fmt.Sprintf("%d groupChain methods; only save/remove/start-up/Count/height consult the counter", n))
	}
}
